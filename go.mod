module verif

go 1.23

require github.com/safing/portbase v0.0.0

replace github.com/safing/portbase => /repo
