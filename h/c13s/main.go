// C13, schedule clause: concurrently handled database-API requests, cancels and writes (engine S on packages api and database).
package main

import (
	"github.com/safing/portbase/api"

	"verif/slib"
	"verif/vlib"
)

func main() {
	vlib.Main("C13", "model_checking", func(c *vlib.Ctx) {
		c.Rule("engine S part: 2-4 database-API messages (query, sub, qsub, create, update, insert, delete, get, cancel, repeated cancel) handed to the real DatabaseAPI.Handle, each handled on its own goroutine, on the source-instrumented api, database, record, iterator and hashmap packages; all interleavings within the deviation bound, both default schedulers; reply streams judged per operation ID")
		q := "query tdb:a/"
		type S struct {
			m []string
			q []bool
		}
		scripts := []S{
			{m: []string{"1|qsub|" + q, `2|create|tdb:a/2|J{"V":2}`}},
			{m: []string{"1|qsub|" + q, `2|create|tdb:a/2|J{"V":2}`, "1|cancel"}, q: []bool{false, true}},
			{m: []string{"1|sub|" + q, `2|create|tdb:a/2|J{"V":2}`}, q: []bool{true}},
			{m: []string{"1|sub|" + q, `2|create|tdb:a/2|J{"V":2}`, "1|cancel"}, q: []bool{true}},
			{m: []string{"1|sub|" + q, `2|update|tdb:a/1|J{"V":3}`, "3|delete|tdb:a/1", "1|cancel"}, q: []bool{true}},
			{m: []string{"1|query|" + q, "1|cancel"}},
			{m: []string{"1|query|" + q, `2|create|tdb:a/2|J{"V":2}`, "3|get|tdb:a/2"}},
			{m: []string{"1|qsub|" + q, "2|sub|" + q, `3|create|tdb:a/2|J{"V":2}`}, q: []bool{false, true}},
			{m: []string{"1|sub|" + q, "1|cancel"}, q: []bool{true}},
			{m: []string{"1|qsub|" + q, "1|cancel"}, q: []bool{true}},
			// two cancels for one subscription (the second may be handled while the first is still ending it)
			{m: []string{"1|sub|" + q, "1|cancel", "1|cancel"}, q: []bool{true}},
			{m: []string{"1|qsub|" + q, "1|cancel", "1|cancel"}, q: []bool{true}},
			// writes to a record that a running query is about to deliver (hashmap hands out the stored object itself)
			{m: []string{"1|query|" + q, "2|delete|tdb:a/1"}},
			{m: []string{"1|query|" + q, `2|update|tdb:a/1|J{"V":3}`, "3|delete|tdb:a/1"}},
			{m: []string{"1|qsub|" + q, "2|delete|tdb:a/1", "1|cancel"}, q: []bool{false, true}},
			{m: []string{"1|query|" + q, `2|insert|tdb:a/1|J{"V":4}`, "3|get|tdb:a/1"}},
			// the cancel is sent right behind the request (it may overtake it: each message is handled on its own goroutine)
			{m: []string{"1|sub|" + q, "1|cancel"}},
			{m: []string{"1|qsub|" + q, "1|cancel"}},
		}
		var scns []*slib.Scn
		b := vlib.Pick(c, 3, 5)
		for _, s := range scripts {
			p := api.C13SParams{Msgs: s.m, Quiesce: s.q}
			for _, hf := range []bool{false, true} {
				sc := api.VerifC13S(p)
				sc.HighFirst = hf
				if hf {
					sc.Name += "/sched=high"
				}
				scns = append(scns, &slib.Scn{Scenario: sc, Family: "c13s", Bound: b})
			}
		}
		slib.Run(c, scns, slib.Opts{})
	})
}
