//go:build verif

package api

import (
	"fmt"
	"os"
	"strings"

	"github.com/safing/portbase/database"
	_ "github.com/safing/portbase/database/storage/hashmap" // storage backend
	"github.com/safing/portbase/zzverif/vsched"
)

// C13SParams: messages handed to DatabaseAPI.Handle one after the other (each is handled on its own goroutine, so they run concurrently).
type C13SParams struct {
	Msgs    []string
	Quiesce []bool // Quiesce[i]: wait until the system is idle after message i (requests before it are fully processed)
}

func (p C13SParams) Name() string {
	var ms []string
	for i, m := range p.Msgs {
		if i < len(p.Quiesce) && p.Quiesce[i] {
			m += " ;idle"
		}
		ms = append(ms, m)
	}
	return "c13s/" + strings.Join(ms, " >> ")
}

type c13state struct {
	replies []string
	seqAt   []int // number of replies seen when message i was handed over
	issues  []vsched.Issue
}

var c13s *c13state
var c13dir string

func c13fail(clause, disc, format string, a ...interface{}) {
	for _, is := range c13s.issues {
		if is.Clause == clause && is.Disc == disc {
			return
		}
	}
	c13s.issues = append(c13s.issues, vsched.Issue{Clause: clause, Disc: disc, Detail: fmt.Sprintf(format, a...)})
}

// VerifC13S builds the scenario.
func VerifC13S(p C13SParams) *vsched.Scenario {
	sc := &vsched.Scenario{Name: p.Name(), MaxSteps: 80000}
	sc.Reset = func() {
		database.VerifReset()
		c13s = &c13state{}
		if c13dir == "" {
			d, err := os.MkdirTemp("", "verif-c13s-")
			if err != nil {
				panic(err)
			}
			c13dir = d
		}
	}
	sc.Body = func() {
		s := c13s
		if err := database.InitializeWithPath(c13dir); err != nil {
			c13fail("harness", "init", "%v", err)
			return
		}
		if _, err := database.Register(&database.Database{Name: "tdb", Description: "c13", StorageType: "hashmap"}); err != nil {
			c13fail("harness", "register", "%v", err)
			return
		}
		dbapi := CreateDatabaseAPI(func(data []byte) {
			s.replies = append(s.replies, string(data))
			vsched.Emit("reply:" + c13short(string(data)))
		})
		// seed one record through the API itself
		dbapi.Handle([]byte(`0|create|tdb:a/1|J{"V":1}`))
		vsched.Quiesce()
		if len(s.replies) != 1 || s.replies[0] != "0|success" {
			c13fail("harness", "seed", "seeding failed: %v", s.replies)
			return
		}
		vsched.Explore(true)
		for i, m := range p.Msgs {
			vsched.Point("client-sends")
			s.seqAt = append(s.seqAt, len(s.replies))
			vsched.Emit("send:" + m)
			dbapi.Handle([]byte(m))
			if i < len(p.Quiesce) && p.Quiesce[i] {
				vsched.Quiesce()
			}
		}
		vsched.Quiesce()
		vsched.Explore(false)
		// end every subscription that is still open and was not cancelled by the script, then judge
		for _, m := range p.Msgs {
			parts := strings.SplitN(m, "|", 3)
			if len(parts) == 3 && (parts[1] == "sub" || parts[1] == "qsub") && !c13has(p.Msgs, parts[0]+"|cancel") && !c13ended(s.replies, parts[0], parts[1] == "qsub") {
				dbapi.Handle([]byte(parts[0] + "|cancel"))
				vsched.Quiesce()
			}
		}
		c13judge(p, s)
	}
	sc.Check = func(r *vsched.Result) []vsched.Issue {
		var out []vsched.Issue
		if c13s != nil {
			out = append(out, c13s.issues...)
		}
		if r.Panic != "" {
			out = append(out, vsched.Issue{Clause: "no-message-crashes-the-process", Disc: r.PanicThread, Detail: r.Panic})
		}
		if r.Deadlock {
			out = append(out, vsched.Issue{Clause: "no-message-wedges-the-process", Disc: "deadlock", Detail: "blocked: " + strings.Join(r.Blocked, " | ")})
		}
		return out
	}
	return sc
}

func c13short(r string) string {
	parts := strings.SplitN(r, "|", 4)
	if len(parts) > 3 {
		parts = parts[:3]
	}
	return strings.Join(parts, "|")
}

func c13has(msgs []string, m string) bool {
	for _, x := range msgs {
		if x == m {
			return true
		}
	}
	return false
}

// c13ended: the subscription phase of op has ended (a qsub sends a first done for its query phase).
func c13ended(replies []string, op string, qsub bool) bool {
	dones := 0
	first := ""
	for _, r := range replies {
		if strings.HasPrefix(r, op+"|") && first == "" {
			first = r
		}
		if strings.HasPrefix(r, op+"|done") {
			dones++
		}
	}
	if strings.HasPrefix(first, op+"|error") {
		return true
	}
	if qsub {
		return dones >= 2
	}
	return dones >= 1
}

func c13judge(p C13SParams, s *c13state) {
	desc := func() string {
		var rs []string
		for _, r := range s.replies[1:] {
			rs = append(rs, c13short(r))
		}
		return fmt.Sprintf("messages: %v\nreplies: %v", p.Msgs, rs)
	}
	// group replies by operation ID
	byOp := map[string][]string{}
	for _, r := range s.replies[1:] {
		parts := strings.SplitN(r, "|", 3)
		if len(parts) < 2 {
			c13fail("reply-format", "malformed", "malformed reply %q\n%s", r, desc())
			continue
		}
		if parts[1] == "error" && len(parts) == 3 && strings.HasPrefix(parts[2], "could not find subscription") && c13has(p.Msgs, parts[0]+"|cancel") {
			// the answer to a cancel request that found nothing to cancel (the statement does not define cancel's own reply)
			continue
		}
		byOp[parts[0]] = append(byOp[parts[0]], parts[1])
	}
	cmdOf := map[string]string{}
	cancelled := map[string]bool{}
	for _, m := range p.Msgs {
		parts := strings.SplitN(m, "|", 3)
		if len(parts) == 2 && parts[1] == "cancel" {
			cancelled[parts[0]] = true
			continue
		}
		cmdOf[parts[0]] = parts[1]
	}
	for op := range byOp {
		if _, ok := cmdOf[op]; !ok {
			c13fail("replies-carry-the-request-id", "foreign-opid", "a reply carries operation ID %q, which no request used\n%s", op, desc())
		}
	}
	for op, cmd := range cmdOf {
		rs := byOp[op]
		seq := strings.Join(rs, ",")
		switch cmd {
		case "get":
			if len(rs) != 1 || (rs[0] != "ok" && rs[0] != "error") {
				c13fail("get-protocol", c13class(rs), "get %s was answered with [%s]\n%s", op, seq, desc())
			}
		case "create", "update", "insert", "delete":
			if len(rs) != 1 || (rs[0] != "success" && rs[0] != "error") {
				c13fail("write-protocol", cmd+"/"+c13class(rs), "%s %s was answered with [%s]\n%s", cmd, op, seq, desc())
			}
		case "query":
			c13stream(op, rs, true, false, false, desc)
		case "sub":
			c13stream(op, rs, false, true, true, desc)
		case "qsub":
			c13stream(op, rs, true, true, true, desc)
		}
	}
	// a matching record created while a qsub runs is in the query replies or is notified (never lost)
	for _, m := range p.Msgs {
		parts := strings.SplitN(m, "|", 4)
		if len(parts) == 4 && parts[1] == "create" && strings.HasPrefix(parts[2], "tdb:a/") {
			ok := false
			for _, r := range s.replies {
				if r == parts[0]+"|success" {
					ok = true
				}
			}
			if !ok {
				continue
			}
			for op, cmd := range cmdOf {
				if cmd != "qsub" && cmd != "sub" {
					continue
				}
				// the subscription request must have been handed over before the write request
				subIdx, wrIdx := -1, -1
				for i, mm := range p.Msgs {
					if strings.HasPrefix(mm, op+"|"+cmd) {
						subIdx = i
					}
					if mm == m {
						wrIdx = i
					}
				}
				if cmd == "sub" && !(subIdx < wrIdx && subIdx < len(p.Quiesce) && c13quiescedBetween(p, subIdx, wrIdx)) {
					continue // a plain sub only covers writes made after it is established
				}
				if cmd == "qsub" && subIdx > wrIdx {
					continue
				}
				if ci := c13index(p.Msgs, op+"|cancel"); ci >= 0 {
					// only writes that were completed before the client sent the cancel are covered
					done := false
					for k, r := range s.replies {
						if r == parts[0]+"|success" && k < s.seqAt[ci] {
							done = true
						}
					}
					if !done {
						continue
					}
				}
				seen := false
				for _, r := range s.replies {
					if strings.HasPrefix(r, op+"|ok|"+parts[2]) || strings.HasPrefix(r, op+"|new|"+parts[2]) || strings.HasPrefix(r, op+"|upd|"+parts[2]) {
						seen = true
					}
				}
				errored := len(byOp[op]) > 0 && byOp[op][0] == "error"
				if !seen && !errored {
					c13fail("matching-change-is-reported", cmd+"/lost", "%s was created successfully while %s %s was active, but appears neither in its query replies nor in its notifications\n%s", parts[2], cmd, op, desc())
				}
			}
		}
	}
	_ = cancelled
}

func c13index(msgs []string, m string) int {
	for i, x := range msgs {
		if x == m {
			return i
		}
	}
	return -1
}

func c13quiescedBetween(p C13SParams, from, to int) bool {
	for i := from; i < to; i++ {
		if i < len(p.Quiesce) && p.Quiesce[i] {
			return true
		}
	}
	return false
}

func c13class(rs []string) string {
	switch {
	case len(rs) == 0:
		return "no-reply"
	case len(rs) > 1:
		return "several-replies"
	}
	return "wrong-reply"
}

// c13stream checks (ok|warning)* (done|error) for the query phase and (upd|new|del|warning)* done for the subscription phase.
// Every subscription is cancelled before judging, so its stream must end with exactly one done.
func c13stream(op string, rs []string, queryPhase, subPhase, mustEnd bool, desc func() string) {
	i := 0
	kind := "query"
	if subPhase && !queryPhase {
		kind = "sub"
	} else if subPhase {
		kind = "qsub"
	}
	if len(rs) == 1 && rs[0] == "error" {
		return
	}
	if queryPhase {
		for i < len(rs) && (rs[i] == "ok" || rs[i] == "warning") {
			i++
		}
		if i >= len(rs) || (rs[i] != "done" && rs[i] != "error") {
			c13fail(kind+"-protocol", "query-phase-not-terminated", "%s %s: query replies [%s] are not terminated by exactly one done or error\n%s", kind, op, strings.Join(rs, ","), desc())
			return
		}
		if rs[i] == "error" {
			if i != len(rs)-1 {
				c13fail(kind+"-protocol", "replies-after-error", "%s %s: replies after the terminal error: [%s]\n%s", kind, op, strings.Join(rs, ","), desc())
			}
			return
		}
		i++
	}
	if !subPhase {
		if i != len(rs) {
			c13fail(kind+"-protocol", "replies-after-terminal", "%s %s: replies after done: [%s]\n%s", kind, op, strings.Join(rs, ","), desc())
		}
		return
	}
	for i < len(rs) && (rs[i] == "upd" || rs[i] == "new" || rs[i] == "del" || rs[i] == "warning") {
		i++
	}
	if i >= len(rs) {
		c13fail(kind+"-protocol", "no-done-after-cancel", "%s %s was cancelled but never answered with done: [%s]\n%s", kind, op, strings.Join(rs, ","), desc())
		return
	}
	if rs[i] != "done" {
		c13fail(kind+"-protocol", "unexpected-"+rs[i], "%s %s: unexpected %q in the subscription replies [%s]\n%s", kind, op, rs[i], strings.Join(rs, ","), desc())
		return
	}
	if i != len(rs)-1 {
		c13fail(kind+"-protocol", "replies-after-done", "%s %s: replies after done: [%s]\n%s", kind, op, strings.Join(rs, ","), desc())
	}
}
