#!/bin/bash
set -e
cd /verif
mkdir -p bin
[ -x bin/instr ] || (cd instr && go build -o /verif/bin/instr .)
rm -rf build/c13s.ov && mkdir -p build/c13s.ov
bin/instr -out build/c13s.ov -sealed log,modules -full database/record,database/iterator,database/storage/hashmap,database,api -harness h/c13s/overlay
go build -tags verif -overlay build/c13s.ov/overlay.json -o "$1" ./h/c13s
