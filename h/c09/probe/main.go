package main

import (
	"fmt"
	"unicode/utf8"

	"github.com/safing/portbase/formats/dsd"
)

type T struct {
	S string
}

func main() {
	var cands []string
	for r := rune(0); r < 0x3100; r++ {
		if !utf8.ValidRune(r) { continue }
		cands = append(cands, string(r), "a"+string(r)+"b", string(r)+"a", "a"+string(r))
	}
	cands = append(cands, "a\n\n", "\na", "a\n", "\n", "\n\n", "- a", "? x", "a #b", "key: v", "'", "\"", "%", "@", "`", "!!str", "&a", "*a", "|", ">", "0x1f", "1e3", ".inf", "1_000", "0o7", "y", "no", "2001-01-01", "<<", "=", "null", "Null", "~", "", " a", "a ", "a: ", "[a", "{a", "a\tb", "\ta", "a\r\nb", "---", "...", "--- a", "a\n---\nb", "a\n...\n", "012", "1:20", "-", "?", ":", ",", "a,b", "\U0001F600", "\U0010FFFF", "￾", "￿", "", "퟿", "�")
	for _, f := range []uint8{dsd.JSON, dsd.CBOR, dsd.MsgPack, dsd.YAML} {
		nerr, nbad := 0, 0
		for _, s := range cands {
			b, err := dsd.Dump(&T{s}, f)
			if err != nil {
				nerr++
				if nerr < 40 { fmt.Printf("%d dump err %q (%U): %v\n", f, s, []rune(s), err) }
				continue
			}
			var o T
			_, err2 := dsd.Load(b, &o)
			if err2 != nil || o.S != s {
				nbad++
				if nbad < 60 { fmt.Printf("%d BAD %q -> %q err=%v bytes=%q\n", f, s, o.S, err2, b) }
			}
		}
		fmt.Println(f, "dumpErrs", nerr, "bad", nbad, "of", len(cands))
	}
}
