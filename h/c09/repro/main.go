// Reproduction of the C09 findings F1-F5 against the real dsd code, without the
// harness: cd /verif && go run ./h/c09/repro        (F1-F4)
//
//	cd /verif && go run ./h/c09/repro f5     (F5: kills the process on the unchanged tree)
//
// (expected output on the unchanged tree is given in the comments; the
// descriptions and proposed patches are in ../proposed_fixes/*.diff)
package main

import (
	"fmt"
	"net/http/httptest"
	"os"

	"github.com/safing/portbase/formats/dsd"
)

type T struct{ S string }

func main() {
	if len(os.Args) > 1 && os.Args[1] == "f5" {
		// F5: 'M' + MsgPack map32 header claiming 2^32-1 entries, loaded into an interface{}.
		var v interface{}
		f, err := dsd.Load([]byte{0x4d, 0xdf, 0xff, 0xff, 0xff, 0xff}, &v)
		fmt.Printf("F5 format=%d err=%v\n", f, err)
		// unchanged: runtime: out of memory: cannot allocate 310311387136-byte block; fatal error: out of memory
		// (on a machine that grants the mapping the call returns an EOF error after reserving ~290 GiB)
		return
	}
	// F1: Dump(v, AUTO) prefixes identifier 0, which Load rejects.
	b, _ := dsd.Dump(&T{"a"}, dsd.AUTO)
	var t1 T
	f, err := dsd.Load(b, &t1)
	fmt.Printf("F1 blob=%q -> format=%d err=%v\n", b, f, err)
	// unchanged: blob="\x00{\"S\":\"a\"}" -> format=0 err=dsd: format is incompatible with operation

	// F2: MimeDump returns an empty mime type, DumpToHTTPResponse an empty Content-Type.
	data, mime, format, err := dsd.MimeDump(&T{"a"}, "application/cbor")
	fmt.Printf("F2 MimeDump: data=%x mime=%q format=%d err=%v\n", data, mime, format, err)
	// unchanged: mime=""
	req := httptest.NewRequest("GET", "http://x/", nil)
	_, _ = dsd.RequestHTTPResponseFormat(req, dsd.CBOR)
	rec := httptest.NewRecorder()
	_ = dsd.DumpToHTTPResponse(rec, req, &T{"a"})
	resp := rec.Result()
	var t2 T
	f, err = dsd.LoadFromHTTPResponse(resp, &t2)
	fmt.Printf("F2 Content-Type=%q -> format=%d err=%v\n", resp.Header.Get("Content-Type"), f, err)
	// unchanged: Content-Type="" -> format=74 err=dsd: failed to unpack json: invalid character ...

	// F3: RAW dumps cannot be loaded back when empty or compressed.
	b, _ = dsd.Dump([]byte{}, dsd.RAW)
	var raw []byte
	f, err = dsd.Load(b, &raw)
	fmt.Printf("F3 empty RAW blob=%x -> format=%d err=%v\n", b, f, err)
	// unchanged: blob=01 -> format=0 err=unexpected EOF
	b, _ = dsd.DumpAndCompress([]byte{1, 2, 3}, dsd.RAW, dsd.GZIP)
	f, err = dsd.Load(b, &raw)
	fmt.Printf("F3 compressed RAW -> format=%d err=%v raw=%v\n", f, err, raw)
	// unchanged: format=1 err=dsd: given data is in raw format raw=[]   (payload unreachable)

	// F4: YAML turns U+0085 (NEL) inside a string into a space, silently.
	b, _ = dsd.Dump(&T{"a\u0085b"}, dsd.YAML)
	var t4 T
	f, err = dsd.Load(b, &t4)
	fmt.Printf("F4 blob=%q -> format=%d err=%v S=%q\n", b, f, err, t4.S)
	// unchanged: blob="YS: a b\n" -> format=89 err=<nil> S="a b"
}
