// C09: DSD dump/load round-trips in every format, compressed or over HTTP.
// Engine Q, depth-1 case: bounded-exhaustive enumeration of
//
//	(value of the harness schema) x (format) x (dump path / compression)
//	(Accept / Content-Type header from the media-type grammar) x (value)
//	(byte string) x (load target)
//
// on the real dsd code. The reference model is deliberately boring: the value
// that was dumped (semantic equality), the format id that was asked for (AUTO
// = the documented default), a table of the four registered media types, a
// recogniser for "this Accept header names a supported type or a wildcard",
// and the codec libraries called directly to decide whether a body really is
// in the encoding its Content-Type names.
package main

import (
	"bytes"
	"compress/gzip"
	"encoding/hex"
	"encoding/json"
	"errors"
	"fmt"
	"io"
	"math"
	"net/http"
	"net/http/httptest"
	"os"
	"os/exec"
	"reflect"
	"sort"
	"strings"
	"sync"
	"sync/atomic"
	"syscall"
	"testing/iotest"
	"time"

	"github.com/fxamacker/cbor/v2"
	"github.com/ghodss/yaml"
	"github.com/vmihailenco/msgpack/v5"

	"github.com/safing/portbase/formats/dsd"

	"verif/vlib"
)

// ---------------------------------------------------------------- formats

type fm struct {
	id   uint8
	name string
}

var allFormats = []fm{
	{dsd.JSON, "JSON"}, {dsd.CBOR, "CBOR"}, {dsd.MsgPack, "MsgPack"}, {dsd.YAML, "YAML"},
	{dsd.GenCode, "GenCode"}, {dsd.RAW, "RAW"}, {dsd.AUTO, "AUTO"},
}

func fmtName(id uint8) string {
	for _, f := range allFormats {
		if f.id == id {
			return f.name
		}
	}
	if id == dsd.GZIP {
		return "GZIP"
	}
	return fmt.Sprintf("id%d", id)
}

func fmtByName(n string) (fm, bool) {
	for _, f := range allFormats {
		if f.name == n {
			return f, true
		}
	}
	return fm{}, false
}

// reference table of the registered media types (documented in http.go).
var refMimeToFormat = map[string]uint8{
	"application/json":    dsd.JSON,
	"application/cbor":    dsd.CBOR,
	"application/msgpack": dsd.MsgPack,
	"application/yaml":    dsd.YAML,
}

var refFormatToMime = map[uint8]string{
	dsd.JSON:    "application/json",
	dsd.CBOR:    "application/cbor",
	dsd.MsgPack: "application/msgpack",
	dsd.YAML:    "application/yaml",
}

var mimeFormats = []fm{{dsd.JSON, "JSON"}, {dsd.CBOR, "CBOR"}, {dsd.MsgPack, "MsgPack"}, {dsd.YAML, "YAML"}}

// refEncode / refDecode call the codec libraries directly (no dsd involved).
func refEncode(f uint8, v any) ([]byte, error) {
	switch f {
	case dsd.JSON:
		return json.Marshal(v)
	case dsd.CBOR:
		return cbor.Marshal(v)
	case dsd.MsgPack:
		return msgpack.Marshal(v)
	case dsd.YAML:
		return yaml.Marshal(v)
	}
	return nil, errors.New("no reference encoder")
}

func refDecode(f uint8, data []byte, t any) error {
	switch f {
	case dsd.JSON:
		return json.Unmarshal(data, t)
	case dsd.CBOR:
		return cbor.Unmarshal(data, t)
	case dsd.MsgPack:
		return msgpack.Unmarshal(data, t)
	case dsd.YAML:
		return yaml.Unmarshal(data, t)
	}
	return errors.New("no reference decoder")
}

// ---------------------------------------------------------------- value schema

// Inner is the nested struct of the harness schema.
type Inner struct {
	N int16
	T string
}

// Val is the harness schema for JSON / CBOR / MsgPack / YAML / AUTO.
type Val struct {
	I   int
	I8  int8
	I16 int16
	I32 int32
	I64 int64
	U   uint
	U8  uint8
	U16 uint16
	U32 uint32
	U64 uint64
	S   string
	Sp  *string
	B   []byte
	Sa  []string
	M   map[string]string
	MI  map[string]int64
	In  Inner
	Ip  *Inner
}

type field struct {
	name   string
	alpha  []any // non-default values, asserted
	beyond []any // values outside the interoperable range: executed, outcome recorded, nothing asserted
}

type schema struct {
	name   string
	fields []field
	zero   func() any // value to dump (pointer to struct)
	isGen  bool
}

const interop = int64(1)<<53 - 1 // largest integer every format/peer represents exactly

func sp(s string) *string { return &s }
func bp(b byte) *byte     { return &b }
func bytes300() []byte {
	b := make([]byte, 300)
	for i := range b {
		b[i] = byte(i * 7)
	}
	return b
}

// strings: ASCII, non-ASCII, JSON-escaped, YAML-significant (look like other
// scalars, indicators, every YAML line-break character: LF, CR, NEL, LS).
// (new entries are appended so that indexes in stored witnesses stay valid)
var strAlpha = []any{"a", "é日本", "true", "12", " x ", "a\nb: c\n", "\x00 <&>\"\\\r", "- #\u0085",
	"\u0085\u0085", "a\u0085b\u0085c", "\u0085x\u0085\u0085"}

// large repetitive values: they compress far better than 100:1.
func repBytes(n int, b byte) []byte { return bytes.Repeat([]byte{b}, n) }
func repString(n int) string        { return strings.Repeat("ab", n/2) }
func repList(n int) []string {
	l := make([]string, n)
	for i := range l {
		l[i] = "item"
	}
	return l
}

var (
	bigBytes  = []any{repBytes(4<<10, 0x00), repBytes(64<<10, 0x41), repBytes(1<<20, 0xff)}
	bigString = []any{repString(4 << 10), repString(64 << 10), repString(1 << 20)}
	bigList   = []any{repList(1 << 10), repList(16 << 10), repList(128 << 10)}
)

// bigOf: large values per schema and field. They are asserted like alphabet
// entries but enumerated alone (not in combinations); their alphabet index
// follows the beyond entries. Entries from bigThoroughOnly on: thorough tier only.
var bigOf = map[string]map[string][]any{
	"val": {"S": bigString, "B": bigBytes, "Sa": bigList},
	"gen": {"S": bigString, "Ba": bigBytes, "Sa": bigList},
}

const bigThoroughOnly = 2

var valSchema = &schema{
	name: "val",
	zero: func() any { return &Val{} },
	fields: []field{
		{"I", []any{int(1), int(-1), int(-interop), int(interop)}, []any{int(math.MinInt64), int(math.MaxInt64)}},
		{"I8", []any{int8(1), int8(-1), int8(math.MinInt8), int8(math.MaxInt8)}, nil},
		{"I16", []any{int16(1), int16(-1), int16(math.MinInt16), int16(math.MaxInt16)}, nil},
		{"I32", []any{int32(1), int32(-1), int32(math.MinInt32), int32(math.MaxInt32)}, nil},
		{"I64", []any{int64(1), int64(-1), -interop, interop}, []any{int64(math.MinInt64), int64(math.MaxInt64)}},
		{"U", []any{uint(1), uint(interop)}, []any{uint(math.MaxUint64)}},
		{"U8", []any{uint8(1), uint8(math.MaxUint8)}, nil},
		{"U16", []any{uint16(1), uint16(math.MaxUint16)}, nil},
		{"U32", []any{uint32(1), uint32(math.MaxUint32)}, nil},
		{"U64", []any{uint64(1), uint64(interop)}, []any{uint64(math.MaxUint64)}},
		{"S", strAlpha, nil},
		{"Sp", []any{sp(""), sp("ü"), sp("\u0085")}, nil},
		{"B", []any{[]byte{}, []byte{0}, []byte{0xff, 0x00, 0x80}, bytes300()}, nil},
		{"Sa", []any{[]string{}, []string{""}, []string{"a", "ö"}, []string{"\u0085", "x\u0085"}}, nil},
		{"M", []any{map[string]string{}, map[string]string{"": ""}, map[string]string{"k": "v", "ключ": "значение"}, map[string]string{"k\u0085": "\u0085v"}}, nil},
		{"MI", []any{map[string]int64{}, map[string]int64{"a": -1}, map[string]int64{"a": -1, "b": interop}}, nil},
		{"In", []any{Inner{N: -1}, Inner{T: "ñ"}, Inner{N: math.MaxInt16, T: "x"}, Inner{T: "\u0085"}}, nil},
		{"Ip", []any{&Inner{}, &Inner{N: 1, T: "é"}}, nil},
	},
}

var genSchema = &schema{
	name:  "gen",
	zero:  func() any { return &GenCodeTestStruct{} },
	isGen: true,
	fields: []field{
		{"I8", []any{int8(1), int8(-1), int8(math.MinInt8), int8(math.MaxInt8)}, nil},
		{"I16", []any{int16(1), int16(-1), int16(math.MinInt16), int16(math.MaxInt16)}, nil},
		{"I32", []any{int32(1), int32(-1), int32(math.MinInt32), int32(math.MaxInt32)}, nil},
		{"I64", []any{int64(1), int64(-1), -interop, interop}, []any{int64(math.MinInt64), int64(math.MaxInt64)}},
		{"UI8", []any{uint8(1), uint8(math.MaxUint8)}, nil},
		{"UI16", []any{uint16(1), uint16(math.MaxUint16)}, nil},
		{"UI32", []any{uint32(1), uint32(math.MaxUint32)}, nil},
		{"UI64", []any{uint64(1), uint64(interop)}, []any{uint64(math.MaxUint64)}},
		{"S", strAlpha, nil},
		{"Sp", []any{sp(""), sp("ü"), sp("\u0085")}, nil},
		{"Sa", []any{[]string{}, []string{""}, []string{"a", "ö"}, []string{"\u0085", "x\u0085"}}, nil},
		{"Sap", []any{&[]string{}, &[]string{"x", "я"}, &[]string{"\u0085"}}, nil},
		{"B", []any{byte(1), byte(0xff)}, nil},
		{"Bp", []any{bp(0), bp(200)}, nil},
		{"Ba", []any{[]byte{}, []byte{0}, []byte{0xff, 0x00, 0x80}, bytes300()}, nil},
		{"Bap", []any{&[]byte{}, &[]byte{1, 2}}, nil},
	},
}

// top-level (non-struct) values of the schema's leaf and collection types.
var tops = []any{
	"", "a", "é日本\n",
	int64(0), int64(-1), interop, uint8(255),
	[]string(nil), []string{"a", ""},
	map[string]string(nil), map[string]string{"k": "v", "é": ""},
	Inner{N: -2, T: "ß"},
	[]byte(nil), []byte{}, []byte{0}, []byte{1, 2, 3, 0xff, 0x80, 0x00}, bytes300(), []byte("J{}"),
	// appended: several NELs; large repetitive values (index 21.. ; the 1 MiB ones are thorough only)
	"x\u0085y\u0085", []string{"\u0085", "\u0085\u0085"}, map[string]string{"\u0085": "\u0085"},
	repBytes(4<<10, 0x00), repBytes(64<<10, 0x41), repString(64 << 10), repList(16 << 10),
	repBytes(1<<20, 0xff), repString(1 << 20), repList(128 << 10),
}

// topsThoroughOnly: first index of the top-level values that only the thorough tier enumerates.
const topsThoroughOnly = 25

var topSchema = &schema{name: "top"}

var schemas = map[string]*schema{"val": valSchema, "gen": genSchema, "top": topSchema}

// ValRef identifies one value of the schema: the zero struct with the listed
// (field index, alphabet index) settings; for "top" the index into tops.
// Shape is the capacity shape of every non-nil []byte inside the value:
// 0 = cap == len, 1 = built by append (cap > len, spare capacity behind it),
// 2 = a window into a larger buffer with live bytes before and behind it.
type ValRef struct {
	Schema string   `json:"schema"`
	Set    [][2]int `json:"set,omitempty"`
	Shape  int      `json:"shape,omitempty"`
}

var shapeNames = []string{"cap==len", "append(cap>len)", "window-into-larger-buffer"}

// guard is the whole backing array of one shaped byte slice and its pristine copy.
type guard struct {
	buf, orig []byte
}

const windowPad = 8

// shapedBytes returns a copy of b in the given capacity shape.
func shapedBytes(b []byte, shape int, guards *[]guard) []byte {
	if b == nil {
		return nil
	}
	var out, backing []byte
	switch shape {
	case 1:
		out = append(make([]byte, 0, len(b)+windowPad), b...)
		backing = out[:cap(out)]
	case 2:
		backing = make([]byte, len(b)+2*windowPad)
		for i := range backing {
			backing[i] = 0xa5 ^ byte(i)
		}
		copy(backing[windowPad:], b)
		out = backing[windowPad : windowPad+len(b)]
	default:
		out = make([]byte, len(b))
		copy(out, b)
		backing = out
	}
	if guards != nil {
		*guards = append(*guards, guard{backing, append([]byte{}, backing...)})
	}
	return out
}

// shapeCopy is a deep copy in which every []byte gets the capacity shape.
// The alphabets themselves are never handed to the implementation.
func shapeCopy(x reflect.Value, shape int, guards *[]guard) reflect.Value {
	switch x.Kind() {
	case reflect.Ptr:
		if x.IsNil() {
			return x
		}
		n := reflect.New(x.Type().Elem())
		n.Elem().Set(shapeCopy(x.Elem(), shape, guards))
		return n
	case reflect.Slice:
		if x.IsNil() {
			return x
		}
		if x.Type().Elem().Kind() == reflect.Uint8 {
			return reflect.ValueOf(shapedBytes(x.Bytes(), shape, guards)).Convert(x.Type())
		}
		n := reflect.MakeSlice(x.Type(), x.Len(), x.Len())
		for i := 0; i < x.Len(); i++ {
			n.Index(i).Set(shapeCopy(x.Index(i), shape, guards))
		}
		return n
	case reflect.Map:
		if x.IsNil() {
			return x
		}
		n := reflect.MakeMapWithSize(x.Type(), x.Len())
		it := x.MapRange()
		for it.Next() {
			n.SetMapIndex(it.Key(), shapeCopy(it.Value(), shape, guards))
		}
		return n
	case reflect.Struct:
		n := reflect.New(x.Type()).Elem()
		for i := 0; i < x.NumField(); i++ {
			n.Field(i).Set(shapeCopy(x.Field(i), shape, guards))
		}
		return n
	default:
		return x
	}
}

// build constructs a fresh copy of the value. assert=false if a beyond-range entry is used.
func build(r ValRef) (v any, sc *schema, assert bool, err error) {
	v, sc, assert, _, err = buildG(r)
	return
}

// pristine constructs an independent copy (cap == len) that the implementation never sees.
func pristine(r ValRef) any {
	r.Shape = 0
	v, _, _, _, _ := buildG(r)
	return v
}

// buildG is build plus the guards of the shaped byte slices.
func buildG(r ValRef) (v any, sc *schema, assert bool, guards []guard, err error) {
	sc = schemas[r.Schema]
	if sc == nil {
		return nil, nil, false, nil, fmt.Errorf("unknown schema %q", r.Schema)
	}
	if r.Shape < 0 || r.Shape >= len(shapeNames) {
		return nil, nil, false, nil, errors.New("bad shape")
	}
	if sc == topSchema {
		if len(r.Set) != 1 || r.Set[0][0] < 0 || r.Set[0][0] >= len(tops) {
			return nil, nil, false, nil, errors.New("bad top reference")
		}
		return shapeCopy(reflect.ValueOf(tops[r.Set[0][0]]), r.Shape, &guards).Interface(), sc, true, guards, nil
	}
	v = sc.zero()
	assert = true
	e := reflect.ValueOf(v).Elem()
	for _, s := range r.Set {
		if s[0] < 0 || s[0] >= len(sc.fields) {
			return nil, nil, false, nil, errors.New("bad field index")
		}
		f := sc.fields[s[0]]
		var x any
		switch {
		case s[1] >= 0 && s[1] < len(f.alpha):
			x = f.alpha[s[1]]
		case s[1] >= len(f.alpha) && s[1] < len(f.alpha)+len(f.beyond):
			x = f.beyond[s[1]-len(f.alpha)]
			assert = false
		case s[1] >= len(f.alpha)+len(f.beyond) && s[1] < len(f.alpha)+len(f.beyond)+len(bigOf[sc.name][f.name]):
			x = bigOf[sc.name][f.name][s[1]-len(f.alpha)-len(f.beyond)]
		default:
			return nil, nil, false, nil, errors.New("bad alphabet index")
		}
		e.FieldByName(f.name).Set(shapeCopy(reflect.ValueOf(x), r.Shape, &guards))
	}
	return v, sc, assert, guards, nil
}

// hasBytes: does the value contain a non-nil byte slice (so that capacity shapes matter)?
func hasBytes(r ValRef) bool {
	sc := schemas[r.Schema]
	if sc == topSchema {
		b, ok := tops[r.Set[0][0]].([]byte)
		return ok && b != nil
	}
	for _, s := range r.Set {
		switch sc.fields[s[0]].name {
		case "B":
			if sc == valSchema {
				return true
			}
		case "Ba", "Bap":
			return true
		}
	}
	return false
}

// diffSame compares two values of the same form (both as handed to Dump).
func diffSame(a, b any, sc *schema) (kind, where string) {
	x, y := reflect.ValueOf(a), reflect.ValueOf(b)
	if sc != topSchema {
		x, y = x.Elem(), y.Elem()
	}
	return diffValue(x, y, "")
}

// hasMultiKeyMap: encoders that do not sort map keys (MsgPack, CBOR) may emit
// such a value in different byte orders; blob equality is then not required.
func hasMultiKeyMap(x reflect.Value) bool {
	switch x.Kind() {
	case reflect.Ptr, reflect.Interface:
		return !x.IsNil() && hasMultiKeyMap(x.Elem())
	case reflect.Map:
		return x.Len() > 1
	case reflect.Struct:
		for i := 0; i < x.NumField(); i++ {
			if hasMultiKeyMap(x.Field(i)) {
				return true
			}
		}
	}
	return false
}

func firstDiff(a, b []byte) int {
	for i := range a {
		if i >= len(b) || a[i] != b[i] {
			return i
		}
	}
	return len(a)
}

// checkArg: clause dump-does-not-modify-its-argument. v is the value that was
// handed to the dump function, pv the pristine copy taken before.
func (h *H) checkArg(site, how string, w Witness, v, pv any, sc *schema, guards []guard) bool {
	w.Path = how
	if k, where := diffSame(pv, v, sc); k != "" {
		h.c.Violate("dump-does-not-modify-its-argument", site, "argument-changed("+k+")",
			fmt.Sprintf("%s changed the caller's value at %s (byte slices in shape %s): before %s, after %s", how, where, shapeNames[w.Value.Shape], valueJSON(pv), valueJSON(v)), w)
		return false
	}
	for _, g := range guards {
		if !bytes.Equal(g.buf, g.orig) {
			h.c.Violate("dump-does-not-modify-its-argument", site, "bytes-behind-argument-changed",
				fmt.Sprintf("%s wrote into the caller's buffer outside the byte slice it was given (shape %s): backing array of %d bytes, first difference at offset %d; before %s, after %s", how, shapeNames[w.Value.Shape], len(g.orig), firstDiff(g.orig, g.buf), short(g.orig), short(g.buf)), w)
			return false
		}
	}
	return true
}

// fresh returns a new load target for a value of the same type as v.
func fresh(v any, sc *schema) any {
	if sc == topSchema {
		return reflect.New(reflect.TypeOf(v)).Interface()
	}
	return sc.zero()
}

// semDiff compares the dumped value with the loaded one. Equality is the
// semantic one: nil and empty slices/maps are the same value (several formats
// have one representation for both); everything else must match exactly,
// including nil-ness of pointers. It returns "" or the kind of the first
// difference and where it is.
func semDiff(v any, target any, sc *schema) (kind, where string) {
	a := reflect.ValueOf(v)
	if sc != topSchema {
		a = a.Elem()
	}
	return diffValue(a, reflect.ValueOf(target).Elem(), "")
}

func diffValue(a, b reflect.Value, path string) (string, string) {
	switch a.Kind() {
	case reflect.Ptr:
		if a.IsNil() != b.IsNil() {
			return "pointer-nilness", path
		}
		if a.IsNil() {
			return "", ""
		}
		return diffValue(a.Elem(), b.Elem(), path)
	case reflect.Slice:
		if a.Len() != b.Len() {
			return a.Type().String() + "-length", path
		}
		if a.Type().Elem().Kind() == reflect.Uint8 {
			if !bytes.Equal(a.Bytes(), b.Bytes()) {
				return "[]byte", path
			}
			return "", ""
		}
		for i := 0; i < a.Len(); i++ {
			if k, w := diffValue(a.Index(i), b.Index(i), fmt.Sprintf("%s[%d]", path, i)); k != "" {
				return k, w
			}
		}
		return "", ""
	case reflect.Map:
		if a.Len() != b.Len() {
			return "map-length", path
		}
		keys := a.MapKeys()
		sort.Slice(keys, func(i, j int) bool { return keys[i].String() < keys[j].String() })
		for _, k := range keys {
			bv := b.MapIndex(k)
			if !bv.IsValid() {
				return "map-key", fmt.Sprintf("%s[%q]", path, k.String())
			}
			if kk, w := diffValue(a.MapIndex(k), bv, fmt.Sprintf("%s[%q]", path, k.String())); kk != "" {
				return kk, w
			}
		}
		return "", ""
	case reflect.Struct:
		for i := 0; i < a.NumField(); i++ {
			if k, w := diffValue(a.Field(i), b.Field(i), path+"."+a.Type().Field(i).Name); k != "" {
				return k, w
			}
		}
		return "", ""
	default:
		if a.Interface() != b.Interface() {
			return a.Kind().String(), path
		}
		return "", ""
	}
}

func representable(v any, sc *schema, f uint8) bool {
	switch f {
	case dsd.GenCode:
		return sc.isGen
	case dsd.RAW:
		_, ok := v.([]byte)
		return ok
	}
	return true
}

// enumSets lists all settings of at most k fields (all value combinations of
// the asserted alphabets), smallest first.
func enumSets(sc *schema, k int) [][][2]int {
	out := [][][2]int{nil}
	var rec func(start int, cur [][2]int, left int)
	rec = func(start int, cur [][2]int, left int) {
		if left == 0 {
			out = append(out, append([][2]int{}, cur...))
			return
		}
		for f := start; f < len(sc.fields); f++ {
			for a := range sc.fields[f].alpha {
				rec(f+1, append(cur, [2]int{f, a}), left-1)
			}
		}
	}
	for size := 1; size <= k; size++ {
		rec(0, nil, size)
	}
	return out
}

// richSet sets every field to its alphabet entry 1 (maps there have a single
// key, so that the encoded bytes do not depend on map iteration order).
func richSet(sc *schema) [][2]int {
	var s [][2]int
	for i, f := range sc.fields {
		a := 1
		if a >= len(f.alpha) {
			a = 0
		}
		s = append(s, [2]int{i, a})
	}
	return s
}

// robustGen is a GenCodeCompatible load target whose own code is total
// (bounds-checked), so that a panic seen through dsd.Load belongs to dsd.
type robustGen struct {
	N uint16
	T string
}

func (r *robustGen) GenCodeMarshal(buf []byte) ([]byte, error) {
	if len(r.T) > 255 {
		return nil, errors.New("robustGen: string too long")
	}
	out := append(buf[:0], byte(r.N), byte(r.N>>8), byte(len(r.T)))
	return append(out, r.T...), nil
}

func (r *robustGen) GenCodeUnmarshal(buf []byte) (uint64, error) {
	if len(buf) < 3 || len(buf) < 3+int(buf[2]) {
		return 0, errors.New("robustGen: short input")
	}
	r.N = uint16(buf[0]) | uint16(buf[1])<<8
	r.T = string(buf[3 : 3+int(buf[2])])
	return uint64(3 + int(buf[2])), nil
}

// ---------------------------------------------------------------- harness state

// Witness is what a replay needs.
type Witness struct {
	Kind      string  `json:"kind"` // roundtrip | http | accept | ctype | bytes
	Value     *ValRef `json:"value,omitempty"`
	ValueJSON string  `json:"value_json,omitempty"` // information only
	Format    string  `json:"format,omitempty"`
	Path      string  `json:"path,omitempty"` // information only
	Header    string  `json:"header,omitempty"`
	Hex       string  `json:"input_hex,omitempty"`
	Target    string  `json:"target,omitempty"`
}

type tally struct {
	states, trans, evals, nontriv int64
	out                           map[string]int64
}

func newTally() *tally { return &tally{out: map[string]int64{}} }

type H struct {
	c     *vlib.Ctx
	start time.Time
	def   uint8 // the documented default serialization format
	mu    sync.Mutex
}

func (h *H) merge(t *tally) {
	h.mu.Lock()
	defer h.mu.Unlock()
	h.c.Add(t.states, t.trans, t.evals)
	h.c.NontrivialN(t.nontriv)
	for k, v := range t.out {
		h.c.OutcomeN(k, v)
	}
}

func valueJSON(v any) string {
	b, err := json.Marshal(v)
	if err != nil {
		return fmt.Sprintf("%+v", v)
	}
	if len(b) > 700 {
		b = append(b[:700], "..."...)
	}
	return string(b)
}

func short(b []byte) string {
	if len(b) > 96 {
		return fmt.Sprintf("%x...(%d bytes)", b[:96], len(b))
	}
	return fmt.Sprintf("%x", b)
}

// ---------------------------------------------------------------- clause 1: dump -> load

// checkLoaded applies the round-trip oracle to one load call.
// rawPayload: for an uncompressed RAW dump the bytes behind the format id
// (the documented way to get at raw data), nil if the caller has no access.
func (h *H) checkLoaded(site, how string, w Witness, v any, sc *schema, want uint8, blob []byte, rawPayload []byte, rawReachable bool,
	load func(t any) (uint8, error), t *tally) string {
	target := fresh(v, sc)
	var got uint8
	var err error
	t.trans++
	p, stack := vlib.Catch(func() { got, err = load(target) })
	w.Path = how
	if p != nil {
		h.c.Violate("never-panics", site, vlib.PanicSite(stack), fmt.Sprintf("%s panicked: %v; value %s; blob %s", how, p, w.ValueJSON, short(blob)), w)
		return "panic"
	}
	if want == dsd.RAW {
		raw, _ := v.([]byte)
		switch {
		case err == nil:
			if got != dsd.RAW {
				h.c.Violate("reports-format", site, "wrong-format", fmt.Sprintf("%s reported format %s, dumped as RAW; blob %s", how, fmtName(got), short(blob)), w)
				return "wrong-format"
			}
			if k, where := semDiff(v, target, sc); k != "" {
				h.c.Violate("roundtrip-value", site, "wrong-value("+k+")", fmt.Sprintf("%s: loaded raw bytes differ at %s; value %s", how, where, w.ValueJSON), w)
				return "wrong-value"
			}
			return "ok-raw-loaded"
		case errors.Is(err, dsd.ErrIsRaw):
			if got != dsd.RAW {
				h.c.Violate("reports-format", site, "wrong-format", fmt.Sprintf("%s reported format %s with ErrIsRaw, dumped as RAW", how, fmtName(got)), w)
				return "wrong-format"
			}
			if !rawReachable {
				h.c.Violate("roundtrip-value", site, "raw-payload-unreachable",
					fmt.Sprintf("%s of %d raw bytes answers (RAW, ErrIsRaw) and hands out nothing: the decompressed payload is not reachable through any dsd function, the dumped value cannot be loaded", how, len(raw)), w)
				return "raw-unreachable"
			}
			if !bytes.Equal(rawPayload, raw) {
				h.c.Violate("roundtrip-value", site, "wrong-value([]byte)", fmt.Sprintf("%s: bytes behind the RAW id are %s, dumped %s", how, short(rawPayload), short(raw)), w)
				return "wrong-value"
			}
			return "ok-raw-signalled"
		default:
			h.c.Violate("roundtrip-load", site, "error-instead-of-raw", fmt.Sprintf("%s of a RAW dump of %d bytes = (%s, %v), expected format RAW (value or ErrIsRaw); blob %s", how, len(raw), fmtName(got), err, short(blob)), w)
			return "error"
		}
	}
	if err != nil {
		h.c.Violate("roundtrip-load", site, "error-instead-of-ok", fmt.Sprintf("%s = (%s, %v); value %s; blob %s", how, fmtName(got), err, w.ValueJSON, short(blob)), w)
		return "error"
	}
	if got != want {
		h.c.Violate("reports-format", site, "wrong-format", fmt.Sprintf("%s reported format %s, dumped as %s; blob %s", how, fmtName(got), fmtName(want), short(blob)), w)
		return "wrong-format"
	}
	if k, where := semDiff(v, target, sc); k != "" {
		h.c.Violate("roundtrip-value", site, "wrong-value("+k+")", fmt.Sprintf("%s: loaded value differs at %s: dumped %s, loaded %s; blob %s", how, where, w.ValueJSON, valueJSON(target), short(blob)), w)
		return "wrong-value"
	}
	return "ok"
}

// dumpLoad runs every dump path of one (value, format) pair through Load.
func (h *H) dumpLoad(r ValRef, f fm, t *tally) {
	pv, sc, assert, err := build(ValRef{r.Schema, r.Set, 0}) // pristine copy, never handed to a dump function
	if err != nil {
		h.c.EngineError("build %v: %v", r, err)
		return
	}
	w := Witness{Kind: "roundtrip", Value: &r, ValueJSON: valueJSON(pv), Format: f.name}
	rep := representable(pv, sc, f.id)
	want := f.id
	if want == dsd.AUTO {
		want = h.def
	}
	deterministic := !hasMultiKeyMap(reflect.ValueOf(pv))
	type dumpCall struct {
		fn, how    string
		compressed bool
		call       func(v any) ([]byte, error)
	}
	calls := []dumpCall{
		{"Dump", fmt.Sprintf("Dump(v,%s)", f.name), false, func(v any) ([]byte, error) { return dsd.Dump(v, f.id) }},
		{"Dump", fmt.Sprintf("DumpIndent(v,%s,\"  \")", f.name), false, func(v any) ([]byte, error) { return dsd.DumpIndent(v, f.id, "  ") }},
		{"DumpAndCompress", fmt.Sprintf("DumpAndCompress(v,%s,GZIP)", f.name), true, func(v any) ([]byte, error) { return dsd.DumpAndCompress(v, f.id, dsd.GZIP) }},
		{"DumpAndCompress", fmt.Sprintf("DumpAndCompress(v,%s,AUTO)", f.name), true, func(v any) ([]byte, error) { return dsd.DumpAndCompress(v, f.id, dsd.AUTO) }},
	}
	for _, dc := range calls {
		t.states++
		t.evals++
		t.trans++
		// a fresh value in the requested capacity shape for every dump call
		v, _, _, guards, err := buildG(r)
		if err != nil {
			h.c.EngineError("build %v: %v", r, err)
			return
		}
		var blob []byte
		var derr error
		p, stack := vlib.Catch(func() { blob, derr = dc.call(v) })
		w.Path = dc.how
		site := fmt.Sprintf("%s(%s)", dc.fn, f.name)
		if p != nil {
			h.c.Violate("never-panics", site, vlib.PanicSite(stack), fmt.Sprintf("%s panicked: %v; value %s", dc.how, p, w.ValueJSON), w)
			t.out["dump:"+f.name+":panic"]++
			continue
		}
		argOK := h.checkArg(site, dc.how, w, v, pv, sc, guards)
		if !rep {
			// not a value of this format: nothing else is asserted.
			if derr != nil {
				t.out["dump:"+f.name+":not-representable-refused"]++
			} else {
				t.out["dump:"+f.name+":not-representable-accepted"]++
			}
			continue
		}
		if !assert {
			t.out["beyond-interoperable-range:"+f.name+":"+h.observe(pv, sc, blob, derr)]++
			continue
		}
		if derr != nil {
			h.c.Violate("dump-succeeds", site, "error-instead-of-ok", fmt.Sprintf("%s = error %v; value %s", dc.how, derr, w.ValueJSON), w)
			t.out["dump:"+f.name+":error"]++
			continue
		}
		if len(r.Set) > 0 {
			t.nontriv++
		}
		saved := append([]byte{}, blob...)
		var rawPayload []byte
		if !dc.compressed && len(blob) >= 1 {
			rawPayload = blob[1:]
		}
		// the loaded value is compared with the pristine copy, not with the (possibly modified) argument
		res := h.checkLoaded(site+"→Load", "Load("+dc.how+")", w, pv, sc, want, blob, rawPayload, !dc.compressed,
			func(tg any) (uint8, error) { return dsd.Load(blob, tg) }, t)
		t.out["roundtrip:"+dc.fn+":"+f.name+":"+res]++
		if dc.compressed {
			t.states++
			t.evals++
			if len(blob) < 1 || blob[0] != dsd.GZIP {
				// only a blob that carries the GZIP identifier can be handed to DecompressAndLoad(.., GZIP, ..);
				// a missing identifier already shows as a failed Load above.
				t.out["roundtrip:DecompressAndLoad:"+f.name+":no-gzip-identifier"]++
			} else {
				res := h.checkLoaded(site+"→DecompressAndLoad", "DecompressAndLoad("+dc.how+"[1:],GZIP)", w, pv, sc, want, blob, nil, false,
					func(tg any) (uint8, error) { return dsd.DecompressAndLoad(blob[1:], dsd.GZIP, tg) }, t)
				t.out["roundtrip:DecompressAndLoad:"+f.name+":"+res]++
			}
		}
		// dump-is-repeatable: the same value once more; the earlier blob must not change.
		if !argOK {
			t.out["repeat:"+dc.fn+":"+f.name+":skipped-argument-changed"]++
			continue
		}
		t.trans++
		t.evals++
		var blob2 []byte
		var derr2 error
		w.Path = dc.how + " twice"
		p, stack = vlib.Catch(func() { blob2, derr2 = dc.call(v) })
		switch {
		case p != nil:
			h.c.Violate("never-panics", site, vlib.PanicSite(stack), fmt.Sprintf("second %s panicked: %v; value %s", dc.how, p, w.ValueJSON), w)
			t.out["repeat:"+dc.fn+":"+f.name+":panic"]++
		case !bytes.Equal(blob, saved):
			h.c.Violate("dump-is-repeatable", site, "earlier-blob-changed", fmt.Sprintf("the blob returned by %s was %s and is %s after dumping the same value again (the blob shares memory with the caller's value or with a later blob); value %s", dc.how, short(saved), short(blob), w.ValueJSON), w)
			t.out["repeat:"+dc.fn+":"+f.name+":earlier-blob-changed"]++
		case derr2 != nil:
			h.c.Violate("dump-is-repeatable", site, "error-on-second-dump", fmt.Sprintf("second %s = error %v; value %s", dc.how, derr2, w.ValueJSON), w)
			t.out["repeat:"+dc.fn+":"+f.name+":error"]++
		case deterministic && !bytes.Equal(blob2, saved):
			h.c.Violate("dump-is-repeatable", site, "different-blob", fmt.Sprintf("%s of the same value gave %s first and %s the second time; value %s", dc.how, short(saved), short(blob2), w.ValueJSON), w)
			t.out["repeat:"+dc.fn+":"+f.name+":different-blob"]++
		case !deterministic:
			// unsorted map keys: the blobs may differ in key order; the second blob must load to the value
			res := h.checkLoaded(site+"→Load", "Load(second "+dc.how+")", w, pv, sc, want, blob2, nil, false,
				func(tg any) (uint8, error) { return dsd.Load(blob2, tg) }, t)
			t.out["repeat:"+dc.fn+":"+f.name+":multi-key-map-second-blob-"+res]++
		default:
			t.out["repeat:"+dc.fn+":"+f.name+":equal-blob"]++
		}
		h.checkArg(site, dc.how+" twice", w, v, pv, sc, guards)
	}
}

// observe classifies a non-asserted case.
func (h *H) observe(v any, sc *schema, blob []byte, derr error) string {
	if derr != nil {
		return "dump-error"
	}
	tg := fresh(v, sc)
	var err error
	p, _ := vlib.Catch(func() { _, err = dsd.Load(blob, tg) })
	if p != nil {
		return "panic"
	}
	if err != nil {
		return "load-error"
	}
	if k, _ := semDiff(v, tg, sc); k != "" {
		return "differs"
	}
	return "equal"
}

// ---------------------------------------------------------------- clause 2: HTTP

// checkContentType decides whether ct names the encoding body is in: the body
// must decode, with the codec library called directly, in the format ct names.
// status: "ok", "bad" (violation recorded), or "differs": it decodes but to a
// different value, which is either a lossy encoding (then the real load shows
// the same difference and reports it) or a wrong content type (reported by the
// caller through ctDiffers if the real load does return the value).
func (h *H) checkContentType(site string, w Witness, ct string, body []byte, v any, sc *schema) (uint8, string) {
	mt, _, _ := strings.Cut(ct, ";")
	mt = strings.ToLower(strings.TrimSpace(mt))
	f, ok := refMimeToFormat[mt]
	if !ok {
		disc := "unsupported-content-type"
		if ct == "" {
			disc = "empty-content-type"
		}
		h.c.Violate("content-type-names-encoding", site, disc, fmt.Sprintf("%s: content type %q does not name the encoding of the body %s; value %s", w.Path, ct, short(body), w.ValueJSON), w)
		return 0, "bad"
	}
	tg := fresh(v, sc)
	if err := refDecode(f, body, tg); err != nil {
		h.c.Violate("content-type-names-encoding", site, "body-not-in-named-encoding", fmt.Sprintf("%s: content type %q but the body is not %s (%v): %s", w.Path, ct, fmtName(f), err, short(body)), w)
		return 0, "bad"
	}
	if k, _ := semDiff(v, tg, sc); k != "" {
		return f, "differs"
	}
	return f, "ok"
}

func (h *H) ctDiffers(site string, w Witness, ct string, body []byte) {
	h.c.Violate("content-type-names-encoding", site, "body-not-in-named-encoding", fmt.Sprintf("%s: content type %q, but the body decoded in that encoding is a different value although the load returned the value: %s", w.Path, ct, short(body)), w)
}

// checkHTTPLoaded applies the HTTP load oracle.
func (h *H) checkHTTPLoaded(site string, w Witness, v any, sc *schema, want uint8, load func(t any) (uint8, error), t *tally) string {
	tg := fresh(v, sc)
	var got uint8
	var err error
	t.trans++
	p, stack := vlib.Catch(func() { got, err = load(tg) })
	if p != nil {
		h.c.Violate("never-panics", site, vlib.PanicSite(stack), fmt.Sprintf("%s panicked: %v", w.Path, p), w)
		return "panic"
	}
	if err != nil {
		h.c.Violate("http-roundtrip", site, "error-instead-of-ok", fmt.Sprintf("%s: load = (%s, %v); value %s", w.Path, fmtName(got), err, w.ValueJSON), w)
		return "error"
	}
	if got != want {
		h.c.Violate("http-reports-format", site, "wrong-format", fmt.Sprintf("%s: load reported %s, body is %s", w.Path, fmtName(got), fmtName(want)), w)
		return "wrong-format"
	}
	if k, where := semDiff(v, tg, sc); k != "" {
		disc := "wrong-value(" + k + ")"
		if strings.HasSuffix(site, "]") {
			// a body that is cut short differs at an arbitrary place: one signature per delivery class
			disc = "wrong-value"
		}
		h.c.Violate("http-roundtrip", site, disc, fmt.Sprintf("%s: loaded value differs at %s (%s): dumped %s, loaded %s", w.Path, where, k, w.ValueJSON, valueJSON(tg)), w)
		return "wrong-value"
	}
	return "ok"
}

// ---- delivery of HTTP bodies
//
// The body of a request/response arrives through an io.Reader: in one piece,
// one byte per Read, half of the asked amount per Read, or with the last data
// returned together with io.EOF; and its length is either announced
// (ContentLength = true length) or not (-1, chunked). All are legal readers.

type delivery struct {
	name, class string // class "" = plain; it goes into the site of a violation
	wrap        func(b []byte) io.Reader
}

var deliveries = []delivery{
	{"one piece", "", func(b []byte) io.Reader { return bytes.NewReader(b) }},
	{"one byte per Read", "[body in several reads]", func(b []byte) io.Reader { return iotest.OneByteReader(bytes.NewReader(b)) }},
	{"half per Read", "[body in several reads]", func(b []byte) io.Reader { return iotest.HalfReader(bytes.NewReader(b)) }},
	{"last data with io.EOF", "[last data with EOF]", func(b []byte) io.Reader { return iotest.DataErrReader(bytes.NewReader(b)) }},
}

// loadDeliveries runs one HTTP load for every delivery x {length announced, -1}.
// set installs body and length in the request/response; load calls the HTTP load function.
func (h *H) loadDeliveries(site string, w Witness, pv any, sc *schema, want uint8, body []byte,
	set func(rc io.ReadCloser, length int64), load func(t any) (uint8, error), t *tally) string {
	result := "ok"
	base := w.Path
	for _, d := range deliveries {
		for _, announced := range []bool{true, false} {
			length, ltxt := int64(-1), "ContentLength -1"
			if announced {
				length, ltxt = int64(len(body)), fmt.Sprintf("ContentLength %d", len(body))
			}
			set(io.NopCloser(d.wrap(body)), length)
			w.Path = fmt.Sprintf("%s [body of %d bytes delivered %s, %s]", base, len(body), d.name, ltxt)
			t.evals++
			if res := h.checkHTTPLoaded(site+d.class, w, pv, sc, want, load, t); res != "ok" && result == "ok" {
				result = res
			}
		}
	}
	return result
}

func newReq() *http.Request {
	return httptest.NewRequest(http.MethodPost, "http://verif.invalid/x", nil)
}

// httpValue: request path and requested-response path for one (value, format).
func (h *H) httpValue(r ValRef, f fm, t *tally) {
	v, sc, assert, guards, err := buildG(r)
	if err != nil || !assert {
		return
	}
	pv := pristine(r) // comparisons use the pristine copy, v is what the dump function gets
	w := Witness{Kind: "http", Value: &r, ValueJSON: valueJSON(pv), Format: f.name}
	_, hasMime := refFormatToMime[f.id]

	// (a) client dumps into a request, server loads it.
	t.states++
	t.evals++
	t.trans++
	req := newReq()
	var derr error
	w.Path = fmt.Sprintf("DumpToHTTPRequest(r,v,%s)→LoadFromHTTPRequest", f.name)
	site := fmt.Sprintf("DumpToHTTPRequest(%s)", f.name)
	p, stack := vlib.Catch(func() { derr = dsd.DumpToHTTPRequest(req, v, f.id) })
	if p == nil {
		h.checkArg(site, fmt.Sprintf("DumpToHTTPRequest(r,v,%s)", f.name), w, v, pv, sc, guards)
	}
	switch {
	case p != nil:
		h.c.Violate("never-panics", site, vlib.PanicSite(stack), fmt.Sprintf("%s panicked: %v", w.Path, p), w)
	case derr != nil && !hasMime:
		t.out["http-request:"+f.name+":no-media-type-refused"]++
	case derr != nil:
		h.c.Violate("dump-succeeds", site, "error-instead-of-ok", fmt.Sprintf("%s = error %v; value %s", w.Path, derr, w.ValueJSON), w)
		t.out["http-request:"+f.name+":error"]++
	default:
		body, _ := io.ReadAll(req.Body)
		req.Body = io.NopCloser(bytes.NewReader(body))
		ct := req.Header.Get("Content-Type")
		res := "bad-content-type"
		if cf, st := h.checkContentType(site, w, ct, body, pv, sc); st != "bad" {
			res = h.loadDeliveries(site+"→LoadFromHTTPRequest", w, pv, sc, cf, body,
				func(rc io.ReadCloser, n int64) { req.Body, req.ContentLength = rc, n },
				func(tg any) (uint8, error) { return dsd.LoadFromHTTPRequest(req, tg) }, t)
			if res == "ok" && st == "differs" {
				h.ctDiffers(site, w, ct, body)
				res = "bad-content-type"
			}
			if hasMime && cf != f.id {
				h.c.Violate("http-reports-format", site, "wrong-format", fmt.Sprintf("%s: content type %q, asked to dump as %s", w.Path, ct, f.name), w)
				res = "wrong-format"
			}
		}
		if len(r.Set) > 0 {
			t.nontriv++
		}
		t.out["http-request:"+f.name+":"+res]++
	}

	// (b) client asks for a response format, server dumps the response, client loads it.
	t.states++
	t.evals++
	t.trans++
	req2 := newReq()
	w.Path = fmt.Sprintf("RequestHTTPResponseFormat(r,%s)→DumpToHTTPResponse→LoadFromHTTPResponse", f.name)
	var rerr error
	p, stack = vlib.Catch(func() { _, rerr = dsd.RequestHTTPResponseFormat(req2, f.id) })
	switch {
	case p != nil:
		h.c.Violate("never-panics", "RequestHTTPResponseFormat", vlib.PanicSite(stack), fmt.Sprintf("%s panicked: %v", w.Path, p), w)
	case rerr != nil && !hasMime:
		t.out["http-response:"+f.name+":no-media-type-refused"]++
	case rerr != nil:
		h.c.Violate("dump-succeeds", "RequestHTTPResponseFormat", "error-instead-of-ok", fmt.Sprintf("%s = error %v", w.Path, rerr), w)
	default:
		res := h.response(w, req2, true, r, pv, sc, t)
		if len(r.Set) > 0 {
			t.nontriv++
		}
		t.out["http-response:"+f.name+":"+res]++
	}
}

// response runs DumpToHTTPResponse for req and loads the recorded response.
// responsePresets: what the ResponseWriter's header already holds when
// DumpToHTTPResponse is called: nothing, or a Content-Type left there by the
// handler / a middleware / an earlier dump into the same header map. The
// statement does not depend on it: the content type of the response must name
// the encoding of the body that was written.
var responsePresets = []string{"", "application/json", "application/cbor", "text/plain; charset=utf-8"}

func (h *H) response(w Witness, req *http.Request, must bool, r ValRef, pv any, sc *schema, t *tally) string {
	result := ""
	base := w.Path
	for _, preset := range responsePresets {
		w.Path = base
		if preset != "" {
			w.Path = fmt.Sprintf("%s [response header already holds Content-Type %q]", base, preset)
			t.evals++
		}
		res := h.responseOnce(w, req, must, preset, r, pv, sc, t)
		if preset == "" {
			result = res
		} else if res != result && strings.HasPrefix(result, "ok") {
			result = res
		}
	}
	return result
}

// responseOnce runs DumpToHTTPResponse for req and loads the recorded response.
func (h *H) responseOnce(w Witness, req *http.Request, must bool, preset string, r ValRef, pv any, sc *schema, t *tally) string {
	site := "DumpToHTTPResponse"
	if preset != "" {
		site = "DumpToHTTPResponse[header already holds a Content-Type]"
	}
	v, _, _, guards, err := buildG(r) // a fresh value in the requested capacity shape
	if err != nil {
		h.c.EngineError("build %v: %v", r, err)
		return "engine-error"
	}
	rec := httptest.NewRecorder()
	if preset != "" {
		rec.Header().Set("Content-Type", preset)
	}
	var derr error
	t.trans++
	p, stack := vlib.Catch(func() { derr = dsd.DumpToHTTPResponse(rec, req, v) })
	if p != nil {
		h.c.Violate("never-panics", site, vlib.PanicSite(stack), fmt.Sprintf("%s panicked: %v", w.Path, p), w)
		return "panic"
	}
	h.checkArg(site, "DumpToHTTPResponse(w,r,v)", w, v, pv, sc, guards)
	if derr != nil {
		if must {
			h.c.Violate("accept-served", site, "error-instead-of-ok", fmt.Sprintf("%s: Accept %q names a supported type or a wildcard but the dump failed: %v", w.Path, req.Header.Get("Accept"), derr), w)
			return "error"
		}
		return "refused"
	}
	resp := rec.Result()
	body, _ := io.ReadAll(resp.Body)
	resp.Body = io.NopCloser(bytes.NewReader(body))
	ct := resp.Header.Get("Content-Type")
	cf, st := h.checkContentType(site, w, ct, body, pv, sc)
	if st == "bad" {
		return "bad-content-type"
	}
	var res string
	if preset == "" {
		res = h.loadDeliveries(site+"→LoadFromHTTPResponse", w, pv, sc, cf, body,
			func(rc io.ReadCloser, n int64) { resp.Body, resp.ContentLength = rc, n },
			func(tg any) (uint8, error) { return dsd.LoadFromHTTPResponse(resp, tg) }, t)
	} else {
		// the delivery dimension is covered without a preset; here one plain load
		res = h.checkHTTPLoaded(site+"→LoadFromHTTPResponse", w, pv, sc, cf, func(tg any) (uint8, error) { return dsd.LoadFromHTTPResponse(resp, tg) }, t)
	}
	if res == "ok" && st == "differs" {
		h.ctDiffers(site, w, ct, body)
		return "bad-content-type"
	}
	if res == "ok" {
		return "ok-" + fmtName(cf)
	}
	return res
}

// ---- Accept / Content-Type grammar

func trimOWS(s string) string { return strings.Trim(s, " \t") }

func isToken(s string) bool {
	if s == "" {
		return false
	}
	for _, r := range s {
		if r <= ' ' || r >= 0x7f || strings.ContainsRune("()<>@,;:\\\"/[]?={}", r) {
			return false
		}
	}
	return true
}

// acceptNames is the reference recogniser: does the Accept header contain an
// element that names one of the four registered media types (case-insensitive,
// parameters ignored) or a wildcard media range (*/* or type/*)?
// Elements with white space between the media range and ';' are not counted:
// portbase documents them as invalid (http_test.go "yaml ;charset" => AUTO).
func acceptNames(hdr string) bool {
	for _, el := range splitOutsideQuotes(hdr, ',') {
		el = trimOWS(el)
		rng := splitOutsideQuotes(el, ';')[0]
		if rng != trimOWS(rng) {
			continue
		}
		l := strings.ToLower(rng)
		if _, ok := refMimeToFormat[l]; ok {
			return true
		}
		if l == "*/*" {
			return true
		}
		if strings.HasSuffix(l, "/*") && isToken(l[:len(l)-2]) {
			return true
		}
	}
	return false
}

// splitOutsideQuotes splits at sep where it is not inside a quoted-string
// (RFC 7230: DQUOTE *( qdtext / quoted-pair ) DQUOTE; "\" escapes the next octet).
func splitOutsideQuotes(s string, sep byte) []string {
	var out []string
	inQ := false
	start := 0
	for i := 0; i < len(s); i++ {
		switch {
		case inQ && s[i] == '\\':
			i++
		case s[i] == '"':
			inQ = !inQ
		case !inQ && s[i] == sep:
			out = append(out, s[start:i])
			start = i + 1
		}
	}
	return append(out, s[start:])
}

func caseVariants(s string) []string {
	out := []string{s}
	if u := strings.ToUpper(s); u != s {
		out = append(out, u)
		t := []byte(s)
		up := true
		for i, ch := range t {
			if ch >= 'a' && ch <= 'z' {
				if up {
					t[i] = ch - 32
				}
				up = !up
			}
		}
		out = append(out, string(t))
	}
	return out
}

var (
	rangesExact   = []string{"application/json", "application/cbor", "application/msgpack", "application/yaml"}
	rangesLenient = []string{"text/yaml", "application/yml", "json"}
	rangesOther   = []string{"image/webp", "text/html", "application/xml", "x"}
	rangesWild    = []string{"*/*", "application/*", "text/*", "*"}
	paramAlpha    = []string{"", ";q=0.9", "; q=0.5", ";charset=utf-8;q=0.1", ";\tq=1", " ;q=0.9",
		// media-type parameters: token value, quoted-string values that contain '/', ',', ';', a quoted-pair; accept-ext behind the weight
		";v=1", `;profile="https://example.org/schema/v1"`, `; charset=utf-8; boundary="x/y"`, `;title="a,b"`, `;note="x;y"`,
		`;t="say \"hi\", a/b;c"`, `;q=0.8;ext="a/b"`}
	outerWS = [][2]string{{"", ""}, {" ", ""}, {"", " "}, {"\t", " \t"}}
	// reduced element alphabet for multi-element headers
	elements = []string{
		"application/json", "application/cbor", "application/msgpack", "application/yaml",
		"text/yaml", "application/yml", "json",
		"image/webp", "text/html", "application/xml", "x",
		"*/*", "application/*", "text/*", "*",
		"application/cbor;q=0.9", "application/yaml; q=0.5", "APPLICATION/MSGPACK", "Application/Json",
		"application/json ;q=0.9", "*/*;q=0.1", "text/html;q=1.0", "image/*; q=0.8", "",
		`application/cbor;profile="https://example.org/schema/v1"`, `*/*;ext="a/b"`, `application/yaml;title="a,b"`,
		`text/html;x="a,application/json,*/*"`, // names text/html only: the rest is inside a quoted-string
	}
	separators = []string{",", ", ", " ,\t"}
)

// buildHeaders enumerates header strings with up to n elements.
func buildHeaders(n int) []string {
	seen := map[string]bool{}
	var out []string
	add := func(s string) {
		if !seen[s] {
			seen[s] = true
			out = append(out, s)
		}
	}
	add("")
	var all []string
	all = append(all, rangesExact...)
	all = append(all, rangesLenient...)
	all = append(all, rangesOther...)
	all = append(all, rangesWild...)
	for _, r := range all {
		for _, cv := range caseVariants(r) {
			for _, p := range paramAlpha {
				for _, ws := range outerWS {
					add(ws[0] + cv + p + ws[1])
				}
			}
		}
	}
	// long lists: 0..10 unsupported entries in front of every registered type / wildcard
	// (a header may list any number of media ranges; the supported one may come last)
	fillers := []string{"image/webp", "text/html;q=0.9", "application/xml", "x", "image/png; q=0.8", "text/css"}
	var targets []string
	targets = append(targets, rangesExact...)
	targets = append(targets, "*/*", "application/*", "text/*", "*/*;q=0.1")
	for _, tg := range targets {
		for k := 0; k <= 10; k++ {
			for _, sep := range []string{",", ", "} {
				var els []string
				for i := 0; i < k; i++ {
					els = append(els, fillers[i%len(fillers)])
				}
				add(strings.Join(append(els, tg), sep))
				// and the supported entry followed by unsupported ones
				add(strings.Join(append([]string{tg}, els...), sep))
			}
		}
	}
	if n >= 2 {
		for _, a := range elements {
			for _, b := range elements {
				for _, s := range separators {
					add(a + s + b)
				}
			}
		}
	}
	if n >= 3 {
		for _, a := range elements {
			for _, b := range elements {
				for _, d := range elements {
					add(a + "," + b + ", " + d)
				}
			}
		}
	}
	return out
}

// singleTypeHeaders: Content-Type strings (exactly one media type).
func singleTypeHeaders() []string {
	seen := map[string]bool{}
	var out []string
	var all []string
	all = append(all, rangesExact...)
	all = append(all, rangesLenient...)
	all = append(all, rangesOther...)
	all = append(all, "")
	for _, r := range all {
		for _, cv := range caseVariants(r) {
			for _, p := range []string{"", ";charset=utf-8", "; charset=UTF-8", ";\tq=1", " ;charset=utf-8",
				";v=1", `;profile="https://example.org/schema/v1"`, `; charset=utf-8; boundary="x/y"`, `;title="a,b"`, `;note="x;y"`, `;t="say \"hi\", a/b;c"`} {
				for _, ws := range outerWS {
					s := ws[0] + cv + p + ws[1]
					if !seen[s] {
						seen[s] = true
						out = append(out, s)
					}
				}
			}
		}
	}
	return out
}

func interestingHeader(s string) bool {
	return strings.ContainsAny(s, ",; \t") || s != strings.ToLower(s)
}

// acceptCase: one Accept header x one value through MimeDump/MimeLoad and
// through DumpToHTTPResponse/LoadFromHTTPResponse.
func (h *H) acceptCase(hdr string, r ValRef, t *tally) {
	v, sc, _, guards, err := buildG(r)
	if err != nil {
		h.c.EngineError("build %v: %v", r, err)
		return
	}
	pv := pristine(r)
	w := Witness{Kind: "accept", Value: &r, ValueJSON: valueJSON(pv), Header: hdr}
	must := acceptNames(hdr)
	cls := "names-nothing"
	if must {
		cls = "names-supported-or-wildcard"
	}
	t.states++
	t.evals += 2
	if interestingHeader(hdr) {
		t.nontriv++
	}

	// MimeDump -> MimeLoad
	w.Path = fmt.Sprintf("MimeDump(v,%q)→MimeLoad", hdr)
	var data []byte
	var mime string
	var format uint8
	var derr error
	t.trans++
	p, stack := vlib.Catch(func() { data, mime, format, derr = dsd.MimeDump(v, hdr) })
	if p == nil {
		h.checkArg("MimeDump", fmt.Sprintf("MimeDump(v,%q)", hdr), w, v, pv, sc, guards)
	}
	switch {
	case p != nil:
		h.c.Violate("never-panics", "MimeDump", vlib.PanicSite(stack), fmt.Sprintf("%s panicked: %v", w.Path, p), w)
		t.out["accept:MimeDump:"+cls+":panic"]++
	case derr != nil:
		if must {
			h.c.Violate("accept-served", "MimeDump", "error-instead-of-ok", fmt.Sprintf("%s: the header names a supported type or a wildcard but the dump failed: %v", w.Path, derr), w)
		}
		t.out["accept:MimeDump:"+cls+":refused"]++
	default:
		res := "bad-content-type"
		if cf, st := h.checkContentType("MimeDump", w, mime, data, pv, sc); st != "bad" {
			res = "ok-" + fmtName(cf)
			if format != cf {
				h.c.Violate("http-reports-format", "MimeDump", "wrong-format", fmt.Sprintf("%s: returned format %s but mime type %q", w.Path, fmtName(format), mime), w)
				res = "wrong-format"
			} else if r2 := h.checkHTTPLoaded("MimeDump→MimeLoad", w, pv, sc, cf, func(tg any) (uint8, error) { return dsd.MimeLoad(data, mime, tg) }, t); r2 != "ok" {
				res = r2
			} else if st == "differs" {
				h.ctDiffers("MimeDump", w, mime, data)
				res = "bad-content-type"
			}
		}
		t.out["accept:MimeDump:"+cls+":"+res]++
	}

	// DumpToHTTPResponse -> LoadFromHTTPResponse
	w.Path = fmt.Sprintf("DumpToHTTPResponse(Accept: %q)→LoadFromHTTPResponse", hdr)
	req := newReq()
	req.Header.Set("Accept", hdr)
	res := h.response(w, req, must, r, pv, sc, t)
	t.out["accept:DumpToHTTPResponse:"+cls+":"+res]++
}

// ctypeCase: a body in format f (encoded by the codec library directly) with a
// Content-Type header variant, loaded with LoadFromHTTPRequest and MimeLoad.
func (h *H) ctypeCase(hdr string, f fm, r ValRef, t *tally) {
	v, sc, _, err := build(r)
	if err != nil {
		h.c.EngineError("build %v: %v", r, err)
		return
	}
	body, err := refEncode(f.id, v)
	if err != nil {
		h.c.EngineError("reference encoder %s: %v", f.name, err)
		return
	}
	w := Witness{Kind: "ctype", Value: &r, ValueJSON: valueJSON(v), Header: hdr, Format: f.name}
	w.Path = fmt.Sprintf("LoadFromHTTPRequest(Content-Type: %q, %s body)", hdr, f.name)
	// does the header name exactly the body's media type?
	mt, _, _ := strings.Cut(trimOWS(hdr), ";")
	named, ok := refMimeToFormat[strings.ToLower(mt)]
	must := ok && named == f.id && mt == trimOWS(mt)
	t.states++
	t.evals++
	if interestingHeader(hdr) {
		t.nontriv++
	}
	req := newReq()
	req.Header.Set("Content-Type", hdr)
	req.Body = io.NopCloser(bytes.NewReader(body))
	if must {
		res := h.loadDeliveries("LoadFromHTTPRequest(Content-Type)", w, v, sc, f.id, body,
			func(rc io.ReadCloser, n int64) { req.Body, req.ContentLength = rc, n },
			func(tg any) (uint8, error) { return dsd.LoadFromHTTPRequest(req, tg) }, t)
		t.out["content-type:names-body-format:"+res]++
		return
	}
	// anything else: value or error, no panic.
	tg := fresh(v, sc)
	var lerr error
	t.trans++
	p, stack := vlib.Catch(func() { _, lerr = dsd.LoadFromHTTPRequest(req, tg) })
	switch {
	case p != nil:
		h.c.Violate("never-panics", "LoadFromHTTPRequest(Content-Type)", vlib.PanicSite(stack), fmt.Sprintf("%s panicked: %v", w.Path, p), w)
	case lerr != nil:
		t.out["content-type:other:error"]++
	default:
		t.out["content-type:other:loaded"]++
	}
}

// ---------------------------------------------------------------- clause 3: totality

var targetNames = []string{"val", "rgen", "iface"}

func newTarget(name string) any {
	switch name {
	case "val":
		return &Val{}
	case "rgen":
		return &robustGen{}
	case "gen":
		return &GenCodeTestStruct{}
	case "bytes":
		return new([]byte)
	case "string":
		return new(string)
	case "mapiface":
		return new(map[string]interface{})
	default:
		return new(any)
	}
}

func idClass(b []byte) string {
	if len(b) == 0 {
		return "empty"
	}
	switch b[0] {
	case dsd.AUTO:
		return "id-AUTO"
	case dsd.RAW, dsd.CBOR, dsd.GenCode, dsd.JSON, dsd.MsgPack, dsd.YAML:
		return "id-" + fmtName(b[0])
	case dsd.GZIP:
		return "id-GZIP"
	case dsd.LIST:
		return "id-LIST"
	}
	if b[0] >= 0x80 {
		return "id-two-byte"
	}
	return "id-unknown"
}

// callLoad runs one of the load functions on raw input.
func callLoad(fn string, in []byte, tg any) (err error) {
	switch fn {
	case "DecompressAndLoad":
		_, err = dsd.DecompressAndLoad(in, dsd.GZIP, tg)
	case "MimeLoad-json":
		_, err = dsd.MimeLoad(in, "application/json", tg)
	case "MimeLoad-cbor":
		_, err = dsd.MimeLoad(in, "application/cbor", tg)
	case "MimeLoad-msgpack":
		_, err = dsd.MimeLoad(in, "application/msgpack", tg)
	case "MimeLoad-yaml":
		_, err = dsd.MimeLoad(in, "application/yaml", tg)
	default:
		_, err = dsd.Load(in, tg)
	}
	return err
}

// loadBytes: Load of an arbitrary byte string: value or error, never a panic.
func (h *H) loadBytes(fn string, in []byte, target string, out map[string]int64) {
	tg := newTarget(target)
	var err error
	p, stack := vlib.Catch(func() { err = callLoad(fn, in, tg) })
	if p != nil {
		h.c.Violate("load-total", fn, vlib.PanicSite(stack), fmt.Sprintf("%s(%s) into %s panicked: %v", fn, short(in), target, p),
			Witness{Kind: "bytes", Hex: hex.EncodeToString(in), Target: target, Path: fn})
		out[fn+":"+idClass(in)+":panic"]++
		return
	}
	if err != nil {
		out[fn+":"+idClass(in)+":error"]++
	} else {
		out[fn+":"+idClass(in)+":value"]++
	}
}

// ---- isolated execution of inputs that claim a huge size
//
// A decoder that allocates a *claimed* element count unchecked does not panic,
// it kills the process ("fatal error: runtime: out of memory"). Such inputs are
// therefore loaded in a child process (this binary, first argument
// "probe-child") with an address-space limit, and the parent classifies what
// happened. Everything else runs in-process.

const childAddressSpace = 4 << 30

func childMain(args []string) {
	if len(args) != 3 {
		fmt.Println("RESULT usage")
		os.Exit(3)
	}
	lim := syscall.Rlimit{Cur: childAddressSpace, Max: childAddressSpace}
	_ = syscall.Setrlimit(syscall.RLIMIT_AS, &lim)
	in, err := hex.DecodeString(args[1])
	if err != nil {
		fmt.Println("RESULT usage")
		os.Exit(3)
	}
	tg := newTarget(args[2])
	var lerr error
	p, stack := vlib.Catch(func() { lerr = callLoad(args[0], in, tg) })
	switch {
	case p != nil:
		fmt.Printf("RESULT panic %s\n%v\n", vlib.PanicSite(stack), p)
	case lerr != nil:
		fmt.Println("RESULT error")
	default:
		fmt.Println("RESULT value")
	}
}

// loadBytesIsolated runs one load in a child process.
func (h *H) loadBytesIsolated(fn string, in []byte, target string, out map[string]int64) {
	w := Witness{Kind: "bytes", Hex: hex.EncodeToString(in), Target: target, Path: fn}
	self, err := os.Executable()
	if err != nil {
		h.c.EngineError("os.Executable: %v", err)
		return
	}
	cmd := exec.Command(self, "probe-child", fn, w.Hex, target)
	cmd.Env = append(os.Environ(), "GOMAXPROCS=2", "GOTRACEBACK=single")
	ob, _ := cmd.CombinedOutput()
	o := string(ob)
	key := fn + ":" + idClass(in) + ":isolated:"
	switch {
	case strings.Contains(o, "RESULT value"):
		out[key+"value"]++
	case strings.Contains(o, "RESULT error"):
		out[key+"error"]++
	case strings.Contains(o, "RESULT panic"):
		site := "unknown"
		if f := strings.Fields(o[strings.Index(o, "RESULT panic"):]); len(f) >= 3 {
			site = f[2]
		}
		h.c.Violate("load-total", fn, site, fmt.Sprintf("%s(%s) into %s panicked: %s", fn, short(in), target, firstLine(o)), w)
		out[key+"panic"]++
	case strings.Contains(o, "fatal error:"):
		kind := "fatal-error"
		if strings.Contains(o, "out of memory") || strings.Contains(o, "cannot allocate memory") {
			kind = "fatal-out-of-memory"
		}
		at := ""
		if i := strings.Index(o, "goroutine "); i >= 0 {
			for _, l := range strings.Split(o[i:], "\n") {
				if strings.Contains(l, "(") && !strings.HasPrefix(l, "runtime.") && !strings.HasPrefix(l, "goroutine") && !strings.HasPrefix(l, "\t") {
					at = strings.TrimSpace(l[:strings.LastIndex(l, "(")])
					break
				}
			}
		}
		h.c.Violate("load-total", fn, kind+"("+vlib.PanicSite(o)+")",
			fmt.Sprintf("%s(%s) into %s killed the process (address space limited to %d GiB): %s; allocating frame: %s. The input is %d bytes long; the decoder allocates the element count the input claims before reading the elements.",
				fn, short(in), target, childAddressSpace>>30, firstLine(o[strings.Index(o, "fatal error:"):]), at, len(in)), w)
		out[key+kind]++
	default:
		h.c.EngineError("probe child for %s(%s) into %s: unexpected output %q", fn, short(in), target, firstLine(o))
	}
}

func firstLine(s string) string {
	s = strings.TrimSpace(s)
	if i := strings.IndexByte(s, '\n'); i >= 0 {
		s = s[:i]
	}
	if len(s) > 200 {
		s = s[:200]
	}
	return s
}

// claimsHugeSize: could this input make the MsgPack decoder allocate a claimed
// 32-bit element count (array32 = dd, map32 = df) for an interface{} target?
// (Those are the two unchecked allocations of msgpack v5; all other claimed
// sizes of the codecs are capped by the libraries.)
func claimsHugeSize(in []byte, target string) bool {
	if target != "iface" && target != "mapiface" {
		return false
	}
	if len(in) < 6 || (in[0] != dsd.MsgPack && in[0] != dsd.GZIP) {
		return false
	}
	if in[0] == dsd.GZIP {
		return false // not decidable without decompressing; callers only pass crafted gzip inputs through loadBytesIsolated
	}
	return bytes.IndexByte(in[1:], 0xdd) >= 0 || bytes.IndexByte(in[1:], 0xdf) >= 0
}

func gzipID(w *gzip.Writer, buf *bytes.Buffer, inner []byte) []byte {
	buf.Reset()
	buf.WriteByte(dsd.GZIP)
	w.Reset(buf)
	_, _ = w.Write(inner)
	_ = w.Close()
	return append([]byte{}, buf.Bytes()...)
}

// ---------------------------------------------------------------- main

func main() {
	if len(os.Args) > 1 && os.Args[1] == "probe-child" {
		childMain(os.Args[2:])
		return
	}
	vlib.Main("C09", "model_checking", func(c *vlib.Ctx) {
		h := &H{c: c, def: dsd.DefaultSerializationFormat, start: time.Now()}
		c.SetBudget(vlib.Pick(c, 5*time.Minute, 25*time.Minute))
		c.Rule("exhaustive enumeration, three domains. (1) values: the zero value of the harness structs (18-field Val: every integer width, string, *string, []byte, []string, two maps, nested struct, *struct; 16-field gencode struct) with every choice of <=k fields set to every combination of the per-field alphabets " +
			"(integers {1,-1,min,max} within +-(2^53-1), 8 strings incl. non-ASCII / JSON-escaped / YAML-significant / all YAML line breaks, nil+empty+1B+3B+300B byte slices, empty and filled slices/maps, nil/non-nil pointers) plus 18 top-level values; each x 7 formats {JSON,CBOR,MsgPack,YAML,GenCode,RAW,AUTO} x {Dump, DumpIndent, DumpAndCompress GZIP, DumpAndCompress AUTO} -> Load and DecompressAndLoad, and x HTTP request and requested-response paths; " +
			"(2) headers: every Accept / Content-Type string of <=n elements from the media-range grammar (4 registered types, lenient spellings, unsupported types, wildcards x case x parameters x optional white space x separators) x 4 values through MimeDump/MimeLoad and DumpToHTTPResponse/LoadFromHTTPResponse; " +
			"(3) totality: every byte string of length <=3 (thorough: also every 4-byte string starting with a known id), every truncation and single-byte substitution of valid dumps, every gzip-wrapped inner string of length <=2, x load targets {struct, gencode struct, interface}. " +
			"Byte slices (top-level RAW values and []byte fields) are additionally enumerated in the capacity shapes {cap==len, built by append with spare capacity, window into a larger buffer with live bytes around it}; every dump gets a fresh copy, the loaded value is compared with a pristine copy taken before the dump, the argument and its whole backing array must be unchanged after every dump, and every dump is done twice (equal blobs, earlier blob unchanged). " +
			"Also: strings with two and three U+0085 (adjacent and apart) and U+0085 in *string, []string, map key+value and nested-struct fields (so that pairs put it into two fields); large repetitive values (4 KiB, 64 KiB; thorough 1 MiB of one byte, a long string of one repeated pair, a long list of equal strings) at top level and in one struct field, through every format and every dump path incl. GZIP/AUTO compression; header parameters with token values, quoted-strings containing '/', ',', ';' and quoted-pairs, and accept-ext behind q. " +
			"Accept lists with 0..10 unsupported media ranges in front of (and behind) each registered type and wildcard. DumpToHTTPResponse also with a ResponseWriter whose header already holds a Content-Type (application/json, application/cbor, text/plain) before the dump. " +
			"Every HTTP load (request, response, Content-Type family) is repeated for 4 body deliveries {one piece, one byte per Read, half per Read, last data together with io.EOF} x {ContentLength = true length, -1}. " +
			"non-trivial = cases with a non-zero value whose dump was produced and loaded back, header strings with more than a bare lower-case type, byte strings whose first byte is a known format/compression id")
		c.Assume("equality of dumped and loaded value is semantic: nil and empty slices/maps are one value (GenCode, MsgPack and JSON-null have a single representation); pointer nil-ness, lengths and all contents must match")
		c.Assume("dump-is-repeatable compares the two blobs byte for byte unless the value holds a map with more than one key (MsgPack and CBOR do not sort map keys); then the second blob must load to the value")
		c.Assume("RAW has no decoder by design: Load answering (RAW, ErrIsRaw) counts as loaded when the bytes behind the format id of the blob the caller holds equal the dumped bytes")
		c.Assume("formats without a registered media type (GenCode, RAW, AUTO) may be refused by DumpToHTTPRequest/RequestHTTPResponseFormat; the property speaks about data that was dumped")
		c.Assume("the reference splits header elements and parameters outside quoted-strings (RFC 7230 quoted-string with quoted-pair); text inside a quoted parameter value names nothing")
		c.Assume("which supported type is chosen for an Accept header is not asserted, only that the dump is served and Content-Type names the body's encoding; elements with white space before ';' and bare/lenient spellings (json, text/yaml, *) are executed but success is not required (http_test.go documents 'yaml ;charset' as invalid)")
		c.Assume("integers beyond +-(2^53-1) in 64-bit fields are executed and their outcome recorded, nothing is asserted (outside the interoperable range of the quantifier)")
		c.Assume("values a codec refuses to encode (YAML: DEL and C1 control characters) are not values representable in that format and are not in the alphabet")
		c.Assume("inputs that claim a huge element count (well-formed MsgPack/CBOR headers up to 2^32-1 resp. 2^62 elements with no elements present) are loaded in a child process whose address space is limited to 4 GiB; a decoder that allocates the claimed count kills that process ('fatal error: out of memory'), which counts as a violation of 'never panics'; in-process enumeration keeps such inputs out")
		c.Assume("the totality clause uses load targets whose own unmarshal code is total; gencode-generated GenCodeUnmarshal code (user code, indexes without bounds checks) is not part of dsd")

		if c.Replay != "" {
			h.replay()
			return
		}
		k := vlib.Pick(c, 2, 3)
		hdrElems := vlib.Pick(c, 2, 3)
		for _, sn := range []string{"Dump→Load", "DumpIndent→Load", "DumpAndCompress(GZIP|AUTO)→Load", "DumpAndCompress→DecompressAndLoad", "DumpToHTTPRequest→LoadFromHTTPRequest",
			"RequestHTTPResponseFormat→DumpToHTTPResponse→LoadFromHTTPResponse", "Accept grammar: MimeDump→MimeLoad", "Accept grammar: DumpToHTTPResponse→LoadFromHTTPResponse",
			"Content-Type grammar: LoadFromHTTPRequest", "totality: Load on byte strings", "totality: MimeLoad/DecompressAndLoad on byte strings", "totality: gzip-wrapped inner strings", "totality: truncations/substitutions of valid dumps", "dump does not modify its argument (capacity shapes)", "dump is repeatable"} {
			c.Scenario(sn)
		}

		// ---- phase 1: value round trips
		var refs []ValRef
		nBig := 0
		for _, sc := range []*schema{valSchema, genSchema} {
			for _, s := range enumSets(sc, k) {
				refs = append(refs, ValRef{sc.name, s, 0})
			}
			for fi, f := range sc.fields {
				for bi := range f.beyond {
					refs = append(refs, ValRef{sc.name, [][2]int{{fi, len(f.alpha) + bi}}, 0})
				}
			}
			refs = append(refs, ValRef{sc.name, richSet(sc), 0})
			// large repetitive values, one field at a time
			for fi, f := range sc.fields {
				for bi := range bigOf[sc.name][f.name] {
					if c.Quick() && bi >= bigThoroughOnly {
						continue
					}
					refs = append(refs, ValRef{sc.name, [][2]int{{fi, len(f.alpha) + len(f.beyond) + bi}}, 0})
					nBig++
				}
			}
		}
		for i := range tops {
			if c.Quick() && i >= topsThoroughOnly {
				continue
			}
			refs = append(refs, ValRef{"top", [][2]int{{i, 0}}, 0})
		}
		// every value that contains a non-nil byte slice also in the capacity shapes cap > len
		nBase := len(refs)
		for i := 0; i < nBase; i++ {
			if hasBytes(refs[i]) {
				for shape := 1; shape < len(shapeNames); shape++ {
					refs = append(refs, ValRef{refs[i].Schema, refs[i].Set, shape})
				}
			}
		}
		c.Extra("values_with_shaped_byte_slices", int64(len(refs)-nBase))
		c.Extra("values_large_repetitive_struct_fields", int64(nBig))
		c.Extra("values", int64(len(refs)))
		c.Extra("value_fields_set_max", int64(k))
		stopped := new(atomic.Bool)
		c.ParallelFor(len(refs), func(i int) {
			if i%64 == 0 && c.Expired() {
				stopped.Store(true)
			}
			if stopped.Load() {
				return
			}
			t := newTally()
			for _, f := range allFormats {
				h.dumpLoad(refs[i], f, t)
				h.httpValue(refs[i], f, t)
			}
			h.merge(t)
		})
		for _, i := range []int{1, 57, 400, len(refs) - 30} {
			if i >= 0 && i < len(refs) {
				v, _, _, _ := build(refs[i])
				c.Sample(map[string]any{"kind": "roundtrip", "value": refs[i], "value_json": valueJSON(v), "formats": "all 7", "paths": "Dump, DumpIndent, DumpAndCompress(GZIP|AUTO) -> Load, DecompressAndLoad; HTTP request/response"})
			}
		}
		fmt.Printf("phase 1: %d values x %d formats done (%.0fs)\n", len(refs), len(allFormats), time.Since(h.start).Seconds())

		// ---- phase 2: header grammar
		hdrVals := []ValRef{{"val", nil, 0}, {"val", richSet(valSchema), 0}, {"gen", richSet(genSchema), 2}, {"top", [][2]int{{2, 0}}, 0}}
		headers := buildHeaders(hdrElems)
		c.Extra("accept_headers", int64(len(headers)))
		c.ParallelFor(len(headers), func(i int) {
			if stopped.Load() || (i%256 == 0 && c.Expired()) {
				stopped.Store(true)
				return
			}
			t := newTally()
			for _, r := range hdrVals {
				h.acceptCase(headers[i], r, t)
			}
			h.merge(t)
		})
		cts := singleTypeHeaders()
		c.Extra("content_type_headers", int64(len(cts)))
		c.ParallelFor(len(cts), func(i int) {
			t := newTally()
			for _, f := range mimeFormats {
				for _, r := range hdrVals {
					h.ctypeCase(cts[i], f, r, t)
				}
			}
			h.merge(t)
		})
		c.Sample(map[string]any{"kind": "accept", "header": "image/webp, application/cbor;q=0.9", "reference": "names a supported type: dump must be served, Content-Type must name the body's encoding, LoadFromHTTPResponse must return the value"})
		c.Sample(map[string]any{"kind": "accept", "header": " ,\tAPPLICATION/MSGPACK", "reference": "names a supported type (case-insensitive, empty element ignored)"})
		c.Sample(map[string]any{"kind": "accept", "header": "text/html;q=1.0,x", "reference": "names nothing supported: dump may be refused"})
		c.Sample(map[string]any{"kind": "content-type", "header": "Application/Yaml; charset=UTF-8", "body": "YAML", "reference": "LoadFromHTTPRequest must return (YAML, value)"})
		fmt.Printf("phase 2: %d Accept headers, %d Content-Type headers done (%.0fs)\n", len(headers), len(cts), time.Since(h.start).Seconds())

		// ---- phase 3: totality
		h.totality(stopped)
		if stopped.Load() {
			c.NotExhaustive("internal wall-clock budget reached")
		}
	})
}

func (h *H) totality(stopped *atomic.Bool) {
	c := h.c
	// 3a. all byte strings of length <= 3
	var mu sync.Mutex
	total := map[string]int64{}
	var nStrings, nNontriv, nCalls int64
	flush := func(m map[string]int64, s, nt, calls int64) {
		mu.Lock()
		for k, v := range m {
			total[k] += v
		}
		nStrings += s
		nNontriv += nt
		nCalls += calls
		mu.Unlock()
	}
	known := func(b byte) bool {
		switch b {
		case dsd.AUTO, dsd.RAW, dsd.CBOR, dsd.GenCode, dsd.JSON, dsd.MsgPack, dsd.YAML, dsd.GZIP, dsd.LIST:
			return true
		}
		return false
	}
	c.ParallelFor(256, func(b0 int) {
		if stopped.Load() || c.Expired() {
			stopped.Store(true)
			return
		}
		m := map[string]int64{}
		var s, nt, calls int64
		buf := make([]byte, 3)
		run := func(b []byte) {
			for _, tn := range targetNames {
				h.loadBytes("Load", b, tn, m)
				calls++
			}
			s++
			if len(b) > 0 && known(b[0]) {
				nt++
			}
		}
		if b0 == 0 {
			run(nil)
		}
		buf[0] = byte(b0)
		run(buf[:1])
		for b1 := 0; b1 < 256; b1++ {
			buf[1] = byte(b1)
			run(buf[:2])
			for b2 := 0; b2 < 256; b2++ {
				buf[2] = byte(b2)
				run(buf[:3])
			}
		}
		flush(m, s, nt, calls)
	})
	c.Extra("byte_strings_len_le3", nStrings)
	c.Sample(map[string]any{"kind": "bytes", "input_hex": "4a7b7d", "targets": targetNames, "reference": "value or error, no panic"})
	fmt.Printf("phase 3a: %d byte strings x %d targets done (%.0fs)\n", nStrings, len(targetNames), time.Since(h.start).Seconds())

	// 3b. thorough: every 4-byte string that starts with a known id
	if !c.Quick() {
		ids := []byte{dsd.AUTO, dsd.RAW, dsd.CBOR, dsd.GenCode, dsd.JSON, dsd.MsgPack, dsd.YAML, dsd.GZIP, dsd.LIST}
		var n4 int64
		c.ParallelFor(len(ids)*256, func(i int) {
			if stopped.Load() || c.Expired() {
				stopped.Store(true)
				return
			}
			m := map[string]int64{}
			var s, calls int64
			buf := []byte{ids[i/256], byte(i % 256), 0, 0}
			tgs := []string{"val", "iface"}
			if buf[0] == dsd.GenCode {
				tgs = []string{"rgen", "val"}
			}
			for b2 := 0; b2 < 256; b2++ {
				buf[2] = byte(b2)
				for b3 := 0; b3 < 256; b3++ {
					buf[3] = byte(b3)
					for _, tn := range tgs {
						h.loadBytes("Load", buf, tn, m)
						calls++
					}
					s++
				}
			}
			flush(m, s, s, calls)
			mu.Lock()
			n4 += s
			mu.Unlock()
		})
		c.Extra("byte_strings_len4_known_id", n4)
		fmt.Printf("phase 3b: %d 4-byte strings x 2 targets done (%.0fs)\n", n4, time.Since(h.start).Seconds())
	}

	// 3c. MimeLoad / DecompressAndLoad on all byte strings of length <= 2
	c.ParallelFor(256, func(b0 int) {
		m := map[string]int64{}
		var s, calls int64
		buf := make([]byte, 2)
		run := func(b []byte) {
			for _, fn := range []string{"DecompressAndLoad", "MimeLoad-json", "MimeLoad-cbor", "MimeLoad-msgpack", "MimeLoad-yaml"} {
				for _, tn := range []string{"val", "iface"} {
					h.loadBytes(fn, b, tn, m)
					calls++
				}
			}
			s++
		}
		if b0 == 0 {
			run(nil)
		}
		buf[0] = byte(b0)
		run(buf[:1])
		for b1 := 0; b1 < 256; b1++ {
			buf[1] = byte(b1)
			run(buf[:2])
		}
		flush(m, s, s, calls)
	})

	// 3d. gzip-wrapped inner strings of length <= 2 (the inner format id is arbitrary)
	c.ParallelFor(256, func(b0 int) {
		if stopped.Load() {
			return
		}
		m := map[string]int64{}
		var s, calls int64
		var bb bytes.Buffer
		zw, _ := gzip.NewWriterLevel(&bb, gzip.HuffmanOnly)
		inner := make([]byte, 2)
		run := func(in []byte) {
			blob := gzipID(zw, &bb, in)
			for _, tn := range targetNames {
				h.loadBytes("Load", blob, tn, m)
				calls++
			}
			s++
		}
		if b0 == 0 {
			run(nil)
		}
		inner[0] = byte(b0)
		run(inner[:1])
		for b1 := 0; b1 < 256; b1++ {
			inner[1] = byte(b1)
			run(inner[:2])
		}
		flush(m, s, s, calls)
	})
	c.Sample(map[string]any{"kind": "bytes", "input": "5a + gzip(5a 00)", "reference": "compressed blob whose inner id is again GZIP: value or error, no panic"})

	// 3e. corruptions of valid dumps
	type seed struct {
		blob   []byte
		target string
		desc   string
	}
	var seeds []seed
	corpus := []struct {
		r      ValRef
		target string
	}{
		{ValRef{"val", nil, 0}, "val"},
		{ValRef{"val", richSet(valSchema), 0}, "val"},
		{ValRef{"top", [][2]int{{2, 0}}, 0}, "string"},
		{ValRef{"top", [][2]int{{15, 0}}, 0}, "bytes"},
	}
	for _, cp := range corpus {
		v, sc, _, _ := build(cp.r)
		for _, f := range allFormats {
			if !representable(v, sc, f.id) || f.id == dsd.AUTO {
				continue
			}
			if b, err := dsd.Dump(v, f.id); err == nil {
				seeds = append(seeds, seed{b, cp.target, "Dump " + f.name})
			}
			if b, err := dsd.DumpAndCompress(v, f.id, dsd.GZIP); err == nil {
				seeds = append(seeds, seed{b, cp.target, "DumpAndCompress " + f.name})
			}
		}
	}
	rg := &robustGen{N: 0x1234, T: "héllo"}
	if b, err := dsd.Dump(rg, dsd.GenCode); err == nil {
		seeds = append(seeds, seed{b, "rgen", "Dump GenCode"})
	}
	if b, err := dsd.DumpAndCompress(rg, dsd.GenCode, dsd.GZIP); err == nil {
		seeds = append(seeds, seed{b, "rgen", "DumpAndCompress GenCode"})
	}
	var subst []byte
	if c.Quick() {
		subst = []byte{0x00, 0x7f, 0x80, 0xff}
	} else {
		for i := 0; i < 256; i++ {
			subst = append(subst, byte(i))
		}
	}
	c.Extra("corruption_seeds", int64(len(seeds)))
	c.ParallelFor(len(seeds), func(i int) {
		if stopped.Load() || c.Expired() {
			stopped.Store(true)
			return
		}
		sd := seeds[i]
		m := map[string]int64{}
		var s, calls int64
		tgs := []string{sd.target, "iface"}
		run := func(b []byte) {
			for _, tn := range tgs {
				if claimsHugeSize(b, tn) {
					h.loadBytesIsolated("Load", b, tn, m)
				} else {
					h.loadBytes("Load", b, tn, m)
				}
				calls++
			}
			s++
		}
		for l := 0; l < len(sd.blob); l++ {
			run(sd.blob[:l])
		}
		mut := append([]byte{}, sd.blob...)
		for pos := range mut {
			orig := mut[pos]
			for _, x := range subst {
				if x == orig {
					continue
				}
				mut[pos] = x
				run(mut)
			}
			mut[pos] = orig
		}
		flush(m, s, s, calls)
	})
	c.Sample(map[string]any{"kind": "bytes", "input": "every prefix and every single-byte substitution of " + fmt.Sprint(len(seeds)) + " valid plain and gzip dumps", "reference": "value or error, no panic"})
	// 3f. inputs that claim a huge size (well-formed headers, tiny actual input), each in a child process
	{
		be := func(head byte, n uint64, width int) []byte {
			b := []byte{head}
			for i := width - 1; i >= 0; i-- {
				b = append(b, byte(n>>(8*uint(i))))
			}
			return b
		}
		var claims [][]byte
		mp := func(b []byte) { claims = append(claims, append([]byte{dsd.MsgPack}, b...)) }
		cb := func(b []byte) { claims = append(claims, append([]byte{dsd.CBOR}, b...)) }
		for _, n := range []uint64{1 << 20, 1<<31 - 1, 1<<32 - 1} {
			mp(be(0xdd, n, 4))                                     // array32
			mp(be(0xdf, n, 4))                                     // map32
			mp(be(0xc6, n, 4))                                     // bin32
			mp(be(0xdb, n, 4))                                     // str32
			mp(append(be(0xc9, n, 4), 0x01))                       // ext32
			mp(append([]byte{0x81, 0xa1, 'M'}, be(0xdf, n, 4)...)) // map32 as a map value (field M of the struct)
			mp(append([]byte{0x91}, be(0xdd, n, 4)...))            // array32 inside an array
			cb(be(0x5a, n, 4))                                     // byte string
			cb(be(0x9a, n, 4))                                     // array
			cb(be(0xba, n, 4))                                     // map
		}
		mp(be(0xdc, 0xffff, 2))
		mp(be(0xde, 0xffff, 2))
		for _, head := range []byte{0x5b, 0x7b, 0x9b, 0xbb} {
			cb(be(head, 1<<62, 8))
		}
		var zb bytes.Buffer
		zw, _ := gzip.NewWriterLevel(&zb, gzip.HuffmanOnly)
		n0 := len(claims)
		for i := 0; i < n0; i++ {
			claims = append(claims, gzipID(zw, &zb, claims[i]))
		}
		tgs := []string{"val", "iface", "mapiface"}
		c.Extra("claimed_size_inputs", int64(len(claims)))
		c.ParallelFor(len(claims), func(i int) {
			m := map[string]int64{}
			for _, tn := range tgs {
				h.loadBytesIsolated("Load", claims[i], tn, m)
			}
			flush(m, 1, 1, int64(len(tgs)))
		})
		c.Sample(map[string]any{"kind": "bytes", "input_hex": "4ddfffffffff", "targets": tgs, "isolated": "child process, 4 GiB address space", "reference": "MsgPack map32 header claiming 2^32-1 entries, no entries present: value or error, the process must survive"})
		fmt.Printf("phase 3f: %d claimed-size inputs x %d targets in child processes done (%.0fs)\n", len(claims), len(tgs), time.Since(h.start).Seconds())
	}
	for k, v := range total {
		c.OutcomeN("total:"+k, v)
	}
	c.NontrivialN(nNontriv)
	c.Add(nStrings, nCalls, nCalls)
	fmt.Printf("phase 3: %d byte strings, %d load calls\n", nStrings, nCalls)
}

// ---------------------------------------------------------------- replay

func (h *H) replay() {
	c := h.c
	var w Witness
	if _, err := c.LoadReplay(&w); err != nil {
		c.EngineError("replay: %v", err)
		return
	}
	t := newTally()
	fmt.Printf("replaying kind=%s value=%v format=%s header=%q input=%s target=%s (was: %s)\n", w.Kind, w.Value, w.Format, w.Header, w.Hex, w.Target, w.Path)
	switch w.Kind {
	case "roundtrip", "http":
		f, ok := fmtByName(w.Format)
		if !ok || w.Value == nil {
			c.EngineError("replay: bad witness")
			return
		}
		if w.Kind == "roundtrip" {
			h.dumpLoad(*w.Value, f, t)
		} else {
			h.httpValue(*w.Value, f, t)
		}
	case "accept":
		if w.Value == nil {
			c.EngineError("replay: bad witness")
			return
		}
		h.acceptCase(w.Header, *w.Value, t)
	case "ctype":
		f, ok := fmtByName(w.Format)
		if !ok || w.Value == nil {
			c.EngineError("replay: bad witness")
			return
		}
		h.ctypeCase(w.Header, f, *w.Value, t)
	case "bytes":
		in, err := hex.DecodeString(w.Hex)
		if err != nil {
			c.EngineError("replay: %v", err)
			return
		}
		fn := w.Path
		if fn == "" {
			fn = "Load"
		}
		h.loadBytesIsolated(fn, in, w.Target, t.out) // in a child process: the input may kill the process
		t.states, t.trans, t.evals = 1, 1, 1
	default:
		c.EngineError("replay: unknown kind %q", w.Kind)
		return
	}
	keys := make([]string, 0, len(t.out))
	for k := range t.out {
		keys = append(keys, k)
	}
	sort.Strings(keys)
	for _, k := range keys {
		fmt.Printf("  outcome %s x%d\n", k, t.out[k])
	}
	h.merge(t)
}
