// Harness schema for the GenCode format: the struct and the gencode-generated
// (github.com/andyleap/gencode) marshal/unmarshal code, copied unchanged from
// /repo/formats/dsd/gencode_test.go (schema formats/dsd/tests.gencode). This is
// "user code" in the sense of dsd.GenCodeCompatible, not part of portbase.
//
//nolint:all
package main

type GenCodeTestStruct struct {
	I8   int8
	I16  int16
	I32  int32
	I64  int64
	UI8  uint8
	UI16 uint16
	UI32 uint32
	UI64 uint64
	S    string
	Sp   *string
	Sa   []string
	Sap  *[]string
	B    byte
	Bp   *byte
	Ba   []byte
	Bap  *[]byte
}

func (d *GenCodeTestStruct) Size() (s uint64) {

	{
		l := uint64(len(d.S))

		{

			t := l
			for t >= 0x80 {
				t >>= 7
				s++
			}
			s++

		}
		s += l
	}
	{
		if d.Sp != nil {

			{
				l := uint64(len((*d.Sp)))

				{

					t := l
					for t >= 0x80 {
						t >>= 7
						s++
					}
					s++

				}
				s += l
			}
			s += 0
		}
	}
	{
		l := uint64(len(d.Sa))

		{

			t := l
			for t >= 0x80 {
				t >>= 7
				s++
			}
			s++

		}

		for k0 := range d.Sa {

			{
				l := uint64(len(d.Sa[k0]))

				{

					t := l
					for t >= 0x80 {
						t >>= 7
						s++
					}
					s++

				}
				s += l
			}

		}

	}
	{
		if d.Sap != nil {

			{
				l := uint64(len((*d.Sap)))

				{

					t := l
					for t >= 0x80 {
						t >>= 7
						s++
					}
					s++

				}

				for k0 := range *d.Sap {

					{
						l := uint64(len((*d.Sap)[k0]))

						{

							t := l
							for t >= 0x80 {
								t >>= 7
								s++
							}
							s++

						}
						s += l
					}

				}

			}
			s += 0
		}
	}
	{
		if d.Bp != nil {

			s++
		}
	}
	{
		l := uint64(len(d.Ba))

		{

			t := l
			for t >= 0x80 {
				t >>= 7
				s++
			}
			s++

		}
		s += l
	}
	{
		if d.Bap != nil {

			{
				l := uint64(len((*d.Bap)))

				{

					t := l
					for t >= 0x80 {
						t >>= 7
						s++
					}
					s++

				}
				s += l
			}
			s += 0
		}
	}
	s += 35
	return
}

func (d *GenCodeTestStruct) GenCodeMarshal(buf []byte) ([]byte, error) { //nolint:maintidx
	size := d.Size()
	{
		if uint64(cap(buf)) >= size {
			buf = buf[:size]
		} else {
			buf = make([]byte, size)
		}
	}
	i := uint64(0)

	{

		buf[0+0] = byte(d.I8 >> 0)

	}
	{

		buf[0+1] = byte(d.I16 >> 0)

		buf[1+1] = byte(d.I16 >> 8)

	}
	{

		buf[0+3] = byte(d.I32 >> 0)

		buf[1+3] = byte(d.I32 >> 8)

		buf[2+3] = byte(d.I32 >> 16)

		buf[3+3] = byte(d.I32 >> 24)

	}
	{

		buf[0+7] = byte(d.I64 >> 0)

		buf[1+7] = byte(d.I64 >> 8)

		buf[2+7] = byte(d.I64 >> 16)

		buf[3+7] = byte(d.I64 >> 24)

		buf[4+7] = byte(d.I64 >> 32)

		buf[5+7] = byte(d.I64 >> 40)

		buf[6+7] = byte(d.I64 >> 48)

		buf[7+7] = byte(d.I64 >> 56)

	}
	{

		buf[0+15] = byte(d.UI8 >> 0)

	}
	{

		buf[0+16] = byte(d.UI16 >> 0)

		buf[1+16] = byte(d.UI16 >> 8)

	}
	{

		buf[0+18] = byte(d.UI32 >> 0)

		buf[1+18] = byte(d.UI32 >> 8)

		buf[2+18] = byte(d.UI32 >> 16)

		buf[3+18] = byte(d.UI32 >> 24)

	}
	{

		buf[0+22] = byte(d.UI64 >> 0)

		buf[1+22] = byte(d.UI64 >> 8)

		buf[2+22] = byte(d.UI64 >> 16)

		buf[3+22] = byte(d.UI64 >> 24)

		buf[4+22] = byte(d.UI64 >> 32)

		buf[5+22] = byte(d.UI64 >> 40)

		buf[6+22] = byte(d.UI64 >> 48)

		buf[7+22] = byte(d.UI64 >> 56)

	}
	{
		l := uint64(len(d.S))

		{

			t := uint64(l)

			for t >= 0x80 {
				buf[i+30] = byte(t) | 0x80
				t >>= 7
				i++
			}
			buf[i+30] = byte(t)
			i++

		}
		copy(buf[i+30:], d.S)
		i += l
	}
	{
		if d.Sp == nil {
			buf[i+30] = 0
		} else {
			buf[i+30] = 1

			{
				l := uint64(len((*d.Sp)))

				{

					t := uint64(l)

					for t >= 0x80 {
						buf[i+31] = byte(t) | 0x80
						t >>= 7
						i++
					}
					buf[i+31] = byte(t)
					i++

				}
				copy(buf[i+31:], (*d.Sp))
				i += l
			}
			i += 0
		}
	}
	{
		l := uint64(len(d.Sa))

		{

			t := uint64(l)

			for t >= 0x80 {
				buf[i+31] = byte(t) | 0x80
				t >>= 7
				i++
			}
			buf[i+31] = byte(t)
			i++

		}
		for k0 := range d.Sa {

			{
				l := uint64(len(d.Sa[k0]))

				{

					t := uint64(l)

					for t >= 0x80 {
						buf[i+31] = byte(t) | 0x80
						t >>= 7
						i++
					}
					buf[i+31] = byte(t)
					i++

				}
				copy(buf[i+31:], d.Sa[k0])
				i += l
			}

		}
	}
	{
		if d.Sap == nil {
			buf[i+31] = 0
		} else {
			buf[i+31] = 1

			{
				l := uint64(len((*d.Sap)))

				{

					t := uint64(l)

					for t >= 0x80 {
						buf[i+32] = byte(t) | 0x80
						t >>= 7
						i++
					}
					buf[i+32] = byte(t)
					i++

				}
				for k0 := range *d.Sap {

					{
						l := uint64(len((*d.Sap)[k0]))

						{

							t := uint64(l)

							for t >= 0x80 {
								buf[i+32] = byte(t) | 0x80
								t >>= 7
								i++
							}
							buf[i+32] = byte(t)
							i++

						}
						copy(buf[i+32:], (*d.Sap)[k0])
						i += l
					}

				}
			}
			i += 0
		}
	}
	{
		buf[i+32] = d.B
	}
	{
		if d.Bp == nil {
			buf[i+33] = 0
		} else {
			buf[i+33] = 1

			{
				buf[i+34] = (*d.Bp)
			}
			i++
		}
	}
	{
		l := uint64(len(d.Ba))

		{

			t := uint64(l)

			for t >= 0x80 {
				buf[i+34] = byte(t) | 0x80
				t >>= 7
				i++
			}
			buf[i+34] = byte(t)
			i++

		}
		copy(buf[i+34:], d.Ba)
		i += l
	}
	{
		if d.Bap == nil {
			buf[i+34] = 0
		} else {
			buf[i+34] = 1

			{
				l := uint64(len((*d.Bap)))

				{

					t := uint64(l)

					for t >= 0x80 {
						buf[i+35] = byte(t) | 0x80
						t >>= 7
						i++
					}
					buf[i+35] = byte(t)
					i++

				}
				copy(buf[i+35:], (*d.Bap))
				i += l
			}
			i += 0
		}
	}
	return buf[:i+35], nil
}

func (d *GenCodeTestStruct) GenCodeUnmarshal(buf []byte) (uint64, error) { //nolint:maintidx
	i := uint64(0)

	{

		d.I8 = 0 | (int8(buf[i+0+0]) << 0)

	}
	{

		d.I16 = 0 | (int16(buf[i+0+1]) << 0) | (int16(buf[i+1+1]) << 8)

	}
	{

		d.I32 = 0 | (int32(buf[i+0+3]) << 0) | (int32(buf[i+1+3]) << 8) | (int32(buf[i+2+3]) << 16) | (int32(buf[i+3+3]) << 24)

	}
	{

		d.I64 = 0 | (int64(buf[i+0+7]) << 0) | (int64(buf[i+1+7]) << 8) | (int64(buf[i+2+7]) << 16) | (int64(buf[i+3+7]) << 24) | (int64(buf[i+4+7]) << 32) | (int64(buf[i+5+7]) << 40) | (int64(buf[i+6+7]) << 48) | (int64(buf[i+7+7]) << 56)

	}
	{

		d.UI8 = 0 | (uint8(buf[i+0+15]) << 0)

	}
	{

		d.UI16 = 0 | (uint16(buf[i+0+16]) << 0) | (uint16(buf[i+1+16]) << 8)

	}
	{

		d.UI32 = 0 | (uint32(buf[i+0+18]) << 0) | (uint32(buf[i+1+18]) << 8) | (uint32(buf[i+2+18]) << 16) | (uint32(buf[i+3+18]) << 24)

	}
	{

		d.UI64 = 0 | (uint64(buf[i+0+22]) << 0) | (uint64(buf[i+1+22]) << 8) | (uint64(buf[i+2+22]) << 16) | (uint64(buf[i+3+22]) << 24) | (uint64(buf[i+4+22]) << 32) | (uint64(buf[i+5+22]) << 40) | (uint64(buf[i+6+22]) << 48) | (uint64(buf[i+7+22]) << 56)

	}
	{
		l := uint64(0)

		{

			bs := uint8(7)
			t := uint64(buf[i+30] & 0x7F)
			for buf[i+30]&0x80 == 0x80 {
				i++
				t |= uint64(buf[i+30]&0x7F) << bs
				bs += 7
			}
			i++

			l = t

		}
		d.S = string(buf[i+30 : i+30+l])
		i += l
	}
	{
		if buf[i+30] == 1 {
			if d.Sp == nil {
				d.Sp = new(string)
			}

			{
				l := uint64(0)

				{

					bs := uint8(7)
					t := uint64(buf[i+31] & 0x7F)
					for buf[i+31]&0x80 == 0x80 {
						i++
						t |= uint64(buf[i+31]&0x7F) << bs
						bs += 7
					}
					i++

					l = t

				}
				(*d.Sp) = string(buf[i+31 : i+31+l])
				i += l
			}
			i += 0
		} else {
			d.Sp = nil
		}
	}
	{
		l := uint64(0)

		{

			bs := uint8(7)
			t := uint64(buf[i+31] & 0x7F)
			for buf[i+31]&0x80 == 0x80 {
				i++
				t |= uint64(buf[i+31]&0x7F) << bs
				bs += 7
			}
			i++

			l = t

		}
		if uint64(cap(d.Sa)) >= l {
			d.Sa = d.Sa[:l]
		} else {
			d.Sa = make([]string, l)
		}
		for k0 := range d.Sa {

			{
				l := uint64(0)

				{

					bs := uint8(7)
					t := uint64(buf[i+31] & 0x7F)
					for buf[i+31]&0x80 == 0x80 {
						i++
						t |= uint64(buf[i+31]&0x7F) << bs
						bs += 7
					}
					i++

					l = t

				}
				d.Sa[k0] = string(buf[i+31 : i+31+l])
				i += l
			}

		}
	}
	{
		if buf[i+31] == 1 {
			if d.Sap == nil {
				d.Sap = new([]string)
			}

			{
				l := uint64(0)

				{

					bs := uint8(7)
					t := uint64(buf[i+32] & 0x7F)
					for buf[i+32]&0x80 == 0x80 {
						i++
						t |= uint64(buf[i+32]&0x7F) << bs
						bs += 7
					}
					i++

					l = t

				}
				if uint64(cap((*d.Sap))) >= l {
					(*d.Sap) = (*d.Sap)[:l]
				} else {
					(*d.Sap) = make([]string, l)
				}
				for k0 := range *d.Sap {

					{
						l := uint64(0)

						{

							bs := uint8(7)
							t := uint64(buf[i+32] & 0x7F)
							for buf[i+32]&0x80 == 0x80 {
								i++
								t |= uint64(buf[i+32]&0x7F) << bs
								bs += 7
							}
							i++

							l = t

						}
						(*d.Sap)[k0] = string(buf[i+32 : i+32+l])
						i += l
					}

				}
			}
			i += 0
		} else {
			d.Sap = nil
		}
	}
	{
		d.B = buf[i+32]
	}
	{
		if buf[i+33] == 1 {
			if d.Bp == nil {
				d.Bp = new(byte)
			}

			{
				(*d.Bp) = buf[i+34]
			}
			i++
		} else {
			d.Bp = nil
		}
	}
	{
		l := uint64(0)

		{

			bs := uint8(7)
			t := uint64(buf[i+34] & 0x7F)
			for buf[i+34]&0x80 == 0x80 {
				i++
				t |= uint64(buf[i+34]&0x7F) << bs
				bs += 7
			}
			i++

			l = t

		}
		if uint64(cap(d.Ba)) >= l {
			d.Ba = d.Ba[:l]
		} else {
			d.Ba = make([]byte, l)
		}
		copy(d.Ba, buf[i+34:])
		i += l
	}
	{
		if buf[i+34] == 1 {
			if d.Bap == nil {
				d.Bap = new([]byte)
			}

			{
				l := uint64(0)

				{

					bs := uint8(7)
					t := uint64(buf[i+35] & 0x7F)
					for buf[i+35]&0x80 == 0x80 {
						i++
						t |= uint64(buf[i+35]&0x7F) << bs
						bs += 7
					}
					i++

					l = t

				}
				if uint64(cap((*d.Bap))) >= l {
					(*d.Bap) = (*d.Bap)[:l]
				} else {
					(*d.Bap) = make([]byte, l)
				}
				copy((*d.Bap), buf[i+35:])
				i += l
			}
			i += 0
		} else {
			d.Bap = nil
		}
	}
	return i + 35, nil
}
