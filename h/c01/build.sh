#!/bin/bash
exec /verif/h/smod/build.sh c01 "$1"
