// C01: modules start after their dependencies, stop before them, and all get stopped (engine S).
package main

import (
	"fmt"

	"github.com/safing/portbase/modules"

	"verif/slib"
	"verif/vlib"
)

// graphs returns all dependency graphs on n nodes with edges i->j (i depends on j), j < i.
func graphs(n int) [][][2]int {
	var pairs [][2]int
	for i := 1; i < n; i++ {
		for j := 0; j < i; j++ {
			pairs = append(pairs, [2]int{i, j})
		}
	}
	var out [][][2]int
	for mask := 0; mask < 1<<len(pairs); mask++ {
		var g [][2]int
		for k, p := range pairs {
			if mask&(1<<k) != 0 {
				g = append(g, p)
			}
		}
		out = append(out, g)
	}
	return out
}

func scenarios(c *vlib.Ctx) []*slib.Scn {
	var out []*slib.Scn
	add := func(p modules.C01Params, bound int) {
		fam := "c01/plain"
		if p.Fault != "" {
			fam = "c01/fault"
		}
		if p.Mgmt {
			fam = "c01/mgmt"
		}
		out = append(out, &slib.Scn{Scenario: modules.VerifC01(p), Family: fam, Bound: bound})
		// the same driver under the second default scheduler (youngest thread first)
		hb := bound
		sc := modules.VerifC01(p)
		sc.Name += "/sched=high"
		sc.HighFirst = true
		out = append(out, &slib.Scn{Scenario: sc, Family: fam, Bound: hb})
	}
	maxN := vlib.Pick(c, 3, 3)
	for n := 1; n <= maxN; n++ {
		b := vlib.Pick(c, 2, 3)
		if n == 3 {
			b = vlib.Pick(c, 1, 2)
		}
		for _, g := range graphs(n) {
			// no fault
			add(modules.C01Params{N: n, Deps: g, Pts: 1}, b)
			if len(g) > 0 {
				// modules with a worker that winds down after cancellation
				add(modules.C01Params{N: n, Deps: g, Pts: 1, Work: true}, b)
			}
			// exactly one faulty callback
			for m := 0; m < n; m++ {
				for _, ph := range []string{"prep", "start", "stop"} {
					for _, kind := range []string{"err", "panic"} {
						add(modules.C01Params{N: n, Deps: g, Fault: fmt.Sprintf("%d:%s:%s", m, ph, kind), Pts: 0}, b)
					}
				}
			}
			// two faulty callbacks in different modules (same phase, and start+stop)
			if n >= 2 {
				for m1 := 0; m1 < n; m1++ {
					for m2 := m1 + 1; m2 < n; m2++ {
						for _, f := range [][2]string{{"start:err", "start:err"}, {"start:err", "start:panic"}, {"prep:err", "prep:err"}, {"stop:err", "stop:err"}, {"stop:panic", "stop:err"}, {"start:err", "stop:err"}, {"stop:err", "start:err"}} {
							add(modules.C01Params{N: n, Deps: g, Fault: fmt.Sprintf("%d:%s+%d:%s", m1, f[0], m2, f[1]), Pts: 0}, vlib.Pick(c, 1, 2))
						}
					}
				}
			}
			// module management: every initial enabled set, one further round with every enabled set
			if n <= 2 || len(g) >= 1 {
				for s1 := 0; s1 < 1<<n; s1++ {
					add(modules.C01Params{N: n, Deps: g, Mgmt: true, Rounds: []int{s1}}, b)
					for s2 := 0; s2 < 1<<n; s2++ {
						if s2 != s1 {
							add(modules.C01Params{N: n, Deps: g, Mgmt: true, Rounds: []int{s1, s2}}, vlib.Pick(c, 1, 2))
						}
					}
				}
			}
		}
	}
	// management with a faulty start/stop on the two-module chain
	for _, f := range []string{"1:start:err", "0:start:panic", "1:stop:err", "0:stop:panic"} {
		add(modules.C01Params{N: 2, Deps: [][2]int{{1, 0}}, Mgmt: true, Rounds: []int{2, 0, 2}, Fault: f}, 1)
	}
	// a prep/start routine that fails with an error wrapping context.Canceled
	for n := 2; n <= 3; n++ {
		for _, g := range graphs(n) {
			if len(g) == 0 {
				continue
			}
			for m := 0; m < n; m++ {
				for _, ph := range []string{"prep", "start"} {
					add(modules.C01Params{N: n, Deps: g, Fault: fmt.Sprintf("%d:%s:cancelerr", m, ph), Pts: 0}, 1)
				}
			}
		}
	}
	// two overlapping management passes
	for _, g := range [][][2]int{nil, {{1, 0}}} {
		for s1 := 0; s1 < 4; s1++ {
			for s2 := 0; s2 < 4; s2++ {
				if s1 != s2 {
					add(modules.C01Params{N: 2, Deps: g, Mgmt: true, Rounds: []int{3, s1, s2}, Overlap: true}, vlib.Pick(c, 1, 2))
					add(modules.C01Params{N: 2, Deps: g, Mgmt: true, Rounds: []int{0, s1, s2}, Overlap: true}, vlib.Pick(c, 1, 2))
				}
			}
		}
	}
	// a module that is enabled later fails to prep/start during the management pass (Start itself succeeded without it)
	for _, g := range [][][2]int{nil, {{1, 0}}} {
		for _, f := range []string{"1:start:err", "1:start:panic", "1:prep:err", "1:prep:panic"} {
			add(modules.C01Params{N: 2, Deps: g, Mgmt: true, Rounds: []int{1, 3}, Fault: f}, 1)
			add(modules.C01Params{N: 2, Deps: g, Mgmt: true, Rounds: []int{1, 3, 1}, Fault: f}, 1)
			// the failed pass is simply run again (nothing enabled or disabled in between): nil only if everything wanted is online
			add(modules.C01Params{N: 2, Deps: g, Mgmt: true, Rounds: []int{1, 3, 3}, Fault: f}, 1)
		}
	}
	for _, f := range []string{"2:start:err", "1:start:err", "2:start:panic"} {
		add(modules.C01Params{N: 3, Deps: [][2]int{{2, 1}, {1, 0}}, Mgmt: true, Rounds: []int{1, 4}, Fault: f}, 1)
	}
	return out
}

func main() {
	vlib.Main("C01", "model_checking", func(c *vlib.Ctx) {
		c.Rule("stateless exploration of all interleavings within a deviation bound of the real modules+log packages (source-instrumented); " +
			"scenarios = all dependency graphs on <=3 modules x {no fault, one prep/start/stop callback returning an error or panicking, two faulty callbacks in different modules, a failure whose error wraps context.Canceled} and x module-management histories (every initial enabled set, one further round with every other set) ; history = Start [-> ManageModules rounds] -> Shutdown; " +
			"distinct_nontrivial = distinct observation traces (callback begin/end order) per scenario")
		c.Assume("sequential consistency; data-race freedom outside the instrumented synchronisation operations; map iteration order over the module registry is fixed ascending (descending in thorough)")
		slib.Run(c, scenarios(c), slib.Opts{})
	})
}
