// C07: tasks - no self-overlap, no early or cancelled runs, queue order, nothing lost (engine S).
package main

import (
	"fmt"

	"github.com/safing/portbase/modules"

	"verif/slib"
	"verif/vlib"
)

var ops = []string{"q", "p", "a", "s5", "s100", "sz", "m", "c"}

func seqs(symbols []string, maxLen int) [][]string {
	out := [][]string{}
	var rec func(cur []string)
	rec = func(cur []string) {
		if len(cur) > 0 {
			out = append(out, append([]string{}, cur...))
		}
		if len(cur) == maxLen {
			return
		}
		for _, s := range symbols {
			rec(append(cur, s))
		}
	}
	rec(nil)
	return out
}

func scenarios(c *vlib.Ctx) []*slib.Scn {
	var out []*slib.Scn
	var add func(fam string, p modules.C07Params, bound int)
	add = func(fam string, p modules.C07Params, bound int) {
		if fam == "serial" && !p.Late {
			// the same driver, exploring also the interleavings at the moments the deadlines expire (clock advance phase)
			q := p
			q.Late = true
			add(fam, q, vlib.Pick(c, 1, 2))
		}
		out = append(out, &slib.Scn{Scenario: modules.VerifC07(p), Family: "c07/" + fam, Bound: bound})
		// the same driver under the second default scheduler (youngest thread first)
		sc := modules.VerifC07(p)
		sc.Name += "/sched=high"
		sc.HighFirst = true
		out = append(out, &slib.Scn{Scenario: sc, Family: "c07/" + fam, Bound: bound})
	}
	var t1 []string
	for _, o := range ops {
		t1 = append(t1, o+"1")
	}
	var t12 []string
	for _, o := range append(append([]string{}, ops...), "md") { // incl. MaxDelay(10s)
		t12 = append(t12, o+"1", o+"2")
	}
	b := vlib.Pick(c, 2, 3)
	// one submitter: every sequence of <= 2 calls on two tasks, <= 3 calls on task 1
	for _, sq := range seqs(t12, 2) {
		add("one-submitter", modules.C07Params{Scripts: [][]string{sq}, Tasks: 2, Body: "plain"}, b)
	}
	for _, sq := range seqs(t1, 3) {
		if len(sq) == 3 {
			add("one-submitter", modules.C07Params{Scripts: [][]string{sq}, Tasks: 1, Body: "plain"}, vlib.Pick(c, 1, 2))
			// the same three calls, the last one after everything submitted before has been processed
			add("one-submitter-idle", modules.C07Params{Scripts: [][]string{{sq[0], sq[1], "w", sq[2]}}, Tasks: 1, Body: "plain"}, vlib.Pick(c, 1, 2))
		}
	}
	// without the maximum-delay fallback (MaxDelay(0)): queueing calls before and after a run of the task
	for _, x := range []string{"q1", "p1", "a1"} {
		for _, y := range []string{"q1", "p1", "a1"} {
			for _, z := range []string{"q1", "p1", "a1"} {
				add("no-max-delay", modules.C07Params{Scripts: [][]string{{"m1", x, y, "w", z}}, Tasks: 1, Body: "plain"}, vlib.Pick(c, 1, 2))
				add("no-max-delay", modules.C07Params{Scripts: [][]string{{"m1", x, "w", y, z}}, Tasks: 1, Body: "plain"}, vlib.Pick(c, 1, 2))
			}
		}
	}
	// one after the other: task 2 runs for two virtual minutes; task 1, which may have run before, is submitted again meanwhile
	for _, first := range []string{"q1", "p1", "a1", "s51", ""} {
		for _, again := range []string{"s51", "q1", "p1", "a1"} {
			sq := []string{"q2", "w", again}
			if first != "" {
				sq = []string{first, "w", "q2", "w", again}
			}
			add("serial", modules.C07Params{Scripts: [][]string{sq}, Tasks: 2, Body: "long2", Serial: true}, vlib.Pick(c, 1, 2))
		}
	}
	// a short maximum delay on the long-running task 2: its deadline passes while it runs and another task waits
	for _, x := range []string{"q2", "p2", "a2"} {
		for _, y := range []string{"q1", "p1", "a1", "s51"} {
			add("serial", modules.C07Params{Scripts: [][]string{{"md2", x, "w", y}}, Tasks: 2, Body: "long2", Serial: true}, vlib.Pick(c, 2, 3))
			add("serial", modules.C07Params{Scripts: [][]string{{"md1", x, "w", y}}, Tasks: 2, Body: "long2", Serial: true}, vlib.Pick(c, 2, 3))
		}
	}
	// both tasks wait behind a blocker (no call re-arms the schedule handler's timer after task 2 was started from the queue)
	for _, x := range []string{"q2", "p2", "a2"} {
		for _, y := range []string{"q1", "p1", "a1"} {
			add("serial", modules.C07Params{Scripts: [][]string{{"md2", x, y}}, Tasks: 2, Body: "long2", Serial: true, Blocker: true}, vlib.Pick(c, 2, 3))
			add("serial", modules.C07Params{Scripts: [][]string{{"md1", x, y}}, Tasks: 2, Body: "long2", Serial: true, Blocker: true}, vlib.Pick(c, 2, 3))
		}
	}
	// a timer comes due while the caller is about to make its next call on the same task (the handler races with the call)
	for _, first := range []string{"s51", "q1"} {
		for _, next := range []string{"s51", "s1001", "q1", "p1", "a1", "c1", "sz1", "m1"} {
			add("racing-timer", modules.C07Params{Scripts: [][]string{{first, "r5", next}}, Tasks: 1, Body: "plain"}, vlib.Pick(c, 2, 3))
		}
	}
	// schedule / cancel on two tasks: every sequence of three calls (a cancelled entry must not hold up the schedule)
	for _, sq := range seqs([]string{"s51", "s1001", "c1", "s52", "s1002", "c2"}, 3) {
		if len(sq) == 3 {
			add("schedule-cancel", modules.C07Params{Scripts: [][]string{sq}, Tasks: 2, Body: "plain"}, vlib.Pick(c, 1, 1))
		}
	}
	// other task bodies
	for _, body := range []string{"requeue", "requeue-wait", "long"} {
		for _, sq := range seqs(t1, 2) {
			add("body-"+body, modules.C07Params{Scripts: [][]string{sq}, Tasks: 1, Body: body}, b)
		}
	}
	// two submitters colliding on task 1: <= 2 calls against 1 call
	for _, sa := range seqs(t1, 2) {
		for _, ob := range ops {
			add("two-submitters", modules.C07Params{Scripts: [][]string{sa, {ob + "1"}}, Tasks: 1, Body: "plain"}, vlib.Pick(c, 1, 2))
		}
	}
	if !c.Quick() {
		for _, sa := range seqs(t1, 1) {
			for _, sb := range seqs(t1, 1) {
				add("two-submitters-long", modules.C07Params{Scripts: [][]string{sa, sb}, Tasks: 1, Body: "long"}, 2)
			}
		}
	}
	// queue order behind a blocker: every sequence of 3 queueing calls over three tasks
	var q3 []string
	for _, o := range []string{"q", "p", "a"} {
		for t := 1; t <= 3; t++ {
			q3 = append(q3, fmt.Sprintf("%s%d", o, t))
		}
	}
	for _, sq := range seqs(q3, 3) {
		if len(sq) >= 2 {
			add("order", modules.C07Params{Scripts: [][]string{sq}, Tasks: 3, Body: "plain", Blocker: true}, vlib.Pick(c, 0, 1))
		}
	}
	return out
}

func main() {
	vlib.Main("C07", "model_checking", func(c *vlib.Ctx) {
		c.Rule("stateless exploration of all interleavings within a deviation bound of the real modules package (source-instrumented, queue handler, schedule handler and microtask scheduler run as threads, virtual clock): " +
			"every sequence of <= 2 task API calls (Queue, QueuePrioritized, StartASAP, Schedule +5s/+100s/zero, MaxDelay(0), Cancel; MaxDelay(10s) in the serial family) on two tasks and <= 3 on one task by one submitter, two submitters colliding on one task, self-requeueing and long-running bodies, a task submitted again while another one runs (one after the other; these drivers are also explored during the clock-advance phase, i.e. at the moments the deadlines expire), a timer that comes due while the caller makes its next call, every 3-call schedule/cancel sequence over two tasks, and every sequence of 2-3 queueing calls over three tasks behind a blocker task (order clause); horizon 10 virtual minutes; " +
			"distinct_nontrivial = distinct observation traces (task begin/end order and virtual times) per scenario")
		c.Assume("sequential consistency; the unlocked accesses flagged by the authors in executeWithLocking are not separate scheduling points; a submission call concurrent with Cancel or Schedule(zero) may or may not take effect")
		slib.Run(c, scenarios(c), slib.Opts{})
	})
}
