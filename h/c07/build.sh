#!/bin/bash
exec /verif/h/smod/build.sh c07 "$1"
