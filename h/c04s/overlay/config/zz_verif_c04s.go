//go:build verif

package config

import (
	"fmt"
	"os"
	"path/filepath"
	"strings"
	"sync"

	"github.com/safing/portbase/log"
	"github.com/safing/portbase/modules"
	"github.com/safing/portbase/zzverif/vsched"
)

// C04SParams: one setter against getter refreshes in other goroutines.
type C04SParams struct {
	Setter  string // two-setters (two goroutines set the same option with persistence configured; afterwards the file must hold the value in memory), set2 (SetConfigOption v1 then v2), setdefault, replace (ReplaceConfig of two options), release (user value of a beta option becomes visible by a release level change), unset (set then nil)
	Safe    int    // goroutines sharing ONE Concurrent getter closure, each calling it twice
	Plain   bool   // one goroutine with its own plain getter closure, calling it twice
	Created string // getter closures created "before" the first set or "between" (after the first set returned)
}

func (p C04SParams) Name() string {
	return fmt.Sprintf("c04s/setter=%s/safe=%d/plain=%v/created=%s", p.Setter, p.Safe, p.Plain, p.Created)
}

type c04call struct {
	who        string
	start, end int
	val        int64
}

type c04set struct {
	start, end int
	val        int64 // value of the observed option after this operation
}

type c04state struct {
	seq    int
	sets   []c04set
	calls  []c04call
	issues []vsched.Issue
}

var c04s *c04state

func c04fail(clause, disc, format string, a ...interface{}) {
	for _, is := range c04s.issues {
		if is.Clause == clause && is.Disc == disc {
			return
		}
	}
	c04s.issues = append(c04s.issues, vsched.Issue{Clause: clause, Disc: disc, Detail: fmt.Sprintf(format, a...)})
}

type c04null struct{}

func (c04null) Write(log.Message, uint64) {}

// VerifC04S builds the scenario.
func VerifC04S(p C04SParams) *vsched.Scenario {
	sc := &vsched.Scenario{Name: p.Name(), MaxSteps: 60000}
	sc.Reset = func() {
		log.VerifReset()
		modules.VerifReset()
		VerifReset()
		log.SetAdapter(c04null{})
		modules.SetStdErrReporting(false)
		c04s = &c04state{}
	}
	sc.Body = func() {
		s := c04s
		const key, key2 = "c04/a", "c04/b"
		rl := ReleaseLevelStable
		if p.Setter == "release" {
			rl = ReleaseLevelBeta
		}
		must := func(err error) {
			if err != nil {
				c04fail("harness", "setup", "%v", err)
			}
		}
		must(registerBasicOptions())
		must(Register(&Option{Name: "a", Key: key, Description: "a", OptType: OptTypeInt, DefaultValue: 1, ReleaseLevel: rl}))
		must(Register(&Option{Name: "b", Key: key2, Description: "b", OptType: OptTypeInt, DefaultValue: 1}))
		if p.Setter == "release" {
			must(SetConfigOption(key, 5)) // hidden while the release level is stable
		}
		if len(s.issues) > 0 {
			return
		}
		// the value every getter must see initially
		initial := int64(1)
		type step struct {
			val int64
			do  func() error
		}
		var steps []step
		switch p.Setter {
		case "set2":
			steps = []step{{2, func() error { return SetConfigOption(key, 2) }}, {3, func() error { return SetConfigOption(key, 3) }}}
		case "setdefault":
			steps = []step{{2, func() error { return SetDefaultConfigOption(key, 2) }}, {3, func() error { return SetConfigOption(key, 3) }}}
		case "unset":
			steps = []step{{2, func() error { return SetConfigOption(key, 2) }}, {1, func() error { return SetConfigOption(key, nil) }}}
		case "replace":
			steps = []step{{2, func() error {
				errs, _ := ReplaceConfig(map[string]interface{}{key2: 7, key: 2})
				if len(errs) > 0 {
					return errs[0]
				}
				return nil
			}}, {3, func() error {
				errs, _ := ReplaceConfig(map[string]interface{}{key: 3, key2: 8})
				if len(errs) > 0 {
					return errs[0]
				}
				return nil
			}}}
		case "two-setters":
		case "release":
			steps = []step{{5, func() error { return SetConfigOption(releaseLevelKey, ReleaseLevelNameBeta) }}, {1, func() error { return SetConfigOption(releaseLevelKey, ReleaseLevelNameStable) }}}
		default:
			panic("unknown setter " + p.Setter)
		}
		if p.Setter == "two-setters" {
			c04twoSetters(s, key)
			return
		}
		var safeGet, plainGet IntOption
		mk := func() {
			safeGet = Concurrent.GetAsInt(key, -1)
			plainGet = GetAsInt(key, -1)
		}
		doStep := func(st step) {
			s.seq++
			e := c04set{start: s.seq, val: st.val}
			vsched.Emit(fmt.Sprintf("set-call:%d", st.val))
			if err := st.do(); err != nil {
				c04fail("harness", "set-failed", "%v", err)
			}
			s.seq++
			e.end = s.seq
			vsched.Emit(fmt.Sprintf("set-ret:%d", st.val))
			s.sets = append(s.sets, e)
		}
		if p.Created == "before" {
			mk()
		}
		vsched.Explore(true)
		var wg sync.WaitGroup
		first := make(chan struct{})
		wg.Add(1)
		go func() {
			defer wg.Done()
			doStep(steps[0])
			close(first)
			vsched.Point("between-sets")
			doStep(steps[1])
		}()
		if p.Created == "between" {
			<-first
			mk()
		}
		call := func(who string, g IntOption) {
			vsched.Point("get")
			s.seq++
			c := c04call{who: who, start: s.seq}
			v := g()
			s.seq++
			c.end, c.val = s.seq, v
			vsched.Emit(fmt.Sprintf("get:%s=%d", who, v))
			s.calls = append(s.calls, c)
		}
		for i := 0; i < p.Safe; i++ {
			i := i
			wg.Add(1)
			go func() {
				defer wg.Done()
				call(fmt.Sprintf("safe%d", i), safeGet)
				call(fmt.Sprintf("safe%d", i), safeGet)
			}()
		}
		if p.Plain {
			wg.Add(1)
			go func() {
				defer wg.Done()
				call("plain", plainGet)
				call("plain", plainGet)
			}()
		}
		wg.Wait()
		vsched.Explore(false)
		// getters created now and called now see the final value
		s.seq++
		after := c04call{who: "after", start: s.seq, val: Concurrent.GetAsInt(key, -1)()}
		s.seq++
		after.end = s.seq
		s.calls = append(s.calls, after)
		for _, old := range []struct {
			who string
			g   IntOption
		}{{"safe-final", safeGet}, {"plain-final", plainGet}} {
			s.seq++
			c := c04call{who: old.who, start: s.seq, val: old.g()}
			s.seq++
			c.end = s.seq
			s.calls = append(s.calls, c)
		}
		c04judge(s, initial)
	}
	sc.Check = func(r *vsched.Result) []vsched.Issue {
		var out []vsched.Issue
		if c04s != nil {
			out = append(out, c04s.issues...)
		}
		if r.Panic != "" {
			out = append(out, vsched.Issue{Clause: "no-uncontained-panic", Disc: r.PanicThread, Detail: r.Panic})
		}
		if r.Deadlock {
			out = append(out, vsched.Issue{Clause: "no-deadlock", Disc: "deadlock", Detail: "blocked: " + strings.Join(r.Blocked, " | ")})
		}
		return out
	}
	return sc
}

// c04judge: register semantics. A getter call that begins after a set returned observes that set's value
// or a later one; no call returns a value that was never current.
func c04judge(s *c04state, initial int64) {
	desc := func() string {
		var sb strings.Builder
		for _, e := range s.sets {
			fmt.Fprintf(&sb, "set(%d)[%d..%d] ", e.val, e.start, e.end)
		}
		for _, c := range s.calls {
			fmt.Fprintf(&sb, "%s=%d[%d..%d] ", c.who, c.val, c.start, c.end)
		}
		return sb.String()
	}
	for _, c := range s.calls {
		// allowed values: the value of the last set that returned before the call began (or the initial value),
		// and the value of every set that began before the call ended and did not return before... (any later set that has begun)
		allowed := map[int64]bool{}
		base := initial
		baseIdx := -1
		for i, e := range s.sets {
			if e.end < c.start {
				base, baseIdx = e.val, i
			}
		}
		allowed[base] = true
		for i, e := range s.sets {
			if i > baseIdx && e.start < c.end {
				allowed[e.val] = true
			}
		}
		if !allowed[c.val] {
			cls := "stale-value"
			known := c.val == initial
			for _, e := range s.sets {
				if e.val == c.val {
					known = true
				}
			}
			if !known {
				cls = "value-never-current"
			}
			c04fail("getter-observes-completed-set", cls+"/"+strings.TrimRight(c.who, "0123456789"), "getter call %s returned %d; allowed at that moment: %v\n%s", c.who, c.val, allowed, desc())
		}
	}
}

var c04dir string

// c04twoSetters: two goroutines set the same option while persistence is configured. When both have returned, the
// configuration file holds exactly the user values that are in memory (loading it again restores the same values).
func c04twoSetters(s *c04state, key string) {
	if c04dir == "" {
		base := "/dev/shm"
		if _, err := os.Stat(base); err != nil {
			base = os.TempDir()
		}
		d, err := os.MkdirTemp(base, "verif-c04s-")
		if err != nil {
			c04fail("harness", "tmpdir", "%v", err)
			return
		}
		c04dir = d
	}
	configFilePath = filepath.Join(c04dir, "config.json")
	_ = os.Remove(configFilePath)
	vsched.Explore(true)
	var wg sync.WaitGroup
	for _, v := range []int{2, 3} {
		v := v
		wg.Add(1)
		go func() {
			defer wg.Done()
			vsched.Point("set")
			vsched.Emit(fmt.Sprintf("set-call:%d", v))
			if err := SetConfigOption(key, v); err != nil {
				c04fail("harness", "set-failed", "%v", err)
			}
			vsched.Emit(fmt.Sprintf("set-ret:%d", v))
		}()
	}
	wg.Wait()
	vsched.Explore(false)
	mem := Concurrent.GetAsInt(key, -1)()
	if mem != 2 && mem != 3 {
		c04fail("getter-observes-completed-set", "value-never-current/after", "after SetConfigOption(2) and SetConfigOption(3) returned the getter returns %d", mem)
	}
	data, err := os.ReadFile(configFilePath)
	if err != nil {
		c04fail("save-load-restores-user-values", "file-missing", "both setters returned, reading the configuration file: %v", err)
		return
	}
	vals, err := JSONToMap(data)
	if err != nil {
		c04fail("save-load-restores-user-values", "file-unparsable", "configuration file %q: %v", data, err)
		return
	}
	fv, ok := vals[key].(float64)
	if !ok || int64(fv) != mem {
		c04fail("save-load-restores-user-values", "file-differs-from-memory", "both setters returned: the user value in memory is %d, the configuration file holds %v (file: %s)", mem, vals[key], strings.Join(strings.Fields(string(data)), " "))
	}
	vsched.Emit(fmt.Sprintf("final:%d", mem))
}

// VerifC04SCleanup removes the scratch directory.
func VerifC04SCleanup() {
	if c04dir != "" {
		_ = os.RemoveAll(c04dir)
	}
}
