// C04, schedule clause: every getter call that begins after a set returned observes the new state (engine S on package config).
package main

import (
	"github.com/safing/portbase/config"

	"verif/slib"
	"verif/vlib"
)

func main() {
	vlib.Main("C04", "model_checking", func(c *vlib.Ctx) {
		c.Rule("engine S part: one setter thread (two consecutive operations: SetConfigOption / SetDefaultConfigOption / unset / ReplaceConfig of two options / release level change) against 1-2 goroutines sharing one Concurrent getter closure and one goroutine with a plain getter, two calls each, getter closures created before or between the sets; plus two concurrent setters of one option with persistence configured (file content equals memory afterwards); source-instrumented config package (modules and log sealed); all interleavings within the deviation bound, both default schedulers")
		var scns []*slib.Scn
		b := vlib.Pick(c, 2, 3)
		for _, setter := range []string{"set2", "setdefault", "unset", "replace", "release"} {
			for _, safe := range []int{1, 2} {
				for _, plain := range []bool{false, true} {
					for _, created := range []string{"before", "between"} {
						if c.Quick() && safe == 2 && plain {
							continue
						}
						p := config.C04SParams{Setter: setter, Safe: safe, Plain: plain, Created: created}
						for _, hf := range []bool{false, true} {
							sc := config.VerifC04S(p)
							sc.HighFirst = hf
							if hf {
								sc.Name += "/sched=high"
							}
							scns = append(scns, &slib.Scn{Scenario: sc, Family: "c04s/" + setter, Bound: b})
						}
					}
				}
			}
		}
		// two setters on one option with persistence configured: the file written last holds the value that is in memory
		for _, hf := range []bool{false, true} {
			sc := config.VerifC04S(config.C04SParams{Setter: "two-setters"})
			sc.HighFirst = hf
			if hf {
				sc.Name += "/sched=high"
			}
			scns = append(scns, &slib.Scn{Scenario: sc, Family: "c04s/two-setters", Bound: b + 1})
		}
		defer config.VerifC04SCleanup()
		slib.Run(c, scns, slib.Opts{})
	})
}
