#!/bin/bash
set -e
cd /verif
mkdir -p bin
[ -x bin/instr ] || (cd instr && go build -o /verif/bin/instr .)
rm -rf build/c04s.ov && mkdir -p build/c04s.ov
bin/instr -out build/c04s.ov -sealed log,modules -full config -harness h/c04s/overlay
go build -tags verif -overlay build/c04s.ov/overlay.json -o "$1" ./h/c04s
