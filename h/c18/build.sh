#!/bin/bash
set -e
cd /verif
./mkoverlay.sh c18
go build -tags verif -overlay build/c18.overlay.json -o "$1" ./h/c18
