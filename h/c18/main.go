// C18: externally supplied names never reach files outside the component's root.
//
// Engine Q, depth-1 case: the whole finite name domain (all sequences of
// 1..k segments over {a, .., ., "", <rootname>-other, <rootname>}, four
// prefix kinds) is enumerated against the real portbase components, each case
// in a fresh sandbox directory tree. Oracle:
//
//	(i)   outside-unchanged: a before/after snapshot (names, types, modes,
//	      sizes, hashes) of everything in the sandbox outside the component's
//	      root is identical;
//	(iii) escaping-name-is-error: a name that lexically resolves outside the
//	      root yields an error;
//	plus the part of (ii) that is observable without a system-call trace:
//	      no-outside-data-returned: the operation never hands back content
//	      that exists only outside the root.
//
// Optional engine K part (oracle (ii), read audit under strace): see audit.go.
//
//go:debug zipinsecurepath=1
package main

import (
	"archive/zip"
	"bytes"
	"crypto/sha256"
	"encoding/hex"
	"flag"
	"fmt"
	"io/fs"
	"os"
	"path"
	"path/filepath"
	"regexp"
	"sort"
	"strings"
	"sync"
	"time"

	"github.com/safing/portbase/api"
	"github.com/safing/portbase/database/query"
	"github.com/safing/portbase/database/record"
	"github.com/safing/portbase/database/storage/fstree"
	"github.com/safing/portbase/formats/dsd"
	"github.com/safing/portbase/log"
	"github.com/safing/portbase/updater"
	"github.com/safing/portbase/utils"

	"verif/vlib"
)

// ---------- the enumerated domain ----------

const (
	moat        = "z/z/z/z" // directories between the snapshot scope and the sandbox: 4 ".." never leave the scope
	unpackRoot  = "rt_v1-0-0"
	unpackID    = "pk/rt.zip"
	unpackVer   = "1.0.0"
	bridgeRoot  = "/api/v1"
	prefNone    = ""
	prefSlash   = "/"
	prefRoot    = "{ROOT}/"
	prefParent  = "{PARENT}/"
	markOutside = "outside:"
	dsRootPerm  = os.FileMode(0o750)
	dsChildPerm = os.FileMode(0o700)
)

var prefixes = []string{prefNone, prefSlash, prefRoot, prefParent}

// States of the component's root at the time of the call, other than the
// populated directory. For fstree and the registry the backend is opened on
// an existing directory first and the root is brought into the state
// afterwards (a database directory that vanishes under a running backend).
//
//	removed: the root directory does not exist (any more)
//	file:    a regular file is where the root directory should be
//	empty:   the root is an empty directory
//
// For unpacking the root (the per-archive unpack directory) normally does not
// exist before the call; "file" and "empty" put a file / an empty directory there.
const (
	stRemoved = "removed"
	stFile    = "file"
	stEmpty   = "empty"
)

// Spellings of the configured root (DirStructure path, fstree base path,
// updater storage dir) other than the clean absolute path: all denote the
// same directory.
var spellings = []string{"trailing-sep", "trailing-sep2", "inner-dot", "inner-sep2"}

func spell(root, kind string) string {
	dir, base := filepath.Dir(root), filepath.Base(root)
	switch kind {
	case "":
		return root
	case "trailing-sep":
		return root + "/"
	case "trailing-sep2":
		return root + "//"
	case "inner-dot":
		return dir + "/./" + base
	case "inner-sep2":
		return dir + "//" + base
	}
	panic("unknown root spelling " + kind)
}

var rootStates = map[string][]string{
	"fstree":    {stRemoved, stFile, stEmpty},
	"dirstruct": {stRemoved, stFile, stEmpty},
	"scan":      {stRemoved, stFile, stEmpty},
	"unpack":    {stFile, stEmpty},
}

// caseSpec identifies one case completely; it is also the replay witness.
type caseSpec struct {
	Comp   string   `json:"component"`
	Op     string   `json:"op"`
	Chain  []string `json:"root_chain"` // directories from the sandbox down to the component's root (last = root name)
	Prefix string   `json:"prefix"`     // "", "/", "{ROOT}/" (absolute path of the root), "{PARENT}/" (absolute path of its parent)
	Rel    string   `json:"rel"`        // the segments joined by "/"
	Cwd    string   `json:"cwd,omitempty"`
	State  string   `json:"root_state,omitempty"`      // state of the root when the call is made: "" = populated directory, see rootStates
	Spell  string   `json:"root_spelling,omitempty"`   // how the root path is written when it is handed to the component, see spellings
	Case   string   `json:"name_case,omitempty"`       // every <rootname> in the name (and in the {ROOT}/ prefix) written in another letter case, see caseVariants
	Sep    string   `json:"entry_separator,omitempty"` // archive entries only: the separators of the name replaced by backslashes, see sepVariants
	Name   string   `json:"name_in_this_run,omitempty"`
	Audit  bool     `json:"audit,omitempty"` // witness of the strace read audit (oracle ii)
}

func (cs caseSpec) rootName() string { return cs.Chain[len(cs.Chain)-1] }
func (cs caseSpec) site() string {
	switch cs.Comp {
	case "fstree":
		return "fstree." + cs.Op
	case "dirstruct":
		return "DirStructure." + cs.Op
	case "unpack":
		return "Resource.UnpackArchive"
	case "scan":
		return "ResourceRegistry.ScanStorage"
	}
	return "api.callAPI"
}

// rels returns all segment sequences of length 1..maxSeg over the alphabet for
// the root name, simplest (shortest, then alphabet order) first.
func rels(rootName string, maxSeg int) []string {
	alpha := []string{"a", "..", ".", "", rootName + "-other", rootName}
	var out []string
	var rec func(prefix []string, k int)
	rec = func(prefix []string, k int) {
		if k == 0 {
			out = append(out, strings.Join(prefix, "/"))
			return
		}
		for _, s := range alpha {
			rec(append(prefix, s), k-1)
		}
	}
	for k := 1; k <= maxSeg; k++ {
		rec(nil, k)
	}
	return out
}

// Letter-case variants of the root's name: siblings that differ from the root
// only by case ("rt" vs "RT", "Rt", "rT"). On a case-sensitive file system
// they are different directories, i.e. names that go there escape the root.
var caseVariants = []string{"upper", "title", "mixed"}

func caseVariant(rn, kind string) string {
	switch kind {
	case "upper":
		return strings.ToUpper(rn)
	case "title":
		return strings.ToUpper(rn[:1]) + rn[1:]
	case "mixed":
		return rn[:1] + strings.ToUpper(rn[1:2]) + rn[2:]
	}
	panic("unknown case variant " + kind)
}

// Separator variants for archive entry names: "archives packed on Windows".
// On Linux a backslash is an ordinary file-name character.
var sepVariants = []string{"backslash", "mixed-backslash-first", "mixed-slash-first"}

// expandParts returns the prefix string and the segments of the case's name.
func expandParts(cs caseSpec, root string) (string, []string) {
	rn := filepath.Base(root)
	segs := strings.Split(cs.Rel, "/")
	if cs.Case != "" {
		for i, sg := range segs {
			if sg == rn {
				segs[i] = caseVariant(rn, cs.Case)
			}
		}
	}
	switch cs.Prefix {
	case prefRoot:
		if cs.Case != "" {
			return filepath.Dir(root) + "/" + caseVariant(rn, cs.Case) + "/", segs
		}
		return root + "/", segs
	case prefParent:
		return filepath.Dir(root) + "/", segs
	}
	return cs.Prefix, segs
}

func expandName(cs caseSpec, root string) string {
	pf, segs := expandParts(cs, root)
	if cs.Sep == "" {
		return pf + strings.Join(segs, "/")
	}
	// the separators written by the variant, in order of appearance (prefix "/" first)
	n := 0
	sep := func() string {
		n++
		switch cs.Sep {
		case "backslash":
			return `\`
		case "mixed-backslash-first":
			if n%2 == 1 {
				return `\`
			}
			return "/"
		case "mixed-slash-first":
			if n%2 == 1 {
				return "/"
			}
			return `\`
		}
		panic("unknown separator variant " + cs.Sep)
	}
	out := ""
	if pf == prefSlash {
		out = sep()
	} else {
		out = pf
	}
	for i, sg := range segs {
		if i > 0 {
			out += sep()
		}
		out += sg
	}
	return out
}

// changedByVariant reports whether the case/separator variant makes the name
// different from the plain one (otherwise the case is a duplicate).
func changedByVariant(cs caseSpec) bool {
	plain := cs
	plain.Case, plain.Sep = "", ""
	root := "/p/" + cs.rootName()
	return expandName(cs, root) != expandName(plain, root)
}

func within(p, root string) bool { return p == root || strings.HasPrefix(p, root+"/") }

// ---------- sandbox ----------

var recCache sync.Map

// recBytes returns a valid stored record (fstree file format) whose payload names s.
func recBytes(s string) []byte {
	if b, ok := recCache.Load(s); ok {
		return b.([]byte)
	}
	m := &record.Meta{Created: 1600000000, Modified: 1600000000} // fixed: file content must not depend on the clock
	w, err := record.NewWrapper("db:x", m, dsd.JSON, []byte(`{"S":"`+s+`"}`))
	if err != nil {
		panic(err)
	}
	b, err := w.MarshalRecord(w)
	if err != nil {
		panic(err)
	}
	recCache.Store(s, b)
	return b
}

func recString(r record.Record) string {
	if r == nil {
		return ""
	}
	acc := r.GetAccessor(r)
	if acc == nil {
		return ""
	}
	s, _ := acc.GetString("S")
	return s
}

func must(err error) {
	if err != nil {
		panic(fmt.Sprintf("sandbox setup: %v", err))
	}
}

type sbox struct {
	caseDir      string
	S            string
	root         string
	excl         []string          // subtrees the component may change (its root)
	pristine     map[string]string // full snapshot of caseDir right after building
	outsideDirty bool              // the last case changed something outside the root: rebuild everything
	insideDirty  bool              // the last case changed something inside the root only: rebuild the root
	caseSiblings bool              // the levels above the root also hold siblings named like the root in another letter case
}

// worker owns a directory and the sandboxes in it. Building a sandbox is the
// expensive part of a case, so a sandbox is kept for the next case of the same
// component and root, with the same guarantee as a fresh one: after every case
// the whole tree is compared with the pristine snapshot; if it is identical the
// sandbox is reused as it is, if only the inside of the root differs the root
// is deleted and re-created by the same code, and if anything outside differs
// the whole sandbox is deleted and rebuilt. Every case starts from the same tree.
type worker struct {
	dir   string
	boxes map[string]*sbox
}

func (w *worker) sandbox(cs caseSpec) *sbox {
	key := cs.Comp + "-" + strings.Join(cs.Chain, "_")
	if cs.State != "" {
		key += "-" + cs.State
	}
	if cs.Case != "" {
		key += "-case"
	}
	sb := w.boxes[key]
	if sb != nil && !sb.outsideDirty {
		if sb.insideDirty {
			sb.buildInside(cs)
		}
		return sb
	}
	sb = newSbox(filepath.Join(w.dir, key), cs.Chain)
	if cs.Comp == "unpack" {
		// chain = storage chain + tmp + unpack dir
		storage := filepath.Dir(filepath.Dir(sb.root))
		must(os.MkdirAll(filepath.Join(storage, "pk"), 0o755))
		sb.excl = []string{sb.root, filepath.Join(storage, "pk", unpackRoot)}
	} else {
		sb.excl = []string{sb.root}
	}
	sb.caseSiblings = cs.Case != ""
	sb.populate(cs.Chain, cs.Comp == "scan")
	sb.buildInside(cs)
	sb.pristine = snapshot(sb.caseDir)
	if w.boxes == nil {
		w.boxes = map[string]*sbox{}
	}
	w.boxes[key] = sb
	return sb
}

// buildInside (re-)creates the component's root with its initial content.
func (sb *sbox) buildInside(cs caseSpec) {
	rn := cs.rootName()
	for _, e := range sb.excl {
		must(os.RemoveAll(e))
	}
	sb.insideDirty = false
	if cs.State != "" && cs.Comp != "unpack" {
		if cs.Comp == "scan" {
			must(os.MkdirAll(sb.root, 0o755))
			reg := &updater.ResourceRegistry{Name: "c18"}
			must(reg.Initialize(utils.NewDirStructure(sb.root, 0o755)))
		}
		sb.establish(cs)
		return
	}
	switch cs.Comp {
	case "fstree", "dirstruct":
		sb.populateInside(sb.root, rn)
		if cs.Comp == "dirstruct" {
			// the modes the DirStructure under test prescribes, so that a call that
			// creates nothing leaves the tree untouched (everything outside is 0755)
			must(os.Chmod(sb.root, dsRootPerm))
			must(os.Chmod(filepath.Join(sb.root, "a"), dsChildPerm))
		}
	case "scan":
		must(os.MkdirAll(sb.root, 0o755))
		reg := &updater.ResourceRegistry{Name: "c18"}
		must(reg.Initialize(utils.NewDirStructure(sb.root, 0o755))) // creates <root>/tmp
		sb.populateInside(sb.root, rn)
		sb.file(filepath.Join(sb.root, "in_v1-0-0.bin"), "inside:")
		sb.file(filepath.Join(sb.root, "a", "in_v1-0-0.bin"), "inside:")
	case "unpack":
		// neither the unpack dir nor the destination exist before unpacking
	}
}

// establish brings the root into the state of the case (see rootStates).
func (sb *sbox) establish(cs caseSpec) {
	must(os.RemoveAll(sb.root))
	switch cs.State {
	case stRemoved:
	case stFile:
		sb.file(sb.root, "inside:")
	case stEmpty:
		perm := os.FileMode(0o755)
		if cs.Comp == "dirstruct" {
			perm = dsRootPerm
		}
		must(os.Mkdir(sb.root, perm))
		must(os.Chmod(sb.root, perm))
	default:
		panic("unknown root state " + cs.State)
	}
}

func (sb *sbox) file(abs, tag string) {
	rel, _ := filepath.Rel(sb.caseDir, abs)
	must(os.WriteFile(abs, recBytes(tag+rel), 0o644))
}

// populate creates, in every directory on the way from the sandbox to the
// root's parent, the outside sentinels: a file "a", a file "<rootname>" and a
// directory "<rootname>-other" (with a/a and <rootname> inside) - except where
// that name is the next directory of the chain itself.
func (sb *sbox) populate(chain []string, versioned bool) {
	cur := sb.S
	for i := 0; i < len(chain); i++ {
		must(os.MkdirAll(cur, 0o755))
		sb.populateLevel(cur, chain[i], chain[len(chain)-1], versioned)
		cur = filepath.Join(cur, chain[i])
	}
}

// populateLevel creates the outside sentinels of one directory above the root;
// next is the chain directory that continues towards the root.
func (sb *sbox) populateLevel(cur, next, rn string, versioned bool) {
	for _, n := range []string{"a", rn, rn + "-other"} {
		if n == next {
			continue
		}
		p := filepath.Join(cur, n)
		if n == rn+"-other" {
			must(os.MkdirAll(filepath.Join(p, "a"), 0o755))
			sb.file(filepath.Join(p, "a", "a"), markOutside)
			sb.file(filepath.Join(p, rn), markOutside)
			if versioned {
				sb.file(filepath.Join(p, "out_v1-0-0.bin"), markOutside)
				sb.file(filepath.Join(p, "a", "out_v1-0-0.bin"), markOutside)
			}
		} else {
			sb.file(p, markOutside)
		}
	}
	if versioned {
		sb.file(filepath.Join(cur, "out_v1-0-0.bin"), markOutside)
	}
	if sb.caseSiblings {
		for _, kind := range caseVariants {
			p := filepath.Join(cur, caseVariant(rn, kind))
			must(os.MkdirAll(filepath.Join(p, "a"), 0o755))
			sb.file(filepath.Join(p, "a", "a"), markOutside)
			if versioned {
				sb.file(filepath.Join(p, "out_v1-0-0.bin"), markOutside)
			}
		}
	}
}

func (sb *sbox) populateInside(root, rn string) {
	must(os.MkdirAll(filepath.Join(root, "a"), 0o755))
	must(os.MkdirAll(filepath.Join(root, rn+"-other"), 0o755))
	sb.file(filepath.Join(root, "a", "a"), "inside:")
	sb.file(filepath.Join(root, rn), "inside:")
	sb.file(filepath.Join(root, rn+"-other", "a"), "inside:")
}

func newSbox(caseDir string, chain []string) *sbox {
	must(os.RemoveAll(caseDir))
	S := filepath.Join(caseDir, filepath.FromSlash(moat))
	must(os.MkdirAll(S, 0o755))
	return &sbox{caseDir: caseDir, S: S, root: filepath.Join(append([]string{S}, chain...)...)}
}

// snapshot describes everything under dir (names, types, modes, sizes, hashes).
func snapshot(dir string) map[string]string {
	out := map[string]string{}
	_ = filepath.WalkDir(dir, func(p string, d fs.DirEntry, err error) error {
		rel, _ := filepath.Rel(dir, p)
		if err != nil {
			out[rel] = "unreadable: " + err.Error()
			return nil
		}
		fi, err := os.Lstat(p)
		if err != nil {
			out[rel] = "unreadable: " + err.Error()
			return nil
		}
		m := fi.Mode()
		switch {
		case m.IsDir():
			out[rel] = fmt.Sprintf("dir %04o", m.Perm())
		case m&os.ModeSymlink != 0:
			t, _ := os.Readlink(p)
			out[rel] = "symlink -> " + t
		case m.IsRegular():
			b, err := os.ReadFile(p)
			if err != nil {
				out[rel] = fmt.Sprintf("file %04o unreadable", m.Perm())
				return nil
			}
			h := sha256.Sum256(b)
			out[rel] = fmt.Sprintf("file %04o size=%d sha=%s", m.Perm(), len(b), hex.EncodeToString(h[:8]))
		default:
			out[rel] = "special " + m.String()
		}
		return nil
	})
	return out
}

// diffSnap lists the differences between two snapshots of dir, leaving out
// everything inside the excluded subtrees; dirty reports whether anything at
// all (excluded or not) differs.
func diffSnap(dir string, before, after map[string]string, excl []string) (ch []string, dirty bool) {
	add := func(rel, text string) {
		dirty = true
		abs := filepath.Join(dir, rel)
		for _, e := range excl {
			if within(abs, e) {
				return
			}
		}
		ch = append(ch, text)
	}
	for k, v := range before {
		w, ok := after[k]
		switch {
		case !ok:
			add(k, fmt.Sprintf("deleted %s (was %s)", k, v))
		case v != w:
			add(k, fmt.Sprintf("modified %s (%s => %s)", k, v, w))
		}
	}
	for k, w := range after {
		if _, ok := before[k]; !ok {
			add(k, fmt.Sprintf("created %s (%s)", k, w))
		}
	}
	sort.Strings(ch)
	return ch, dirty
}

// absolute places a "/"-prefixed name could reach if a component escaped.
var absProbes = []string{"/a", "/rt", "/rt-other", "/" + unpackRoot, "/" + unpackRoot + "-other", "/v1", "/v1-other"}

func checkAbsProbes() []string {
	var hit []string
	for _, p := range absProbes {
		if _, err := os.Lstat(p); err == nil {
			hit = append(hit, "created "+p)
			_ = os.RemoveAll(p)
		}
	}
	return hit
}

// ---------- running one case on the real code ----------

type caseResult struct {
	done     bool
	name     string
	target   string // lexical resolution of the name
	escaping bool
	err      string // "" = the operation reported success
	isErr    bool
	changes  []string
	outData  []string // content handed back that exists only outside the root
	extra    string
	panicked string
	// for the read audit: what the call may touch
	allowSub   []string
	allowExact []string
	allowStat  []string // single paths that may be stat'ed (not opened, not changed)
	sandbox    string
}

func errStr(err error) (string, bool) {
	if err == nil {
		return "", false
	}
	return err.Error(), true
}

var workDir string // the temp dir of this run

// tempSuffix matches the random suffix of temp file names (os.CreateTemp), so that details are the same in every run.
var tempSuffix = regexp.MustCompile(`[0-9]{6,}`)

var cwdMu sync.Mutex // held by whoever changes the process working directory

func runCase(cs caseSpec, w *worker) (res caseResult) {
	res.done = true
	if cs.Comp == "bridge" {
		return runBridge(cs)
	}
	sb := w.sandbox(cs)
	before := sb.pristine
	name := expandName(cs, sb.root)
	res.name = name

	var op func() error
	pre, post := func() {}, func() {}
	res.sandbox = sb.S
	res.allowSub = append([]string{os.TempDir()}, sb.excl...)
	switch cs.Comp {
	case "fstree":
		if cs.State == stRemoved || cs.State == stFile {
			// the backend is opened while the directory exists; then the state is restored
			must(os.RemoveAll(sb.root))
			must(os.Mkdir(sb.root, 0o755))
		}
		st, err := fstree.NewFSTree("db", spell(sb.root, cs.Spell))
		must(err)
		if cs.State == stRemoved || cs.State == stFile {
			sb.establish(cs)
		}
		if cs.Op == "Put" && cs.State == stRemoved {
			// Put re-creates a missing database directory with os.MkdirAll (as NewFSTree does
			// when opening), which looks at the directory's parent before the mkdir
			res.allowStat = []string{filepath.Dir(sb.root)}
		}
		res.target = filepath.Join(sb.root, name)
		op = func() error {
			switch cs.Op {
			case "Put":
				m := &record.Meta{Created: 1600000000, Modified: 1600000000}
				r, err := record.NewWrapper("db:"+name, m, dsd.JSON, []byte(`{"S":"put"}`))
				must(err)
				_, err = st.Put(r)
				return err
			case "Get":
				r, err := st.Get(name)
				if err == nil {
					if s := recString(r); strings.HasPrefix(s, markOutside) {
						res.outData = append(res.outData, s)
					}
				}
				return err
			case "Delete":
				return st.Delete(name)
			case "Query":
				it, err := st.Query(query.New("db:"+name), true, true)
				if err != nil {
					return err
				}
				n := 0
				for r := range it.Next {
					n++
					if s := recString(r); strings.HasPrefix(s, markOutside) {
						res.outData = append(res.outData, r.DatabaseKey()+" = "+s)
					}
				}
				res.extra = fmt.Sprintf("query delivered %d records", n)
				return nil
			}
			panic("unknown op")
		}
	case "dirstruct":
		ds := utils.NewDirStructure(spell(sb.root, cs.Spell), dsRootPerm)
		child := ds.ChildDir("a", dsChildPerm)
		switch cs.Op {
		case "Child.EnsureRelPath":
			// a child structure derived from the root; the scope is the top structure's root
			res.target = filepath.Join(sb.root, "a", name)
			op = func() error { return child.EnsureRelPath(name) }
		case "EnsureAbsPath":
			if filepath.IsAbs(name) {
				res.target = filepath.Clean(name)
			} else {
				// resolved against the working directory, which is never inside this sandbox
				res.target = ""
			}
			op = func() error { return ds.EnsureAbsPath(name) }
		case "EnsureRelPath":
			res.target = filepath.Join(sb.root, name)
			op = func() error { return ds.EnsureRelPath(name) }
		case "EnsureRelDir":
			res.target = filepath.Join(sb.root, name)
			var parts []string
			pf, segs := expandParts(cs, sb.root)
			switch pf {
			case prefNone:
			case prefSlash:
				parts = append(parts, "/")
			default:
				parts = append(parts, strings.TrimSuffix(pf, "/"))
			}
			parts = append(parts, segs...)
			op = func() error { return ds.EnsureRelDir(parts...) }
		}
	case "unpack":
		// chain = storage chain + tmp + unpack dir. A fresh registry per case:
		// its initialisation wipes <storage>/tmp, so the sentinels of that one
		// level are put back; the archive carries the enumerated name.
		storage := filepath.Dir(filepath.Dir(sb.root))
		sb.buildInside(cs)
		reg := &updater.ResourceRegistry{Name: "c18"}
		must(reg.Initialize(utils.NewDirStructure(spell(storage, cs.Spell), 0o755)))
		sb.populateLevel(filepath.Dir(sb.root), unpackRoot, unpackRoot, false)
		if cs.State != "" {
			sb.establish(cs)
		}
		must(os.WriteFile(filepath.Join(storage, "pk", unpackRoot+".zip"), mkZip(name), 0o644))
		must(reg.AddResource(unpackID, unpackVer, nil, true, false, false))
		reg.SelectVersions()
		reg.AutoUnpack = []string{unpackID}
		// the resource's own files and the registry directories leading to them
		res.allowExact = []string{storage, filepath.Join(storage, "tmp"), filepath.Join(storage, "pk"), filepath.Join(storage, "pk", unpackRoot+".zip")}
		res.target = filepath.Join(sb.root, name)
		op = func() error { return reg.UnpackResources() }
		before = snapshot(sb.caseDir)
	case "scan":
		reg := &updater.ResourceRegistry{Name: "c18"}
		must(reg.Initialize(utils.NewDirStructure(spell(sb.root, cs.Spell), 0o755))) // wipes and re-creates <root>/tmp: same tree
		if cs.State != "" {
			sb.establish(cs)
		}
		cwd := filepath.Dir(sb.root)
		if cs.Cwd == "root" {
			cwd = sb.root
		}
		switch {
		case name == "":
			res.target = sb.root // documented: empty = full storage dir
		case filepath.IsAbs(name):
			res.target = filepath.Clean(name)
		default:
			res.target = filepath.Join(cwd, name)
		}
		if !filepath.IsAbs(name) {
			// only relative names are resolved against the working directory
			pre = func() { cwdMu.Lock(); must(os.Chdir(cwd)) }
			post = func() { must(os.Chdir("/")); cwdMu.Unlock() }
		}
		op = func() error {
			err := reg.ScanStorage(name)
			ids := []string{}
			for id := range reg.Export() {
				ids = append(ids, id)
				if strings.Contains(id, "out") {
					res.outData = append(res.outData, "resource "+id)
				}
			}
			sort.Strings(ids)
			sort.Strings(res.outData)
			res.extra = fmt.Sprintf("resources after scan: %v", ids)
			return err
		}
	default:
		panic("unknown component " + cs.Comp)
	}
	res.escaping = res.target == "" || !within(res.target, sb.root)

	var err error
	pre()
	auditMark(markBegin)
	p, stack := vlib.Catch(func() { err = op() })
	auditMark(markEnd)
	post()
	after := snapshot(sb.caseDir)
	if p != nil {
		res.panicked = fmt.Sprintf("%v at %s", p, vlib.PanicSite(stack))
		res.err, res.isErr = "panic: "+res.panicked, true
	} else {
		res.err, res.isErr = errStr(err)
	}
	var dirty bool
	res.changes, dirty = diffSnap(sb.caseDir, before, after, sb.excl)
	res.changes = append(res.changes, checkAbsProbes()...)
	sb.outsideDirty = len(res.changes) > 0
	sb.insideDirty = dirty
	// present paths relative to the sandbox so that details do not depend on the temp dir name
	anon := strings.NewReplacer(sb.S, "{SANDBOX}", workDir, "{WORK}")
	res.name, res.target, res.err = anon.Replace(res.name), anon.Replace(res.target), tempSuffix.ReplaceAllString(anon.Replace(res.err), "NNN")
	for i := range res.changes {
		res.changes[i] = anon.Replace(res.changes[i])
	}
	return res
}

// mkZip builds an archive with a harmless directory and file followed by one
// entry carrying the enumerated name (a directory entry if it ends in "/").
func mkZip(hostile string) []byte {
	var buf bytes.Buffer
	zw := zip.NewWriter(&buf)
	add := func(name, content string) {
		h := &zip.FileHeader{Name: name, Method: zip.Store}
		if strings.HasSuffix(name, "/") {
			h.SetMode(0o755 | os.ModeDir)
		} else {
			h.SetMode(0o644)
		}
		w, err := zw.CreateHeader(h)
		must(err)
		if !strings.HasSuffix(name, "/") {
			_, err = w.Write([]byte(content))
			must(err)
		}
	}
	add("a/", "")
	add("a/a", "harmless")
	add(hostile, "hostile entry content")
	must(zw.Close())
	return buf.Bytes()
}

func runBridge(cs caseSpec) (res caseResult) {
	res.done = true
	name := cs.Rel
	switch cs.Prefix {
	case prefRoot:
		name = bridgeRoot + "/" + cs.Rel
	case prefParent:
		name = path.Dir(bridgeRoot) + "/" + cs.Rel
	case prefSlash:
		name = "/" + cs.Rel
	}
	res.name = name
	res.target = path.Join(bridgeRoot+"/", name)
	res.escaping = !within(res.target, bridgeRoot)
	var reached bool
	var reachedPath string
	var err error
	p, stack := vlib.Catch(func() { reached, reachedPath, err = api.VerifBridgeCall(name) })
	if p != nil {
		res.panicked = fmt.Sprintf("%v at %s", p, vlib.PanicSite(stack))
		res.err, res.isErr = "panic: "+res.panicked, true
		return res
	}
	res.err, res.isErr = errStr(err)
	if reached {
		res.extra = "request dispatched to " + reachedPath
		if !within(path.Clean("/"+reachedPath), bridgeRoot) {
			res.outData = append(res.outData, "request dispatched to "+reachedPath)
		}
	}
	return res
}

// ---------- oracle ----------

func evaluate(c *vlib.Ctx, cs caseSpec, res caseResult, verbose bool) {
	cs.Name = res.name
	site := cs.site()
	desc := fmt.Sprintf("%s(%q) root=%s", site, res.name, "{SANDBOX}/"+strings.Join(cs.Chain, "/"))
	if cs.Comp == "bridge" {
		desc = fmt.Sprintf("%s(%q) scope=%s", site, res.name, bridgeRoot)
	}
	if cs.Cwd != "" {
		desc += " cwd=" + cs.Cwd
	}
	if cs.State != "" {
		desc += " root-state=" + cs.State
	}
	if cs.Case != "" {
		desc += " name-case=" + cs.Case
	}
	if cs.Sep != "" {
		desc += " entry-separator=" + cs.Sep
	}
	if cs.Spell != "" {
		desc += " root-spelling=" + cs.Spell + " (" + spell("{SANDBOX}/"+strings.Join(cs.Chain, "/"), cs.Spell) + ")"
	}
	if verbose {
		fmt.Printf("case: %s\n  lexical target: %q escaping=%v\n  error: %q (is error: %v)\n  outside changes: %v\n  outside data returned: %v\n  %s\n",
			desc, res.target, res.escaping, res.err, res.isErr, res.changes, res.outData, res.extra)
	}
	if res.panicked != "" {
		c.ExtraAdd("panics_counted_as_errors", 1)
	}
	if len(res.changes) > 0 {
		c.Violate("outside-unchanged", site, "outside-changed",
			fmt.Sprintf("%s changed the tree outside the root:\n%s\nreturned error: %q", desc, strings.Join(res.changes, "\n"), res.err), cs)
	}
	switch {
	case res.escaping && !res.isErr:
		d := fmt.Sprintf("%s: the name resolves to %q outside the root, but no error was returned", desc, res.target)
		if len(res.outData) > 0 {
			d += "\nhanded back from outside the root: " + strings.Join(res.outData, "; ")
		}
		if res.extra != "" {
			d += "\n" + res.extra
		}
		c.Violate("escaping-name-is-error", site, "ok-instead-of-error", d, cs)
	case len(res.outData) > 0:
		clause, disc := "no-outside-data-returned", "outside-data"
		if cs.Comp == "bridge" {
			clause, disc = "bridge-request-in-scope", "out-of-scope-request"
		}
		c.Violate(clause, site, disc,
			fmt.Sprintf("%s handed back content from outside the root: %s (error: %q)", desc, strings.Join(res.outData, "; "), res.err), cs)
	}
	out := cs.Comp + "." + cs.Op
	if cs.State != "" {
		out += "[root " + cs.State + "]"
	}
	if cs.Spell != "" {
		out += "[root spelled " + cs.Spell + "]"
	}
	if cs.Case != "" {
		out += "[name case " + cs.Case + "]"
	}
	if cs.Sep != "" {
		out += "[separator " + cs.Sep + "]"
	}
	if res.escaping {
		out += "/escaping"
		c.Nontrivial(fmt.Sprintf("%s|%s|%v|%s|%s|%s|%s|%s|%s%s", cs.Comp, cs.Op, cs.Chain, cs.Cwd, cs.State, cs.Spell, cs.Case, cs.Sep, cs.Prefix, cs.Rel))
	} else {
		out += "/inside"
	}
	if res.isErr {
		out += "/error"
	} else {
		out += "/ok"
	}
	if len(res.changes) > 0 {
		out += "/outside-changed"
	}
	if len(res.outData) > 0 {
		out += "/outside-data"
	}
	c.Outcome(out)
}

// ---------- enumeration ----------

type rootSet struct {
	comp   string
	ops    []string
	chains [][]string
	cwds   []string
}

func main() {
	vlib.Main("C18", "model_checking", func(c *vlib.Ctx) {
		if c.Replay != "" {
			if abs, err := filepath.Abs(c.Replay); err == nil {
				c.Replay = abs // the harness changes its working directory below
			}
		}
		log.SetLogLevel(log.CriticalLevel)
		if err := log.Start(); err != nil {
			c.EngineError("log.Start: %v", err)
			return
		}
		for _, p := range absProbes {
			if _, err := os.Lstat(p); err == nil {
				c.EngineError("%s exists on this machine; the check uses that name as an absolute escape probe and refuses to run", p)
				return
			}
		}
		work, err := os.MkdirTemp(envOr("VERIF_C18_TMP", "/tmp"), "verif-c18-")
		if err != nil {
			c.EngineError("MkdirTemp: %v", err)
			return
		}
		workDir = work
		defer func() { _ = os.Chdir("/"); _ = os.RemoveAll(work) }()
		must(os.Chdir("/"))
		// fstree stages its writes through renameio, which uses the system temp
		// dir when it is on the same file system: keep that inside the work dir
		must(os.Mkdir(filepath.Join(work, "tmp"), 0o755))
		must(os.Setenv("TMPDIR", filepath.Join(work, "tmp")))

		if maybeAuditChild(c, work) {
			return
		}

		if c.Replay != "" {
			var cs caseSpec
			if _, err := c.LoadReplay(&cs); err != nil {
				c.EngineError("cannot load replay: %v", err)
				return
			}
			if cs.Audit {
				replayAudit(c, cs, work)
				return
			}
			res := runCase(cs, &worker{dir: filepath.Join(work, "replay")})
			c.Add(1, 1, 1)
			evaluate(c, cs, res, true)
			return
		}

		if f := flag.Lookup("budget"); f == nil || f.Value.String() == "0s" {
			c.SetBudget(vlib.Pick(c, 150*time.Second, 25*time.Minute)) // unless --budget was given
		}
		maxSeg := vlib.Pick(c, 4, 5)
		plain := vlib.Pick(c, [][]string{{"rt"}, {"a", "rt", "rt"}}, [][]string{{"rt"}, {"rt-other", "rt"}, {"a", "rt", "rt"}})
		unp := vlib.Pick(c,
			[][]string{{"st", "tmp", unpackRoot}, {"a", unpackRoot, "st", "tmp", unpackRoot}},
			[][]string{{"st", "tmp", unpackRoot}, {unpackRoot + "-other", "st", "tmp", unpackRoot}, {"a", unpackRoot, "st", "tmp", unpackRoot}})
		stateSeg := map[string]int{"fstree": vlib.Pick(c, 3, 4), "dirstruct": vlib.Pick(c, 2, 3), "scan": vlib.Pick(c, 2, 3), "unpack": vlib.Pick(c, 2, 3)}
		childSeg := maxSeg - 1
		caseSeg := map[string]int{"fstree": vlib.Pick(c, 2, 3), "dirstruct": vlib.Pick(c, 3, 4), "scan": vlib.Pick(c, 2, 3), "unpack": vlib.Pick(c, 2, 3)}
		sepSeg := vlib.Pick(c, 3, 4)
		spellSeg := map[string]int{"fstree": vlib.Pick(c, 2, 3), "dirstruct": vlib.Pick(c, 3, 4), "scan": vlib.Pick(c, 2, 3), "unpack": vlib.Pick(c, 2, 3)}
		sets := []rootSet{
			{"fstree", []string{"Put", "Get", "Delete", "Query"}, plain, []string{""}},
			{"dirstruct", []string{"EnsureAbsPath", "EnsureRelPath", "EnsureRelDir", "Child.EnsureRelPath"}, plain, []string{""}},
			{"unpack", []string{"UnpackArchive"}, unp, []string{""}},
			{"scan", []string{"ScanStorage"}, plain, vlib.Pick(c, []string{"parent"}, []string{"parent", "root"})},
			{"bridge", []string{"callAPI"}, [][]string{{"api", "v1"}}, []string{""}},
		}
		c.Rule(fmt.Sprintf("every name = prefix + s1/.../sk, 1<=k<=%d, si in {a, .., ., \"\", <rootname>-other, <rootname>}, prefix in {\"\", \"/\", <abs root>/, <abs parent of root>/}; "+
			"for every component operation and every root chain; each case on a fresh sandbox tree with sentinel files/dirs named a, <rootname>, <rootname>-other at every level above the root. "+
			"additionally (shorter names) with <rootname> written in another letter case (siblings RT, Rt, rT), archive entry names with backslashes instead of slashes, with the root path spelled <root>/, <root>//, <parent>/./<root>, <parent>//<root> when handed to the component, and with the root removed / replaced by a regular file after the backend was opened / an empty directory. "+
			"distinct_nontrivial = cases whose name lexically resolves outside the root", maxSeg))
		c.Assume("no symbolic links inside the sandbox: containment is decided lexically (Join/Clean), as the property's quantifier is over name strings")
		c.Assume("reads outside the root are observed only through what the operation hands back (record content, query results, scanned resources) unless the optional strace audit ran; a read whose result is discarded is not seen by the engine-Q part")
		c.Assume("archive/zip is run with zipinsecurepath=1 (the toolchain default for portbase's go 1.21 module), i.e. the standard library does not filter entry names")
		c.Assume("for fstree.Query the error must come from Query() itself: an error delivered later through the iterator is raised after the file-system walk has started and is not a rejection")
		c.Assume("re-creating a missing database directory is the backend's own business (NewFSTree does it when opening): in the read audit fstree.Put may stat - not open or change - the parent of a missing root, as os.MkdirAll does")
		c.Assume("a panic of the implementation is counted as an error result (never observed), not as a violation: the property does not speak about panics")

		var specs []caseSpec
		only := os.Getenv("VERIF_C18_ONLY") // development aid: restrict to one component
		for _, rs := range sets {
			if only != "" && only != rs.comp {
				continue
			}
			for _, chain := range rs.chains {
				c.Scenario(fmt.Sprintf("%s root={SANDBOX}/%s", rs.comp, strings.Join(chain, "/")))
				rl := rels(chain[len(chain)-1], maxSeg)
				for _, cwd := range rs.cwds {
					for _, r := range rl {
						for _, pf := range prefixes {
							if cwd == "root" && pf != prefNone {
								continue // the working directory only matters for relative names
							}
							for _, op := range rs.ops {
								if op == "Child.EnsureRelPath" && strings.Count(r, "/") >= childSeg {
									continue // the child structure adds one level: names one segment shorter
								}
								if c.Quick() && strings.Count(r, "/") >= maxSeg-1 {
									// quick: the longest names are left out where they add nothing new
									if op == "EnsureRelDir" {
										continue // same Join + EnsureAbsPath route as EnsureRelPath
									}
									if rs.comp == "unpack" && (pf == prefRoot || pf == prefParent) {
										continue // absolute prefixes only nest the entry deeper inside the unpack dir
									}
								}
								specs = append(specs, caseSpec{Comp: rs.comp, Op: op, Chain: chain, Prefix: pf, Rel: r, Cwd: cwd})
							}
						}
					}
				}
			}
			// the root-spelling dimension: the same names (up to a smaller length) with the
			// root handed to the component as <root>/, <root>//, <parent>/./<root>, <parent>//<root>
			if rs.comp != "bridge" {
				for _, sp := range spellings {
					for _, chain := range rs.chains {
						c.Scenario(fmt.Sprintf("%s root={SANDBOX}/%s root-spelling=%s", rs.comp, strings.Join(chain, "/"), sp))
						k := spellSeg[rs.comp]
						if rs.comp == "dirstruct" && sp != "trailing-sep" {
							k-- // the full length only for the spelling the scope check looks at
						}
						for _, r := range rels(chain[len(chain)-1], k) {
							for _, pf := range prefixes {
								for _, op := range rs.ops {
									specs = append(specs, caseSpec{Comp: rs.comp, Op: op, Chain: chain, Prefix: pf, Rel: r, Cwd: rs.cwds[0], Spell: sp})
								}
							}
						}
					}
				}
			}
			// letter-case siblings: every name that mentions the root's name (or carries the
			// absolute root prefix), with that name written in another case
			if rs.comp != "bridge" {
				for _, kind := range caseVariants {
					for _, chain := range rs.chains {
						c.Scenario(fmt.Sprintf("%s root={SANDBOX}/%s name-case=%s", rs.comp, strings.Join(chain, "/"), kind))
						k := caseSeg[rs.comp]
						if c.Quick() && rs.comp == "dirstruct" && kind != "upper" {
							k-- // quick: the full length for one case variant
						}
						for _, r := range rels(chain[len(chain)-1], k) {
							for _, pf := range prefixes {
								for _, op := range rs.ops {
									cs := caseSpec{Comp: rs.comp, Op: op, Chain: chain, Prefix: pf, Rel: r, Cwd: rs.cwds[0], Case: kind}
									if changedByVariant(cs) {
										specs = append(specs, cs)
									}
								}
							}
						}
					}
				}
			}
			// archive entries whose separators are backslashes (all, or alternating with slashes)
			if rs.comp == "unpack" {
				for _, sv := range sepVariants {
					for _, chain := range rs.chains {
						c.Scenario(fmt.Sprintf("%s root={SANDBOX}/%s entry-separator=%s", rs.comp, strings.Join(chain, "/"), sv))
						for _, r := range rels(chain[len(chain)-1], sepSeg) {
							for _, pf := range []string{prefNone, prefSlash} {
								cs := caseSpec{Comp: rs.comp, Op: rs.ops[0], Chain: chain, Prefix: pf, Rel: r, Sep: sv}
								if changedByVariant(cs) {
									specs = append(specs, cs)
								}
							}
						}
					}
				}
			}
			// the root-state dimension: the same names (up to a smaller length) against a
			// root that is missing, a regular file, or an empty directory
			for _, state := range rootStates[rs.comp] {
				for _, chain := range rs.chains {
					c.Scenario(fmt.Sprintf("%s root={SANDBOX}/%s root-state=%s", rs.comp, strings.Join(chain, "/"), state))
					for _, r := range rels(chain[len(chain)-1], stateSeg[rs.comp]) {
						for _, pf := range prefixes {
							for _, op := range rs.ops {
								if c.Quick() && rs.comp == "fstree" && op != "Query" && strings.Count(r, "/") >= 2 {
									continue // quick: three segments only for Query, where the state decides the walk root
								}
								specs = append(specs, caseSpec{Comp: rs.comp, Op: op, Chain: chain, Prefix: pf, Rel: r, Cwd: rs.cwds[0], State: state})
							}
						}
					}
				}
			}
		}
		results := make([]caseResult, len(specs))
		// cases whose full result is kept as a sample even if nothing is wrong with them
		keep := make([]bool, len(specs))
		nKeep := map[string]int{}
		for i, s := range specs {
			if strings.HasPrefix(s.Rel, "../") && strings.Contains(s.Rel, "other") && nKeep[s.Comp+s.Op] < 1 {
				nKeep[s.Comp+s.Op]++
				keep[i] = true
			}
		}

		// worker directories
		pool := make(chan *worker, c.Workers+2)
		for i := 0; i < c.Workers+2; i++ {
			pool <- &worker{dir: filepath.Join(work, fmt.Sprintf("w%d", i))}
		}
		runOne := func(i int) {
			if c.Expired() {
				return
			}
			d := <-pool
			p, stack := vlib.Catch(func() {
				r := runCase(specs[i], d)
				if !keep[i] && len(r.changes) == 0 && len(r.outData) == 0 && (r.isErr || !r.escaping) && r.panicked == "" {
					// nothing to report: keep only what the outcome statistics need
					r = caseResult{done: true, escaping: r.escaping, isErr: r.isErr}
				}
				results[i] = r
			})
			pool <- d
			if p != nil {
				c.EngineError("case %+v: %v\n%s", specs[i], p, stack)
			}
		}
		// cases that need the process working directory (scan with a relative
		// name) and the bridge (shared handler variable) run on one goroutine of
		// their own; nothing else in the process depends on the working directory
		var serial, par []int
		for i, s := range specs {
			if (s.Comp == "scan" && s.Prefix == prefNone) || s.Comp == "bridge" {
				serial = append(serial, i)
			} else {
				par = append(par, i)
			}
		}
		var wg sync.WaitGroup
		wg.Add(1)
		t0 := time.Now()
		go func() {
			defer wg.Done()
			for _, i := range serial {
				runOne(i)
			}
			c.Extra("serial_part_wall_s", fmt.Sprintf("%.1f", time.Since(t0).Seconds()))
		}()
		c.ParallelFor(len(par), func(k int) { runOne(par[k]) })
		c.Extra("parallel_part_wall_s", fmt.Sprintf("%.1f", time.Since(t0).Seconds()))
		wg.Wait()

		// evaluate in enumeration order (deterministic witnesses: simplest first)
		seenInput := map[string]struct{}{}
		for i, s := range specs {
			r := results[i]
			if !r.done {
				continue
			}
			k := fmt.Sprintf("%s|%v|%s|%s|%s|%s|%s|%s|%s", s.Comp, s.Chain, s.Cwd, s.State, s.Spell, s.Case, s.Sep, s.Prefix, s.Rel)
			st := int64(0)
			if _, ok := seenInput[k]; !ok {
				seenInput[k] = struct{}{}
				st = 1
			}
			c.Add(st, 1, 1)
			evaluate(c, s, r, false)
			if keep[i] {
				c.Sample(map[string]any{"case": s.site(), "name": r.name, "root": "{SANDBOX}/" + strings.Join(s.Chain, "/"), "resolves_to": r.target, "error": r.err, "outside_changes": r.changes, "outside_data": r.outData})
			}
		}
		c.Extra("max_segments", maxSeg)
		c.Extra("names_per_root", len(rels("rt", maxSeg))*len(prefixes))

		runAudit(c, work)
	})
}

func envOr(k, d string) string {
	if v := os.Getenv(k); v != "" {
		return v
	}
	return d
}
