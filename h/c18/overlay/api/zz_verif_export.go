//go:build verif

package api

import "net/http"

type verifRecorder struct {
	reached bool
	path    string
}

func (v *verifRecorder) ServeHTTP(w http.ResponseWriter, r *http.Request) {
	v.reached = true
	v.path = r.URL.Path
	w.WriteHeader(http.StatusOK)
}

// VerifBridgeCall runs the real callAPI of the database->API bridge for the
// given request path with the server handler replaced by a recorder. It
// reports whether a request was dispatched, the URL path the handler saw, and
// the error callAPI returned. Not safe for concurrent use.
func VerifBridgeCall(p string) (reached bool, reachedPath string, err error) {
	old := server.Handler
	rec := &verifRecorder{}
	server.Handler = rec
	defer func() { server.Handler = old }()
	_, err = callAPI(&EndpointBridgeRequest{Path: p})
	return rec.reached, rec.path, err
}

// VerifAPIV1Path exposes the bridge's scope prefix.
func VerifAPIV1Path() string { return apiV1Path }
