package main

// Optional engine-K part of C18, oracle (ii): a batch of cases is run in a
// child process of this harness under `strace -f -y -e trace=%file`; the child
// issues stat("/VERIF_MARK_BEGIN_<i>") and stat("/VERIF_MARK_END_<i>") around
// the single call of the component, and every path-taking system call between
// the two markers must resolve (lexically; directory file descriptors and the
// working directory are resolved by strace -y) inside the component's root.
// This is what sees reads whose result is thrown away (a stat or open of a
// file outside the root that ends in "not found").

import (
	"bufio"
	"encoding/json"
	"fmt"
	"os"
	"os/exec"
	"path/filepath"
	"regexp"
	"strconv"
	"strings"
	"sync"

	"verif/vlib"
)

const (
	auditChildEnv  = "VERIF_C18_AUDIT_CHILD"  // file with the JSON list of caseSpecs to run
	auditResultEnv = "VERIF_C18_AUDIT_RESULT" // file the child writes its per-case records to
	markBegin      = "/VERIF_MARK_BEGIN_"
	markEnd        = "/VERIF_MARK_END_"
)

// auditIdx >= 0 switches runCase into audit mode: markers around the call.
var auditIdx = -1

func auditMark(kind string) {
	if auditIdx >= 0 {
		_, _ = os.Stat(kind + strconv.Itoa(auditIdx))
	}
}

type auditRecord struct {
	Idx        int      `json:"idx"`
	Name       string   `json:"name"`
	Target     string   `json:"target"`
	Escaping   bool     `json:"escaping"`
	Err        string   `json:"err"`
	IsErr      bool     `json:"is_err"`
	AllowSub   []string `json:"allow_sub"`   // subtrees the call may touch
	AllowExact []string `json:"allow_exact"` // single paths the call may touch (not what is below them)
	AllowStat  []string `json:"allow_stat"`  // single paths the call may stat only
	Scope      string   `json:"scope"`       // the child's work dir: everything in it that is not allowed is outside
	Sandbox    string   `json:"sandbox"`
}

// maybeAuditChild runs the audit batch if this process is the traced child.
func maybeAuditChild(c *vlib.Ctx, work string) bool {
	specFile := os.Getenv(auditChildEnv)
	if specFile == "" {
		return false
	}
	var specs []caseSpec
	b, err := os.ReadFile(specFile)
	if err == nil {
		err = json.Unmarshal(b, &specs)
	}
	if err != nil {
		c.EngineError("audit child: cannot read specs: %v", err)
		return true
	}
	w := &worker{dir: filepath.Join(work, "audit")}
	recs := make([]auditRecord, 0, len(specs))
	for i, cs := range specs {
		auditIdx = i
		var res caseResult
		p, stack := vlib.Catch(func() { res = runCase(cs, w) })
		if p != nil {
			c.EngineError("audit child: case %+v: %v\n%s", cs, p, stack)
			break
		}
		recs = append(recs, auditRecord{Idx: i, Name: res.name, Target: res.target, Escaping: res.escaping, Err: res.err, IsErr: res.isErr,
			AllowSub: res.allowSub, AllowExact: res.allowExact, AllowStat: res.allowStat, Scope: work, Sandbox: res.sandbox})
	}
	auditIdx = -1
	out, _ := json.Marshal(recs)
	if err := os.WriteFile(os.Getenv(auditResultEnv), out, 0o644); err != nil {
		c.EngineError("audit child: cannot write results: %v", err)
	}
	return true
}

type access struct {
	call string
	path string
	line string
}

var (
	lineRe = regexp.MustCompile(`^(\d+)\s+(\w+)\((.*)$`)
	argRe  = regexp.MustCompile(`(AT_FDCWD|\d+)<([^>]*)>|"((?:[^"\\]|\\.)*)"`)
)

// parseTrace returns, per marker index, the path accesses between the markers.
func parseTrace(logFile string) (map[int][]access, map[int]bool, error) {
	f, err := os.Open(logFile)
	if err != nil {
		return nil, nil, err
	}
	defer func() { _ = f.Close() }()
	acc := map[int][]access{}
	closed := map[int]bool{}
	cur := -1
	sc := bufio.NewScanner(f)
	sc.Buffer(make([]byte, 1<<20), 1<<24)
	for sc.Scan() {
		line := sc.Text()
		m := lineRe.FindStringSubmatch(line)
		if m == nil {
			continue // "<... resumed>", exits, signals: the arguments were printed with the call's entry
		}
		call, args := m[2], m[3]
		if i := strings.Index(args, markBegin); i >= 0 {
			n, _ := strconv.Atoi(strings.SplitN(args[i+len(markBegin):], `"`, 2)[0])
			if cur != -1 {
				return nil, nil, fmt.Errorf("marker %d begins inside marker %d", n, cur)
			}
			cur = n
			acc[cur] = nil
			continue
		}
		if i := strings.Index(args, markEnd); i >= 0 {
			n, _ := strconv.Atoi(strings.SplitN(args[i+len(markEnd):], `"`, 2)[0])
			if n != cur {
				return nil, nil, fmt.Errorf("marker %d ends, but marker %d is open", n, cur)
			}
			closed[cur] = true
			cur = -1
			continue
		}
		if cur < 0 || call == "getcwd" {
			continue
		}
		// strip the result part, so that the path annotation of a returned fd is not read as an argument
		if i := strings.LastIndex(args, ") = "); i >= 0 {
			args = args[:i]
		}
		dir := ""
		for _, a := range argRe.FindAllStringSubmatch(args, -1) {
			if a[1] != "" {
				dir = strings.TrimSuffix(a[2], " (deleted)")
				continue
			}
			p := a[3]
			if !filepath.IsAbs(p) {
				if dir == "" {
					p = "{UNKNOWN-DIR}/" + p
				} else {
					p = filepath.Join(dir, p)
				}
			}
			acc[cur] = append(acc[cur], access{call: call, path: filepath.Clean(p), line: line})
		}
	}
	if cur != -1 {
		return nil, nil, fmt.Errorf("marker %d never ends", cur)
	}
	return acc, closed, sc.Err()
}

// judge returns the accesses of one case that are outside what it may touch.
func judge(rec auditRecord, accs []access) []access {
	var bad []access
	for _, a := range accs {
		ok := false
		for _, s := range rec.AllowSub {
			ok = ok || within(a.path, s)
		}
		for _, e := range rec.AllowExact {
			ok = ok || a.path == e
		}
		if a.call == "newfstatat" || a.call == "stat" || a.call == "lstat" || a.call == "statx" || a.call == "fstatat64" {
			for _, e := range rec.AllowStat {
				ok = ok || a.path == e
			}
		}
		if ok {
			continue
		}
		inScope := within(a.path, rec.Scope) || strings.HasPrefix(a.path, "{UNKNOWN-DIR}")
		for _, p := range absProbes {
			inScope = inScope || within(a.path, p)
		}
		if inScope {
			bad = append(bad, a)
		}
	}
	return bad
}

// runTraced runs the specs in one traced child and returns records and accesses.
func runTraced(dir string, tier string, specs []caseSpec) ([]auditRecord, map[int][]access, error) {
	if err := os.MkdirAll(dir, 0o755); err != nil {
		return nil, nil, err
	}
	specFile, resFile, logFile := filepath.Join(dir, "specs.json"), filepath.Join(dir, "result.json"), filepath.Join(dir, "strace.log")
	b, _ := json.Marshal(specs)
	if err := os.WriteFile(specFile, b, 0o644); err != nil {
		return nil, nil, err
	}
	exe, err := os.Executable()
	if err != nil {
		return nil, nil, err
	}
	cmd := exec.Command("strace", "-f", "-y", "-s", "4096", "-qq", "-e", "signal=none", "-e", "trace=%file", "-o", logFile,
		exe, "--tier", tier, "--out", filepath.Join(dir, "shard.json"))
	cmd.Env = append(os.Environ(), auditChildEnv+"="+specFile, auditResultEnv+"="+resFile, "TMPDIR=")
	cmd.Dir = "/"
	if out, err := cmd.CombinedOutput(); err != nil {
		return nil, nil, fmt.Errorf("traced child failed: %v\n%s", err, out)
	}
	var recs []auditRecord
	rb, err := os.ReadFile(resFile)
	if err == nil {
		err = json.Unmarshal(rb, &recs)
	}
	if err != nil {
		return nil, nil, fmt.Errorf("traced child left no result: %v", err)
	}
	acc, closed, err := parseTrace(logFile)
	if err != nil {
		return nil, nil, fmt.Errorf("trace does not validate: %v", err)
	}
	if len(recs) != len(specs) {
		return nil, nil, fmt.Errorf("traced child ran %d of %d cases", len(recs), len(specs))
	}
	for _, r := range recs {
		if !closed[r.Idx] {
			return nil, nil, fmt.Errorf("trace has no complete marker pair for case %d", r.Idx)
		}
	}
	return recs, acc, nil
}

func auditEvaluate(c *vlib.Ctx, cs caseSpec, rec auditRecord, accs []access, verbose bool) {
	cs.Audit = true
	cs.Name = rec.Name
	site := cs.site()
	anon := strings.NewReplacer(rec.Sandbox, "{SANDBOX}", rec.Scope, "{WORK}")
	bad := judge(rec, accs)
	if verbose {
		fmt.Printf("audited case: %s(%q) root={SANDBOX}/%s root-state=%q\n  escaping=%v error=%q\n  %d path accesses between the markers, %d outside the root\n",
			site, rec.Name, strings.Join(cs.Chain, "/"), cs.State, rec.Escaping, rec.Err, len(accs), len(bad))
		for _, a := range accs {
			fmt.Printf("    %s %s\n", a.call, anon.Replace(a.path))
		}
	}
	out := "audit:" + cs.Comp + "." + cs.Op
	if cs.State != "" {
		out += "[root " + cs.State + "]"
	}
	if cs.Spell != "" {
		out += "[root spelled " + cs.Spell + "]"
	}
	if cs.Case != "" {
		out += "[name case " + cs.Case + "]"
	}
	if cs.Sep != "" {
		out += "[separator " + cs.Sep + "]"
	}
	if rec.Escaping {
		out += "/escaping"
	} else {
		out += "/inside"
	}
	if len(bad) > 0 {
		var l []string
		for i, a := range bad {
			if i == 6 {
				l = append(l, fmt.Sprintf("... and %d more", len(bad)-6))
				break
			}
			l = append(l, a.call+" "+tempSuffix.ReplaceAllString(anon.Replace(a.path), "NNN"))
		}
		disc := "outside-access-for-name-inside-root"
		if rec.Escaping {
			disc = "outside-access-for-escaping-name"
		}
		c.Violate("no-access-outside-root", site, disc,
			fmt.Sprintf("%s(%q) root={SANDBOX}/%s%s (escaping=%v, returned error %q) issued system calls on paths outside the root:\n%s",
				site, rec.Name, strings.Join(cs.Chain, "/"), stateNote(cs), rec.Escaping, rec.Err, strings.Join(l, "\n")), cs)
		out += "/outside-access"
	} else {
		out += "/clean"
	}
	c.Outcome(out)
	c.Add(0, 1, 1)
	c.ExtraAdd("audited_path_syscalls", int64(len(accs))) // varies slightly from run to run (temp-name collisions, runtime)
	if rec.Escaping {
		c.Nontrivial(fmt.Sprintf("audit|%s|%s|%v|%s|%s|%s|%s|%s%s", cs.Comp, cs.Op, cs.Chain, cs.State, cs.Spell, cs.Case, cs.Sep, cs.Prefix, cs.Rel))
	}
}

func auditSpecs(c *vlib.Ctx) []caseSpec {
	maxSeg := vlib.Pick(c, 2, 3)
	chains := [][]string{{"rt"}, {"a", "rt", "rt"}}
	unp := [][]string{{"st", "tmp", unpackRoot}, {"a", unpackRoot, "st", "tmp", unpackRoot}}
	sets := []rootSet{
		{"fstree", []string{"Put", "Get", "Delete", "Query"}, chains, nil},
		{"dirstruct", []string{"EnsureAbsPath", "EnsureRelPath", "EnsureRelDir", "Child.EnsureRelPath"}, chains, nil},
		{"unpack", []string{"UnpackArchive"}, unp, nil},
		{"scan", []string{"ScanStorage"}, chains, nil},
	}
	only := os.Getenv("VERIF_C18_ONLY")
	var specs []caseSpec
	for _, rs := range sets {
		if only != "" && only != rs.comp {
			continue
		}
		for _, chain := range rs.chains {
			for _, r := range rels(chain[len(chain)-1], maxSeg) {
				for _, pf := range prefixes {
					if rs.comp == "scan" && pf == prefNone {
						// resolving a relative scan root asks for the working directory, which
						// lies outside the root by construction: not audited (covered by engine Q)
						continue
					}
					for _, op := range rs.ops {
						specs = append(specs, caseSpec{Comp: rs.comp, Op: op, Chain: chain, Prefix: pf, Rel: r, Cwd: "parent"})
					}
				}
			}
		}
	}
	// root states (see rootStates): names of up to 2 segments for fstree, where the state
	// decides which directory a query walks; single segments for the other components
	for _, rs := range sets {
		if only != "" && only != rs.comp {
			continue
		}
		for _, state := range rootStates[rs.comp] {
			for _, chain := range rs.chains {
				k := 1
				if rs.comp == "fstree" {
					k = 2
				}
				for _, r := range rels(chain[len(chain)-1], k) {
					for _, pf := range prefixes {
						if rs.comp == "scan" && pf == prefNone {
							continue
						}
						for _, op := range rs.ops {
							if c.Quick() && strings.Contains(r, "/") && op != "Query" {
								continue // quick: two segments only for Query, where the state decides the walk root
							}
							specs = append(specs, caseSpec{Comp: rs.comp, Op: op, Chain: chain, Prefix: pf, Rel: r, Cwd: "parent", State: state})
						}
					}
				}
			}
		}
	}
	// root spellings (see spellings): single segments (quick), up to 2 segments for DirStructure (thorough)
	for _, rs := range sets {
		if only != "" && only != rs.comp {
			continue
		}
		for _, sp := range spellings {
			if c.Quick() && sp != "trailing-sep" && sp != "inner-dot" {
				continue
			}
			for _, chain := range rs.chains {
				k := 1
				if rs.comp == "dirstruct" && !c.Quick() {
					k = 2
				}
				for _, r := range rels(chain[len(chain)-1], k) {
					for _, pf := range prefixes {
						if rs.comp == "scan" && pf == prefNone {
							continue
						}
						for _, op := range rs.ops {
							specs = append(specs, caseSpec{Comp: rs.comp, Op: op, Chain: chain, Prefix: pf, Rel: r, Cwd: "parent", Spell: sp})
						}
					}
				}
			}
		}
	}
	// letter-case siblings and backslash entry names: names of up to 2 segments
	for _, rs := range sets {
		if only != "" && only != rs.comp {
			continue
		}
		for _, chain := range rs.chains {
			for _, r := range rels(chain[len(chain)-1], 2) {
				for _, pf := range prefixes {
					if rs.comp == "scan" && pf == prefNone {
						continue
					}
					for _, op := range rs.ops {
						for _, kind := range caseVariants {
							cs := caseSpec{Comp: rs.comp, Op: op, Chain: chain, Prefix: pf, Rel: r, Cwd: "parent", Case: kind}
							if kind != "mixed" && (kind == "upper" || !c.Quick()) && changedByVariant(cs) {
								specs = append(specs, cs)
							}
						}
						if rs.comp == "unpack" && (pf == prefNone || pf == prefSlash) {
							for _, sv := range sepVariants {
								cs := caseSpec{Comp: rs.comp, Op: op, Chain: chain, Prefix: pf, Rel: r, Sep: sv}
								if (sv != "mixed-slash-first" || !c.Quick()) && changedByVariant(cs) {
									specs = append(specs, cs)
								}
							}
						}
					}
				}
			}
		}
	}
	for i := range specs {
		if specs[i].Comp != "scan" {
			specs[i].Cwd = ""
		}
	}
	return specs
}

// runAudit is the parent side: traced children in parallel, then the verdicts in enumeration order.
func runAudit(c *vlib.Ctx, work string) {
	if os.Getenv("VERIF_C18_NOAUDIT") != "" {
		c.Extra("read_audit", "switched off by VERIF_C18_NOAUDIT")
		return
	}
	if _, err := exec.LookPath("strace"); err != nil {
		c.Extra("read_audit", "skipped: strace not found")
		c.Assume("strace was not available: oracle (ii) (system-call audit of reads outside the root) did not run")
		return
	}
	if c.Expired() {
		return
	}
	specs := auditSpecs(c)
	if len(specs) == 0 {
		return
	}
	const children = 12
	type part struct {
		lo, hi int
		recs   []auditRecord
		acc    map[int][]access
		err    error
	}
	parts := make([]*part, 0, children)
	per := (len(specs) + children - 1) / children
	for lo := 0; lo < len(specs); lo += per {
		hi := lo + per
		if hi > len(specs) {
			hi = len(specs)
		}
		parts = append(parts, &part{lo: lo, hi: hi})
	}
	var wg sync.WaitGroup
	for i, p := range parts {
		wg.Add(1)
		go func(i int, p *part) {
			defer wg.Done()
			p.recs, p.acc, p.err = runTraced(filepath.Join(work, fmt.Sprintf("audit%d", i)), c.Tier, specs[p.lo:p.hi])
		}(i, p)
	}
	wg.Wait()
	n := 0
	for _, p := range parts {
		if p.err != nil {
			c.EngineError("read audit: %v", p.err)
			return
		}
		for _, r := range p.recs {
			auditEvaluate(c, specs[p.lo+r.Idx], r, p.acc[r.Idx], false)
			n++
		}
	}
	c.Extra("read_audit", fmt.Sprintf("%d cases traced under strace in %d child processes, every marker pair validated", n, len(parts)))
	c.Scenario("read audit under strace (oracle ii)")
}

func replayAudit(c *vlib.Ctx, cs caseSpec, work string) {
	if _, err := exec.LookPath("strace"); err != nil {
		c.EngineError("replay of an audit witness needs strace: %v", err)
		return
	}
	cs.Audit = false
	recs, acc, err := runTraced(filepath.Join(work, "audit-replay"), c.Tier, []caseSpec{cs})
	if err != nil {
		c.EngineError("read audit: %v", err)
		return
	}
	auditEvaluate(c, cs, recs[0], acc[0], true)
}

func stateNote(cs caseSpec) string {
	n := ""
	if cs.State != "" {
		n += " root-state=" + cs.State
	}
	if cs.Spell != "" {
		n += " root-spelling=" + cs.Spell
	}
	if cs.Case != "" {
		n += " name-case=" + cs.Case
	}
	if cs.Sep != "" {
		n += " entry-separator=" + cs.Sep
	}
	return n
}
