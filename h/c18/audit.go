package main

import "verif/vlib"

// placeholders for the optional engine-K read audit
func maybeAuditChild(c *vlib.Ctx, work string) bool       { return false }
func replayAudit(c *vlib.Ctx, cs caseSpec, work string)   {}
func runAudit(c *vlib.Ctx, work string)                   {}
