// C03: secret and crown-jewel records never cross a non-privileged database interface.
//
// Engine Q, complete product (no sampling) on the real code:
//
//	backend   hashmap, bbolt, fstree (each with immediate and shadow delete), the injected
//	          runtime registry with a prefix provider and with one single-value provider per
//	          record, the injected config database (thorough: also badger); for the modifying
//	          access paths also an injected hashmap whose look-up of the record fails once with
//	          a generic error, or with database.ErrShuttingDown, during the access
//	race      one forced interleaving on a hashmap of its own: a privileged actor holds the
//	          lock of the unmarked live record, the reader's query (3 shapes) is observed
//	          waiting for that lock, the record is marked under the lock, the lock released
//	flags     none, secret, crown jewel, both
//	marking   how the privileged side marks the record: a Put of a flagged record, a Put
//	          through an interface with AlwaysMakeSecret/AlwaysMakeCrownjewel, a plain Put
//	          followed by MakeSecret/MakeCrownJewel (+ an update of the content), a PutNew of
//	          a record flagged on its own metadata, or a PutNew of a copy (duplicate metadata)
//	          of a flagged record stored under another key
//	reader    Options.Local x Options.Internal (4)
//	cache     none, cold, warm through a Get of the reader before the marking, warm through
//	          a Put of the reader before the marking
//	access    Get, Exists, Query (prefix, exact key, condition), Subscribe + privileged
//	          writes, Subscribe + PushUpdate, InsertValue, SetAbsoluteExpiry,
//	          SetRelativateExpiry, MakeSecret, MakeCrownJewel, Put, PutNew, Delete, Purge,
//	          PutMany, and api.DatabaseAPI.Handle get/query/sub/qsub/create/update/insert/delete
//	records   record.Wrapper and a struct record; key directly in the cell's directory or one
//	          level deeper
//	spelling  the reader spells the key of the marked record canonically or as an alias
//	          (dir//t, dir/./t, ./dir/t, dir/x/../t, dir/t/, /dir/t): all six on fstree, which
//	          resolves them to the record's file, one control column on the other backends;
//	          for every access path that takes a key or key prefix from the reader
//	histories one access, and every non-feed access followed by every access of the same
//	          reader (same interface / same API connection)
//	thorough  also: badger, the reader's Always* options, two-access histories for all
//	          cache settings, record types and key depths
//
// Every cell is one history on the real code: privileged write(s) -> [reader
// pre-access] -> marking -> [first access] -> access under test -> privileged
// read-back + raw storage dump. Each cell has its own key directory, so that cells
// are independent of each other and can run in parallel on the shared databases
// (cells on one hashmap database run one after the other, see backend.serial).
//
// Oracle, for a reader that lacks the privilege the marks require
// (secret needs Internal, crown jewel needs Local):
//
//	no-disclosure    the access does not hand the record (data or metadata) to the
//	                 reader: not returned, not listed, not fed, not sent by the API.
//	no-modification  the privileged read-back and the raw storage bytes of the record are
//	                 identical before and after the access.
//
// Every other cell is a positive control (vacuity guard): a denied cell counts as
// non-trivial only if the same access succeeds for the unmarked record / the
// fully privileged reader in the same group.
package main

import (
	"bytes"
	"context"
	"encoding/hex"
	"encoding/json"
	"errors"
	"fmt"
	"os"
	"path"
	"path/filepath"
	"runtime"
	"runtime/pprof"
	"sort"
	"strings"
	"sync"
	"sync/atomic"
	"time"

	"github.com/safing/portbase/api"
	"github.com/safing/portbase/config"
	"github.com/safing/portbase/database"
	"github.com/safing/portbase/database/query"
	"github.com/safing/portbase/database/record"
	"github.com/safing/portbase/database/storage"
	_ "github.com/safing/portbase/database/storage/badger"
	_ "github.com/safing/portbase/database/storage/bbolt"
	_ "github.com/safing/portbase/database/storage/fstree"
	"github.com/safing/portbase/database/storage/hashmap"
	"github.com/safing/portbase/formats/dsd"
	"github.com/safing/portbase/log"
	pbruntime "github.com/safing/portbase/runtime"

	"verif/vlib"
)

// ---------- the enumerated domain ----------

const (
	farFuture = int64(4102444800) // 2100-01-01, a fixed absolute expiry
	guardWait = 30 * time.Second  // turns a missing terminal API reply into an engine error
)

// Cell is one point of the product; it is also the replay witness.
type Cell struct {
	Backend  string `json:"backend"`
	Shadow   bool   `json:"shadow_delete"`
	Rec      string `json:"record_type"` // wrapper | struct
	Depth    int    `json:"key_depth"`   // 1: <dir>/t   2: <dir>/d/t
	Flags    string `json:"flags"`       // none | secret | crown | both
	Marking  string `json:"marking"`     // plain | flagged-put | always-opts | reflag
	Local    bool   `json:"reader_local"`
	Internal bool   `json:"reader_internal"`
	Cache    string `json:"cache"` // none | cold | warm-get | warm-put
	// ReaderOpts: further options of the reader's interface: "" | always-secret | always-crown | always-expiry
	ReaderOpts string `json:"reader_opts,omitempty"`
	// Alias: the reader spells the key of the marked record differently: "" (canonical) |
	// dslash (dir//t) | dot (dir/./t) | lead-dot (./dir/t) | dotdot (dir/x/../t) | trail (dir/t/) |
	// lead-slash (/dir/t). fstree resolves all of them to the record's file; on the other
	// backends such a spelling is simply a different key.
	Alias string `json:"key_spelling,omitempty"`
	// Pre: an access of the same reader that precedes the access under test (after the marking)
	Pre  string `json:"first_access,omitempty"`
	Path string `json:"path"`
}

func (c Cell) String() string {
	p := c.Path
	if c.Pre != "" {
		p = c.Pre + ">" + c.Path
	}
	ro := ""
	if c.ReaderOpts != "" {
		ro = "+" + c.ReaderOpts
	}
	if c.Alias != "" {
		p += "@" + c.Alias
	}
	return fmt.Sprintf("%s/shadow=%v/%s/d%d/%s/%s/L=%v,I=%v%s/%s/%s", c.Backend, c.Shadow, c.Rec, c.Depth, c.Flags, c.Marking, c.Local, c.Internal, ro, c.Cache, p)
}

func (c Cell) secret() bool { return c.Flags == "secret" || c.Flags == "both" }
func (c Cell) crown() bool  { return c.Flags == "crown" || c.Flags == "both" }
func (c Cell) isAPI() bool  { return strings.HasPrefix(c.Path, "api:") }
func (c Cell) warm() bool   { return c.Cache == "warm-get" || c.Cache == "warm-put" }

var ifacePaths = []string{
	"Get", "Exists", "Query-prefix", "Query-key", "Query-cond",
	"Subscribe-writes", "Subscribe-push",
	"InsertValue", "SetAbsoluteExpiry", "SetRelativateExpiry", "MakeSecret", "MakeCrownJewel",
	"Put", "PutNew", "Delete", "Purge", "PutMany",
}

var apiPaths = []string{"api:get", "api:query", "api:sub", "api:qsub", "api:create", "api:update", "api:insert", "api:delete"}

// pathFamily groups access paths by the mechanism that guards them.
func pathFamily(p string) string {
	switch p {
	case "Get", "Exists", "api:get":
		return "get"
	case "Query-prefix", "Query-key", "Query-cond", "api:query":
		return "query"
	case "Subscribe-writes", "Subscribe-push", "api:sub", "api:qsub":
		return "feed"
	case "Put", "PutNew", "api:create", "api:update":
		return "put"
	case "Purge", "PutMany":
		return "bulk"
	default:
		return "update-by-key" // InsertValue, Set*Expiry, Make*, Delete, api:insert, api:delete
	}
}

type flagMarking struct{ flags, marking string }

func mkFlagMarkings(markings ...string) []flagMarking {
	out := []flagMarking{{"none", "plain"}}
	for _, f := range []string{"secret", "crown", "both"} {
		for _, m := range markings {
			out = append(out, flagMarking{f, m})
		}
	}
	return out
}

// flagMarkings: every way of marking. flagged-putnew: the flags are set on the record's own
// metadata and its first save is a PutNew of the privileged writer; copy-putnew: a flagged
// record stored under another key is copied (with a duplicate of its metadata) to the key
// and saved with PutNew (the "save as" pattern).
var flagMarkings = mkFlagMarkings("flagged-put", "always-opts", "reflag", "flagged-putnew", "copy-putnew")

// baseFlagMarkings is the reduced list the quick tier uses for the two-access histories.
var baseFlagMarkings = mkFlagMarkings("flagged-put", "always-opts", "reflag")

var privs = [][2]bool{{true, true}, {true, false}, {false, true}, {false, false}} // (Local, Internal), control first

// ---------- backends ----------

type backend struct {
	kind     string
	shadow   bool
	db       string
	readback bool // the marks of a record are what the privileged read-back shows (config)
	prov     *memProvider
	push     pbruntime.PushFunc
	// runtime-single: every record of a cell is served by a single-value provider of its
	// own, registered at exactly the record's key
	singleReg *pbruntime.Registry
	// hashmap-fault: a hashmap behind a wrapper whose Get can be armed to fail once
	fault *faultStore
	// serial is held for the whole cell on the hashmap backends: their Put is called with
	// the record locked and then takes the map lock, while their query executor holds the
	// map lock and locks every record in turn, so two cells working on one hashmap
	// database at the same time can block each other for ever (a scheduling matter that is
	// not this property's subject).
	serial sync.Mutex
}

func (b *backend) id() string { return fmt.Sprintf("%s/%v", b.kind, b.shadow) }

var backends = map[string]*backend{}

// memProvider is a runtime value provider that keeps the records it is given,
// like the providers of real modules keep their live objects.
type memProvider struct {
	mu sync.Mutex
	m  map[string]record.Record
}

func (p *memProvider) Set(r record.Record) (record.Record, error) {
	p.mu.Lock()
	defer p.mu.Unlock()
	p.m[r.DatabaseKey()] = r
	return r, nil
}

func (p *memProvider) Get(keyOrPrefix string) ([]record.Record, error) {
	p.mu.Lock()
	defer p.mu.Unlock()
	var keys []string
	for k := range p.m {
		if strings.HasPrefix(k, keyOrPrefix) {
			keys = append(keys, k)
		}
	}
	sort.Strings(keys)
	out := make([]record.Record, 0, len(keys))
	for _, k := range keys {
		out = append(out, p.m[k])
	}
	return out, nil
}

func (p *memProvider) remove(key string) {
	p.mu.Lock()
	delete(p.m, key)
	p.mu.Unlock()
}

// oneProvider is a single-value runtime provider that keeps the record it is given.
type oneProvider struct {
	mu  sync.Mutex
	key string
	r   record.Record
}

func (p *oneProvider) Set(r record.Record) (record.Record, error) {
	if r.DatabaseKey() != p.key {
		return nil, errors.New("key not served by this provider")
	}
	p.mu.Lock()
	defer p.mu.Unlock()
	p.r = r
	return r, nil
}

func (p *oneProvider) Get(keyOrPrefix string) ([]record.Record, error) {
	p.mu.Lock()
	defer p.mu.Unlock()
	if p.r == nil || keyOrPrefix != p.key {
		return nil, nil
	}
	return []record.Record{p.r}, nil
}

func (p *oneProvider) clear() {
	p.mu.Lock()
	p.r = nil
	p.mu.Unlock()
}

var errInjectedFault = errors.New("injected storage fault")

// faultStore is an injected storage: a hashmap whose Get (which also serves the
// controller's GetMeta) fails once with a generic error for every armed key.
type faultStore struct {
	storage.Interface
	mu    sync.Mutex
	armed map[string]bool
	err   error // what an armed look-up fails with
}

func (f *faultStore) Injected() bool { return true }

func (f *faultStore) Get(key string) (record.Record, error) {
	f.mu.Lock()
	hit := f.armed[key]
	delete(f.armed, key)
	f.mu.Unlock()
	if hit {
		return nil, f.err
	}
	return f.Interface.Get(key)
}

func (f *faultStore) arm(keys ...string) {
	f.mu.Lock()
	for _, k := range keys {
		f.armed[k] = true
	}
	f.mu.Unlock()
}

// disarm reports how many of the keys were still armed.
func (f *faultStore) disarm(keys ...string) (left int) {
	f.mu.Lock()
	for _, k := range keys {
		if f.armed[k] {
			left++
		}
		delete(f.armed, k)
	}
	f.mu.Unlock()
	return left
}

var (
	tmpRoot    string
	privileged *database.Interface
	cfgRegLock sync.Mutex
)

func setup(c *vlib.Ctx, withBadger bool) error {
	log.SetLogLevel(log.CriticalLevel)
	if err := log.Start(); err != nil {
		return fmt.Errorf("log.Start: %w", err)
	}
	base := ""
	if st, err := os.Stat("/dev/shm"); err == nil && st.IsDir() {
		base = "/dev/shm"
	}
	dir, err := os.MkdirTemp(base, "verif-c03-")
	if err != nil {
		dir, err = os.MkdirTemp("", "verif-c03-")
		if err != nil {
			return err
		}
	}
	tmpRoot = dir
	// fstree stages every write through a probe file in os.TempDir() (renameio) and falls
	// back to the record's own directory if that fails. Sixteen workers creating files in one
	// shared temp directory spend most of their time waiting for that directory in the
	// kernel; with a TMPDIR that does not exist every write is staged in the cell's own
	// directory (renameio's documented fallback).
	_ = os.Setenv("TMPDIR", dir+"/no-such-dir")
	if err := database.InitializeWithPath(dir); err != nil {
		return err
	}
	kinds := []string{"hashmap", "bbolt", "fstree"}
	if withBadger {
		kinds = append(kinds, "badger")
	}
	for _, k := range kinds {
		for _, sh := range []bool{false, true} {
			name := fmt.Sprintf("c03-%s-%v", k, sh)
			if _, err := database.Register(&database.Database{Name: name, Description: "C03 " + k, StorageType: k, ShadowDelete: sh}); err != nil {
				return fmt.Errorf("register %s: %w", name, err)
			}
			if _, err := database.VerifController(name); err != nil {
				return fmt.Errorf("open %s: %w", name, err)
			}
			b := &backend{kind: k, shadow: sh, db: name}
			backends[b.id()] = b
		}
	}
	// injected runtime registry
	{
		name := "c03-runtime"
		if _, err := database.Register(&database.Database{Name: name, Description: "C03 runtime", StorageType: database.StorageTypeInjected}); err != nil {
			return err
		}
		reg := pbruntime.NewRegistry()
		prov := &memProvider{m: map[string]record.Record{}}
		push, err := reg.Register("r/", prov)
		if err != nil {
			return err
		}
		if err := reg.InjectAsDatabase(name); err != nil {
			return err
		}
		b := &backend{kind: "runtime", db: name, prov: prov, push: push}
		backends[b.id()] = b
	}
	// injected runtime registry with one single-value provider per record
	{
		name := "c03-runtime-single"
		if _, err := database.Register(&database.Database{Name: name, Description: "C03 runtime, single-value providers", StorageType: database.StorageTypeInjected}); err != nil {
			return err
		}
		reg := pbruntime.NewRegistry()
		if err := reg.InjectAsDatabase(name); err != nil {
			return err
		}
		b := &backend{kind: "runtime-single", db: name, singleReg: reg}
		backends[b.id()] = b
	}
	// injected hashmaps whose look-ups can be armed to fail: with a generic error, and with
	// database.ErrShuttingDown (a storage that is being closed)
	for _, fk := range []struct {
		kind string
		err  error
	}{{"hashmap-fault", errInjectedFault}, {"hashmap-fault-shutdown", database.ErrShuttingDown}} {
		name := "c03-" + fk.kind
		if _, err := database.Register(&database.Database{Name: name, Description: "C03 faulty storage", StorageType: database.StorageTypeInjected}); err != nil {
			return err
		}
		hm, err := hashmap.NewHashMap(name, "")
		if err != nil {
			return err
		}
		fs := &faultStore{Interface: hm, armed: map[string]bool{}, err: fk.err}
		if _, err := database.InjectDatabase(name, fs); err != nil {
			return err
		}
		b := &backend{kind: fk.kind, db: name, fault: fs}
		backends[b.id()] = b
	}
	// a hashmap database of its own for the "marked under the record lock" scenario
	{
		name := "c03-hashmap-race"
		if _, err := database.Register(&database.Database{Name: name, Description: "C03 hashmap, locked re-flag", StorageType: "hashmap"}); err != nil {
			return err
		}
		if _, err := database.VerifController(name); err != nil {
			return err
		}
		b := &backend{kind: "hashmap-race", db: name}
		backends[b.id()] = b
	}
	// injected config database
	{
		if err := config.VerifRegisterAsDatabase(); err != nil {
			return fmt.Errorf("config database: %w", err)
		}
		b := &backend{kind: "config", db: "config", readback: true}
		backends[b.id()] = b
	}
	privileged = database.NewInterface(&database.Options{Local: true, Internal: true})
	return nil
}

func teardown() {
	_ = database.Shutdown()
	if tmpRoot != "" {
		_ = os.RemoveAll(tmpRoot)
	}
}

// ---------- records ----------

type srec struct {
	record.Base
	sync.Mutex
	Value string
}

func newRec(kind, fullKey, val string) record.Record {
	if kind == "struct" {
		r := &srec{Value: val}
		r.SetKey(fullKey)
		return r
	}
	w, _ := record.NewWrapper(fullKey, nil, dsd.JSON, []byte(`{"Value":"`+val+`"}`))
	return w
}

// obs is what a reader got to see of a record.
type obs struct {
	Key    string `json:"key"`
	Value  string `json:"value"`
	Secret bool   `json:"secret"`
	Crown  bool   `json:"crown"`
	Via    string `json:"via"`
	Path   string `json:"path"`
}

func observe(r record.Record, via string) obs {
	r.Lock()
	defer r.Unlock()
	o := obs{Key: r.Key(), Via: via}
	if m := r.Meta(); m != nil {
		o.Secret = !m.CheckPermission(true, false)
		o.Crown = !m.CheckPermission(false, true)
	}
	if p, _ := vlib.Catch(func() {
		if acc := r.GetAccessor(r); acc != nil {
			if v, ok := acc.GetString("Value"); ok {
				o.Value = v
			}
		}
	}); p != nil {
		o.Value = "?"
	}
	return o
}

func errClass(err error) string {
	switch {
	case err == nil:
		return "ok"
	case errors.Is(err, database.ErrPermissionDenied):
		return "denied"
	case errors.Is(err, database.ErrNotFound), errors.Is(err, storage.ErrNotFound):
		return "notfound"
	case errors.Is(err, database.ErrNotImplemented), errors.Is(err, storage.ErrNotImplemented):
		return "notimpl"
	case errors.Is(err, database.ErrReadOnly):
		return "readonly"
	default:
		return "error"
	}
}

func apiErrClass(msg string) string {
	switch {
	case strings.Contains(msg, database.ErrPermissionDenied.Error()):
		return "denied"
	case strings.Contains(msg, database.ErrNotFound.Error()), strings.Contains(msg, storage.ErrNotFound.Error()):
		return "notfound"
	case strings.Contains(msg, "not implemented"):
		return "notimpl"
	default:
		return "error"
	}
}

// ---------- snapshots ----------

// snap returns the raw stored bytes and the privileged read-back of a key.
func snap(b *backend, dbKey string) string {
	var sb strings.Builder
	st, err := database.VerifStorage(b.db)
	if err != nil {
		return "storage:" + err.Error()
	}
	r, err := st.Get(dbKey)
	if err != nil {
		sb.WriteString("raw=" + errClass(err))
	} else {
		r.Lock()
		data, merr := r.MarshalRecord(r)
		r.Unlock()
		if merr != nil {
			sb.WriteString("raw=marshal-error")
		} else {
			sb.WriteString("raw=" + hex.EncodeToString(data))
		}
	}
	pr, err := privileged.Get(b.db + ":" + dbKey)
	if err != nil {
		sb.WriteString(" get=" + errClass(err))
	} else {
		o := observe(pr, "readback")
		pr.Lock()
		data, merr := pr.MarshalRecord(pr)
		pr.Unlock()
		if merr != nil {
			sb.WriteString(" get=marshal-error")
		} else {
			sb.WriteString(fmt.Sprintf(" get=%s value=%q secret=%v crown=%v", hex.EncodeToString(data), o.Value, o.Secret, o.Crown))
		}
	}
	return sb.String()
}

// ---------- the API as a reader ----------

type apiConn struct {
	h     api.DatabaseAPI
	ch    chan []byte
	stash []apiMsg // replies to other operations than the awaited one (feed messages)
}

func newAPIConn() *apiConn {
	a := &apiConn{ch: make(chan []byte, 8192)}
	a.h = api.CreateDatabaseAPI(func(d []byte) { //nolint:govet
		a.ch <- append([]byte(nil), d...)
	})
	return a
}

type apiMsg struct {
	op, typ, key string
	data         []byte
}

func parseAPIMsg(m []byte) apiMsg {
	parts := bytes.SplitN(m, []byte("|"), 4)
	var out apiMsg
	if len(parts) > 0 {
		out.op = string(parts[0])
	}
	if len(parts) > 1 {
		out.typ = string(parts[1])
	}
	if len(parts) > 2 {
		out.key = string(parts[2])
	}
	if len(parts) > 3 {
		out.data = parts[3]
	}
	return out
}

var errGuard = errors.New("no terminal reply from the database API within the guard time")

// await reads the replies to operation op until one of the terminal types arrives;
// replies to other operations (the feed of an open subscription) are stashed.
func (a *apiConn) await(op string, collect *[]apiMsg, terminal ...string) (apiMsg, error) {
	guard := time.NewTimer(guardWait)
	defer guard.Stop()
	for {
		select {
		case raw := <-a.ch:
			m := parseAPIMsg(raw)
			if m.op != op {
				a.stash = append(a.stash, m)
				continue
			}
			if collect != nil {
				*collect = append(*collect, m)
			}
			for _, t := range terminal {
				if m.typ == t {
					return m, nil
				}
			}
		case <-guard.C:
			return apiMsg{}, errGuard
		}
	}
}

// cancel ends a sub/qsub: it repeats the cancel request while the API answers that
// it does not know the subscription yet (the handler goroutine stores it after
// registering it), and waits for the terminal "done".
func (a *apiConn) cancel(op string, collect *[]apiMsg) error {
	deadline := time.Now().Add(guardWait)
	for {
		a.h.Handle([]byte(op + "|cancel"))
		m, err := a.await(op, collect, "done", "error")
		if err != nil {
			return err
		}
		if m.typ == "done" {
			return nil
		}
		if !strings.Contains(m.key, "could not find subscription") {
			return fmt.Errorf("cancel: %s", m.key)
		}
		if time.Now().After(deadline) {
			return errGuard
		}
		runtime.Gosched()
	}
}

func apiObs(m apiMsg, via string) obs {
	o := obs{Key: m.key, Via: via + ":" + m.typ}
	d := m.data
	if len(d) > 0 && d[0] == dsd.JSON {
		d = d[1:]
	}
	var parsed struct {
		Value any `json:"Value"`
	}
	if json.Unmarshal(d, &parsed) == nil && parsed.Value != nil {
		o.Value = fmt.Sprint(parsed.Value)
	}
	return o
}

// ---------- alias spellings of a key ----------

var aliasKinds = []string{"dslash", "dot", "lead-dot", "dotdot", "trail", "lead-slash"}

// spell returns the key dir+"t" (dir ends in "/") and the directory prefix in the given spelling.
func spell(alias, dir string) (key, prefix string) {
	switch alias {
	case "dslash":
		return dir + "/t", dir + "/"
	case "dot":
		return dir + "./t", dir + "./"
	case "lead-dot":
		return "./" + dir + "t", "./" + dir
	case "dotdot":
		return dir + "x/../t", dir + "x/../"
	case "trail":
		return dir + "t/", dir
	case "lead-slash":
		return "/" + dir + "t", "/" + dir
	default:
		return dir + "t", dir
	}
}

// canonKey is the key a path-resolving backend (fstree) reduces a spelling to.
func canonKey(dbKey string) string {
	return strings.TrimPrefix(path.Clean("/"+dbKey), "/")
}

// ---------- one cell ----------

type result struct {
	cell            Cell
	denied          bool // the oracle applies: the reader lacks a privilege the marks require
	success         bool // positive-control sense: the access did what it is for
	outcome         string
	leaks           []obs
	stale           bool
	checkMod        bool
	before          string
	after           string
	witnessOK       bool   // the unmarked sibling was returned/listed/fed in the same access
	faultHit        bool   // hashmap-fault: the armed look-up failure was hit by the access
	modBy           string // the access path after which the stored record differed
	fedWhileAllowed int    // pushes of the record at a step at which its marks did not exclude the reader
	trace           []string
	calls           int64
	engineErr       string
	panicked        string
}

func runCell(cell Cell, idx int64) (res result) {
	res.cell = cell
	b := backends[fmt.Sprintf("%s/%v", cell.Backend, cell.Shadow)]
	if b == nil {
		res.engineErr = "unknown backend " + cell.Backend
		return res
	}
	if b.kind == "hashmap" || b.fault != nil {
		b.serial.Lock()
		defer b.serial.Unlock()
	}
	dir := fmt.Sprintf("r/c%d/", idx)
	if cell.Depth == 2 {
		dir += "d/"
	}
	tKey, nKey := dir+"t", dir+"n"
	fullT, fullN := b.db+":"+tKey, b.db+":"+nKey
	// copy-putnew: the flagged record that is copied lives in a directory of its own
	sKey := fmt.Sprintf("r/s%d/s", idx)
	fullS := b.db + ":" + sKey
	// the reader's spelling of the marked record's key and of the directory prefix
	accKey, accDir := spell(cell.Alias, dir)
	accT := b.db + ":" + accKey
	// isT: does a key handed to the reader denote the marked record
	isT := func(fullKey string) bool {
		if fullKey == fullT {
			return true
		}
		if b.kind != "fstree" {
			return false
		}
		dbn, dbk := record.ParseKey(fullKey)
		return dbn == b.db && canonKey(dbk) == tKey
	}

	step := func(name string, err error) error {
		res.calls++
		res.trace = append(res.trace, name+" -> "+errClass(err))
		return err
	}
	fail := func(what string, err error) result {
		res.engineErr = fmt.Sprintf("%s: set-up step %s failed: %v", cell, what, err)
		return res
	}

	cellPush := b.push
	if b.singleReg != nil {
		keys := []string{tKey, nKey}
		if cell.Marking == "copy-putnew" {
			keys = append(keys, sKey)
		}
		var provs []*oneProvider
		for _, k := range keys {
			p := &oneProvider{key: k}
			push, err := b.singleReg.Register(k, p)
			if err != nil {
				return fail("register single-value provider", err)
			}
			provs = append(provs, p)
			if k == tKey {
				cellPush = push
			}
		}
		defer func() {
			for _, p := range provs {
				p.clear()
				pbruntime.VerifUnregister(b.singleReg, p.key)
			}
		}()
	}
	if b.kind == "config" {
		cfgRegLock.Lock()
		for _, k := range []string{tKey, nKey, sKey} {
			if k == sKey && cell.Marking != "copy-putnew" {
				continue
			}
			if _, err := config.GetOption(k); err != nil {
				if err := config.Register(&config.Option{Name: k, Key: k, Description: "C03", OptType: config.OptTypeString, DefaultValue: "d"}); err != nil {
					cfgRegLock.Unlock()
					return fail("config.Register", err)
				}
			}
		}
		cfgRegLock.Unlock()
	}
	defer func() {
		// wipe the cell's keys
		if st, err := database.VerifStorage(b.db); err == nil {
			_ = st.Delete(tKey)
			_ = st.Delete(nKey)
			if cell.Marking == "copy-putnew" {
				_ = st.Delete(sKey)
			}
			if accKey != tKey {
				_, _ = vlib.Catch(func() { _ = st.Delete(accKey) })
			}
		}
		if b.prov != nil {
			b.prov.remove(tKey)
			b.prov.remove(nKey)
			b.prov.remove(accKey)
			b.prov.remove(sKey)
		}
		if b.kind == "fstree" {
			base := filepath.Join(tmpRoot, "databases", b.db, "fstree", "r")
			_ = os.RemoveAll(filepath.Join(base, fmt.Sprintf("c%d", idx)))
			_ = os.RemoveAll(filepath.Join(base, fmt.Sprintf("s%d", idx)))
		}
		if b.kind == "config" {
			config.VerifUnregister(tKey)
			config.VerifUnregister(nKey)
			config.VerifUnregister(sKey)
		}
	}()

	W := privileged
	WO := database.NewInterface(&database.Options{Local: true, Internal: true, AlwaysMakeSecret: cell.secret(), AlwaysMakeCrownjewel: cell.crown()})
	cacheSize := 0
	if cell.Cache != "none" {
		cacheSize = 16
	}
	var reader *database.Interface
	var conn *apiConn
	if cell.isAPI() {
		conn = newAPIConn() // database.NewInterface(nil) inside: neither local nor internal, no cache
	} else {
		opts := &database.Options{Local: cell.Local, Internal: cell.Internal, CacheSize: cacheSize}
		switch cell.ReaderOpts {
		case "always-secret":
			opts.AlwaysMakeSecret = true
		case "always-crown":
			opts.AlwaysMakeCrownjewel = true
		case "always-expiry":
			opts.AlwaysSetAbsoluteExpiry = farFuture
		}
		reader = database.NewInterface(opts)
	}

	if cell.Alias != "" {
		res.trace = append(res.trace, fmt.Sprintf("the reader spells the key %q as %q (prefix %q)", tKey, accKey, accDir))
	}
	// 1. privileged writes before the marking
	if err := step("W.Put(n=v2)", W.Put(newRec(cell.Rec, fullN, "v2"))); err != nil {
		return fail("Put sibling", err)
	}
	if cell.warm() || cell.Marking == "reflag" {
		if err := step("W.Put(t=v1)", W.Put(newRec(cell.Rec, fullT, "v1"))); err != nil {
			return fail("Put unmarked", err)
		}
	}

	// 2. reader pre-access (fills the reader's cache while the record is not marked)
	switch cell.Cache {
	case "warm-get":
		r, err := reader.Get(accT)
		_ = step("reader.Get(t) [pre]", err)
		if (err != nil || r == nil) && cell.Alias == "" {
			return fail("reader pre-Get", err)
		}
	case "warm-put":
		if err := step("reader.Put(t=v1) [pre]", reader.Put(newRec(cell.Rec, accT, "v1"))); err != nil && cell.Alias == "" {
			return fail("reader pre-Put", err)
		}
	}

	// 3. the marking, as a list of privileged steps with the marks the record carries after each
	type mstep struct {
		name          string
		do            func() error
		secret, crown bool
	}
	var steps []mstep
	switch cell.Marking {
	case "plain":
		steps = append(steps, mstep{"W.Put(t=v2)", func() error { return W.Put(newRec(cell.Rec, fullT, "v2")) }, false, false})
	case "flagged-put":
		steps = append(steps, mstep{"W.Put(t=v2 flagged " + cell.Flags + ")", func() error {
			r := newRec(cell.Rec, fullT, "v2")
			r.UpdateMeta()
			if cell.secret() {
				r.Meta().MakeSecret()
			}
			if cell.crown() {
				r.Meta().MakeCrownJewel()
			}
			return W.Put(r)
		}, cell.secret(), cell.crown()})
	case "flagged-putnew":
		steps = append(steps, mstep{"W.PutNew(t=v2 flagged " + cell.Flags + ")", func() error {
			r := newRec(cell.Rec, fullT, "v2")
			r.CreateMeta()
			if cell.secret() {
				r.Meta().MakeSecret()
			}
			if cell.crown() {
				r.Meta().MakeCrownJewel()
			}
			return W.PutNew(r)
		}, cell.secret(), cell.crown()})
	case "copy-putnew":
		steps = append(steps, mstep{"W.Put(s=v2 flagged " + cell.Flags + "); W.Get(s); W.PutNew(copy of s as t)", func() error {
			src := newRec(cell.Rec, fullS, "v2")
			src.UpdateMeta()
			if cell.secret() {
				src.Meta().MakeSecret()
			}
			if cell.crown() {
				src.Meta().MakeCrownJewel()
			}
			if err := W.Put(src); err != nil {
				return err
			}
			res.calls += 2
			got, err := W.Get(fullS)
			if err != nil {
				return err
			}
			got.Lock()
			meta := got.Meta().Duplicate()
			got.Unlock()
			cp := newRec(cell.Rec, fullT, "v2")
			cp.SetMeta(meta)
			return W.PutNew(cp)
		}, cell.secret(), cell.crown()})
	case "always-opts":
		steps = append(steps, mstep{"WO.Put(t=v2) [Always* " + cell.Flags + "]", func() error { return WO.Put(newRec(cell.Rec, fullT, "v2")) }, cell.secret(), cell.crown()})
	case "reflag":
		if cell.secret() {
			steps = append(steps, mstep{"W.MakeSecret(t)", func() error { return W.MakeSecret(fullT) }, true, false})
		}
		if cell.crown() {
			steps = append(steps, mstep{"W.MakeCrownJewel(t)", func() error { return W.MakeCrownJewel(fullT) }, cell.secret(), true})
		}
		steps = append(steps, mstep{"W.InsertValue(t,Value=v2)", func() error { return W.InsertValue(fullT, "Value", "v2") }, cell.secret(), cell.crown()})
	}

	rLocal, rInternal := cell.Local, cell.Internal
	if cell.isAPI() {
		rLocal, rInternal = false, false
	}
	// deniedFor says whether the reader lacks a privilege that the given marks require
	var setupErr error
	deniedFor := func(secret, crown bool) bool {
		if b.readback {
			pr, err := W.Get(fullT)
			if err != nil {
				setupErr = err
				return false
			}
			o := observe(pr, "readback")
			secret, crown = o.Secret, o.Crown
			res.trace = append(res.trace, fmt.Sprintf("marks (read-back): secret=%v crown=%v", secret, crown))
		}
		return (secret && !rInternal) || (crown && !rLocal)
	}

	curPath := cell.Path
	seeT := func(o obs) {
		o.Path = curPath
		res.leaks = append(res.leaks, o)
	}
	q := query.New(b.db + ":" + dir)
	var sub *database.Subscription
	var apiFeed []apiMsg
	// drainFeed empties the reader's feed; deniedNow says whether the record, as it is
	// marked at this point of the history, requires a privilege the reader lacks.
	drainFeed := func(deniedNow bool) {
		for {
			select {
			case r := <-sub.Feed:
				if r == nil {
					return
				}
				switch r.Key() {
				case fullT:
					if deniedNow {
						seeT(observe(r, "feed"))
					} else {
						res.fedWhileAllowed++
					}
				case fullN:
					res.witnessOK = true
				}
			default:
				return
			}
		}
	}

	// A feed of the reader is opened before the first marking step (Interface.Subscribe:
	// every push is judged right after the step that caused it, against the marks of that
	// step) or before the last one (API: its replies arrive asynchronously, so the feed is
	// opened when the record already carries its final marks).
	openAt := -1
	switch cell.Path {
	case "Subscribe-writes":
		openAt = 0
	case "api:sub":
		openAt = len(steps) - 1
	}
	for i, st := range steps {
		if i == openAt {
			switch cell.Path {
			case "Subscribe-writes":
				s, err := reader.Subscribe(q)
				if step("reader.Subscribe(dir)", err) != nil {
					return fail("Subscribe", err)
				}
				sub = s
			case "api:sub":
				res.calls++
				conn.h.Handle([]byte("2|sub|query " + b.db + ":" + dir))
				deadline := time.Now().Add(guardWait)
				for !database.VerifHasSub(b.db, dir) {
					select {
					case raw := <-conn.ch:
						return fail("api sub", errors.New(string(raw)))
					default:
					}
					if time.Now().After(deadline) {
						return fail("api sub", errGuard)
					}
					runtime.Gosched()
				}
				res.trace = append(res.trace, "api 2|sub|query dir -> registered")
			}
		}
		if err := step(st.name, st.do()); err != nil {
			return fail(st.name, err)
		}
		if sub != nil {
			drainFeed(deniedFor(st.secret, st.crown))
		}
	}

	// 4. which privileges does the record require now
	res.denied = deniedFor(cell.secret(), cell.crown())
	if setupErr != nil {
		return fail("read-back of the marks", setupErr)
	}

	// 5. the access under test
	res.before = snap(b, tKey)
	drainQuery := func(qq *query.Query, name string) {
		it, err := reader.Query(qq)
		if step("reader."+name, err) != nil {
			res.outcome = "query-" + errClass(err)
			return
		}
		n := 0
		for r := range it.Next {
			n++
			switch {
			case isT(r.Key()):
				seeT(observe(r, "query"))
			case r.Key() == fullN:
				res.witnessOK = true
			}
		}
		res.outcome = "query-done-" + errClass(it.Err())
	}
	// privileged writes while a feed is open: update of the marked record, update of the
	// sibling, deletion of the marked record
	postWrites := func() {
		_ = step("W.InsertValue(t,Value=v3)", W.InsertValue(fullT, "Value", "v3"))
		_ = step("W.Put(n=v3)", W.Put(newRec(cell.Rec, fullN, "v3")))
		_ = step("W.Delete(t)", W.Delete(fullT))
	}
	pushBoth := func() {
		ctrl, err := database.VerifController(b.db)
		if err != nil {
			return
		}
		for _, k := range []string{fullT, fullN} {
			r, err := W.Get(k)
			if err != nil {
				_ = step("W.Get("+k+") [for push]", err)
				continue
			}
			r.Lock()
			if cellPush != nil {
				cellPush(r)
			} else {
				ctrl.PushUpdate(r)
			}
			r.Unlock()
			_ = step("PushUpdate("+k+")", nil)
		}
	}
	apiFeedJudge := func(msgs []apiMsg) {
		for _, m := range msgs {
			if m.typ != "upd" && m.typ != "new" && m.typ != "del" && m.typ != "ok" {
				continue
			}
			switch {
			case isT(m.key):
				seeT(apiObs(m, "api"))
			case m.key == fullN:
				res.witnessOK = true
			}
		}
	}
	apiWrite := func(msg string) {
		res.calls++
		conn.h.Handle([]byte(msg))
		m, err := conn.await("1", nil, "success", "error")
		if err != nil {
			res.engineErr = fmt.Sprintf("%s: %v", cell, err)
			return
		}
		if m.typ == "success" {
			res.success = true
			res.outcome = "api-success"
		} else {
			res.outcome = "api-error-" + apiErrClass(m.key)
		}
		res.trace = append(res.trace, "api "+msg+" -> "+res.outcome)
	}

	access := func(path string) {
		curPath = path
		n0 := len(res.leaks) // what the reader saw in this access comes after n0
		switch path {
		case "Get":
			r, err := reader.Get(accT)
			_ = step("reader.Get(t)", err)
			if r != nil {
				seeT(observe(r, "get"))
			}
			res.success = err == nil && r != nil
			res.outcome = "get-" + errClass(err)
		case "Exists":
			ok, err := reader.Exists(accT)
			_ = step(fmt.Sprintf("reader.Exists(t)=%v", ok), err)
			res.success = err == nil && ok
			res.outcome = fmt.Sprintf("exists-%v-%s", ok, errClass(err))
		case "Query-prefix":
			drainQuery(query.New(b.db+":"+accDir), "Query(dir)")
			res.success = len(res.leaks) > n0
		case "Query-key":
			drainQuery(query.New(accT), "Query(key of t)")
			res.success = len(res.leaks) > n0
		case "Query-cond":
			drainQuery(query.New(b.db+":"+accDir).Where(query.Where("Value", query.SameAs, "v2")), "Query(dir where Value sameas v2)")
			res.success = len(res.leaks) > n0
		case "Subscribe-writes":
			res.checkMod = false
			postWrites()
			drainFeed(res.denied)
			_ = sub.Cancel()
			res.success = len(res.leaks) > n0 || res.fedWhileAllowed > 0
			res.outcome = "feed-drained"
		case "Subscribe-push":
			res.checkMod = false
			s, err := reader.Subscribe(q)
			if step("reader.Subscribe(dir)", err) != nil {
				res.engineErr = fmt.Sprintf("%s: Subscribe: %v", cell, err)
				return
			}
			sub = s
			pushBoth()
			drainFeed(res.denied)
			_ = sub.Cancel()
			res.success = len(res.leaks) > n0 || res.fedWhileAllowed > 0
			res.outcome = "feed-drained"
		case "InsertValue":
			err := step("reader.InsertValue(t,Value=vR)", reader.InsertValue(accT, "Value", "vR"))
			res.success, res.outcome = err == nil, "write-"+errClass(err)
		case "SetAbsoluteExpiry":
			err := step("reader.SetAbsoluteExpiry(t)", reader.SetAbsoluteExpiry(accT, farFuture))
			res.success, res.outcome = err == nil, "write-"+errClass(err)
		case "SetRelativateExpiry":
			err := step("reader.SetRelativateExpiry(t)", reader.SetRelativateExpiry(accT, 3600))
			res.success, res.outcome = err == nil, "write-"+errClass(err)
		case "MakeSecret":
			err := step("reader.MakeSecret(t)", reader.MakeSecret(accT))
			res.success, res.outcome = err == nil, "write-"+errClass(err)
		case "MakeCrownJewel":
			err := step("reader.MakeCrownJewel(t)", reader.MakeCrownJewel(accT))
			res.success, res.outcome = err == nil, "write-"+errClass(err)
		case "Put":
			err := step("reader.Put(t=vR)", reader.Put(newRec(cell.Rec, accT, "vR")))
			res.success, res.outcome = err == nil, "write-"+errClass(err)
		case "PutNew":
			err := step("reader.PutNew(t=vR)", reader.PutNew(newRec(cell.Rec, accT, "vR")))
			res.success, res.outcome = err == nil, "write-"+errClass(err)
		case "Delete":
			err := step("reader.Delete(t)", reader.Delete(accT))
			res.success, res.outcome = err == nil, "write-"+errClass(err)
		case "Purge":
			n, err := reader.Purge(context.Background(), query.New(b.db+":"+accDir))
			_ = step(fmt.Sprintf("reader.Purge(dir)=%d", n), err)
			res.success, res.outcome = err == nil, "purge-"+errClass(err)
		case "PutMany":
			put := reader.PutMany(b.db)
			// On a backend without batch support the error is delivered by either the first
			// or the finishing call (a select between two ready channels in PutMany), and the
			// finishing call blocks for ever if the first one already took it: finish only
			// after a successful first call and report the first error of the two.
			err := put(newRec(cell.Rec, accT, "vR"))
			if err == nil {
				err = put(nil)
			}
			res.calls++
			_ = step("reader.PutMany: put(t=vR); put(nil)", err)
			res.success = err == nil
			res.outcome = "putmany-" + errClass(err)
		case "api:get":
			res.calls++
			conn.h.Handle([]byte("1|get|" + accT))
			m, err := conn.await("1", nil, "ok", "error")
			if err != nil {
				res.engineErr = fmt.Sprintf("%s: %v", cell, err)
				break
			}
			if m.typ == "ok" {
				res.success = true
				seeT(apiObs(m, "api"))
				res.outcome = "api-ok"
			} else {
				res.outcome = "api-error-" + apiErrClass(m.key)
			}
			res.trace = append(res.trace, "api 1|get|t -> "+res.outcome)
		case "api:query":
			res.calls++
			var msgs []apiMsg
			conn.h.Handle([]byte("1|query|query " + b.db + ":" + accDir))
			m, err := conn.await("1", &msgs, "done", "error")
			if err != nil {
				res.engineErr = fmt.Sprintf("%s: %v", cell, err)
				break
			}
			apiFeedJudge(msgs)
			res.success = len(res.leaks) > n0
			res.outcome = "api-query-" + m.typ
			res.trace = append(res.trace, fmt.Sprintf("api 1|query|query dir -> %d replies, %s", len(msgs), m.typ))
		case "api:sub":
			res.checkMod = false
			postWrites()
			if err := conn.cancel("2", &apiFeed); err != nil {
				res.engineErr = fmt.Sprintf("%s: %v", cell, err)
				break
			}
			apiFeed = append(append([]apiMsg{}, conn.stash...), apiFeed...)
			apiFeedJudge(apiFeed)
			res.success = len(res.leaks) > n0
			res.outcome = "api-feed-done"
			res.trace = append(res.trace, fmt.Sprintf("api 2|cancel -> %d replies, done", len(apiFeed)))
		case "api:qsub":
			res.checkMod = false
			res.calls++
			conn.h.Handle([]byte("2|qsub|query " + b.db + ":" + dir))
			m, err := conn.await("2", &apiFeed, "done", "error")
			if err != nil {
				res.engineErr = fmt.Sprintf("%s: %v", cell, err)
				break
			}
			if m.typ == "error" {
				apiFeedJudge(apiFeed)
				res.outcome = "api-qsub-error-" + apiErrClass(m.key)
				break
			}
			postWrites()
			if err := conn.cancel("2", &apiFeed); err != nil {
				res.engineErr = fmt.Sprintf("%s: %v", cell, err)
				break
			}
			apiFeedJudge(apiFeed)
			res.success = len(res.leaks) > n0
			res.outcome = "api-feed-done"
			res.trace = append(res.trace, fmt.Sprintf("api 2|qsub|query dir ... 2|cancel -> %d replies, done", len(apiFeed)))
		case "api:create":
			apiWrite("1|create|" + accT + `|J{"Value":"vR"}`)
		case "api:update":
			apiWrite("1|update|" + accT + `|J{"Value":"vR"}`)
		case "api:insert":
			apiWrite("1|insert|" + accT + `|{"Value":"vR"}`)
		case "api:delete":
			apiWrite("1|delete|" + accT)
		default:
			res.engineErr = "unknown path " + path
		}
	}

	// hashmap-fault: the next look-up of the record's key (in either spelling) fails once
	arm := func() {
		if b.fault != nil {
			b.fault.arm(tKey, accKey)
			res.trace = append(res.trace, fmt.Sprintf("storage armed: the next Get of the key fails with %q", b.fault.err))
		}
	}
	disarm := func() {
		if b.fault != nil {
			armedN := 1
			if accKey != tKey {
				armedN = 2
			}
			if left := b.fault.disarm(tKey, accKey); left < armedN {
				res.trace = append(res.trace, "(the armed fault was consumed)")
				res.faultHit = true
			}
		}
	}
	if cell.Pre != "" {
		arm()
		access(cell.Pre)
		disarm()
		if res.engineErr != "" {
			return res
		}
		res.trace = append(res.trace, "(first access: "+res.outcome+")")
		if mid := snap(b, tKey); res.denied && mid != res.before {
			// the first access already changed the record: report that and stop here,
			// everything after it would only show consequences of this change
			res.after, res.checkMod, res.modBy = mid, true, cell.Pre
			res.outcome = "first-access-changed-storage"
			res.leaks = filterStale(cell, &res)
			return res
		}
		res.success, res.outcome, res.witnessOK, res.fedWhileAllowed = false, "", false, 0
	}
	res.checkMod, res.modBy = true, cell.Path
	arm()
	access(cell.Path)
	disarm()
	res.after = snap(b, tKey)

	// A reader whose own cache was filled before the marking may be served that
	// outdated copy again (documented for Options.CacheSize); it holds nothing that
	// was written while the record was marked.
	res.leaks = filterStale(cell, &res)
	for _, o := range res.leaks {
		res.trace = append(res.trace, fmt.Sprintf("reader saw %s value=%q secret=%v crown=%v via %s", o.Key, o.Value, o.Secret, o.Crown, o.Via))
	}
	return res
}

// filterStale removes the outdated unmarked copies a warm cache served to a direct get.
func filterStale(cell Cell, res *result) []obs {
	if !res.denied || !cell.warm() {
		return res.leaks
	}
	var keep []obs
	for _, o := range res.leaks {
		// content v1 is only ever written before the marking; the copy carries the marks it
		// had then (none, or those the reader's own Always* options put on it), which do
		// not exclude the reader
		if o.Via == "get" && o.Value == "v1" && !((o.Secret && !cell.Internal) || (o.Crown && !cell.Local)) {
			res.stale = true
			continue
		}
		keep = append(keep, o)
	}
	return keep
}

// ---------- marked under the record lock while a query waits for that lock ----------

// queryBlockedOnRecordLock reports whether a goroutine of this process is inside
// sync.(*Mutex).Lock called from the hashmap query executor, i.e. the executor has reached a
// record whose lock is held by someone else. (A state observation through the goroutine
// dump; the scenario runs while nothing else queries a hashmap.)
func queryBlockedOnRecordLock() bool {
	buf := make([]byte, 8<<20)
	n := runtime.Stack(buf, true)
	for _, g := range strings.Split(string(buf[:n]), "\n\n") {
		i := strings.Index(g, "sync.(*Mutex).Lock")
		j := strings.Index(g, "hashmap.(*HashMap).queryExecutor")
		if i >= 0 && j > i {
			return true
		}
	}
	return false
}

// runRaceCell: on a hashmap (which stores the live record objects) a privileged actor holds
// the lock of the unmarked record t; a query of the reader is started and reaches t, where it
// has to wait for the lock; the actor marks t under the lock and releases it. Whatever the
// query delivers after that is delivered while t is marked. Marking: "locked-reflag".
func runRaceCell(cell Cell) (res result) {
	res.cell = cell
	b := backends["hashmap-race/false"]
	if b == nil {
		res.engineErr = "no hashmap-race backend"
		return res
	}
	tKey, nKey := "r/race/t", "r/race/n"
	fullT, fullN := b.db+":"+tKey, b.db+":"+nKey
	st, err := database.VerifStorage(b.db)
	if err != nil {
		res.engineErr = err.Error()
		return res
	}
	defer func() {
		_ = st.Delete(tKey)
		_ = st.Delete(nKey)
	}()
	step := func(name string, err error) error {
		res.calls++
		res.trace = append(res.trace, name+" -> "+errClass(err))
		return err
	}
	W := privileged
	if err := step("W.Put(n=v2)", W.Put(newRec(cell.Rec, fullN, "v2"))); err != nil {
		res.engineErr = fmt.Sprintf("%s: %v", cell, err)
		return res
	}
	if err := step("W.Put(t=v2)", W.Put(newRec(cell.Rec, fullT, "v2"))); err != nil {
		res.engineErr = fmt.Sprintf("%s: %v", cell, err)
		return res
	}
	live, err := st.Get(tKey)
	if err != nil {
		res.engineErr = fmt.Sprintf("%s: %v", cell, err)
		return res
	}
	reader := database.NewInterface(&database.Options{Local: cell.Local, Internal: cell.Internal})
	var q *query.Query
	switch cell.Path {
	case "Query-prefix":
		q = query.New(b.db + ":r/race/")
	case "Query-key":
		q = query.New(fullT)
	case "Query-cond":
		q = query.New(b.db + ":r/race/").Where(query.Where("Value", query.SameAs, "v2"))
	default:
		res.engineErr = "runRaceCell: unknown path " + cell.Path
		return res
	}
	res.denied = (cell.secret() && !cell.Internal) || (cell.crown() && !cell.Local)

	live.Lock()
	res.trace = append(res.trace, "the privileged actor holds the lock of t")
	type qres struct {
		seen []obs
		sawN bool
		err  error
	}
	done := make(chan qres, 1)
	go func() {
		var out qres
		it, err := reader.Query(q)
		if err != nil {
			out.err = err
			done <- out
			return
		}
		for r := range it.Next {
			switch r.Key() {
			case fullT:
				out.seen = append(out.seen, observe(r, "query"))
			case fullN:
				out.sawN = true
			}
		}
		out.err = it.Err()
		done <- out
	}()
	res.calls++
	forced := false
	deadline := time.Now().Add(guardWait)
	for {
		if queryBlockedOnRecordLock() {
			forced = true
			break
		}
		if time.Now().After(deadline) {
			break // not observed: the cell is then not counted as exercising the scenario
		}
		runtime.Gosched()
	}
	res.trace = append(res.trace, fmt.Sprintf("reader.Query(%s) started; executor waits for the lock of t: %v", cell.Path, forced))
	if cell.secret() {
		live.Meta().MakeSecret()
	}
	if cell.crown() {
		live.Meta().MakeCrownJewel()
	}
	res.trace = append(res.trace, "t marked "+cell.Flags+" under its lock; lock released")
	live.Unlock()
	out := <-done
	res.trace = append(res.trace, "query finished -> "+errClass(out.err))
	res.witnessOK = out.sawN
	res.success = len(out.seen) > 0
	res.faultHit = forced // reused: the forced state was reached
	res.outcome = "query-done-" + errClass(out.err)
	if res.denied {
		for _, o := range out.seen {
			o.Path = cell.Path
			res.leaks = append(res.leaks, o)
			res.trace = append(res.trace, fmt.Sprintf("reader saw %s value=%q secret=%v crown=%v via %s", o.Key, o.Value, o.Secret, o.Crown, o.Via))
		}
	}
	return res
}

func safeRunCell(cell Cell, idx int64) result {
	var res result
	if cell.Marking == "locked-reflag" {
		if p, stack := vlib.Catch(func() { res = runRaceCell(cell) }); p != nil {
			res.cell = cell
			res.panicked = fmt.Sprintf("%v at %s", p, vlib.PanicSite(stack))
		}
		return res
	}
	if p, stack := vlib.Catch(func() { res = runCell(cell, idx) }); p != nil {
		res.cell = cell
		res.panicked = fmt.Sprintf("%v at %s", p, vlib.PanicSite(stack))
	}
	return res
}

// ---------- judging ----------

type witness struct {
	Cell   Cell     `json:"cell"`
	Trace  []string `json:"trace"`
	Before string   `json:"before,omitempty"`
	After  string   `json:"after,omitempty"`
}

// vio is one violated oracle clause of a cell.
type vio struct {
	clause, site, disc, detail string
	mod                        bool
}

// findViolations applies the two oracle clauses to the result of a cell.
func findViolations(r result) []vio {
	if !r.denied {
		return nil
	}
	var out []vio
	rl, ri := r.cell.Local && !r.cell.isAPI(), r.cell.Internal && !r.cell.isAPI()
	if len(r.leaks) > 0 {
		o := r.leaks[0]
		disc := map[string]string{"get": "record-returned", "query": "record-listed", "feed": "record-fed"}[pathFamily(o.Path)]
		if disc == "" {
			disc = "record-returned"
		}
		out = append(out, vio{"no-disclosure", o.Path, disc,
			fmt.Sprintf("a reader with Local=%v Internal=%v received record %s (value %q) although it is marked %s; cell %s",
				rl, ri, o.Key, o.Value, r.cell.Flags, r.cell), false})
	}
	if r.checkMod && r.before != r.after {
		site := r.modBy
		// the write paths that look the record up by its key consult the reader's cache first
		if fam := pathFamily(r.modBy); r.cell.warm() && (fam == "update-by-key" || fam == "put") {
			site = "warm-cache/" + fam
		}
		out = append(out, vio{"no-modification", site, "storage-changed",
			fmt.Sprintf("a reader with Local=%v Internal=%v changed the stored record marked %s through %s; cell %s\nbefore: %s\nafter:  %s",
				rl, ri, r.cell.Flags, r.modBy, r.cell, r.before, r.after), true})
	}
	return out
}

func judge(c *vlib.Ctx, r result) (violated bool) {
	for _, v := range findViolations(r) {
		if r.cell.Alias != "" {
			v.site += "@alias-key"
		}
		if strings.HasPrefix(r.cell.Backend, "hashmap-fault") {
			v.site += "@lookup-fault"
		}
		if r.cell.Marking == "locked-reflag" {
			v.site += "@marked-under-record-lock"
		}
		w := witness{Cell: r.cell, Trace: r.trace}
		if v.mod {
			w.Before, w.After = r.before, r.after
		}
		c.Violate(v.clause, v.site, v.disc, v.detail, w)
		violated = true
	}
	return violated
}

// violationSigs returns the signatures of the clauses a result violates.
func violationSigs(r result) []string {
	var out []string
	for _, v := range findViolations(r) {
		if r.cell.Alias != "" {
			v.site += "@alias-key"
		}
		if strings.HasPrefix(r.cell.Backend, "hashmap-fault") {
			v.site += "@lookup-fault"
		}
		if r.cell.Marking == "locked-reflag" {
			v.site += "@marked-under-record-lock"
		}
		out = append(out, v.clause+"|"+v.site+"|"+v.disc)
	}
	return out
}

// isSampleCell picks the cells that are written into the evidence as samples.
func isSampleCell(c Cell) bool {
	if c.Backend != "bbolt" || c.Shadow || c.Rec != "wrapper" || c.Depth != 1 || c.Cache != "none" {
		return false
	}
	if c.ReaderOpts != "" {
		return false
	}
	if c.Pre != "" {
		return c.Pre == "Exists" && c.Path == "Put" && c.Flags == "both" && c.Marking == "always-opts" && !c.Local && !c.Internal
	}
	switch c.Path {
	case "Get", "Query-prefix", "Subscribe-writes", "Delete", "Purge":
		return c.Flags == "secret" && c.Marking == "reflag" && c.Local && !c.Internal
	case "api:get", "api:qsub", "api:update":
		return c.Flags == "crown" && c.Marking == "flagged-put"
	}
	return false
}

// ---------- enumeration ----------

type group struct {
	backend *backend
	rec     string
	depth   int
	cache   string
	ropts   string
	alias   string
	pre     string
	path    string
	fms     []flagMarking // nil: all
}

func (g group) cells() []Cell {
	var out []Cell
	api := strings.HasPrefix(g.path, "api:")
	fms := g.fms
	if fms == nil {
		fms = flagMarkings
	}
	for _, fm := range fms {
		for _, p := range privs {
			if api && (p[0] || p[1]) {
				continue // the API always acts as neither local nor internal
			}
			out = append(out, Cell{Backend: g.backend.kind, Shadow: g.backend.shadow, Rec: g.rec, Depth: g.depth,
				Flags: fm.flags, Marking: fm.marking, Local: p[0], Internal: p[1], Cache: g.cache, ReaderOpts: g.ropts, Alias: g.alias, Pre: g.pre, Path: g.path})
		}
	}
	return out
}

func main() {
	vlib.Main("C03", "model_checking", func(c *vlib.Ctx) {
		thorough := !c.Quick()
		if err := setup(c, thorough); err != nil {
			c.EngineError("set-up: %v", err)
			return
		}
		defer teardown()

		if c.Replay != "" {
			var w witness
			if _, err := c.LoadReplay(&w); err != nil {
				c.EngineError("cannot load replay: %v", err)
				return
			}
			if w.Cell.Backend == "badger" && !thorough {
				c.EngineError("the witness uses badger: replay it with --tier thorough")
				return
			}
			r := safeRunCell(w.Cell, 0)
			fmt.Printf("replay of cell %s\n", w.Cell)
			for _, l := range r.trace {
				fmt.Println("  " + l)
			}
			fmt.Printf("  required privilege missing: %v, outcome: %s\n  before: %s\n  after:  %s\n", r.denied, r.outcome, r.before, r.after)
			if r.engineErr != "" {
				c.EngineError("%s", r.engineErr)
			}
			if r.panicked != "" {
				fmt.Println("  panic:", r.panicked)
			}
			c.Add(1, r.calls, 1)
			if !judge(c, r) {
				fmt.Println("  no violation in this cell")
			}
			return
		}

		// wall-clock budget: vlib's default (8 min quick, 40 min thorough) or --budget; a run
		// that is cut off is reported as not exhaustive
		c.Rule("a cell is non-trivial if the reader lacks a privilege the record's marks require (the oracle applies) and the same access path succeeds in the same group for the unmarked record with a fully privileged reader (API paths: for the unmarked record); cells of the 'marked under the record lock' scenario (hashmap, three query shapes) additionally only if the query executor was observed waiting for the record's lock before the record was marked")
		c.Assume("Options.DelayCachedWrites is not combined with a non-privileged interface (documented restriction), so delayed cached writes are not enumerated")
		c.Assume("a reader whose own cache was filled before the record was marked may be served that outdated, unmarked copy again (documented for Options.CacheSize); such a copy holds nothing that was written while the record was marked and is not counted as disclosure")
		c.Assume("records of the injected config database cannot carry marks (Option.Export creates fresh metadata on every read); there the marks are what the privileged read-back shows")
		c.Assume("one interleaving is forced in-process without engine S: on the hashmap backend a privileged actor holds the lock of an unmarked live record, a reader's query is started and observed (goroutine dump) waiting for that lock, the actor marks the record under the lock and releases it; the record must then not be listed for a reader the marks exclude")
		c.Assume("schedule-dependent effects (a fed live object of the hashmap/runtime backends that is marked after it was fed, replies marshalled late by the API goroutines) belong to engine S and are left out: feeds are opened after all writes of unmarked content")

		// groups, ordered so that neighbouring work items hit different backends
		var bks []*backend
		var faultBks []*backend
		for _, b := range backends {
			if b.fault != nil {
				faultBks = append(faultBks, b) // only used for the modifying access paths, see (a'')
				continue
			}
			if b.kind == "hashmap-race" {
				continue // only used by runRaceCell
			}
			bks = append(bks, b)
		}
		sort.Slice(bks, func(i, j int) bool { return bks[i].id() < bks[j].id() })
		sort.Slice(faultBks, func(i, j int) bool { return faultBks[i].id() < faultBks[j].id() })
		recs := []string{"wrapper", "struct"}
		depths := []int{1, 2}
		caches := []string{"none", "cold", "warm-get", "warm-put"}
		readerOpts := []string{""}
		seqCaches := []string{"none", "warm-get"}
		seqRecs, seqDepths := []string{"wrapper"}, []int{1}
		seqFMs := baseFlagMarkings // quick: the two PutNew markings only with single accesses
		var seqBks []*backend      // quick: without the shadow-delete variants
		for _, b := range bks {
			if thorough || !b.shadow {
				seqBks = append(seqBks, b)
			}
		}
		if thorough {
			seqFMs = nil
			readerOpts = []string{"", "always-secret", "always-crown", "always-expiry"}
			seqCaches = caches
			seqRecs, seqDepths = recs, depths
		}
		var groups []group
		// (a) one access of the reader
		for _, rec := range recs {
			for _, depth := range depths {
				for _, path := range append(append([]string{}, ifacePaths...), apiPaths...) {
					isAPI := strings.HasPrefix(path, "api:")
					for _, cache := range caches {
						if isAPI && cache != "none" {
							continue
						}
						for _, ro := range readerOpts {
							if isAPI && ro != "" {
								continue
							}
							for _, b := range bks {
								groups = append(groups, group{backend: b, rec: rec, depth: depth, cache: cache, ropts: ro, path: path})
							}
						}
					}
				}
			}
		}
		nSingle := len(groups)
		// (a') one access under an alias spelling of the marked record's key (all access paths
		// that take a key or a key prefix from the reader; feeds deliver canonical keys). fstree
		// resolves every spelling to the record's file: all six there; on the other backends a
		// spelling is another key: one control column.
		aliasRecs, aliasDepths := []string{"wrapper"}, []int{1}
		aliasCaches := []string{"none", "warm-get", "warm-put"} // quick: without the cold cache
		aliasFMs := baseFlagMarkings                            // quick: without the two PutNew markings
		if thorough {
			aliasRecs, aliasDepths, aliasCaches, aliasFMs = recs, depths, caches, nil
		}
		for _, rec := range aliasRecs {
			for _, depth := range aliasDepths {
				for _, path := range append(append([]string{}, ifacePaths...), apiPaths...) {
					if pathFamily(path) == "feed" {
						continue
					}
					isAPI := strings.HasPrefix(path, "api:")
					for _, cache := range aliasCaches {
						if isAPI && cache != "none" {
							continue
						}
						for _, b := range bks {
							for _, al := range aliasKinds {
								if b.kind != "fstree" && al != aliasKinds[0] {
									continue
								}
								if !thorough && b.kind == "fstree" && b.shadow {
									continue // quick: key resolution does not depend on the delete mode
								}
								groups = append(groups, group{backend: b, rec: rec, depth: depth, cache: cache, alias: al, path: path, fms: aliasFMs})
							}
						}
					}
				}
			}
		}
		nAlias := len(groups) - nSingle
		nSingle = len(groups)
		// (a'') the modifying access paths on the storage whose look-up of the record fails
		// once with a generic error exactly during the access (an environment fault: the
		// pre-check of a write cannot read the stored record)
		for _, rec := range aliasRecs {
			for _, depth := range aliasDepths {
				for _, path := range append(append([]string{}, ifacePaths...), apiPaths...) {
					if fam := pathFamily(path); fam != "put" && fam != "update-by-key" {
						continue
					}
					isAPI := strings.HasPrefix(path, "api:")
					for _, cache := range caches {
						if isAPI && cache != "none" {
							continue
						}
						for _, fb := range faultBks {
							groups = append(groups, group{backend: fb, rec: rec, depth: depth, cache: cache, path: path})
						}
					}
				}
			}
		}
		nFault := len(groups) - nSingle
		nSingle = len(groups)
		// (b) two accesses of the same reader in a row: every non-feed access followed by every access
		for _, rec := range seqRecs {
			for _, depth := range seqDepths {
				for _, pre := range ifacePaths {
					if pathFamily(pre) == "feed" {
						continue
					}
					for _, path := range ifacePaths {
						for _, cache := range seqCaches {
							for _, b := range seqBks {
								groups = append(groups, group{backend: b, rec: rec, depth: depth, cache: cache, pre: pre, path: path, fms: seqFMs})
							}
						}
					}
				}
				for _, pre := range apiPaths {
					if pathFamily(pre) == "feed" {
						continue
					}
					for _, path := range apiPaths {
						for _, b := range seqBks {
							groups = append(groups, group{backend: b, rec: rec, depth: depth, cache: "none", pre: pre, path: path, fms: seqFMs})
						}
					}
				}
			}
		}

		// (c) marked under the record lock while a query waits for it: runs first and alone,
		// so that the only hashmap query executor in the process is the cell's own
		nRace, nRaceForced := 0, 0
		for _, rec := range recs {
			for _, path := range []string{"Query-prefix", "Query-key", "Query-cond"} {
				controlOK := false
				var rs []result
				for _, fl := range []string{"none", "secret", "crown", "both"} {
					for _, p := range privs {
						cell := Cell{Backend: "hashmap-race", Rec: rec, Depth: 1, Flags: fl, Marking: "locked-reflag", Local: p[0], Internal: p[1], Cache: "none", Path: path}
						r := safeRunCell(cell, 0)
						rs = append(rs, r)
						if fl == "none" && p[0] && p[1] && r.success {
							controlOK = true
						}
					}
				}
				for _, r := range rs {
					nRace++
					c.Add(1, r.calls, 1)
					if r.engineErr != "" {
						c.EngineError("%s", r.engineErr)
						continue
					}
					if r.panicked != "" {
						c.ExtraAdd("panics_in_portbase_code", 1)
						fmt.Fprintf(os.Stderr, "note: panic in cell %s: %s\n", r.cell, r.panicked)
						continue
					}
					class := "allowed"
					if r.denied {
						class = "denied"
					}
					oc := fmt.Sprintf("%s@marked-under-record-lock/%s/%s", r.cell.Path, class, r.outcome)
					if r.faultHit {
						oc += "/executor-waited-for-the-lock"
						nRaceForced++
					}
					if r.denied && r.witnessOK {
						oc += "/sibling-seen"
					}
					if r.success {
						oc += "/record-seen"
					}
					c.Outcome(oc)
					judge(c, r)
					if r.denied && controlOK && r.faultHit {
						c.Nontrivial(r.cell.String())
					}
					if r.cell.Flags == "secret" && r.cell.Local && !r.cell.Internal && r.cell.Rec == "wrapper" && r.cell.Path == "Query-prefix" {
						c.Sample(map[string]any{"cell": r.cell, "privilege_missing": r.denied, "outcome": r.outcome, "trace": r.trace})
					}
				}
			}
		}
		c.Extra("cells_marked_under_record_lock", nRace)
		c.Extra("cells_marked_under_record_lock_with_waiting_executor_observed", nRaceForced)

		// The groups run in parallel; what they found is merged afterwards in the fixed
		// order of the enumeration, so that counts, first witnesses and samples do not
		// depend on the scheduling of the workers.
		type groupReport struct {
			done       bool
			cells      int64
			calls      int64
			outcomes   map[string]int64
			nontrivial []string
			unsupp     int64
			panics     []string
			engineErrs []string
			violating  []result
			samples    []result
		}
		reports := make([]groupReport, len(groups))
		// watchdog: no group finished for a long time = something blocks for ever; that is
		// an engine error with a goroutine dump, never a verdict
		var progress atomic.Int64
		stopWatch := make(chan struct{})
		defer close(stopWatch)
		go func() {
			last, lastChange := int64(-1), time.Now()
			t := time.NewTicker(5 * time.Second)
			defer t.Stop()
			for {
				select {
				case <-stopWatch:
					return
				case <-t.C:
					if p := progress.Load(); p != last {
						last, lastChange = p, time.Now()
					} else if time.Since(lastChange) > 4*time.Minute {
						fmt.Fprintf(os.Stderr, "ENGINE-ERROR: C03: no progress for %s after %d of %d groups; goroutines:\n", time.Since(lastChange).Round(time.Second), p, len(groups))
						_ = pprof.Lookup("goroutine").WriteTo(os.Stderr, 1)
						if tmpRoot != "" {
							_ = os.RemoveAll(tmpRoot)
						}
						os.Exit(2)
					}
				}
			}
		}()
		c.ParallelFor(len(groups), func(gi int) {
			if c.Expired() {
				return
			}
			g := groups[gi]
			cells := g.cells()
			results := make([]result, 0, len(cells))
			controlOK := false
			for ci, cell := range cells {
				r := safeRunCell(cell, int64(gi)*1000+int64(ci)+1)
				results = append(results, r)
				if r.cell.Flags == "none" && (cell.isAPI() || (cell.Local && cell.Internal)) && r.success {
					controlOK = true
				}
			}
			rep := groupReport{done: true, outcomes: map[string]int64{}}
			seenClause := map[string]bool{}
			for _, r := range results {
				rep.cells++
				rep.calls += r.calls
				if r.engineErr != "" {
					rep.engineErrs = append(rep.engineErrs, r.engineErr)
					continue
				}
				if r.panicked != "" {
					rep.outcomes["panic/"+r.cell.Path]++
					rep.panics = append(rep.panics, fmt.Sprintf("cell %s: %s", r.cell, r.panicked))
					continue
				}
				class := "allowed"
				if r.denied {
					class = "denied"
				}
				oc := fmt.Sprintf("%s/%s/%s", r.cell.Path, class, r.outcome)
				if r.stale {
					oc += "/outdated-unmarked-copy-from-own-cache"
				}
				if r.denied && r.witnessOK {
					oc += "/sibling-seen"
				}
				if r.faultHit {
					oc += "/lookup-failed"
				}
				if len(r.leaks) > 0 || r.fedWhileAllowed > 0 {
					oc += "/record-seen"
				}
				rep.outcomes[oc]++
				if r.denied && controlOK {
					rep.nontrivial = append(rep.nontrivial, r.cell.String())
				}
				if r.denied && !controlOK {
					rep.unsupp++
				}
				if sigs := violationSigs(r); len(sigs) > 0 {
					// keep the full trace only for the first witness of a clause in this group
					first := false
					for _, sg := range sigs {
						if !seenClause[sg] {
							seenClause[sg], first = true, true
						}
					}
					if !first {
						r.trace = nil
						if r.before != r.after {
							r.before, r.after = "(see the first witness)", "(differs)"
						}
					}
					rep.violating = append(rep.violating, r)
				} else if isSampleCell(r.cell) {
					rep.samples = append(rep.samples, r)
				}
			}
			reports[gi] = rep
			progress.Add(1)
		})
		var nGroupsOK int64
		for gi := range reports {
			rep := &reports[gi]
			if !rep.done {
				continue
			}
			nGroupsOK++
			c.Add(rep.cells, rep.calls, rep.cells)
			for _, e := range rep.engineErrs {
				c.EngineError("%s", e)
			}
			for _, p := range rep.panics {
				c.ExtraAdd("panics_in_portbase_code", 1)
				fmt.Fprintf(os.Stderr, "note: panic in %s\n", p)
			}
			ocs := make([]string, 0, len(rep.outcomes))
			for k := range rep.outcomes {
				ocs = append(ocs, k)
			}
			sort.Strings(ocs)
			for _, k := range ocs {
				c.OutcomeN(k, rep.outcomes[k])
			}
			for _, k := range rep.nontrivial {
				c.Nontrivial(k)
			}
			if rep.unsupp > 0 {
				c.ExtraAdd("denied_cells_on_paths_the_backend_does_not_support", rep.unsupp)
			}
			for _, r := range rep.violating {
				judge(c, r)
				c.ExtraAdd(fmt.Sprintf("violating_cells[%s,%s,cache=%s]", r.cell.Backend, r.cell.Marking, r.cell.Cache), 1)
			}
			for _, r := range rep.samples {
				c.Sample(map[string]any{"cell": r.cell, "privilege_missing": r.denied, "outcome": r.outcome, "trace": r.trace})
			}
		}
		c.Extra("groups", len(groups))
		c.Extra("groups_completed", nGroupsOK)
		c.Extra("backends", func() []string {
			var s []string
			for _, b := range bks {
				s = append(s, b.id())
			}
			return s
		}())
		c.Extra("bounds", map[string]any{"flags_x_marking": len(flagMarkings), "flags_x_marking_for_two_accesses_quick": len(baseFlagMarkings), "reader_privileges": 4, "cache_settings": 4,
			"interface_paths": len(ifacePaths), "api_paths": len(apiPaths), "record_types": recs, "key_depths": depths,
			"reader_option_variants": readerOpts, "groups_single_access": nSingle, "groups_single_access_with_alias_key": nAlias, "groups_single_access_with_storage_fault": nFault, "alias_spellings": aliasKinds, "groups_two_accesses": len(groups) - nSingle, "caches_for_two_accesses": seqCaches, "record_types_for_two_accesses": seqRecs, "key_depths_for_two_accesses": seqDepths, "history_depth": "<= 3 privileged writes, <= 1 reader pre-access, 1 access, <= 3 privileged writes while a feed is open"})
	})
}
