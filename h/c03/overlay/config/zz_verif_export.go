//go:build verif

package config

// VerifRegisterAsDatabase injects the configuration manager as the "config"
// database, as the module's start function does.
func VerifRegisterAsDatabase() error {
	return registerAsDatabase()
}

// VerifUnregister removes an option from the registry again (the harness
// registers two options per cell and must not let the registry grow).
func VerifUnregister(key string) {
	optionsLock.Lock()
	defer optionsLock.Unlock()
	delete(options, key)
}
