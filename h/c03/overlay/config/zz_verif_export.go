//go:build verif

package config

// VerifRegisterAsDatabase injects the configuration manager as the "config"
// database, as the module's start function does.
func VerifRegisterAsDatabase() error {
	return registerAsDatabase()
}
