//go:build verif

package database

import (
	"github.com/safing/portbase/database/storage"
)

// VerifStorage returns the storage behind the controller of the named
// database (raw access for before/after dumps and for wiping keys).
func VerifStorage(name string) (storage.Interface, error) {
	c, err := getController(name)
	if err != nil {
		return nil, err
	}
	return c.storage, nil
}

// VerifController returns the controller of the named database.
func VerifController(name string) (*Controller, error) {
	return getController(name)
}

// VerifHasSub reports whether a subscription whose query has exactly the
// given key prefix is registered with the controller of the named database.
func VerifHasSub(name, prefix string) bool {
	c, err := getController(name)
	if err != nil {
		return false
	}
	c.subscriptionLock.RLock()
	defer c.subscriptionLock.RUnlock()
	for _, sub := range c.subscriptions {
		if sub.q.DatabaseKeyPrefix() == prefix {
			return true
		}
	}
	return false
}
