//go:build verif

package runtime

// VerifUnregister removes the provider registered at exactly keyOrPrefix (the
// harness registers single-value providers per cell and must not let the
// registry grow).
func VerifUnregister(r *Registry, keyOrPrefix string) {
	r.l.Lock()
	defer r.l.Unlock()
	r.providers.Delete(keyOrPrefix)
}
