#!/bin/bash
set -e
cd /verif
./mkoverlay.sh c03
go build -tags verif -overlay build/c03.overlay.json -o "$1" ./h/c03
