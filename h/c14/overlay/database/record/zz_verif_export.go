//go:build verif

package record

// VerifFlags exposes the private secret / crown jewel flags of the metadata,
// so that the harness reads them independently of CheckPermission.
func VerifFlags(m *Meta) (secret, crownjewel bool) {
	if m == nil {
		return false, false
	}
	return m.secret, m.cronjewel
}
