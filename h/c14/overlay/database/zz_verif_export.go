//go:build verif

package database

import (
	"github.com/safing/portbase/database/record"
	"github.com/safing/portbase/database/storage"
)

// VerifDrop shuts the storage of a database down and forgets the database
// (controller and registration), so that every history runs on a fresh one.
func VerifDrop(name string) {
	controllersLock.Lock()
	c, ok := controllers[name]
	delete(controllers, name)
	controllersLock.Unlock()
	if ok && c != nil {
		_ = c.storage.Shutdown()
	}
	registryLock.Lock()
	delete(registry, name)
	registryLock.Unlock()
}

// VerifRawGet reads a record directly from the storage of a database
// (no hooks, no validity or permission checks).
func VerifRawGet(name, dbKey string) (record.Record, error) {
	c, err := getController(name)
	if err != nil {
		return nil, err
	}
	return c.storage.Get(dbKey)
}

// VerifSubscriptions returns the subscriptions currently registered with the
// controller of a database, in the controller's order.
func VerifSubscriptions(name string) []*Subscription {
	c, err := getController(name)
	if err != nil {
		return nil
	}
	c.subscriptionLock.RLock()
	defer c.subscriptionLock.RUnlock()
	out := make([]*Subscription, len(c.subscriptions))
	copy(out, c.subscriptions)
	return out
}

// VerifHooks returns the hooks currently registered with the controller of a
// database, in the controller's order.
func VerifHooks(name string) []Hook {
	c, err := getController(name)
	if err != nil {
		return nil
	}
	c.hooksLock.RLock()
	defer c.hooksLock.RUnlock()
	out := make([]Hook, len(c.hooks))
	for i, h := range c.hooks {
		out[i] = h.h
	}
	return out
}

// VerifRegisteredHooks returns the hook registrations of a database, in the
// controller's order.
func VerifRegisteredHooks(name string) []*RegisteredHook {
	c, err := getController(name)
	if err != nil {
		return nil
	}
	c.hooksLock.RLock()
	defer c.hooksLock.RUnlock()
	out := make([]*RegisteredHook, len(c.hooks))
	copy(out, c.hooks)
	return out
}

// VerifStartDatabase registers db and creates its controller the way
// getController does (storage.StartDatabase + newController), but without the
// on-disk location: only for storages that ignore it (hashmap).
func VerifStartDatabase(db *Database) error {
	registryLock.Lock()
	registry[db.Name] = db
	registryLock.Unlock()
	storageInt, err := storage.StartDatabase(db.Name, db.StorageType, "")
	if err != nil {
		return err
	}
	controllersLock.Lock()
	controllers[db.Name] = newController(db, storageInt, db.ShadowDelete)
	controllersLock.Unlock()
	return nil
}
