#!/bin/bash
set -e
cd /verif
./mkoverlay.sh c14
go build -tags verif -overlay build/c14.overlay.json -o "$1" ./h/c14
/verif/h/c14s/build.sh /verif/build/c14s
