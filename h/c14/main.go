package main

import (
	"fmt"

	"github.com/safing/portbase/database"
	_ "github.com/safing/portbase/database/storage/bbolt"
	_ "github.com/safing/portbase/database/storage/hashmap"
	"github.com/safing/portbase/runtime"
)

func main() {
	fmt.Println(database.ErrNotFound, runtime.NewRegistry() != nil)
}
