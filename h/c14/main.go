// C14 (engine Q part): subscriptions deliver every matching write; hooks fire as registered.
//
// Breadth-first search over histories of subscribe / cancel / register hook /
// cancel hook / put / delete / get / PushUpdate on the real database package
// (hashmap, bbolt, and the runtime registry as injected database). Every
// history is replayed on a fresh database and on a boring reference model
// (list of subscriptions, list of hooks, map of stored records); after every
// step the feeds are drained, the hook calls recorded by the harness hooks,
// the operation result and the raw storage are compared with the model.
// The writer-vs-Cancel interleaving clause is left to engine S.
package main

import (
	"errors"
	"fmt"
	"os"
	"path/filepath"
	"runtime/debug"
	"sort"
	"strconv"
	"strings"
	"sync"
	"sync/atomic"
	"time"

	"github.com/safing/portbase/database"
	"github.com/safing/portbase/database/query"
	"github.com/safing/portbase/database/record"
	_ "github.com/safing/portbase/database/storage/bbolt"
	_ "github.com/safing/portbase/database/storage/hashmap"
	"github.com/safing/portbase/runtime"

	"verif/vlib"
)

// ---------- tables ----------

type privDef struct {
	Local, Internal bool
	Name            string
}

var privs = []privDef{{true, true, "LI"}, {false, false, "--"}, {true, false, "L-"}, {false, true, "-I"}}

type ifaceDef struct {
	Local, Internal, MakeSecret bool
	Name                        string
	MakeCrown                   bool
}

var ifaceDefs = []ifaceDef{
	{true, true, false, "LI", false},
	{false, false, false, "--", false},
	{true, true, true, "LI+AlwaysMakeSecret", false},
	{true, false, false, "L-", false},
	{true, true, true, "LI+AlwaysMakeSecret+AlwaysMakeCrownjewel", true},
}

type qDef struct {
	Prefix string
	Cond   int // 0 none, 1 V == 1, 2 not V == 1
	Name   string
}

var qDefs = []qDef{
	{"a/", 0, "a/"},
	{"a/", 1, "a/ where V == 1"},
	{"", 2, "* where not V == 1"},
	{"b/", 0, "b/"}, // only used by registerHook(reusing the Hook object of h0, ...)
}

const (
	phPreGet  = 1
	phPostGet = 2
	phPrePut  = 4
)

var phaseNames = map[int]string{1: "preget", 2: "postget", 4: "preput", 7: "all"}
var behNames = []string{"pass", "replace", "veto", "replace+undelete", "replace+delete"}
var flagNames = []string{"none", "secret", "crownjewel", "secret+crownjewel"}

// the key under which the provider of the injected database refuses writes
const failKey = "a/x"

// ---------- operations ----------

type op struct {
	Kind  string `json:"kind"` // sub subq cancel hook hookq hooko unhook put putnew del sec setv get push
	Q     int    `json:"q,omitempty"`
	Priv  int    `json:"priv,omitempty"`
	Ref   int    `json:"ref,omitempty"`
	Phase int    `json:"phase,omitempty"`
	Beh   int    `json:"beh,omitempty"`
	W     int    `json:"w,omitempty"`
	Key   string `json:"key,omitempty"`
	V     int    `json:"v,omitempty"`
	Flag  int    `json:"flag,omitempty"`
	Del   bool   `json:"del,omitempty"`
}

func (o op) String() string {
	switch o.Kind {
	case "sub":
		return fmt.Sprintf("sub(%s,%s)", qDefs[o.Q].Name, privs[o.Priv].Name)
	case "subq":
		return fmt.Sprintf("sub(query object of s%d,%s)", o.Ref, privs[o.Priv].Name)
	case "cancel":
		return fmt.Sprintf("cancel(s%d)", o.Ref)
	case "hook":
		return fmt.Sprintf("hook(%s,%s,%s)", qDefs[o.Q].Name, phaseNames[o.Phase], behNames[o.Beh])
	case "hookq":
		return fmt.Sprintf("hook(query object of h%d,%s,%s)", o.Ref, phaseNames[o.Phase], behNames[o.Beh])
	case "hooko":
		return fmt.Sprintf("hook(%s,Hook object of h%d)", qDefs[o.Q].Name, o.Ref)
	case "unhook":
		return fmt.Sprintf("cancelHook(h%d)", o.Ref)
	case "put":
		return fmt.Sprintf("put[%s](%s,V=%d,%s)", ifaceDefs[o.W].Name, o.Key, o.V, flagNames[o.Flag])
	case "putnew":
		return fmt.Sprintf("PutNew[%s](%s,V=%d,%s)", ifaceDefs[o.W].Name, o.Key, o.V, flagNames[o.Flag])
	case "del":
		return fmt.Sprintf("delete[%s](%s)", ifaceDefs[o.W].Name, o.Key)
	case "get":
		return fmt.Sprintf("get[%s](%s)", ifaceDefs[o.W].Name, o.Key)
	case "sec":
		return fmt.Sprintf("MakeSecret[%s](%s)", ifaceDefs[o.W].Name, o.Key)
	case "setv":
		return fmt.Sprintf("InsertValue[%s](%s,V=%d)", ifaceDefs[o.W].Name, o.Key, o.V)
	case "push":
		d := ""
		if o.Del {
			d = ",deleted"
		}
		return fmt.Sprintf("PushUpdate(%s,V=%d,%s%s)", o.Key, o.V, flagNames[o.Flag], d)
	}
	return "?" + o.Kind
}

func histString(h []op) string {
	s := make([]string, len(h))
	for i, o := range h {
		s[i] = o.String()
	}
	return strings.Join(s, "; ")
}

// ---------- configuration of one exploration ----------

type config struct {
	Backend      string `json:"backend"` // hashmap bbolt injected
	ShadowDelete bool   `json:"shadow_delete"`
}

func (c config) String() string { return fmt.Sprintf("%s/shadowDelete=%v", c.Backend, c.ShadowDelete) }

type bounds struct {
	nQ, nPriv, nFlag int
	keys             []string
	maxSubs          int
	maxHooks         int
	ifaces           []int // writer/reader interfaces with the full put alphabet: index 0; others get one put each
	allPhaseHook     bool
	pushDeleted      bool
	fullIfaces       []int    // further interfaces that get the whole put/delete alphabet (index 0 of ifaces always does)
	noNewHooks       bool     // family with hooks given by the seed only
	hookKinds        [][2]int // if set: the (phase, behaviour) pairs of registerHook instead of the general ones
	putNew           bool     // PutNew next to Put (all flag values, set on the record itself)
}

type witness struct {
	Config  config `json:"config"`
	Seed    string `json:"seed"`
	History []op   `json:"history"` // seed operations included
	Text    string `json:"text"`
}

// ---------- reference model ----------

type entry struct {
	V       int64
	HasData bool
	Tag     string
	Del     bool
	Secret  bool
	Crown   bool
}

// snap is what the harness observes of a record.
type snap struct {
	Key     string
	V       int64
	HasData bool
	Tag     string
	Del     bool
	Secret  bool
	Crown   bool
}

func (s snap) String() string {
	f := ""
	if s.Secret {
		f += ",secret"
	}
	if s.Crown {
		f += ",crownjewel"
	}
	if s.Del {
		f += ",deleted"
	}
	if !s.HasData {
		return fmt.Sprintf("{%s (no data)%s}", s.Key, f)
	}
	return fmt.Sprintf("{%s V=%d Tag=%q%s}", s.Key, s.V, s.Tag, f)
}

func (e entry) snap(key string) snap {
	return snap{key, e.V, e.HasData, e.Tag, e.Del, e.Secret, e.Crown}
}

type mSub struct {
	Q, Group        int
	Local, Internal bool
	Active          bool
}

type mHook struct {
	Q, Group, Phase, Beh int
	Active               bool
	Obj                  int // the Hook object: index of the registration that created it
}

type call struct {
	Hook  int
	Phase int
	Rec   snap // preget: only Key
}

func (c call) String() string {
	if c.Phase == phPreGet {
		return fmt.Sprintf("h%d.PreGet(%s)", c.Hook, c.Rec.Key)
	}
	n := "PostGet"
	if c.Phase == phPrePut {
		n = "PrePut"
	}
	return fmt.Sprintf("h%d.%s(%v)", c.Hook, n, c.Rec)
}

type model struct {
	cfg    config
	store  map[string]*entry
	subs   []*mSub
	hooks  []*mHook
	groups int
}

func newModel(cfg config) *model { return &model{cfg: cfg, store: map[string]*entry{}} }

// expectation of one step
type expect struct {
	res      string // "ok", "veto", "err" (any error that is not a hook's), "n/a"
	vetoHook int
	get      snap // for get with res ok
	replaced bool // a replacing hook took part
	calls    []call
	deliver  map[int][]snap // subscription index -> records
	closed   map[int]bool   // subscription index -> feed must be closed after the step
}

func matchKey(q int, key string) bool { return strings.HasPrefix(key, qDefs[q].Prefix) }

func matchRec(q int, key string, e entry) bool {
	if !matchKey(q, key) {
		return false
	}
	switch qDefs[q].Cond {
	case 0:
		return true
	case 1:
		return e.HasData && e.V == 1
	default:
		return e.HasData && e.V != 1
	}
}

func permitted(local, internal bool, e entry) bool {
	return !(e.Crown && !local) && !(e.Secret && !internal)
}

func replaceTag(e entry, phase string, hook int) entry {
	if !e.HasData {
		// the harness hook builds its replacement from what it can read: no data reads as V=0
		e.V = 0
		e.HasData = true
	}
	e.Tag += fmt.Sprintf("%s%d", phase, hook)
	return e
}

// getChain models Controller.Get followed by the permission check of the interface.
func (m *model) getChain(x *expect, key string, rd ifaceDef) (entry, bool) {
	for _, h := range m.hooks {
		if !h.Active || h.Phase&phPreGet == 0 || !matchKey(h.Q, key) {
			continue
		}
		x.calls = append(x.calls, call{h.Obj, phPreGet, snap{Key: key}})
		if h.Beh == 2 {
			x.res, x.vetoHook = "veto", h.Obj
			return entry{}, false
		}
	}
	e, ok := m.store[key]
	if !ok {
		x.res = "err"
		return entry{}, false
	}
	cur := *e
	for _, h := range m.hooks {
		if !h.Active || h.Phase&phPostGet == 0 || !matchRec(h.Q, key, cur) {
			continue
		}
		x.calls = append(x.calls, call{h.Obj, phPostGet, cur.snap(key)})
		switch h.Beh {
		case 2:
			x.res, x.vetoHook = "veto", h.Obj
			return entry{}, false
		case 1:
			cur = replaceTag(cur, "G", h.Obj)
			x.replaced = true
		}
	}
	if cur.Del {
		x.res = "err"
		return entry{}, false
	}
	if !permitted(rd.Local, rd.Internal, cur) {
		x.res = "err"
		return entry{}, false
	}
	return cur, true
}

// putChain models Controller.Put: pre-put hooks, storage, notification.
func (m *model) putChain(x *expect, key string, cur entry) {
	for _, h := range m.hooks {
		if !h.Active || h.Phase&phPrePut == 0 || !matchRec(h.Q, key, cur) {
			continue
		}
		x.calls = append(x.calls, call{h.Obj, phPrePut, cur.snap(key)})
		switch h.Beh {
		case 2:
			x.res, x.vetoHook = "veto", h.Obj
			return
		case 1:
			cur = replaceTag(cur, "P", h.Obj)
			x.replaced = true
		case 3: // the replacement is a live record, whatever the mark of the record it was given
			cur = replaceTag(cur, "P", h.Obj)
			cur.Del = false
			x.replaced = true
		case 4: // the replacement is marked deleted
			cur = replaceTag(cur, "P", h.Obj)
			cur.Del = true
			x.replaced = true
		}
	}
	// storage: decided by the record the hooks returned
	if m.cfg.Backend == "injected" {
		if cur.Del {
			x.res = "err" // injected storages do not implement Delete
			return
		}
		if key == failKey {
			x.res = "err" // the provider refuses this key
			return
		}
	}
	if cur.Del && !m.cfg.ShadowDelete {
		delete(m.store, key)
	} else {
		st := cur
		if st.Del && m.cfg.Backend == "bbolt" {
			st.V, st.HasData, st.Tag = 0, false, "" // deleted records are serialised without data
		}
		m.store[key] = &st
	}
	m.notify(x, key, cur)
	x.res = "ok"
}

func (m *model) notify(x *expect, key string, cur entry) {
	for i, s := range m.subs {
		if s.Active && permitted(s.Local, s.Internal, cur) && matchRec(s.Q, key, cur) {
			x.deliver[i] = append(x.deliver[i], cur.snap(key))
		}
	}
}

func flagEntry(v int, flag int) entry {
	return entry{V: int64(v), HasData: true, Secret: flag == 1 || flag == 3, Crown: flag == 2 || flag == 3}
}

// apply advances the model by one operation and returns what the real system must show.
func (m *model) apply(o op) *expect {
	x := &expect{res: "n/a", deliver: map[int][]snap{}, closed: map[int]bool{}}
	switch o.Kind {
	case "sub":
		m.subs = append(m.subs, &mSub{o.Q, m.groups, privs[o.Priv].Local, privs[o.Priv].Internal, true})
		m.groups++
		x.res = "ok"
	case "subq":
		ref := m.subs[o.Ref]
		m.subs = append(m.subs, &mSub{ref.Q, ref.Group, privs[o.Priv].Local, privs[o.Priv].Internal, true})
		x.res = "ok"
	case "cancel":
		m.subs[o.Ref].Active = false
		x.res = "ok"
	case "hook":
		m.hooks = append(m.hooks, &mHook{o.Q, m.groups, o.Phase, o.Beh, true, len(m.hooks)})
		m.groups++
		x.res = "ok"
	case "hookq":
		ref := m.hooks[o.Ref]
		m.hooks = append(m.hooks, &mHook{ref.Q, ref.Group, o.Phase, o.Beh, true, len(m.hooks)})
		x.res = "ok"
	case "hooko":
		// the same Hook object registered once more, with its own query: an independent registration
		ref := m.hooks[o.Ref]
		m.hooks = append(m.hooks, &mHook{o.Q, m.groups, ref.Phase, ref.Beh, true, ref.Obj})
		m.groups++
		x.res = "ok"
	case "unhook":
		m.hooks[o.Ref].Active = false
		x.res = "ok"
	case "get":
		cur, ok := m.getChain(x, o.Key, ifaceDefs[o.W])
		if ok {
			x.res = "ok"
			x.get = cur.snap(o.Key)
		}
	case "put", "putnew":
		// PutNew resets the timestamps of the record; the flags set on the record stay
		w := ifaceDefs[o.W]
		if !(w.Local && w.Internal) {
			// the interface first looks at the stored record's metadata
			if e, ok := m.store[o.Key]; ok && !e.Del && !permitted(w.Local, w.Internal, *e) {
				x.res = "err"
				break
			}
		}
		cur := flagEntry(o.V, o.Flag)
		if w.MakeSecret {
			cur.Secret = true
		}
		if w.MakeCrown {
			cur.Crown = true
		}
		m.putChain(x, o.Key, cur)
	case "del":
		w := ifaceDefs[o.W]
		cur, ok := m.getChain(x, o.Key, w)
		if !ok {
			break
		}
		if w.MakeSecret {
			cur.Secret = true
		}
		if w.MakeCrown {
			cur.Crown = true
		}
		cur.Del = true
		m.putChain(x, o.Key, cur)
	case "sec", "setv":
		// read-modify-write through the interface: a get followed by a put
		w := ifaceDefs[o.W]
		cur, ok := m.getChain(x, o.Key, w)
		if !ok {
			break
		}
		if w.MakeSecret || o.Kind == "sec" {
			cur.Secret = true
		}
		if w.MakeCrown {
			cur.Crown = true
		}
		if o.Kind == "setv" {
			cur.V = int64(o.V)
		}
		m.putChain(x, o.Key, cur)
	case "push":
		cur := flagEntry(o.V, o.Flag)
		cur.Del = o.Del
		m.notify(x, o.Key, cur)
		x.res = "n/a"
	}
	for i, s := range m.subs {
		x.closed[i] = !s.Active
	}
	return x
}

func (m *model) canon() string {
	var sb strings.Builder
	keys := make([]string, 0, len(m.store))
	for k := range m.store {
		keys = append(keys, k)
	}
	sort.Strings(keys)
	for _, k := range keys {
		fmt.Fprintf(&sb, "%v;", m.store[k].snap(k))
	}
	sb.WriteString("|S")
	for _, s := range m.subs {
		fmt.Fprintf(&sb, "%d.%d.%v%v%v;", s.Q, s.Group, s.Local, s.Internal, s.Active)
	}
	sb.WriteString("|H")
	for _, h := range m.hooks {
		fmt.Fprintf(&sb, "%d.%d.%d.%d.%v.%d;", h.Q, h.Group, h.Phase, h.Beh, h.Active, h.Obj)
	}
	return sb.String()
}

// enabled returns the operations that may follow in the state of the model, simplest first.
func (m *model) enabled(b *bounds) []op {
	var out []op
	keys := b.keys
	w0 := b.ifaces[0]
	// reads and writes
	for _, k := range keys {
		out = append(out, op{Kind: "get", W: w0, Key: k})
	}
	for _, k := range keys {
		for v := 1; v >= 0; v-- {
			for f := 0; f < b.nFlag; f++ {
				out = append(out, op{Kind: "put", W: w0, Key: k, V: v, Flag: f})
			}
		}
	}
	for _, k := range keys {
		out = append(out, op{Kind: "del", W: w0, Key: k})
	}
	if b.putNew {
		for _, k := range keys {
			for f := 0; f < b.nFlag; f++ {
				out = append(out, op{Kind: "putnew", W: w0, Key: k, V: 1, Flag: f})
			}
		}
		for _, w := range b.ifaces[1:] {
			out = append(out, op{Kind: "putnew", W: w, Key: keys[0], V: 1})
		}
	}
	for _, w := range b.fullIfaces {
		for _, k := range keys {
			for f := 0; f < b.nFlag; f++ {
				out = append(out, op{Kind: "put", W: w, Key: k, V: 1, Flag: f})
			}
			out = append(out, op{Kind: "del", W: w, Key: k})
		}
	}
	out = append(out, op{Kind: "setv", W: w0, Key: keys[0], V: 0})
	out = append(out, op{Kind: "sec", W: w0, Key: keys[0]})
	if b.allPhaseHook { // thorough
		out = append(out, op{Kind: "setv", W: w0, Key: keys[0], V: 1})
		out = append(out, op{Kind: "sec", W: w0, Key: keys[1]})
	}
	for _, w := range b.ifaces[1:] {
		out = append(out, op{Kind: "get", W: w, Key: keys[0]})
		out = append(out, op{Kind: "put", W: w, Key: keys[0], V: 1})
		out = append(out, op{Kind: "del", W: w, Key: keys[0]})
	}
	if m.cfg.Backend == "injected" {
		for _, k := range keys {
			if k == failKey {
				continue
			}
			for v := 1; v >= 0; v-- {
				for f := 0; f < b.nFlag; f++ {
					out = append(out, op{Kind: "push", Key: k, V: v, Flag: f})
				}
			}
			if b.pushDeleted {
				out = append(out, op{Kind: "push", Key: k, V: 1, Del: true})
			}
		}
	}
	// subscriptions
	if len(m.subs) < b.maxSubs {
		for q := 0; q < b.nQ; q++ {
			for p := 0; p < b.nPriv; p++ {
				out = append(out, op{Kind: "sub", Q: q, Priv: p})
			}
		}
		if len(m.subs) > 0 {
			for p := 0; p < b.nPriv && p < 2; p++ {
				out = append(out, op{Kind: "subq", Ref: 0, Priv: p})
			}
		}
	}
	for i := range m.subs {
		out = append(out, op{Kind: "cancel", Ref: i})
	}
	// hooks
	if len(m.hooks) < b.maxHooks && !b.noNewHooks && b.hookKinds != nil {
		for q := 0; q < b.nQ; q++ {
			for _, k := range b.hookKinds {
				out = append(out, op{Kind: "hook", Q: q, Phase: k[0], Beh: k[1]})
			}
		}
		if len(m.hooks) > 0 {
			out = append(out, op{Kind: "hookq", Ref: 0, Phase: phPrePut, Beh: 3})
			out = append(out, op{Kind: "hooko", Ref: 0, Q: 3})
		}
	} else if len(m.hooks) < b.maxHooks && !b.noNewHooks {
		for q := 0; q < b.nQ; q++ {
			for _, ph := range []int{phPrePut, phPostGet, phPreGet} {
				for beh := 0; beh < 3; beh++ {
					if ph == phPreGet && beh == 1 {
						continue // PreGet has no record to replace
					}
					out = append(out, op{Kind: "hook", Q: q, Phase: ph, Beh: beh})
				}
			}
			if b.allPhaseHook {
				out = append(out, op{Kind: "hook", Q: q, Phase: 7, Beh: 0})
				out = append(out, op{Kind: "hook", Q: q, Phase: 7, Beh: 1})
			}
		}
		if len(m.hooks) > 0 {
			out = append(out, op{Kind: "hookq", Ref: 0, Phase: phPrePut, Beh: 0})
			out = append(out, op{Kind: "hookq", Ref: 0, Phase: phPrePut, Beh: 2})
			out = append(out, op{Kind: "hookq", Ref: 0, Phase: phPostGet, Beh: 1})
			// the Hook object of h0 registered again with another query
			for q := 0; q < b.nQ; q++ {
				if q != m.hooks[0].Q {
					out = append(out, op{Kind: "hooko", Ref: 0, Q: q})
				}
			}
			out = append(out, op{Kind: "hooko", Ref: 0, Q: 3})
		}
	}
	for i := range m.hooks {
		out = append(out, op{Kind: "unhook", Ref: i})
	}
	return out
}

// ---------- the real system ----------

type rec struct {
	record.Base
	sync.Mutex

	V   int
	Tag string
}

func snapOf(r record.Record) snap {
	s := snap{Key: r.DatabaseKey()}
	if m := r.Meta(); m != nil {
		s.Del = m.IsDeleted()
		s.Secret, s.Crown = record.VerifFlags(m)
	}
	if x, ok := r.(*rec); ok {
		s.V, s.Tag, s.HasData = int64(x.V), x.Tag, true
		return s
	}
	if acc := r.GetAccessor(r); acc != nil {
		if v, ok := acc.GetInt("V"); ok {
			s.V, s.HasData = v, true
		}
		s.Tag, _ = acc.GetString("Tag")
	}
	return s
}

// copyOf builds a new harness record with the content of r.
func copyOf(r record.Record) *rec {
	s := snapOf(r)
	n := &rec{V: int(s.V), Tag: s.Tag}
	n.SetKey(r.Key())
	if m := r.Meta(); m != nil {
		n.SetMeta(m.Duplicate())
	}
	return n
}

var hookErrs = []error{errors.New("veto of h0"), errors.New("veto of h1"), errors.New("veto of h2"), errors.New("veto of h3")}

type hk struct {
	w     *world
	id    int
	phase int
	beh   int
}

func (h *hk) UsesPreGet() bool  { return h.phase&phPreGet != 0 }
func (h *hk) UsesPostGet() bool { return h.phase&phPostGet != 0 }
func (h *hk) UsesPrePut() bool  { return h.phase&phPrePut != 0 }

func (h *hk) PreGet(dbKey string) error {
	h.w.calls = append(h.w.calls, call{h.id, phPreGet, snap{Key: dbKey}})
	if h.beh == 2 {
		return hookErrs[h.id]
	}
	return nil
}

func (h *hk) on(phase int, tag string, r record.Record) (record.Record, error) {
	h.w.calls = append(h.w.calls, call{h.id, phase, snapOf(r)})
	switch h.beh {
	case 2:
		return nil, hookErrs[h.id]
	case 1, 3, 4:
		n := copyOf(r)
		n.Tag += fmt.Sprintf("%s%d", tag, h.id)
		if h.beh == 3 {
			n.Meta().Deleted = 0
		}
		if h.beh == 4 {
			n.Meta().Delete()
		}
		return n, nil
	}
	return r, nil
}

func (h *hk) PostGet(r record.Record) (record.Record, error) { return h.on(phPostGet, "G", r) }
func (h *hk) PrePut(r record.Record) (record.Record, error)  { return h.on(phPrePut, "P", r) }

// provider is the value provider behind the injected (runtime registry) database.
// Like the providers in portbase it hands out a new record object on every Get.
type provider struct {
	mu sync.Mutex
	db map[string]*rec
}

func (p *provider) Set(r record.Record) (record.Record, error) {
	if r.DatabaseKey() == failKey {
		return nil, errors.New("provider: key is not writable")
	}
	p.mu.Lock()
	defer p.mu.Unlock()
	p.db[r.DatabaseKey()] = copyOf(r)
	return r, nil
}

func (p *provider) Get(keyOrPrefix string) ([]record.Record, error) {
	p.mu.Lock()
	defer p.mu.Unlock()
	var out []record.Record
	for k, r := range p.db {
		if k == keyOrPrefix {
			out = append(out, copyOf(r))
		}
	}
	return out, nil
}

type world struct {
	cfg     config
	name    string
	ifaces  []*database.Interface
	push    runtime.PushFunc
	subs    []*database.Subscription
	subQ    []*query.Query
	hooks   []*database.RegisteredHook
	hookObj []*hk
	hookQ   []*query.Query
	calls   []call
}

var (
	rootDir  string
	namePool chan string
	nameSeq  int64
)

func initSystem() error {
	base := os.TempDir()
	if st, err := os.Stat("/dev/shm"); err == nil && st.IsDir() {
		base = "/dev/shm"
	}
	// remove directories left behind by runs that were killed
	if old, _ := filepath.Glob(filepath.Join(base, "verif-c14-p*-*")); old != nil {
		for _, o := range old {
			var pid int
			if _, err := fmt.Sscanf(filepath.Base(o), "verif-c14-p%d-", &pid); err == nil && pid > 0 {
				if _, err := os.Stat(fmt.Sprintf("/proc/%d", pid)); os.IsNotExist(err) {
					_ = os.RemoveAll(o)
				}
			}
		}
	}
	d, err := os.MkdirTemp(base, fmt.Sprintf("verif-c14-p%d-", os.Getpid()))
	if err != nil {
		return err
	}
	rootDir = d
	namePool = make(chan string, 4096)
	return database.InitializeWithPath(d)
}

func takeName() string {
	select {
	case n := <-namePool:
		return n
	default:
		return fmt.Sprintf("h%06d", atomic.AddInt64(&nameSeq, 1))
	}
}

func newWorld(cfg config) (*world, error) {
	w := &world{cfg: cfg, name: takeName()}
	st := cfg.Backend
	if st == "hashmap" {
		// The hashmap storage ignores its location: register the database and build its
		// controller exactly as getController does, but without creating directories
		// (the stat/mkdir calls under the global controllers lock serialise all workers).
		if err := database.VerifStartDatabase(&database.Database{Name: w.name, Description: "c14", StorageType: st, ShadowDelete: cfg.ShadowDelete}); err != nil {
			return nil, err
		}
	} else if _, err := database.Register(&database.Database{Name: w.name, Description: "c14", StorageType: st, ShadowDelete: cfg.ShadowDelete}); err != nil {
		return nil, err
	}
	if cfg.Backend == "injected" {
		reg := runtime.NewRegistry()
		if err := reg.InjectAsDatabase(w.name); err != nil {
			return nil, err
		}
		p := &provider{db: map[string]*rec{}}
		push, err := reg.Register("a/", p)
		if err != nil {
			return nil, err
		}
		if _, err := reg.Register("b/", p); err != nil {
			return nil, err
		}
		w.push = push
	}
	for _, d := range ifaceDefs {
		w.ifaces = append(w.ifaces, database.NewInterface(&database.Options{Local: d.Local, Internal: d.Internal, AlwaysMakeSecret: d.MakeSecret, AlwaysMakeCrownjewel: d.MakeCrown}))
	}
	return w, nil
}

func (w *world) close() {
	database.VerifDrop(w.name)
	if w.cfg.Backend == "bbolt" {
		_ = os.Remove(filepath.Join(rootDir, "databases", w.name, "bbolt", "db.bbolt"))
	}
	select {
	case namePool <- w.name:
	default:
	}
}

func (w *world) newQuery(q int) *query.Query {
	d := qDefs[q]
	x := query.New(w.name + ":" + d.Prefix)
	switch d.Cond {
	case 1:
		x = x.Where(query.Where("V", query.Equals, 1))
	case 2:
		x = x.Where(query.Not(query.Where("V", query.Equals, 1)))
	}
	return x
}

func (w *world) newRec(key string, v, flag int, del bool) *rec {
	r := &rec{V: v}
	r.SetKey(w.name + ":" + key)
	r.UpdateMeta()
	switch flag {
	case 1:
		r.Meta().MakeSecret()
	case 2:
		r.Meta().MakeCrownJewel()
	case 3:
		r.Meta().MakeSecret()
		r.Meta().MakeCrownJewel()
	}
	if del {
		r.Meta().Delete()
	}
	return r
}

type observed struct {
	err error
	get snap
}

// do executes one operation on the real system.
func (w *world) do(o op) (ob observed) {
	switch o.Kind {
	case "sub", "subq":
		var q *query.Query
		if o.Kind == "sub" {
			q = w.newQuery(o.Q)
		} else {
			q = w.subQ[o.Ref]
		}
		s, err := database.NewInterface(&database.Options{Local: privs[o.Priv].Local, Internal: privs[o.Priv].Internal}).Subscribe(q)
		ob.err = err
		w.subs = append(w.subs, s)
		w.subQ = append(w.subQ, q)
	case "cancel":
		ob.err = w.subs[o.Ref].Cancel()
	case "hook", "hookq":
		var q *query.Query
		if o.Kind == "hook" {
			q = w.newQuery(o.Q)
		} else {
			q = w.hookQ[o.Ref]
		}
		h := &hk{w: w, id: len(w.hooks), phase: o.Phase, beh: o.Beh}
		rh, err := database.RegisterHook(q, h)
		ob.err = err
		w.hooks = append(w.hooks, rh)
		w.hookObj = append(w.hookObj, h)
		w.hookQ = append(w.hookQ, q)
	case "hooko":
		q := w.newQuery(o.Q)
		h := w.hookObj[o.Ref]
		rh, err := database.RegisterHook(q, h)
		ob.err = err
		w.hooks = append(w.hooks, rh)
		w.hookObj = append(w.hookObj, h)
		w.hookQ = append(w.hookQ, q)
	case "unhook":
		ob.err = w.hooks[o.Ref].Cancel()
	case "get":
		r, err := w.ifaces[o.W].Get(w.name + ":" + o.Key)
		ob.err = err
		if err == nil && r != nil {
			ob.get = snapOf(r)
		}
	case "put":
		ob.err = w.ifaces[o.W].Put(w.newRec(o.Key, o.V, o.Flag, false))
	case "putnew":
		ob.err = w.ifaces[o.W].PutNew(w.newRec(o.Key, o.V, o.Flag, false))
	case "del":
		ob.err = w.ifaces[o.W].Delete(w.name + ":" + o.Key)
	case "sec":
		ob.err = w.ifaces[o.W].MakeSecret(w.name + ":" + o.Key)
	case "setv":
		ob.err = w.ifaces[o.W].InsertValue(w.name+":"+o.Key, "V", o.V)
	case "push":
		r := w.newRec(o.Key, o.V, o.Flag, o.Del)
		r.Lock()
		defer r.Unlock()
		w.push(r)
	}
	return ob
}

// drain empties a feed without blocking.
func drain(s *database.Subscription) (got []snap, closed bool) {
	for {
		select {
		case r, ok := <-s.Feed:
			if !ok {
				return got, true
			}
			got = append(got, snapOf(r))
		default:
			return got, false
		}
	}
}

type rawEnt struct {
	ok bool
	s  snap
}

// raw reads the storage directly (no hooks, no checks), one entry per key.
func (w *world) raw(keys []string) []rawEnt {
	out := make([]rawEnt, len(keys))
	for i, k := range keys {
		r, err := database.VerifRawGet(w.name, k)
		if err == nil && r != nil {
			out[i] = rawEnt{true, snapOf(r)}
		}
	}
	return out
}

func rawString(m []rawEnt) string {
	var sb strings.Builder
	for _, e := range m {
		if e.ok {
			sb.WriteString(e.s.String())
			sb.WriteByte(';')
		}
	}
	return sb.String()
}

func sameRaw(a, b []rawEnt) bool {
	for i := range a {
		if a[i] != b[i] {
			return false
		}
	}
	return true
}

func (m *model) rawOf(keys []string) []rawEnt {
	out := make([]rawEnt, len(keys))
	for i, k := range keys {
		if e, ok := m.store[k]; ok {
			out[i] = rawEnt{true, e.snap(k)}
		}
	}
	return out
}

// private state of the controller for the canonical key: which of the
// harness's subscriptions and hooks are registered, in the controller's order.
func (w *world) private() string {
	var sb strings.Builder
	sb.WriteString("s")
	for _, s := range database.VerifSubscriptions(w.name) {
		idx := -1
		for i, x := range w.subs {
			if x == s {
				idx = i
			}
		}
		sb.WriteString(strconv.Itoa(idx))
		sb.WriteByte(',')
	}
	sb.WriteString("h")
	for _, rh := range database.VerifRegisteredHooks(w.name) {
		idx := -1
		for i, x := range w.hooks {
			if x == rh {
				idx = i
			}
		}
		sb.WriteString(strconv.Itoa(idx))
		sb.WriteByte(',')
	}
	return sb.String()
}

// ---------- running one history ----------

type runResult struct {
	key     string // canonical key of the reached state, "" after a violation
	outcome string
	bad     bool
	nontriv bool
}

func keysOf(cfg config) []string {
	if cfg.Backend == "injected" {
		return []string{"a/1", "a/2", "b/1", failKey}
	}
	return []string{"a/1", "a/2", "b/1"}
}

type lazyWhere struct {
	cfg  config
	hist []op
}

func (l lazyWhere) String() string { return fmt.Sprintf("%v, history: %s", l.cfg, histString(l.hist)) }

func snapsString(s []snap) string {
	out := make([]string, len(s))
	for i, x := range s {
		out[i] = x.String()
	}
	return "[" + strings.Join(out, " ") + "]"
}

func callsString(s []call) string {
	out := make([]string, len(s))
	for i, x := range s {
		out[i] = x.String()
	}
	return "[" + strings.Join(out, " ") + "]"
}

func sameSnaps(a, b []snap) bool {
	if len(a) != len(b) {
		return false
	}
	for i := range a {
		if a[i] != b[i] {
			return false
		}
	}
	return true
}

func sameCalls(a, b []call) bool {
	if len(a) != len(b) {
		return false
	}
	for i := range a {
		if a[i] != b[i] {
			return false
		}
	}
	return true
}

var outcomeNames sync.Map

func outcomeName(kind, r string, nd, nc int) string {
	type k struct {
		kind, r string
		nd, nc  int
	}
	key := k{kind, r, nd, nc}
	if v, ok := outcomeNames.Load(key); ok {
		return v.(string)
	}
	s := fmt.Sprintf("%s:%s:deliveries=%d:hookcalls=%d", kind, r, nd, nc)
	outcomeNames.Store(key, s)
	return s
}

// Violations are collected and reported at the end: per signature the shortest
// history (ties: first in enumeration order of its text) is the witness, so
// that the result does not depend on which worker found it first.
type found struct {
	clause, site, disc, detail string
	wit                        witness
	count                      int
}

var (
	foundMu sync.Mutex
	founds  = map[string]*found{}
)

func better(a, b witness) bool {
	if len(a.History) != len(b.History) {
		return len(a.History) < len(b.History)
	}
	if a.Config.String() != b.Config.String() {
		return configRank(a.Config) < configRank(b.Config)
	}
	return a.Text < b.Text
}

func configRank(c config) int {
	r := map[string]int{"hashmap": 0, "bbolt": 2, "injected": 4}[c.Backend]
	if c.ShadowDelete {
		r++
	}
	return r
}

type violator struct{}

func (violator) Violate(clause, site, disc string, detail string, wit witness) {
	sig := clause + "|" + site + "|" + disc
	foundMu.Lock()
	defer foundMu.Unlock()
	f, ok := founds[sig]
	if !ok {
		founds[sig] = &found{clause, site, disc, detail, wit, 1}
		return
	}
	f.count++
	if better(wit, f.wit) {
		f.detail, f.wit = detail, wit
	}
}

func flushViolations(c *vlib.Ctx) {
	sigs := make([]string, 0, len(founds))
	for s := range founds {
		sigs = append(sigs, s)
	}
	sort.Strings(sigs)
	for _, s := range sigs {
		f := founds[s]
		for i := 0; i < f.count; i++ {
			c.Violate(f.clause, f.site, f.disc, f.detail, f.wit)
		}
	}
}

// runHistory replays hist on a fresh database and on a fresh model and checks every step.
func runHistory(ctx *vlib.Ctx, cfg config, seedName string, hist []op, verbose bool) runResult {
	var c violator
	w, err := newWorld(cfg)
	if err != nil {
		ctx.EngineError("cannot set up database for %v: %v", cfg, err)
		return runResult{bad: true, outcome: "engine-error"}
	}
	defer w.close()
	m := newModel(cfg)
	res := runResult{}
	wit := func(step int) witness {
		h := append([]op{}, hist[:step+1]...)
		return witness{cfg, seedName, h, histString(h)}
	}
	keys := keysOf(cfg)
	after := w.raw(keys)
	sharedSub, sharedHook, sharedObj := false, false, false
	for step, o := range hist {
		before := after
		w.calls = nil
		var ob observed
		p, stack := vlib.Catch(func() { ob = w.do(o) })
		where := lazyWhere{cfg, hist[:step+1]}
		// Histories in which two subscriptions (two hooks) were created from one query
		// object are a scenario family of their own: what goes wrong there is reported
		// per clause under that family instead of per kind of operation.
		sharedSub = sharedSub || o.Kind == "subq"
		sharedHook = sharedHook || o.Kind == "hookq"
		sharedObj = sharedObj || o.Kind == "hooko"
		subSite, hookSite := o.Kind, o.Kind
		if sharedSub {
			subSite = "two-subscriptions-from-one-query-object"
		}
		if sharedHook {
			hookSite = "two-hooks-from-one-query-object"
		}
		if sharedObj {
			hookSite = "one-hook-object-registered-twice"
		}
		if p != nil {
			ps := o.Kind
			if sharedSub && (strings.Contains(stack, "notifySubscribers") || o.Kind == "cancel") {
				ps = subSite
			}
			c.Violate("no-panic", ps, vlib.PanicSite(stack), fmt.Sprintf("%v: panic: %v", where, p), wit(step))
			if verbose {
				fmt.Printf("step %d %v: PANIC %v\n", step, o, p)
			}
			return runResult{bad: true, outcome: o.Kind + ":panic"}
		}
		x := m.apply(o)
		after = w.raw(keys)
		// feeds
		nDeliv := 0
		type feedObs struct {
			got    []snap
			closed bool
		}
		feeds := make([]feedObs, len(w.subs))
		for i, s := range w.subs {
			if s == nil {
				continue
			}
			feeds[i].got, feeds[i].closed = drain(s)
			nDeliv += len(feeds[i].got)
		}
		if verbose {
			fmt.Printf("step %d %v: err=%v (reference: %s)\n", step, o, ob.err, x.res)
			if o.Kind == "get" && ob.err == nil {
				fmt.Printf("    returned %v\n", ob.get)
			}
			fmt.Printf("    hook calls: %s (reference %s)\n", callsString(w.calls), callsString(x.calls))
			for i := range w.subs {
				fmt.Printf("    feed s%d: %s closed=%v (reference %s closed=%v)\n", i, snapsString(feeds[i].got), feeds[i].closed, snapsString(x.deliver[i]), x.closed[i])
			}
			fmt.Printf("    storage: %s\n", rawString(after))
		}
		// 1. hook calls
		if !sameCalls(w.calls, x.calls) {
			disc := "wrong-calls"
			switch {
			case len(w.calls) < len(x.calls):
				disc = "missing-call"
			case len(w.calls) > len(x.calls):
				disc = "unexpected-call"
			}
			c.Violate("hook-calls-as-registered", hookSite, disc, fmt.Sprintf("%v: hooks were called %s, reference %s", where, callsString(w.calls), callsString(x.calls)), wit(step))
			return runResult{bad: true, outcome: o.Kind + ":hook-mismatch"}
		}
		// 2. result of the operation
		isHookErr := -1
		if ob.err != nil {
			for i, e := range hookErrs {
				if errors.Is(ob.err, e) {
					isHookErr = i
				}
			}
		}
		switch {
		case x.res == "veto" && ob.err == nil:
			c.Violate("veto-returns-hook-error", hookSite, "ok-instead-of-veto", fmt.Sprintf("%v: h%d vetoes the operation, but it returned no error", where, x.vetoHook), wit(step))
			res.bad = true
		case x.res == "veto" && isHookErr != x.vetoHook:
			c.Violate("veto-returns-hook-error", hookSite, "other-error-instead-of-veto", fmt.Sprintf("%v: h%d vetoes the operation, but it returned %v", where, x.vetoHook, ob.err), wit(step))
			res.bad = true
		case x.res != "veto" && isHookErr >= 0:
			c.Violate("veto-returns-hook-error", hookSite, "veto-without-vetoing-hook", fmt.Sprintf("%v: returned %v although no hook vetoes this operation", where, ob.err), wit(step))
			res.bad = true
		case x.res == "ok" && ob.err != nil, x.res == "err" && ob.err == nil:
			if o.Kind != "get" && o.Kind != "put" && o.Kind != "putnew" && o.Kind != "del" && o.Kind != "sec" && o.Kind != "setv" {
				c.Violate("subscribe-cancel-register-succeed", o.Kind, "error-instead-of-ok", fmt.Sprintf("%v: returned %v", where, ob.err), wit(step))
				res.bad = true
				break
			}
			if x.replaced {
				// a hook replaced the record: the operation must end as it does for the replacement
				disc := "error-instead-of-ok"
				if ob.err == nil {
					disc = "ok-instead-of-error"
				}
				c.Violate("replacement-is-stored", o.Kind, disc, fmt.Sprintf("%v: with the record the hook returned the operation ends with %s, the implementation returned err=%v", where, x.res, ob.err), wit(step))
				res.bad = true
				break
			}
			// Outside this property (plain storage semantics, C02/C03): the reference store of this harness is out of step.
			ctx.EngineError("reference store out of step with the implementation (not a C14 clause): %v: reference says %s, implementation returned err=%v", where, x.res, ob.err)
			return runResult{bad: true, outcome: "engine-error"}
		}
		if res.bad {
			return runResult{bad: true, outcome: o.Kind + ":result-mismatch"}
		}
		// 3. feeds
		for i := range w.subs {
			f := feeds[i]
			want := x.deliver[i]
			if !sameSnaps(f.got, want) {
				disc := "wrong-record"
				switch {
				case len(f.got) < len(want):
					disc = "missing-delivery"
				case len(want) == 0:
					disc = "unexpected-delivery"
				case len(f.got) > len(want):
					disc = "duplicate-delivery"
				}
				c.Violate("feed-holds-exactly-the-matching-writes", subSite, disc, fmt.Sprintf("%v: feed of s%d received %s, reference %s", where, i, snapsString(f.got), snapsString(want)), wit(step))
				res.bad = true
			}
			if f.closed != x.closed[i] {
				disc := "open-after-cancel"
				if f.closed {
					disc = "closed-without-cancel"
				}
				c.Violate("feed-closed-exactly-after-cancel", subSite, disc, fmt.Sprintf("%v: feed of s%d closed=%v, reference closed=%v", where, i, f.closed, x.closed[i]), wit(step))
				res.bad = true
			}
		}
		if res.bad {
			return runResult{bad: true, outcome: o.Kind + ":feed-mismatch"}
		}
		// 4. result of a get
		if o.Kind == "get" && x.res == "ok" && ob.get != x.get {
			if x.replaced {
				c.Violate("replacement-is-returned", o.Kind, "wrong-record", fmt.Sprintf("%v: returned %v, reference %v", where, ob.get, x.get), wit(step))
				return runResult{bad: true, outcome: o.Kind + ":get-mismatch"}
			}
			ctx.EngineError("reference store out of step with the implementation (not a C14 clause): %v: get returned %v, reference %v", where, ob.get, x.get)
			return runResult{bad: true, outcome: "engine-error"}
		}
		// 5. storage
		if x.res == "veto" && !sameRaw(before, after) {
			c.Violate("veto-leaves-storage-unchanged", o.Kind, "storage-changed", fmt.Sprintf("%v: h%d vetoed, storage before %s after %s", where, x.vetoHook, rawString(before), rawString(after)), wit(step))
			return runResult{bad: true, outcome: o.Kind + ":veto-storage"}
		}
		if mr := m.rawOf(keys); !sameRaw(after, mr) {
			if x.replaced {
				c.Violate("replacement-is-stored", o.Kind, "wrong-record", fmt.Sprintf("%v: storage holds %s, reference %s", where, rawString(after), rawString(mr)), wit(step))
				return runResult{bad: true, outcome: o.Kind + ":store-mismatch"}
			}
			ctx.EngineError("reference store out of step with the implementation (not a C14 clause): %v: storage holds %s, reference %s", where, rawString(after), rawString(mr))
			return runResult{bad: true, outcome: "engine-error"}
		}
		if step == len(hist)-1 {
			r := x.res
			if o.Kind == "push" {
				r = "pushed"
			}
			res.outcome = outcomeName(o.Kind, r, nDeliv, len(w.calls))
			res.nontriv = nDeliv > 0 || len(w.calls) > 0 || o.Kind == "cancel" || o.Kind == "unhook"
		}
	}
	if len(hist) == 0 {
		res.outcome = "initial"
	}
	res.key = m.canon() + "#" + w.private() + "#" + rawString(after)
	return res
}

// ---------- family "slow consumer": one long history per configuration ----------

// A slow subscriber never reads its feed; fast subscribers are drained after
// every write. More writes than the feed buffer holds are performed. The fast
// feeds must hold every successful matching write exactly once, in order; the
// slow feed must hold exactly the writes it had room for (the first cap(Feed)),
// and no write may panic or block.
type slowVariant struct {
	name string
	subs []op // in registration order
	slow int  // index of the subscription that is never drained
}

var slowVariants = []slowVariant{
	{"slow-consumer/slow,fast", []op{{Kind: "sub", Q: 0, Priv: 0}, {Kind: "sub", Q: 0, Priv: 0}}, 0},
	{"slow-consumer/fast(V==1),slow,fast", []op{{Kind: "sub", Q: 1, Priv: 0}, {Kind: "sub", Q: 0, Priv: 0}, {Kind: "sub", Q: 0, Priv: 1}}, 1},
}

func slowConsumer(ctx *vlib.Ctx, cfg config, v slowVariant, verbose bool) {
	var c violator
	w, err := newWorld(cfg)
	if err != nil {
		ctx.EngineError("cannot set up database for %v: %v", cfg, err)
		return
	}
	defer w.close()
	m := newModel(cfg)
	wit := witness{Config: cfg, Seed: v.name, Text: v.name + ": subscriptions " + histString(v.subs) + "; cap(Feed)+2 puts alternating a/1,a/2 and V=1,0; delete(a/1); PushUpdate (injected)"}
	site := "slow-consumer"
	var steps int64
	bad := false
	var slowWant []snap
	run := func(o op, label string) bool {
		steps++
		var ob observed
		p, stack := vlib.Catch(func() { ob = w.do(o) })
		if p != nil {
			c.Violate("no-panic", site, vlib.PanicSite(stack), fmt.Sprintf("%v, %s, at %s: panic: %v", cfg, v.name, label, p), wit)
			return false
		}
		x := m.apply(o)
		if (x.res == "ok") != (ob.err == nil) && o.Kind != "push" {
			ctx.EngineError("reference store out of step with the implementation (not a C14 clause): %v, %s, at %s: reference says %s, implementation returned err=%v", cfg, v.name, label, x.res, ob.err)
			return false
		}
		for i, s := range w.subs {
			if i == v.slow {
				room := cap(s.Feed) - len(slowWant)
				for _, d := range x.deliver[i] {
					if room > 0 {
						slowWant = append(slowWant, d)
						room--
					}
				}
				continue
			}
			got, closed := drain(s)
			if verbose && (len(got) != len(x.deliver[i]) || steps%250 == 0) {
				fmt.Printf("  %s: feed s%d received %s (reference %s)\n", label, i, snapsString(got), snapsString(x.deliver[i]))
			}
			if !sameSnaps(got, x.deliver[i]) {
				disc := "wrong-record"
				switch {
				case len(got) < len(x.deliver[i]):
					disc = "missing-delivery"
				case len(x.deliver[i]) == 0:
					disc = "unexpected-delivery"
				case len(got) > len(x.deliver[i]):
					disc = "duplicate-delivery"
				}
				c.Violate("feed-holds-exactly-the-matching-writes", site, disc, fmt.Sprintf("%v, %s, at %s (s%d never reads its feed, which holds %d of %d): feed of s%d received %s, reference %s", cfg, v.name, label, v.slow, len(w.subs[v.slow].Feed), cap(w.subs[v.slow].Feed), i, snapsString(got), snapsString(x.deliver[i])), wit)
				return false
			}
			if closed {
				c.Violate("feed-closed-exactly-after-cancel", site, "closed-without-cancel", fmt.Sprintf("%v, %s, at %s: feed of s%d is closed", cfg, v.name, label, i), wit)
				return false
			}
		}
		return true
	}
	done := make(chan struct{})
	go func() {
		defer close(done)
		for i, o := range v.subs {
			if !run(o, fmt.Sprintf("subscribe #%d", i)) {
				bad = true
				return
			}
		}
		n := cap(w.subs[v.slow].Feed) + 2
		for i := 1; i <= n; i++ {
			o := op{Kind: "put", Key: []string{"a/1", "a/2"}[i%2], V: (i / 2) % 2}
			if !run(o, fmt.Sprintf("write #%d %v", i, o)) {
				bad = true
				return
			}
		}
		tail := []op{{Kind: "del", Key: "a/1"}, {Kind: "put", Key: "a/1", V: 1}}
		if cfg.Backend == "injected" {
			tail = append(tail, op{Kind: "push", Key: "a/2", V: 1})
		}
		for _, o := range tail {
			if !run(o, "after the overflow: "+o.String()) {
				bad = true
				return
			}
		}
		// the slow subscriber: exactly the writes it had room for
		got, closed := drain(w.subs[v.slow])
		if verbose {
			fmt.Printf("  slow feed s%d holds %d records (reference %d), closed=%v\n", v.slow, len(got), len(slowWant), closed)
		}
		if !sameSnaps(got, slowWant) || closed {
			disc := "wrong-record"
			switch {
			case len(got) < len(slowWant):
				disc = "missing-delivery"
			case len(got) > len(slowWant):
				disc = "duplicate-delivery"
			}
			first := 0
			for first < len(got) && first < len(slowWant) && got[first] == slowWant[first] {
				first++
			}
			c.Violate("feed-holds-exactly-the-matching-writes", site+"(slow feed)", disc, fmt.Sprintf("%v, %s: the never-read feed of s%d holds %d records, reference: the first %d matching writes; first difference at position %d", cfg, v.name, v.slow, len(got), len(slowWant), first), wit)
			bad = true
		}
	}()
	select {
	case <-done:
	case <-time.After(2 * time.Minute): // watchdog only: the scenario takes well under a second
		c.Violate("write-does-not-block-on-full-feed", site, "blocked", fmt.Sprintf("%v, %s: a write did not return within two minutes (feed of s%d full)", cfg, v.name, v.slow), wit)
		bad = true
	}
	ctx.Add(1, steps, 1)
	ctx.NontrivialN(1)
	if bad {
		ctx.Outcome("slow-consumer:mismatch")
	} else {
		ctx.Outcome("slow-consumer:fast feeds complete, slow feed holds the first cap(Feed) writes")
	}
	if verbose {
		fmt.Printf("slow consumer %v %s: %d steps, violation=%v\n", cfg, v.name, steps, bad)
	}
}

// ---------- seeds ----------

type seed struct {
	name string
	ops  []op
}

func seeds(cfg config) []seed {
	return []seed{
		{"empty", nil},
		{"stored(a/1 V=1; b/1 V=1)", []op{{Kind: "put", Key: "a/1", V: 1}, {Kind: "put", Key: "b/1", V: 1}}},
		{"stored(a/1 V=1 secret)+sub(a/,--)", []op{{Kind: "put", Key: "a/1", V: 1, Flag: 1}, {Kind: "sub", Q: 0, Priv: 1}}},
		{"stored(a/1 V=1)+hook(a/ where V == 1,preput,pass)+sub(a/,LI)", []op{{Kind: "put", Key: "a/1", V: 1}, {Kind: "hook", Q: 1, Phase: phPrePut, Beh: 0}, {Kind: "sub", Q: 0, Priv: 0}}},
	}
}

// ---------- main ----------

type plan struct {
	cfg    config
	depth  int
	b      *bounds
	family string // "" = the general exploration
	seeds  []seed // nil = the general seeds
}

// hookOrderSeeds: a stored record and three hooks on "a/", every triple of hook kinds.
// The histories that follow cancel one of them and then read or write: with a
// cancel in the middle the remaining hooks must still fire in registration order.
func hookOrderSeeds() []seed {
	type kind struct{ ph, beh int }
	kinds := []kind{{phPrePut, 0}, {phPrePut, 1}, {phPrePut, 2}, {phPostGet, 1}, {phPostGet, 2}, {phPreGet, 0}, {phPreGet, 2}}
	var out []seed
	for _, k0 := range kinds {
		for _, k1 := range kinds {
			for _, k2 := range kinds {
				ops := []op{{Kind: "put", Key: "a/1", V: 1}}
				for _, k := range []kind{k0, k1, k2} {
					ops = append(ops, op{Kind: "hook", Q: 0, Phase: k.ph, Beh: k.beh})
				}
				out = append(out, seed{"stored(a/1 V=1)+" + histString(ops[1:]), ops})
			}
		}
	}
	return out
}

// matrixSeeds: one subscription per Local/Internal combination.
func matrixSeeds() []seed {
	var out []seed
	for q := 0; q < 2; q++ {
		var ops []op
		for p := range privs {
			ops = append(ops, op{Kind: "sub", Q: q, Priv: p})
		}
		out = append(out, seed{histString(ops), ops})
	}
	return out
}

func plans(c *vlib.Ctx) []plan {
	quick := c.Quick()
	mk := func(keys []string, nQ, nPriv, nFlag, maxSubs, maxHooks int, ifaces []int, all, pd bool) *bounds {
		return &bounds{nQ: nQ, nPriv: nPriv, nFlag: nFlag, keys: keys, maxSubs: maxSubs, maxHooks: maxHooks, ifaces: ifaces, allPhaseHook: all, pushDeleted: pd}
	}
	// dedicated families (both tiers): the complete flags x privileges matrix of the
	// delivery clause, and the order of three hooks after a cancel
	matrix := mk([]string{"a/1"}, 1, 4, 4, 4, 0, []int{0}, false, true)
	matrix.fullIfaces = []int{2, 4}
	matrix.putNew = true
	order := mk([]string{"a/1"}, 1, 1, 1, 1, 3, []int{0, 1}, false, false)
	order.noNewHooks = true
	// PrePut hooks whose replacement changes the deleted mark: what is stored, returned by a
	// following get and delivered must follow the record the hook returned
	mark := mk([]string{"a/1"}, 2, 2, 1, 1, 2, []int{0, 1}, false, false)
	mark.hookKinds = [][2]int{{phPrePut, 3}, {phPrePut, 4}, {phPrePut, 1}, {phPrePut, 2}, {phPostGet, 1}}
	markSeeds := []seed{
		{"sub(a/,LI)", []op{{Kind: "sub", Q: 0, Priv: 0}}},
		{"stored(a/1 V=1)+sub(a/,LI)", []op{{Kind: "put", Key: "a/1", V: 1}, {Kind: "sub", Q: 0, Priv: 0}}},
		{"stored(a/1 V=1)+sub(a/ where V == 1,--)", []op{{Kind: "put", Key: "a/1", V: 1}, {Kind: "sub", Q: 1, Priv: 1}}},
	}
	markDepth := vlib.Pick(c, 4, 5)
	fam := []plan{
		{config{"hashmap", false}, markDepth, mark, "pre-put hook changes the deleted mark", markSeeds},
		{config{"hashmap", true}, markDepth, mark, "pre-put hook changes the deleted mark", markSeeds},
		{config{"bbolt", false}, 3, mark, "pre-put hook changes the deleted mark", markSeeds},
		{config{"bbolt", true}, 3, mark, "pre-put hook changes the deleted mark", markSeeds},
		{config{"injected", false}, 3, mark, "pre-put hook changes the deleted mark", markSeeds},
		{config{"hashmap", false}, 2, matrix, "flags x privileges matrix", matrixSeeds()},
		{config{"hashmap", true}, 2, matrix, "flags x privileges matrix", matrixSeeds()},
		{config{"bbolt", true}, 2, matrix, "flags x privileges matrix", matrixSeeds()},
		{config{"injected", false}, 2, matrix, "flags x privileges matrix", matrixSeeds()},
		{config{"hashmap", false}, 2, order, "three hooks, cancel one", hookOrderSeeds()},
		{config{"injected", false}, 2, order, "three hooks, cancel one", hookOrderSeeds()},
	}
	if quick {
		small := mk([]string{"a/1", "b/1"}, 2, 2, 2, 2, 2, []int{0, 1}, false, false)
		inj := mk([]string{"a/1", "b/1", failKey}, 2, 2, 2, 2, 2, []int{0, 1}, false, false)
		// cheapest first
		return append(append([]plan{{cfg: config{"injected", false}, depth: 3, b: inj}}, fam...),
			plan{cfg: config{"bbolt", false}, depth: 3, b: small},
			plan{cfg: config{"bbolt", true}, depth: 3, b: small},
			plan{cfg: config{"hashmap", false}, depth: 4, b: small},
			plan{cfg: config{"hashmap", true}, depth: 4, b: small},
		)
	}
	big := mk([]string{"a/1", "b/1", "a/2"}, 3, 4, 4, 3, 2, []int{0, 1, 2, 3}, true, true)
	small := mk([]string{"a/1", "b/1"}, 2, 2, 2, 2, 2, []int{0, 1}, false, false)
	inj := mk([]string{"a/1", "b/1", failKey}, 3, 4, 4, 3, 2, []int{0, 1, 2, 3}, true, true)
	big.putNew, inj.putNew = true, true
	order3 := *order
	orderDeep := []plan{
		{config{"hashmap", true}, 3, &order3, "three hooks, cancel one", hookOrderSeeds()},
		{config{"bbolt", false}, 2, &order3, "three hooks, cancel one", hookOrderSeeds()},
	}
	// cheapest first; the last one is the largest and is the one a budget would cut
	return append(append(append([]plan{{cfg: config{"injected", false}, depth: 3, b: inj}}, fam...), orderDeep...),
		plan{cfg: config{"hashmap", true}, depth: 3, b: big},
		plan{cfg: config{"bbolt", false}, depth: 4, b: small},
		plan{cfg: config{"bbolt", true}, depth: 4, b: small},
		plan{cfg: config{"hashmap", false}, depth: 5, b: small},
		plan{cfg: config{"hashmap", true}, depth: 5, b: small},
		plan{cfg: config{"hashmap", false}, depth: 4, b: big},
	)
}

func main() {
	vlib.Main("C14", "model_checking", func(c *vlib.Ctx) {
		// the schedule clauses (writers vs Cancel) are decided by the engine-S part
		if c.ReplayPart(`"c14s/`, "/verif/build/c14s") {
			return
		}
		defer c.RunPart("/verif/build/c14s")
		debug.SetGCPercent(400)
		if err := initSystem(); err != nil {
			c.EngineError("cannot initialise the database system: %v", err)
			return
		}
		defer os.RemoveAll(rootDir)
		c.Rule("BFS over histories of {subscribe(query, subscriber privileges), subscribe(reusing the query object of s0), cancel(s_i), registerHook(query, phase, pass|replace|veto), registerHook(reusing the query object of h0), registerHook(reusing the Hook object of h0 with another query), cancelHook(h_i), " +
			"put/PutNew(matrix family, thorough)/delete/MakeSecret/InsertValue/get through interfaces of different privileges, PushUpdate (injected database)} on keys inside/outside the subscribed prefix with values for which the where-condition holds or not and flags none/secret(/crownjewel); " +
			"each history replayed on a fresh real database (hashmap, bbolt, runtime registry injected) and on a reference (lists of subscriptions and hooks, map of records); after every step feeds are drained, hook calls, result and raw storage compared; " +
			"states de-duplicated on (reference state, controller's registered subscriptions and hooks, raw storage); deepest level check-only and without subscribe/registerHook as last step (nothing to observe); " +
			"plus two dedicated families: the complete matrix flags {none,secret,crownjewel,both} x subscriber privileges {LI,L-,-I,--} x writers {LI, LI+AlwaysMakeSecret, LI+AlwaysMakeSecret+AlwaysMakeCrownjewel, PushUpdate} (depth 2 from four subscriptions), and every triple of 7 hook kinds registered on one prefix followed by cancelHook and a read or write (order of the remaining hooks); " +
			"the family 'pre-put hook changes the deleted mark' (PrePut hooks that replace the record by a live one or by one marked deleted, besides replace/veto, on databases with and without shadow delete, depth 3-4 (thorough 3-5): storage, a following get and the feeds must follow the record the hook returned); " +
			"and the family 'slow consumer' (one long history per backend and registration order: a never-read subscription and drained ones, cap(Feed)+2 alternating puts, delete, put, PushUpdate); " +
			"non-trivial = histories whose last step delivered to a feed, called a hook, or cancelled a subscription or hook")
		c.Assume("when several hooks are registered, each sees the record returned by the previous one (matching included); the harness's replacing hooks keep key, value and flags and only mark the record")
		c.Assume("Interface.Delete, MakeSecret and InsertValue are a get followed by a put of the modified record: get-phase and put-phase hooks both apply to them")
		c.Assume("results that do not involve a hook (not found, permission denied, storage errors) are taken from the reference store only to predict deliveries; a disagreement there is reported as an engine error, not as a C14 violation")
		c.Assume("interfaces without cache; a full feed buffer only in the family 'slow consumer' (what a full feed loses is not asserted, only that it keeps what it had room for); the writer-vs-Cancel interleaving clause is decided by engine S")

		if c.Replay != "" {
			var w witness
			if _, err := c.LoadReplay(&w); err != nil {
				c.EngineError("replay: %v", err)
				return
			}
			if strings.HasPrefix(w.Seed, "slow-consumer/") {
				for _, v := range slowVariants {
					if v.name == w.Seed {
						slowConsumer(c, w.Config, v, true)
					}
				}
				flushViolations(c)
				return
			}
			fmt.Printf("replaying on %v: %s\n", w.Config, histString(w.History))
			r := runHistory(c, w.Config, w.Seed, w.History, true)
			fmt.Printf("replayed: outcome=%s violation=%v\n", r.outcome, r.bad)
			flushViolations(c)
			c.Add(1, int64(len(w.History)), 1)
			return
		}

		if !strings.Contains(strings.Join(os.Args, " "), "-budget") {
			c.SetBudget(vlib.Pick(c, 150*time.Second, 20*time.Minute)) // the engine-S part runs afterwards with its own budget
		}
		only := os.Getenv("VERIF_C14_ONLY") // development aid: restrict to one backend
		// family "slow consumer" (not part of the BFS: one long history per configuration)
		t0 := time.Now()
		for _, cfg := range []config{{"hashmap", false}, {"hashmap", true}, {"bbolt", true}, {"injected", false}} {
			if only != "" && cfg.Backend != only {
				continue
			}
			for _, v := range slowVariants {
				c.Scenario(fmt.Sprintf("[%s] %v", v.name, cfg))
				slowConsumer(c, cfg, v, false)
			}
		}
		fmt.Printf("[slow consumer] %d long histories (%.1fs)\n", 4*len(slowVariants), time.Since(t0).Seconds())
		pls := plans(c)
		for pi, pl := range pls {
			if only != "" && pl.cfg.Backend != only {
				continue
			}
			explore(c, pi, pl)
			if c.Expired() {
				break
			}
		}
		flushViolations(c)
	})
}

type node struct {
	seed int
	hist []op // without the seed's operations
}

func explore(c *vlib.Ctx, pi int, pl plan) {
	cfg := pl.cfg
	sds := pl.seeds
	if sds == nil {
		sds = seeds(cfg)
	}
	fam := pl.family
	if fam == "" {
		fam = "general"
	}
	scen := fmt.Sprintf("[%s, %d initial states] %v depth %d keys %v queries %d privileges %d flags %d maxSubs %d maxHooks %d interfaces %d", fam, len(sds), cfg, pl.depth, pl.b.keys, pl.b.nQ, pl.b.nPriv, pl.b.nFlag, pl.b.maxSubs, pl.b.maxHooks, len(pl.b.ifaces))
	c.Scenario(scen)
	t0 := time.Now()
	seen := map[string]struct{}{}
	var frontier []node
	full := func(n node, extra ...op) []op {
		h := append([]op{}, sds[n.seed].ops...)
		h = append(h, n.hist...)
		return append(h, extra...)
	}
	for si := range sds {
		r := runHistory(c, cfg, sds[si].name, full(node{seed: si}), false)
		c.Add(0, int64(len(sds[si].ops)), 1)
		if r.bad {
			continue
		}
		if _, ok := seen[r.key]; !ok {
			seen[r.key] = struct{}{}
			frontier = append(frontier, node{seed: si})
			c.Add(1, 0, 0)
		}
	}
	var total int64
	completed := 0
	for depth := 1; depth <= pl.depth && len(frontier) > 0; depth++ {
		if c.Expired() {
			break
		}
		last := depth == pl.depth
		type succ struct {
			key string
			n   node
		}
		results := make([][]succ, len(frontier))
		var mu sync.Mutex
		outc := map[string]int64{}
		var nontriv, evals int64
		var cut int32
		c.ParallelFor(len(frontier), func(fi int) {
			if fi%256 == 0 && c.Expired() {
				atomic.StoreInt32(&cut, 1)
			}
			if atomic.LoadInt32(&cut) == 1 {
				return
			}
			nd := frontier[fi]
			// model-only replay to find the enabled operations
			m := newModel(cfg)
			for _, o := range full(nd) {
				m.apply(o)
			}
			ops := m.enabled(pl.b)
			if last {
				// A subscribe or registerHook as the very last step has nothing to observe
				// (its effect shows only in later operations): not run at the deepest level.
				k := 0
				for _, o := range ops {
					if o.Kind != "sub" && o.Kind != "subq" && o.Kind != "hook" && o.Kind != "hookq" && o.Kind != "hooko" {
						ops[k] = o
						k++
					}
				}
				ops = ops[:k]
			}
			local := map[string]int64{}
			var out []succ
			var nt int64
			for _, o := range ops {
				r := runHistory(c, cfg, sds[nd.seed].name, full(nd, o), false)
				local[r.outcome]++
				if r.nontriv {
					nt++
				}
				if r.bad || last {
					continue
				}
				out = append(out, succ{r.key, node{nd.seed, append(append([]op{}, nd.hist...), o)}})
			}
			mu.Lock()
			for k, v := range local {
				outc[k] += v
			}
			nontriv += nt
			evals += int64(len(ops))
			mu.Unlock()
			results[fi] = out
		})
		for k, v := range outc {
			c.OutcomeN(k, v)
		}
		c.NontrivialN(nontriv)
		c.Add(0, evals, evals)
		total += evals
		if atomic.LoadInt32(&cut) == 1 {
			c.NotExhaustive(fmt.Sprintf("%s: budget reached at depth %d", scen, depth))
			break
		}
		completed = depth
		var next []node
		for _, rs := range results {
			for _, s := range rs {
				if _, ok := seen[s.key]; ok {
					continue
				}
				seen[s.key] = struct{}{}
				next = append(next, s.n)
				if len(seen)%997 == 0 {
					c.Sample(map[string]any{"family": fam, "config": cfg.String(), "seed": sds[s.n.seed].name, "history": histString(s.n.hist), "state": s.key})
				}
			}
		}
		c.Add(int64(len(next)), 0, 0)
		fmt.Printf("[%s %s] depth %d: frontier %d, histories %d, new states %d (%.1fs)\n", fam, cfg, depth, len(frontier), evals, len(next), time.Since(t0).Seconds())
		frontier = next
	}
	c.Extra(fmt.Sprintf("plan%d", pi), fmt.Sprintf("%s: depth completed %d, histories %d, states %d", scen, completed, total, len(seen)))
}
