//go:build verif

package container

// VerifState exposes the private representation for state canonicalisation.
func VerifState(c *Container) (lens []int, offset int) {
	lens = make([]int, len(c.compartments))
	for i, x := range c.compartments {
		lens[i] = len(x)
	}
	return lens, c.offset
}

// VerifCarbonCopy exposes carbonCopy.
func VerifCarbonCopy(c *Container) *Container { return c.carbonCopy() }
