// C16: a container is a faithful byte queue.
// Engine Q: breadth-first search over operation histories on the real
// container, compared step by step with a plain []byte queue; states are
// de-duplicated on (compartment length vector, offset, content).
package main

import (
	"bytes"
	"encoding/json"
	"fmt"
	"strings"
	"sync"
	"time"

	"github.com/safing/portbase/container"

	"verif/vlib"
)

// ---------- reference model: a plain byte queue ----------

type model struct {
	q     []byte
	sides *[]side // containers handed to / returned by operations so far; they must stay independent of the container under test
}

// side is a second container that met the container under test: an argument of
// AppendContainer*, or a container returned by PeekContainer, GetAsContainer or
// GetNextBlockAsContainer. Its content must not change through later operations
// on the container under test, and vice versa.
type side struct {
	ct   *container.Container
	want []byte
	from string
}

func (m *model) addSide(ct *container.Container, want []byte, from string) {
	if m.sides != nil && ct != nil {
		*m.sides = append(*m.sides, side{ct, clone(want), from})
	}
}

func refPack(n uint64) []byte {
	var out []byte
	for {
		b := byte(n & 0x7f)
		n >>= 7
		if n != 0 {
			out = append(out, b|0x80)
		} else {
			return append(out, b)
		}
	}
}

// refDecode: textbook varint decode of a prefix of b. status 0 ok, 1 truncated, 2 too large.
func refDecode(b []byte, max uint64) (v uint64, consumed int, st int) {
	over := false
	shift := uint(0)
	for i, x := range b {
		g := uint64(x & 0x7f)
		if g != 0 {
			if shift >= 64 || (g<<shift)>>shift != g {
				over = true
			} else {
				v |= g << shift
			}
		}
		if x < 0x80 {
			if over || v > max {
				return 0, i + 1, 2
			}
			return v, i + 1, 0
		}
		shift += 7
	}
	return 0, 0, 1
}

// ---------- operations ----------

// res is the observable result of one step. ok: 1 success, 0 error/absent, 2 either accepted (model only)
type res struct {
	ok   int
	data []byte
	num  uint64
	n    int
	flag bool
	has  string // which fields are defined: subset of "dnNf"
}

func (r res) String() string {
	return fmt.Sprintf("{ok:%d data:%x num:%d n:%d flag:%v has:%s}", r.ok, r.data, r.num, r.n, r.flag, r.has)
}

type op struct {
	name string
	// impl applies to the real container and returns its result.
	impl func(c *container.Container, m *model) res
	// ref applies to the model and returns the expected result (ok==2: error or this value, see comments).
	ref func(m *model) res
}

const big31 = 1 << 62

// lengths returns the requested-length argument: symbolic lengths are resolved against the model.
type lenArg struct {
	name string
	f    func(m *model) int
}

var lenArgs = []lenArg{
	{"-1", func(*model) int { return -1 }},
	{"0", func(*model) int { return 0 }},
	{"1", func(*model) int { return 1 }},
	{"2", func(*model) int { return 2 }},
	{"len", func(m *model) int { return len(m.q) }},
	{"len+1", func(m *model) int { return len(m.q) + 1 }},
	{"2^62", func(*model) int { return big31 }},
}

type dataArg struct {
	name string
	b    []byte
}

func dataArgs(tag byte) []dataArg {
	out := []dataArg{
		{"nil", nil},
		{"empty", []byte{}},
		{"1B", []byte{tag}},
		{"3B", []byte{tag + 1, tag + 2, tag + 3}},
	}
	if tag == 0x60 || tag == 0x40 {
		// Append / Prepend: a byte with the continuation bit, so that numbers can straddle compartments
		out = append(out, dataArg{"hi", []byte{0x81}})
	}
	return out
}

var numbers = []uint64{0, 1, 3, 127, 128, 255, 256, 1 << 62, 1 << 63, ^uint64(0)}

func clone(b []byte) []byte { return append([]byte{}, b...) }

// otherContainers are arguments of AppendContainer*.
type contArg struct {
	name  string
	build func() *container.Container
	bytes []byte
}

var contArgs = []contArg{
	{"New()", func() *container.Container { return container.New() }, nil},
	{"New(xy)", func() *container.Container { return container.New([]byte{0x78, 0x79}) }, []byte{0x78, 0x79}},
	{"consumed(New(x,yz).Get(1))", func() *container.Container {
		c := container.New([]byte{0x78}, []byte{0x79, 0x7a})
		_, _ = c.Get(1)
		return c
	}, []byte{0x79, 0x7a}},
	{"prepended(New(y).Prepend(x))", func() *container.Container {
		c := container.New([]byte{0x79})
		c.Prepend([]byte{0x78})
		return c
	}, []byte{0x78, 0x79}},
}

func buildOps() []op {
	var ops []op
	add := func(o op) { ops = append(ops, o) }
	// --- non-consuming observers first (simplest first) ---
	add(op{"Length", func(c *container.Container, _ *model) res { return res{ok: 1, n: c.Length(), has: "n"} },
		func(m *model) res { return res{ok: 1, n: len(m.q), has: "n"} }})
	add(op{"HoldsData", func(c *container.Container, _ *model) res { return res{ok: 1, flag: c.HoldsData(), has: "f"} },
		func(m *model) res { return res{ok: 1, flag: len(m.q) > 0, has: "f"} }})
	add(op{"CompileData", func(c *container.Container, _ *model) res { return res{ok: 1, data: clone(c.CompileData()), has: "d"} },
		func(m *model) res { return res{ok: 1, data: clone(m.q), has: "d"} }})
	add(op{"WriteAllTo", func(c *container.Container, _ *model) res {
		var buf bytes.Buffer
		err := c.WriteAllTo(&buf)
		if err != nil {
			return res{ok: 0}
		}
		return res{ok: 1, data: buf.Bytes(), has: "d"}
	}, func(m *model) res { return res{ok: 1, data: clone(m.q), has: "d"} }})
	// --- writers ---
	for _, d := range dataArgs(0x60) {
		d := d
		add(op{"Append(" + d.name + ")", func(c *container.Container, _ *model) res { c.Append(clone2(d.b)); return res{ok: 1} },
			func(m *model) res { m.q = append(m.q, d.b...); return res{ok: 1} }})
	}
	for _, d := range dataArgs(0x40) {
		d := d
		add(op{"Prepend(" + d.name + ")", func(c *container.Container, _ *model) res { c.Prepend(clone2(d.b)); return res{ok: 1} },
			func(m *model) res { m.q = append(clone(d.b), m.q...); return res{ok: 1} }})
	}
	for _, d := range dataArgs(0x50) {
		d := d
		add(op{"AppendAsBlock(" + d.name + ")", func(c *container.Container, _ *model) res { c.AppendAsBlock(clone2(d.b)); return res{ok: 1} },
			func(m *model) res { m.q = append(append(m.q, refPack(uint64(len(d.b)))...), d.b...); return res{ok: 1} }})
		add(op{"PrependAsBlock(" + d.name + ")", func(c *container.Container, _ *model) res { c.PrependAsBlock(clone2(d.b)); return res{ok: 1} },
			func(m *model) res {
				m.q = append(append(refPack(uint64(len(d.b))), d.b...), m.q...)
				return res{ok: 1}
			}})
	}
	for _, n := range numbers {
		n := n
		add(op{fmt.Sprintf("AppendNumber(%d)", n), func(c *container.Container, _ *model) res { c.AppendNumber(n); return res{ok: 1} },
			func(m *model) res { m.q = append(m.q, refPack(n)...); return res{ok: 1} }})
		add(op{fmt.Sprintf("PrependNumber(%d)", n), func(c *container.Container, _ *model) res { c.PrependNumber(n); return res{ok: 1} },
			func(m *model) res { m.q = append(refPack(n), m.q...); return res{ok: 1} }})
	}
	for _, n := range []int{0, 200, -1} {
		n := n
		add(op{fmt.Sprintf("AppendInt(%d)", n), func(c *container.Container, _ *model) res { c.AppendInt(n); return res{ok: 1} },
			func(m *model) res { m.q = append(m.q, refPack(uint64(n))...); return res{ok: 1} }})
		add(op{fmt.Sprintf("PrependInt(%d)", n), func(c *container.Container, _ *model) res { c.PrependInt(n); return res{ok: 1} },
			func(m *model) res { m.q = append(refPack(uint64(n)), m.q...); return res{ok: 1} }})
	}
	add(op{"PrependLength", func(c *container.Container, _ *model) res { c.PrependLength(); return res{ok: 1} },
		func(m *model) res { m.q = append(refPack(uint64(len(m.q))), m.q...); return res{ok: 1} }})
	for _, a := range contArgs {
		a := a
		add(op{"AppendContainer(" + a.name + ")", func(c *container.Container, m *model) res {
			arg := a.build()
			c.AppendContainer(arg)
			m.addSide(arg, a.bytes, "argument of AppendContainer")
			return res{ok: 1}
		},
			func(m *model) res { m.q = append(m.q, a.bytes...); return res{ok: 1} }})
		add(op{"AppendContainerAsBlock(" + a.name + ")", func(c *container.Container, m *model) res {
			arg := a.build()
			c.AppendContainerAsBlock(arg)
			m.addSide(arg, a.bytes, "argument of AppendContainerAsBlock")
			return res{ok: 1}
		},
			func(m *model) res {
				m.q = append(append(m.q, refPack(uint64(len(a.bytes)))...), a.bytes...)
				return res{ok: 1}
			}})
	}
	for _, d := range dataArgs(0x30) {
		d := d
		add(op{"Replace(" + d.name + ")", func(c *container.Container, _ *model) res { c.Replace(clone2(d.b)); return res{ok: 1} },
			func(m *model) res { m.q = clone(d.b); return res{ok: 1} }})
	}
	// --- readers with a requested length ---
	for _, la := range lenArgs {
		la := la
		add(op{"Peek(" + la.name + ")", func(c *container.Container, m *model) res {
			return res{ok: 1, data: clone(c.Peek(la.f(m))), has: "d"}
		}, func(m *model) res { return res{ok: 1, data: clone(m.q[:clamp(la.f(m), len(m.q))]), has: "d"} }})
		add(op{"PeekContainer(" + la.name + ")", func(c *container.Container, m *model) res {
			nc := c.PeekContainer(la.f(m))
			if nc == nil {
				return res{ok: 0}
			}
			d := clone(container.VerifCarbonCopy(nc).CompileData())
			m.addSide(nc, d, "result of PeekContainer")
			return res{ok: 1, data: d, has: "d"}
		}, func(m *model) res {
			n := la.f(m)
			if n < 0 || n > len(m.q) {
				return res{ok: 0}
			}
			return res{ok: 1, data: clone(m.q[:n]), has: "d"}
		}})
		add(op{"Get(" + la.name + ")", func(c *container.Container, m *model) res {
			b, err := c.Get(la.f(m))
			if err != nil {
				return res{ok: 0}
			}
			return res{ok: 1, data: clone(b), has: "d"}
		}, func(m *model) res {
			n := la.f(m)
			if n > len(m.q) {
				return res{ok: 0}
			}
			if n < 0 {
				// a negative request may be refused or yield nothing; nothing is consumed either way
				return res{ok: 2, data: []byte{}, has: "d"}
			}
			out := clone(m.q[:n])
			m.q = m.q[n:]
			return res{ok: 1, data: out, has: "d"}
		}})
		add(op{"GetMax(" + la.name + ")", func(c *container.Container, m *model) res {
			return res{ok: 1, data: clone(c.GetMax(la.f(m))), has: "d"}
		}, func(m *model) res {
			n := clamp(la.f(m), len(m.q))
			out := clone(m.q[:n])
			m.q = m.q[n:]
			return res{ok: 1, data: out, has: "d"}
		}})
		add(op{"GetAsContainer(" + la.name + ")", func(c *container.Container, m *model) res {
			nc, err := c.GetAsContainer(la.f(m))
			if err != nil || nc == nil {
				return res{ok: 0}
			}
			d := clone(container.VerifCarbonCopy(nc).CompileData())
			m.addSide(nc, d, "result of GetAsContainer")
			return res{ok: 1, data: d, has: "d"}
		}, func(m *model) res {
			n := la.f(m)
			if n < 0 || n > len(m.q) {
				return res{ok: 0}
			}
			out := clone(m.q[:n])
			m.q = m.q[n:]
			return res{ok: 1, data: out, has: "d"}
		}})
		if la.name != "-1" && la.name != "2^62" {
			add(op{"WriteToSlice(" + la.name + ")", func(c *container.Container, m *model) res {
				buf := make([]byte, la.f(m))
				n, emptied := c.WriteToSlice(buf)
				if n < 0 || n > len(buf) {
					return res{ok: 1, n: n, flag: emptied, has: "nf"}
				}
				return res{ok: 1, data: buf[:n], n: n, flag: emptied, has: "dnf"}
			}, func(m *model) res {
				n := clamp(la.f(m), len(m.q))
				out := clone(m.q[:n])
				m.q = m.q[n:]
				return res{ok: 1, data: out, n: n, flag: len(m.q) == 0, has: "dnf"}
			}})
		}
	}
	add(op{"GetAll", func(c *container.Container, _ *model) res { return res{ok: 1, data: clone(c.GetAll()), has: "d"} },
		func(m *model) res { out := clone(m.q); m.q = m.q[:0]; return res{ok: 1, data: out, has: "d"} }})
	// --- varint readers ---
	type nrd struct {
		name string
		max  uint64
		f    func(c *container.Container) (uint64, error)
	}
	for _, r := range []nrd{
		{"GetNextN8", 0xff, func(c *container.Container) (uint64, error) { v, e := c.GetNextN8(); return uint64(v), e }},
		{"GetNextN16", 0xffff, func(c *container.Container) (uint64, error) { v, e := c.GetNextN16(); return uint64(v), e }},
		{"GetNextN32", 0xffffffff, func(c *container.Container) (uint64, error) { v, e := c.GetNextN32(); return uint64(v), e }},
		{"GetNextN64", ^uint64(0), func(c *container.Container) (uint64, error) { v, e := c.GetNextN64(); return v, e }},
	} {
		r := r
		add(op{r.name, func(c *container.Container, _ *model) res {
			v, err := r.f(c)
			if err != nil {
				return res{ok: 0}
			}
			return res{ok: 1, num: v, has: "N"}
		}, func(m *model) res {
			v, k, st := refDecode(m.q, r.max)
			if st != 0 {
				return res{ok: 0}
			}
			if k != len(refPack(v)) {
				// non-minimal encoding: value or error (see C10); harness alphabets never produce one
				return res{ok: 2, num: v, n: k, has: "N"}
			}
			m.q = m.q[k:]
			return res{ok: 1, num: v, has: "N"}
		}})
	}
	blockRef := func(asContainer bool) func(m *model) res {
		return func(m *model) res {
			// defined compositionally: read the length prefix, then Get(length)
			v, k, st := refDecode(m.q, ^uint64(0))
			if st != 0 {
				return res{ok: 0}
			}
			m.q = m.q[k:]
			if v > uint64(len(m.q)) {
				return res{ok: 0} // oversized length prefix: error, remaining data not shifted
			}
			out := clone(m.q[:v])
			m.q = m.q[v:]
			return res{ok: 1, data: out, has: "d"}
		}
	}
	add(op{"GetNextBlock", func(c *container.Container, _ *model) res {
		b, err := c.GetNextBlock()
		if err != nil {
			return res{ok: 0}
		}
		return res{ok: 1, data: clone(b), has: "d"}
	}, blockRef(false)})
	add(op{"GetNextBlockAsContainer", func(c *container.Container, m *model) res {
		nc, err := c.GetNextBlockAsContainer()
		if err != nil || nc == nil {
			return res{ok: 0}
		}
		d := clone(container.VerifCarbonCopy(nc).CompileData())
		m.addSide(nc, d, "result of GetNextBlockAsContainer")
		return res{ok: 1, data: d, has: "d"}
	}, blockRef(true)})
	return ops
}

func clone2(b []byte) []byte {
	if b == nil {
		return nil
	}
	return append(make([]byte, 0, len(b)), b...)
}

func clamp(n, l int) int {
	if n < 0 {
		return 0
	}
	if n > l {
		return l
	}
	return n
}

type seed struct {
	name  string
	build func() *container.Container
	bytes []byte
}

var seeds = []seed{
	{"New()", func() *container.Container { return container.New() }, nil},
	{"New(nil)", func() *container.Container { return container.New(nil) }, nil},
	{"New([]byte{})", func() *container.Container { return container.New([]byte{}) }, nil},
	{"New(ab)", func() *container.Container { return container.New([]byte{0x01, 0x02}) }, []byte{0x01, 0x02}},
	{"New(a,b,cd)", func() *container.Container { return container.New([]byte{0x01}, []byte{0x02}, []byte{0x03, 0x04}) }, []byte{1, 2, 3, 4}},
	{"NewContainer(a,empty,b)", func() *container.Container { return container.NewContainer([]byte{0x01}, []byte{}, []byte{0x02}) }, []byte{1, 2}},
	// multi-byte numbers / length prefixes whose bytes lie in different compartments
	{"New(81,01 61 62)", func() *container.Container { return container.New([]byte{0x81}, []byte{0x01, 0x61, 0x62}) }, []byte{0x81, 0x01, 0x61, 0x62}},
	{"New(ff,ff,03 61)", func() *container.Container { return container.New([]byte{0xff}, []byte{0xff}, []byte{0x03, 0x61}) }, []byte{0xff, 0xff, 0x03, 0x61}},
	{"New(82,empty,00 61 62)", func() *container.Container { return container.New([]byte{0x82}, []byte{}, []byte{0x00, 0x61, 0x62}) }, []byte{0x82, 0x00, 0x61, 0x62}},
}

type witness struct {
	Seed    string   `json:"seed"`
	History []string `json:"history"`
}

// runHistory replays hist (op indexes) on a fresh container and model; checks
// every step. Returns the canonical key of the reached state ("" if a
// violation ended the run) and the outcome class of the last step.
func runHistory(c *vlib.Ctx, ops []op, sd seed, hist []int, checkAll bool) (key string, outcome string, bad bool) {
	ct := sd.build()
	m := &model{q: clone(sd.bytes)}
	var sides []side
	names := func(upto int) []string {
		out := make([]string, 0, upto+1)
		for _, i := range hist[:upto+1] {
			out = append(out, ops[i].name)
		}
		return out
	}
	for step, oi := range hist {
		o := ops[oi]
		pre := clone(m.q)
		var got res
		p, stack := vlib.Catch(func() { got = o.impl(ct, &model{q: pre, sides: &sides}) })
		if p != nil {
			c.Violate("never-panics", opKind(o.name), vlib.PanicSite(stack),
				fmt.Sprintf("seed %s history %v: panic %v", sd.name, names(step), p), witness{sd.name, names(step)})
			return "", "panic", true
		}
		want := o.ref(m)
		if step == len(hist)-1 || checkAll {
			if d := diffRes(got, want); d != "" {
				c.Violate("same-result-as-byte-queue", opKind(o.name), d,
					fmt.Sprintf("seed %s history %v (queue before last op: %x): container %v, byte queue %v", sd.name, names(step), pre, got, want), witness{sd.name, names(step)})
				return "", "mismatch", true
			}
		}
		if want.ok == 2 && got.ok == 1 && strings.HasPrefix(o.name, "GetNextN") {
			// the implementation accepted a non-minimal encoding: the model consumes it too
			m.q = m.q[want.n:]
		}
		outcome = fmt.Sprintf("%s:ok=%d", opKind(o.name), got.ok)
	}
	// probe: content of a carbon copy must equal the model (the probe must not disturb c)
	var content []byte
	var length int
	var holds bool
	p, stack := vlib.Catch(func() {
		length = ct.Length()
		holds = ct.HoldsData()
		content = clone(container.VerifCarbonCopy(ct).CompileData())
	})
	last := "(none)"
	if len(hist) > 0 {
		last = opKind(ops[hist[len(hist)-1]].name)
	}
	if p != nil {
		c.Violate("never-panics", "probe-after-"+last, vlib.PanicSite(stack), fmt.Sprintf("seed %s history %v: probe panic %v", sd.name, names(len(hist)-1), p), witness{sd.name, names(len(hist) - 1)})
		return "", "panic", true
	}
	if !bytes.Equal(content, m.q) || length != len(m.q) || holds != (len(m.q) > 0) {
		c.Violate("content-equals-byte-queue", "probe-after-"+last, "content-mismatch",
			fmt.Sprintf("seed %s history %v: container holds %x (Length %d, HoldsData %v), byte queue %x", sd.name, names(len(hist)-1), content, length, holds, m.q), witness{sd.name, names(len(hist) - 1)})
		return "", "mismatch", true
	}
	// independence of the containers that met the container under test: their content is what it was when they
	// were handed over / returned, and changing them now does not change the container under test
	if len(sides) > 0 {
		var sideBad, back string
		p, stack = vlib.Catch(func() {
			for _, sdc := range sides {
				if got := container.VerifCarbonCopy(sdc.ct).CompileData(); !bytes.Equal(got, sdc.want) {
					sideBad = fmt.Sprintf("%s holds %x, expected %x", sdc.from, got, sdc.want)
					return
				}
			}
			for _, sdc := range sides {
				_ = sdc.ct.GetMax(1)
				sdc.ct.Prepend([]byte{0xef})
				sdc.ct.Append([]byte{0xee})
				if got := container.VerifCarbonCopy(ct).CompileData(); !bytes.Equal(got, m.q) || ct.Length() != len(m.q) {
					back = fmt.Sprintf("after GetMax(1), Prepend, Append on the %s the container under test holds %x (Length %d), byte queue %x", sdc.from, got, ct.Length(), m.q)
					return
				}
			}
		})
		switch {
		case p != nil:
			c.Violate("never-panics", "side-probe-after-"+last, vlib.PanicSite(stack), fmt.Sprintf("seed %s history %v: probe panic %v", sd.name, names(len(hist)-1), p), witness{sd.name, names(len(hist) - 1)})
			return "", "panic", true
		case sideBad != "":
			c.Violate("containers-are-independent", "probe-after-"+last, "argument-or-result-changed",
				fmt.Sprintf("seed %s history %v: %s", sd.name, names(len(hist)-1), sideBad), witness{sd.name, names(len(hist) - 1)})
			return "", "mismatch", true
		case back != "":
			c.Violate("containers-are-independent", "probe-after-"+last, "changed-through-argument-or-result",
				fmt.Sprintf("seed %s history %v: %s", sd.name, names(len(hist)-1), back), witness{sd.name, names(len(hist) - 1)})
			return "", "mismatch", true
		}
	}
	lens, off := container.VerifState(ct)
	var sb strings.Builder
	fmt.Fprintf(&sb, "%d|", off)
	for _, l := range lens {
		fmt.Fprintf(&sb, "%d,", l)
	}
	fmt.Fprintf(&sb, "|%x", content)
	return sb.String(), outcome, false
}

func opKind(name string) string {
	if i := strings.Index(name, "("); i > 0 {
		return name[:i]
	}
	return name
}

func diffRes(got, want res) string {
	if want.ok == 2 {
		if got.ok == 0 {
			return ""
		}
		want.ok = 1
	}
	if got.ok != want.ok {
		if want.ok == 0 {
			return "ok-instead-of-error"
		}
		return "error-instead-of-ok"
	}
	if want.ok == 0 {
		return ""
	}
	for _, f := range want.has {
		switch f {
		case 'd':
			if !bytes.Equal(got.data, want.data) {
				return "wrong-bytes"
			}
		case 'n':
			if got.n != want.n {
				return "wrong-length"
			}
		case 'N':
			if got.num != want.num {
				return "wrong-number"
			}
		case 'f':
			if got.flag != want.flag {
				return "wrong-flag"
			}
		}
	}
	return ""
}

func main() {
	vlib.Main("C16", "model_checking", func(c *vlib.Ctx) {
		ops := buildOps()
		byName := map[string]int{}
		for i, o := range ops {
			byName[o.name] = i
		}
		c.Rule(fmt.Sprintf("BFS over operation histories on the real container from %d initial containers, alphabet of %d operations (arguments: data {nil,empty,1B,3B, a byte with the continuation bit}; initial containers incl. multi-byte numbers spread over compartments; requested lengths {-1,0,1,2,len,len+1,2^62}, numbers {0,1,3,127,128,255,256,2^62,2^63,2^64-1}, 4 argument containers); "+
			"each history is replayed on a fresh container and on a []byte queue, every result compared; containers handed to AppendContainer* or returned by PeekContainer/GetAsContainer/GetNextBlockAsContainer are kept and must stay independent of the container under test in both directions; states de-duplicated on (offset, compartment length vector, content); "+
			"non-trivial = distinct reached states whose container holds more than one compartment or a non-zero offset", len(seeds), len(ops)))
		c.Assume("a negative requested length may be refused or yield nothing (nothing consumed); GetNextBlock is defined compositionally as GetNextN64 followed by Get(length), so a failed block read leaves the length prefix consumed")
		if c.Replay != "" {
			var w witness
			if _, err := c.LoadReplay(&w); err != nil {
				c.EngineError("replay: %v", err)
				return
			}
			var hist []int
			for _, n := range w.History {
				i, ok := byName[n]
				if !ok {
					c.EngineError("unknown op %q", n)
					return
				}
				hist = append(hist, i)
			}
			for _, sd := range seeds {
				if sd.name == w.Seed {
					k, out, bad := runHistory(c, ops, sd, hist, true)
					fmt.Printf("replayed seed=%s history=%v -> key=%q outcome=%s violation=%v\n", sd.name, w.History, k, out, bad)
					c.Add(1, int64(len(hist)), 1)
				}
			}
			return
		}
		maxDepth := vlib.Pick(c, 4, 5)
		type node struct {
			seed int
			hist []int
		}
		seen := map[string]struct{}{}
		var frontier []node
		for si, sd := range seeds {
			k, _, bad := runHistory(c, ops, sd, nil, true)
			if bad {
				continue
			}
			if _, ok := seen[k]; !ok {
				seen[k] = struct{}{}
				frontier = append(frontier, node{si, nil})
			}
		}
		var transitions int64
		depthDone := 0
		stopAt := time.Now().Add(vlib.Pick(c, 6*time.Minute, 35*time.Minute))
		c.SetBudget(vlib.Pick(c, 6*time.Minute, 35*time.Minute))
		for depth := 1; depth <= maxDepth && len(frontier) > 0; depth++ {
			if c.Expired() {
				break
			}
			type succ struct {
				key     string
				n       node
				outcome string
			}
			results := make([][]succ, len(frontier))
			lastLevel := depth == maxDepth
			var lastMu sync.Mutex
			lastOut := map[string]int64{}
			c.ParallelFor(len(frontier), func(fi int) {
				if lastLevel && fi%4096 == 0 && c.Expired() {
					return
				}
				if lastLevel && fi%4096 != 0 && time.Now().After(stopAt) {
					return
				}
				nd := frontier[fi]
				var out []succ
				local := map[string]int64{}
				h := append(append(make([]int, 0, len(nd.hist)+1), nd.hist...), 0)
				for oi := range ops {
					h[len(h)-1] = oi
					k, outc, _ := runHistory(c, ops, seeds[nd.seed], h, false)
					if lastLevel {
						// the deepest level is only checked, its states are not stored
						local[outc]++
						continue
					}
					out = append(out, succ{k, node{nd.seed, append([]int{}, h...)}, outc})
				}
				if lastLevel {
					lastMu.Lock()
					for k, v := range local {
						lastOut[k] += v
					}
					lastMu.Unlock()
				}
				results[fi] = out
			})
			if lastLevel {
				var n int64
				for k, v := range lastOut {
					c.OutcomeN(k, v)
					n += v
				}
				transitions += n
				fmt.Printf("depth %d (check only): frontier %d, transitions %d\n", depth, len(frontier), n)
				if n == int64(len(frontier))*int64(len(ops)) {
					depthDone = depth
				}
				break
			}
			var next []node
			var mu sync.Mutex
			_ = mu
			for _, rs := range results {
				for _, s := range rs {
					transitions++
					c.Outcome(s.outcome)
					if s.key == "" {
						continue
					}
					if _, ok := seen[s.key]; !ok {
						seen[s.key] = struct{}{}
						next = append(next, s.n)
						if strings.Count(s.key, ",") > 1 || !strings.HasPrefix(s.key, "0|") {
							c.NontrivialN(1)
						}
						if len(seen)%5000 == 1 {
							var names []string
							for _, i := range s.n.hist {
								names = append(names, ops[i].name)
							}
							c.Sample(map[string]any{"seed": seeds[s.n.seed].name, "history": names, "state_key": s.key})
						}
					}
				}
			}
			fmt.Printf("depth %d: frontier %d -> new states %d (total %d), transitions %d\n", depth, len(frontier), len(next), len(seen), transitions)
			frontier = next
			depthDone = depth
		}
		longHistories(c)
		c.Extra("states_note", "states = distinct (offset, compartment lengths, content) keys through depth max-1; the deepest level is checked on every transition but its successor states are not stored")
		if depthDone < maxDepth && len(frontier) > 0 {
			c.NotExhaustive(fmt.Sprintf("depth %d of %d completed", depthDone, maxDepth))
		}
		c.Extra("max_depth_completed", depthDone)
		c.Extra("alphabet_size", len(ops))
		c.Extra("initial_containers", len(seeds))
		c.Add(int64(len(seen)), transitions, transitions)
		b, _ := json.Marshal(map[string]any{"ops": len(ops)})
		_ = b
	})
}

// longHistories: a few long, fixed histories (hundreds of compartments appended and consumed one by one, with
// prepends and container splits in between) - the internal slot table is compacted only after many consumed slots,
// which the depth-bounded search never reaches. Every step is compared with the byte queue.
func longHistories(c *vlib.Ctx) {
	type step struct {
		name string
		do   func(ct *container.Container, q *[]byte) string // returns "" or a complaint
	}
	get := func(n int) step {
		return step{fmt.Sprintf("Get(%d)", n), func(ct *container.Container, q *[]byte) string {
			b, err := ct.Get(n)
			if n > len(*q) {
				if err == nil {
					return "ok-instead-of-error"
				}
				return ""
			}
			if err != nil {
				return "error-instead-of-ok"
			}
			if !bytes.Equal(b, (*q)[:n]) {
				return "wrong-bytes"
			}
			*q = (*q)[n:]
			return ""
		}}
	}
	app := func(i int) step {
		d := []byte{byte(i), byte(i >> 8)}
		return step{fmt.Sprintf("Append(%x)", d), func(ct *container.Container, q *[]byte) string {
			ct.Append(clone2(d))
			*q = append(*q, d...)
			return ""
		}}
	}
	pre := step{"Prepend(ee)", func(ct *container.Container, q *[]byte) string {
		ct.Prepend([]byte{0xee})
		*q = append([]byte{0xee}, *q...)
		return ""
	}}
	split := step{"GetAsContainer(3)", func(ct *container.Container, q *[]byte) string {
		nc, err := ct.GetAsContainer(3)
		if len(*q) < 3 {
			if err == nil {
				return "ok-instead-of-error"
			}
			return ""
		}
		if err != nil || nc == nil {
			return "error-instead-of-ok"
		}
		if !bytes.Equal(nc.CompileData(), (*q)[:3]) {
			return "wrong-bytes"
		}
		*q = (*q)[3:]
		return ""
	}}
	var hists [][]step
	for _, n := range []int{120, 300} {
		// n appends, then everything consumed two bytes at a time
		var h []step
		for i := 0; i < n; i++ {
			h = append(h, app(i))
		}
		for i := 0; i < n+1; i++ {
			h = append(h, get(2))
		}
		hists = append(hists, h)
		// the same with a prepend / a split / an append every 25 reads
		h = nil
		for i := 0; i < n; i++ {
			h = append(h, app(i))
		}
		for i := 0; i < n; i++ {
			h = append(h, get(1))
			switch i % 25 {
			case 7:
				h = append(h, pre)
			case 13:
				h = append(h, split)
			case 21:
				h = append(h, app(i+1000))
			}
		}
		hists = append(hists, h)
	}
	for hi, h := range hists {
		ct := container.New()
		var q []byte
		bad := ""
		at := -1
		p, stack := vlib.Catch(func() {
			for i, st := range h {
				if r := st.do(ct, &q); r != "" {
					bad, at = st.name+":"+r, i
					return
				}
				if ct.Length() != len(q) || ct.HoldsData() != (len(q) > 0) {
					bad, at = st.name+":wrong-length", i
					return
				}
				if i%16 == 0 && !bytes.Equal(container.VerifCarbonCopy(ct).CompileData(), q) {
					bad, at = st.name+":content-mismatch", i
					return
				}
			}
		})
		w := map[string]any{"long_history": hi, "failed_at_step": at}
		switch {
		case p != nil:
			c.Violate("never-panics", "long-history", vlib.PanicSite(stack), fmt.Sprintf("long history %d: panic %v", hi, p), w)
		case bad != "":
			c.Violate("content-equals-byte-queue", "long-history", strings.SplitN(bad, ":", 2)[1], fmt.Sprintf("long history %d (%d steps), step %d %s: container holds %d bytes, byte queue %d", hi, len(h), at, bad, ct.Length(), len(q)), w)
		}
		c.Outcome("long-history:ok")
		c.Add(0, int64(len(h)), int64(len(h)))
	}
}
