#!/bin/bash
set -e
cd /verif
./mkoverlay.sh c16
go build -tags verif -overlay build/c16.overlay.json -o "$1" ./h/c16
