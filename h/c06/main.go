// C06: a panic in managed code is contained, reported and leaves accounting intact (engine S; API handlers: see api part).
package main

import (
	"fmt"
	"os"
	"os/exec"
	"path/filepath"
	"strings"

	"github.com/safing/portbase/modules"

	"verif/slib"
	"verif/vlib"
)

var kinds = []string{"prep", "start", "stop", "run-worker", "start-worker", "service-worker", "task-queue", "task-schedule",
	"mt-run-high", "mt-run-medium", "mt-run-low", "mt-start-high", "mt-start-medium", "mt-start-low", "hook"}
var values = []string{"nil", "error", "string", "index", "nilmap", "struct", "typednil", "uncomparable", "moduleerror"}

func scenarios(c *vlib.Ctx) []*slib.Scn {
	var out []*slib.Scn
	add := func(p modules.C06Params, bound int) {
		out = append(out, &slib.Scn{Scenario: modules.VerifC06(p), Family: "c06/" + p.Kind, Bound: bound})
		if p.Explore && (p.Kind == "prep" || p.Kind == "start" || p.Kind == "stop") {
			// lifecycle drivers also under the second default scheduler (youngest enabled thread first)
			sc := modules.VerifC06(p)
			sc.Name += "/sched=high"
			sc.HighFirst = true
			out = append(out, &slib.Scn{Scenario: sc, Family: "c06/" + p.Kind, Bound: bound})
		}
	}
	// the complete (kind x value) table under the default schedule
	for _, k := range kinds {
		for _, v := range values {
			add(modules.C06Params{Kind: k, Value: v}, 0)
		}
	}
	// the same item panics twice in a row (the second report follows an identical first one); service workers restart by themselves
	for _, k := range kinds {
		if k == "prep" || k == "start" || k == "stop" {
			continue
		}
		for _, v := range []string{"error", "uncomparable", "struct"} {
			add(modules.C06Params{Kind: k, Value: v, Panics: 2}, 0)
		}
	}
	// the error reporting channel is full and nobody receives: the panic must still be contained, returned and accounted
	for _, k := range kinds {
		add(modules.C06Params{Kind: k, Value: "string", FullCh: true}, 0)
		add(modules.C06Params{Kind: k, Value: "error", FullCh: true}, 0) // unbuffered, nobody receiving
		if k != "prep" && k != "start" && k != "stop" {
			add(modules.C06Params{Kind: k, Value: "error", FullCh: true, Panics: 2}, 0)
		}
	}
	// a service worker that was started before its module (from the prep routine) and panics once the module is online
	for _, v := range []string{"string", "error"} {
		add(modules.C06Params{Kind: "service-worker", Value: v, Early: true}, 0)
		add(modules.C06Params{Kind: "service-worker", Value: v, Early: true, Panics: 2}, 0)
	}
	// a panicking stop routine while a worker of the module winds down: all interleavings of the two
	add(modules.C06Params{Kind: "stop", Value: "string", Healthy: []string{"worker"}, Explore: true}, vlib.Pick(c, 2, 3))
	add(modules.C06Params{Kind: "stop", Value: "error", Healthy: []string{"worker", "worker"}, Explore: true}, vlib.Pick(c, 2, 3))
	add(modules.C06Params{Kind: "stop", Value: "string", Healthy: []string{"worker"}, Explore: true, Chain: true}, vlib.Pick(c, 2, 3))
	// a service worker panics, the module is disabled during the back-off and enabled again before any management pass
	for _, n := range []int{1, 2} {
		add(modules.C06Params{Kind: "service-worker", Value: "error", Mgmt: true, Panics: n}, 0)
	}
	// the start / stop routine runs (and panics) in a management pass: ManageModules is the call that must return the error
	for _, k := range []string{"start", "stop"} {
		for _, v := range []string{"string", "error", "nil"} {
			add(modules.C06Params{Kind: k, Value: v, Mgmt: true}, 0)
		}
		add(modules.C06Params{Kind: k, Value: "string", Mgmt: true, Chain: true}, 0)
		add(modules.C06Params{Kind: k, Value: "string", Mgmt: true, Explore: true}, vlib.Pick(c, 2, 3))
	}
	// a service worker panics while its module is in sleep mode: restarted after the back-off all the same, module still stoppable
	for _, n := range []int{1, 2} {
		add(modules.C06Params{Kind: "service-worker", Value: "error", Sleep: true, Panics: n}, 0)
		add(modules.C06Params{Kind: "service-worker", Value: "string", Sleep: true, Panics: n, Healthy: []string{"worker"}, Explore: true}, vlib.Pick(c, 1, 2))
	}
	// lifecycle panics with a second module that stops after / starts before the panicking one
	for _, k := range []string{"prep", "start", "stop"} {
		for _, v := range []string{"string", "error"} {
			add(modules.C06Params{Kind: k, Value: v, Chain: true}, 0)
		}
		add(modules.C06Params{Kind: k, Value: "string", Chain: true, Explore: true}, vlib.Pick(c, 2, 3))
	}
	// the panicking item among healthy ones, all interleavings within the bound, then stopping the module
	bound := vlib.Pick(c, 2, 3)
	for _, k := range kinds {
		if k == "prep" || k == "start" || k == "stop" {
			add(modules.C06Params{Kind: k, Value: "string", Explore: true}, bound)
			continue
		}
		for _, h := range [][]string{{"worker"}, {"mt-medium"}, {"task"}, {"worker", "mt-medium"}} {
			if h[0] == "task" && (k == "task-queue" || k == "task-schedule") {
				continue // a healthy task that runs until cancellation occupies the queue: the panicking task would never start
			}
			if len(h) == 2 && c.Quick() && (k == "mt-run-low" || k == "mt-start-low" || k == "mt-start-high" || k == "task-schedule") {
				continue
			}
			add(modules.C06Params{Kind: k, Value: "error", Healthy: h, Explore: true}, bound)
		}
	}
	return out
}

func main() {
	vlib.Main("C06", "model_checking", func(c *vlib.Ctx) {
		c.Rule("complete (execution kind x panic value) table (15 kinds x 9 values, incl. a value of an uncomparable type and a *ModuleError), every kind with a full error reporting channel that nobody reads, under the default schedule, every work kind panicking twice in a row, a service worker whose module is disabled and re-enabled during the back-off or is in sleep mode, start and stop routines that panic inside a management pass (ManageModules must return the error), plus for every kind the panicking item among 1-2 healthy items with all interleavings within the deviation bound, on the source-instrumented modules package; " +
			"distinct_nontrivial = distinct observation traces per scenario; API part: every handler kind x 8 panic values x stage x method x dev mode with follow-up requests and all depth-2 (thorough 3) histories through the real mainHandler.ServeHTTP")
		c.Assume("sequential consistency; data-race freedom outside the instrumented synchronisation operations; API request handlers are covered by the sequential api part of this check")
		if c.Replay != "" {
			if b, err := os.ReadFile(c.Replay); err == nil && strings.Contains(string(b), `"phase"`) {
				// a witness of the sequential API part: replay it there
				cmd := exec.Command("/verif/build/c06api", "-replay", c.Replay)
				cmd.Stdout, cmd.Stderr = os.Stdout, os.Stderr
				_ = cmd.Run()
				c.Add(1, 1, 1)
				return
			}
		}
		slib.Run(c, scenarios(c), slib.Opts{})
		if !c.IsShard() && c.Replay == "" {
			// the sequential API part (HTTP request handlers) runs as one more worker
			out := filepath.Join(os.TempDir(), fmt.Sprintf("c06api-%d.json", os.Getpid()))
			defer os.Remove(out)
			cmd := exec.Command("/verif/build/c06api", "-tier", c.Tier, "-shard", "0/1", "-out", out)
			if b, err := cmd.CombinedOutput(); err != nil {
				c.EngineError("api part failed: %v\n%s", err, string(b))
			} else if err := c.MergeShard(out); err != nil {
				c.EngineError("api part: %v", err)
			}
		}
	})
}
