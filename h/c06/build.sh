#!/bin/bash
exec /verif/h/smod/build.sh c06 "$1"
