#!/bin/bash
set -e
/verif/h/smod/build.sh c06 "$1"
/verif/h/c06api/build.sh /verif/build/c06api
