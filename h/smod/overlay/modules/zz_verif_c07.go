//go:build verif

package modules

import (
	"context"
	"fmt"
	"strings"
	"sync"
	"time"

	"github.com/safing/portbase/zzverif/vsched"
)

// C07Params: scripts of task API calls issued by 1-2 submitter threads on tasks 1..N.
// Op syntax: "<op><task>", op in q (Queue), p (QueuePrioritized), a (StartASAP),
// s5 (Schedule now+5s), s100 (Schedule now+100s), sz (Schedule zero), m (MaxDelay(0)), md (MaxDelay(10s)), c (Cancel).
type C07Params struct {
	Scripts [][]string
	Tasks   int
	Body    string // plain, requeue (task 1 queues itself once while running), long (task 1 runs for 2 virtual minutes), long2 (task 2 does)
	Late    bool   // keep exploring while the virtual clock is advanced (interleavings at the moments the deadlines expire)
	Serial  bool   // judge "one after the other": no task begins while another one runs, unless the execution-wait limit or a maximum delay has passed
	Blocker bool   // a blocker task holds the queue until all submissions are in (order clause)
}

func (p C07Params) Name() string {
	var ss []string
	for _, s := range p.Scripts {
		ss = append(ss, strings.Join(s, "."))
	}
	n := fmt.Sprintf("c07/%s/tasks=%d/body=%s/blocker=%v", strings.Join(ss, "|"), p.Tasks, p.Body, p.Blocker)
	if p.Serial {
		n += "/serial"
	}
	if p.Late {
		n += "/late"
	}
	return n
}

type c07ev struct {
	seq  int
	kind string // call, ret, begin, end
	task int
	op   string
	now  time.Duration
	exec bool          // ret of Cancel: was the task executing right after the call returned
	body bool          // ret of Cancel: was the task's function running at that moment
	at   time.Duration // Schedule: absolute scheduled time (offset of the virtual clock)
}

type c07state struct {
	log      []c07ev
	tasks    []*Task
	running  []int
	begins   []int
	maxDelay []time.Duration // per task: the maximum delay in force (0 = none)
}

var c07 *c07state

func (s *c07state) add(e c07ev) int {
	e.seq = len(s.log)
	e.now = vsched.Now()
	s.log = append(s.log, e)
	if e.kind == "call" || e.kind == "ret" {
		vsched.Emit(e.kind + ":" + e.op + fmt.Sprint(e.task)) // part of the observation trace (no scheduling point)
	}
	return e.seq
}

func c07submission(op string) bool {
	return op == "q" || op == "p" || op == "a" || op == "s5" || op == "s100" || op == "self-q"
}

// VerifC07 builds the scenario.
func VerifC07(p C07Params) *vsched.Scenario {
	sc := &vsched.Scenario{Name: p.Name(), MaxSteps: 150000}
	sc.Reset = func() {
		VerifResetWorld()
		c07 = &c07state{tasks: make([]*Task, p.Tasks+1), running: make([]int, p.Tasks+1), begins: make([]int, p.Tasks+1), maxDelay: make([]time.Duration, p.Tasks+1)}
		for i := range c07.maxDelay {
			c07.maxDelay[i] = defaultMaxDelay
		}
	}
	sc.Body = func() {
		s := c07
		m := Register("mod", nil, nil, nil)
		if err := Start(); err != nil {
			verifFail("harness", "start", "Start failed: %v", err)
			return
		}
		vsched.Quiesce()
		requeued := false
		for i := 1; i <= p.Tasks; i++ {
			i := i
			s.tasks[i] = m.NewTask(fmt.Sprintf("t%d", i), func(ctx context.Context, t *Task) error {
				s.running[i]++
				s.begins[i]++
				if s.running[i] > 1 {
					verifFail("task-never-overlaps-itself", "overlap", "task %d began while it was already running", i)
				}
				s.add(c07ev{kind: "begin", task: i})
				vsched.Ev(fmt.Sprintf("begin:%d", i))
				if i == 1 {
					switch p.Body {
					case "requeue":
						if !requeued {
							requeued = true
							s.add(c07ev{kind: "call", task: 1, op: "self-q"})
							t.Queue()
							s.add(c07ev{kind: "ret", task: 1, op: "self-q"})
						}
					case "requeue-wait":
						// queues itself once and keeps running until it is cancelled (or 2 virtual minutes passed)
						if !requeued {
							requeued = true
							s.add(c07ev{kind: "call", task: 1, op: "self-q"})
							t.Queue()
							s.add(c07ev{kind: "ret", task: 1, op: "self-q"})
							select {
							case <-time.After(2 * time.Minute):
							case <-ctx.Done():
							}
						}
					case "long":
						select {
						case <-time.After(2 * time.Minute):
						case <-ctx.Done():
						}
					}
				}
				if i == 2 && p.Body == "long2" {
					select {
					case <-time.After(2 * time.Minute):
					case <-ctx.Done():
					}
				}
				vsched.Ev(fmt.Sprintf("end:%d", i))
				s.add(c07ev{kind: "end", task: i})
				s.running[i]--
				return nil
			})
		}
		release := make(chan struct{})
		var blockerDone bool
		if p.Blocker {
			m.NewTask("blocker", func(ctx context.Context, _ *Task) error {
				vsched.Ev("blocker-begin")
				select {
				case <-release:
				case <-ctx.Done():
				}
				blockerDone = true
				vsched.Ev("blocker-end")
				return nil
			}).Queue()
			vsched.Quiesce()
		}

		vsched.Explore(true)
		var wg sync.WaitGroup
		for _, script := range p.Scripts {
			script := script
			wg.Add(1)
			go func() {
				defer wg.Done()
				for _, sym := range script {
					if sym == "w" {
						vsched.Quiesce() // the caller waits until everything submitted so far has been processed
						continue
					}
					if sym == "r5" {
						// five virtual seconds pass and the timers that become due fire, but the woken handlers do not get
						// to run first: they race with the caller's next call
						vsched.Quiesce()
						vsched.AdvanceRacing(5 * time.Second)
						continue
					}
					ti := int(sym[len(sym)-1] - '0')
					op := sym[:len(sym)-1]
					t := s.tasks[ti]
					vsched.Point("submit") // the caller may be delayed arbitrarily between two calls
					e := c07ev{kind: "call", task: ti, op: op}
					switch op {
					case "s5":
						e.at = vsched.Now() + 5*time.Second
					case "s100":
						e.at = vsched.Now() + 100*time.Second
					}
					s.add(e)
					r := c07ev{kind: "ret", task: ti, op: op, at: e.at}
					switch op {
					case "q":
						t.Queue()
					case "p":
						t.QueuePrioritized()
					case "a":
						t.StartASAP()
					case "s5", "s100":
						t.Schedule(vsched.Epoch.Add(e.at))
					case "sz":
						t.Schedule(time.Time{})
					case "m":
						t.MaxDelay(0)
						s.maxDelay[ti] = 0
					case "md":
						t.MaxDelay(10 * time.Second)
						s.maxDelay[ti] = 10 * time.Second
					case "c":
						t.Cancel()
						r.exec = t.executing // read right after the call returned (atomic in the schedule)
						r.body = s.running[ti] > 0
					default:
						panic("unknown op " + sym)
					}
					s.add(r)
				}
			}()
		}
		wg.Wait()
		submitEnd := len(s.log)
		if p.Blocker {
			vsched.Quiesce()
			close(release)
		}
		// horizon: let everything run, pass every schedule / max-delay / execution-wait deadline
		vsched.Quiesce()
		if !p.Late {
			vsched.Explore(false)
		}
		for k := 0; k < 12; k++ {
			vsched.Advance(50 * time.Second)
		}
		vsched.Explore(false)
		_ = blockerDone
		c07judge(p, s, submitEnd)
		_ = Shutdown()
	}
	sc.Check = func(r *vsched.Result) []vsched.Issue {
		out := append([]vsched.Issue{}, verifIssues...)
		if r.Panic != "" {
			out = append(out, vsched.Issue{Clause: "no-uncontained-panic", Disc: r.PanicThread, Detail: r.Panic})
		}
		if r.Deadlock {
			out = append(out, vsched.Issue{Clause: "no-deadlock", Disc: "deadlock", Detail: "blocked: " + strings.Join(r.Blocked, " | ")})
		}
		if r.StepLimit {
			out = append(out, vsched.Issue{Clause: "submitted-task-is-executed", Disc: "never-finishes", Detail: fmt.Sprintf("the execution did not finish within %d scheduler steps (a complete execution takes a few thousand): a handler keeps running without ever blocking or letting time pass", sc.MaxSteps)})
		}
		return out
	}
	return sc
}

func c07fmt(log []c07ev) string {
	var sb strings.Builder
	for _, e := range log {
		switch e.kind {
		case "call":
			fmt.Fprintf(&sb, "%s%d( ", e.op, e.task)
		case "ret":
			fmt.Fprintf(&sb, ")%s%d@%s ", e.op, e.task, e.now)
		default:
			fmt.Fprintf(&sb, "[%s:%d@%s] ", e.kind, e.task, e.now)
		}
	}
	return sb.String()
}

// c07judge evaluates the clauses on the recorded log.
func c07judge(p C07Params, s *c07state, submitEnd int) {
	for ti := 1; ti <= p.Tasks; ti++ {
		var evs []c07ev
		for _, e := range s.log {
			if e.task == ti {
				evs = append(evs, e)
			}
		}
		desc := func() string { return c07fmt(s.log) }

		// bookkeeping over the task's own history
		submissions := 0
		onlyScheduled := true // no Queue/QueuePrioritized/StartASAP call has begun so far
		cancelRetSeq := -1    // seq of the first returned Cancel
		cancelCallSeq := -1
		lastSubCall := -1 // seq of the call start of the last submission that is still pending (not retracted)
		lastSubOp := ""
		for _, e := range evs {
			switch e.kind {
			case "call":
				if e.op == "c" && cancelCallSeq < 0 {
					cancelCallSeq = e.seq
				}
				if c07submission(e.op) {
					// a submission that began before any Cancel began may take effect
					if cancelRetSeq < 0 {
						submissions++
					}
					if e.op != "s5" && e.op != "s100" {
						onlyScheduled = false
					}
					if cancelCallSeq < 0 {
						lastSubCall, lastSubOp = e.seq, e.op
					}
				}
				if e.op == "sz" {
					// withdraws the task from all queues (documented): pending submissions are retracted
					lastSubCall = -1
				}
			case "ret":
				if e.op == "c" && cancelRetSeq < 0 {
					cancelRetSeq = e.seq
					// (c) once cancelled, a waiting task is never started: no run may begin after Cancel returned,
					// except the one run that had already been dequeued (executing) but whose function had not begun yet
					allowed := 0
					if e.exec && !e.body {
						allowed = 1
					}
					n := 0
					for _, b := range evs {
						if b.kind == "begin" && b.seq > e.seq {
							n++
							if n > allowed {
								verifFail("cancelled-task-never-starts", fmt.Sprintf("begin-after-cancel/executing=%v", e.exec), "task %d was cancelled (Cancel returned at %s, executing=%v, function running=%v) and was started afterwards at %s\nlog: %s", ti, e.now, e.exec, e.body, b.now, desc())
								break
							}
						}
					}
				}
				if e.op == "sz" {
					lastSubCall = -1
				}
			}
		}
		// (e) not more often than submitted
		if s.begins[ti] > submissions {
			verifFail("not-more-often-than-submitted", "extra-run", "task %d ran %d times but was submitted %d times\nlog: %s", ti, s.begins[ti], submissions, desc())
		}
		// (b) a task that was only ever scheduled never starts before its scheduled time.
		// Candidates: every Schedule call that began before the run and was not definitely superseded,
		// i.e. no later Schedule call on the task returned before the candidate's time had come.
		if onlyScheduled {
			for _, b := range evs {
				if b.kind != "begin" {
					continue
				}
				earliest := time.Duration(-1)
				for i, e := range evs {
					if e.seq > b.seq {
						break
					}
					if e.kind != "call" || (e.op != "s5" && e.op != "s100") {
						continue
					}
					superseded := false
					for _, f := range evs[i+1:] {
						if f.seq > b.seq {
							break
						}
						if f.kind == "ret" && (f.op == "s5" || f.op == "s100" || f.op == "sz") && !(f.op == e.op && f.at == e.at && f.seq == e.seq+1) && f.now < e.at && f.seq > e.seq+1 {
							superseded = true
						}
					}
					if !superseded && (earliest < 0 || e.at < earliest) {
						earliest = e.at
					}
				}
				if earliest >= 0 && b.now < earliest {
					verifFail("scheduled-task-never-starts-early", "early", "task %d was only scheduled; it began at %s, before the earliest scheduled time that was not superseded (%s)\nlog: %s", ti, b.now, earliest, desc())
				}
			}
		}
		// (d) nothing lost: executed after its last (not cancelled, not withdrawn) submission
		if lastSubCall >= 0 && cancelCallSeq < 0 {
			ok := false
			for _, b := range evs {
				if b.kind == "begin" && b.seq > lastSubCall {
					ok = true
				}
			}
			if !ok {
				verifFail("submitted-task-is-executed", "lost-"+lastSubOp, "task %d was submitted (%s) and neither cancelled nor withdrawn, but was not executed afterwards within 10 virtual minutes\nlog: %s", ti, lastSubOp, desc())
			}
		}
	}
	// (g) one after the other: a task begins while another one is running only if that one has exceeded the execution-wait
	// limit, or the beginning task's own maximum delay has expired (it is then run directly by the schedule handler)
	if p.Serial {
		type run struct {
			task    int
			begin   time.Duration
			overdue bool // started when its own maximum delay had passed: run directly by the schedule handler, it does not occupy the queue
		}
		var running []run
		for _, e := range s.log {
			switch e.kind {
			case "begin":
				// when did the submission that this run serves enter the queues?
				sub := time.Duration(-1)
				for _, c := range s.log {
					if c.seq > e.seq {
						break
					}
					if c.kind == "call" && c.task == e.task && c07submission(c.op) {
						sub = c.now
						if c.op == "s5" || c.op == "s100" {
							sub = c.at
						}
					}
				}
				md := s.maxDelay[e.task]
				overdue := sub >= 0 && md != 0 && e.now >= sub+md
				for _, r := range running {
					if r.overdue {
						continue // that one was started outside the queue; the queue itself was free
					}
					if e.now-r.begin < maxExecutionWait && !overdue {
						verifFail("queue-order", "concurrent-start", "task %d began at %s while task %d (begun at %s) was still running, before the execution-wait limit (%s) and before its own maximum delay (%s after %s) had passed\nlog: %s",
							e.task, e.now, r.task, r.begin, maxExecutionWait, md, sub, c07fmt(s.log))
					}
				}
				running = append(running, run{e.task, e.now, overdue})
			case "end":
				for i, r := range running {
					if r.task == e.task {
						running = append(running[:i], running[i+1:]...)
						break
					}
				}
			}
		}
	}
	// (f) queue order behind the blocker, single submitter only
	if p.Blocker && len(p.Scripts) == 1 {
		var asap, prio, norm []int
		in := func(l []int, t int) bool {
			for _, x := range l {
				if x == t {
					return true
				}
			}
			return false
		}
		ok := true
		for _, sym := range p.Scripts[0] {
			if sym == "w" || sym == "r5" {
				ok = false
				continue
			}
			ti := int(sym[len(sym)-1] - '0')
			switch sym[:len(sym)-1] {
			case "q":
				if !in(norm, ti) {
					norm = append(norm, ti)
				}
			case "p":
				if !in(asap, ti) && !in(prio, ti) {
					prio = append(prio, ti)
				}
			case "a":
				// latest request first; an entry already in the prioritized list moves to the front
				var np []int
				for _, x := range prio {
					if x != ti {
						np = append(np, x)
					}
				}
				prio = np
				var na []int
				for _, x := range asap {
					if x != ti {
						na = append(na, x)
					}
				}
				asap = append([]int{ti}, na...)
			default:
				ok = false // scripts with other calls are not judged for order
			}
		}
		for _, e := range s.log {
			if e.kind == "begin" && e.now >= defaultMaxDelay {
				ok = false // a maximum delay expired: the overdue task is run directly by the schedule handler, outside the queue order
			}
		}
		if ok {
			var want []int
			for _, l := range [][]int{asap, prio, norm} {
				for _, t := range l {
					if !in(want, t) {
						want = append(want, t)
					}
				}
			}
			var got []int
			for _, e := range s.log {
				if e.kind == "begin" && !in(got, e.task) {
					got = append(got, e.task)
				}
			}
			if fmt.Sprint(got) != fmt.Sprint(want) {
				verifFail("queue-order", "wrong-order", "tasks began in order %v, the documented order is %v (script %v)\nlog: %s", got, want, p.Scripts[0], c07fmt(s.log))
			}
			// one after the other
			depth := 0
			for _, e := range s.log {
				if e.kind == "begin" {
					depth++
					if depth > 1 {
						verifFail("queue-order", "concurrent-start", "a queued task was started before the previous one returned\nlog: %s", c07fmt(s.log))
					}
				}
				if e.kind == "end" {
					depth--
				}
			}
		}
	}
}
