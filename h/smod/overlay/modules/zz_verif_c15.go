//go:build verif

package modules

import (
	"context"
	"errors"
	"fmt"
	"strings"
	"sync"
	"sync/atomic"
	"time"

	"github.com/safing/portbase/log"
	"github.com/safing/portbase/zzverif/vsched"
)

// C15Params: a concurrency limit and a multiset of microtasks submitted concurrently.
type C15Params struct {
	Limit int
	// Tasks: one entry per microtask "<prio>-<variant>-<outcome>", prio in m,l,h; variant in run,start,signal; outcome in ok,err,panic
	Tasks []string
	// StopDuring: Shutdown is called while the microtasks are still being submitted / running (module stops must not be held up once they finished)
	StopDuring bool
	// Expiry: the low priority clearance queue holds one entry only and the first Limit medium tasks keep running until
	// released, so that low priority tasks queue up, find the queue full and start when their maximum delay expires
	Expiry bool
	// QueueCap > 0: both clearance queues hold only that many waiting requests, so that further submitters find the queue full
	QueueCap int
	// Hold: every medium/low body keeps its slot until the root releases it; the root releases the running bodies one at a
	// time and lets the system go idle in between, so that as many bodies as possible are inside at every moment
	Hold bool
	// FullCh: an error reporting channel is registered, is full and nobody reads it (reporting a panic must not block)
	FullCh bool
}

func (p C15Params) Name() string {
	n := fmt.Sprintf("c15/limit=%d/%s/stopduring=%v/expiry=%v", p.Limit, strings.Join(p.Tasks, ","), p.StopDuring, p.Expiry)
	if p.QueueCap > 0 {
		n += fmt.Sprintf("/queuecap=%d", p.QueueCap)
	}
	if p.Hold {
		n += "/hold"
	}
	if p.FullCh {
		n += "/fullch"
	}
	return n
}

type c15state struct {
	gauge    int // medium+low bodies between begin and end
	high     int // high priority bodies running
	ran      []int
	returned []bool
	shutdown bool
	maxGauge int
	hold     []chan struct{}
	released []bool
}

var c15 *c15state

// VerifC15 builds the scenario.
func VerifC15(p C15Params) *vsched.Scenario {
	sc := &vsched.Scenario{Name: p.Name(), MaxSteps: 80000}
	if strings.Contains(strings.Join(p.Tasks, ","), "chatty") {
		sc.MaxSteps = 3000000
	}
	sc.Reset = func() {
		VerifResetWorld()
		c15 = &c15state{ran: make([]int, len(p.Tasks)), returned: make([]bool, len(p.Tasks)), released: make([]bool, len(p.Tasks))}
		for range p.Tasks {
			c15.hold = append(c15.hold, make(chan struct{}))
		}
	}
	sc.Body = func() {
		s := c15
		// the application configures error reporting again with the value already in effect (a no-op that must stay one)
		SetStdErrReporting(false)
		m := Register("mod", nil, nil, nil)
		if err := Start(); err != nil {
			verifFail("harness", "start", "Start failed: %v", err)
			return
		}
		if p.FullCh {
			reports := make(chan *ModuleError, 1)
			reports <- &ModuleError{Message: "filler"}
			SetErrorReportingChannel(reports)
		}
		SetMaxConcurrentMicroTasks(p.Limit)
		vsched.Quiesce()
		wantErr := errors.New("microtask failed")
		release := make(chan struct{})
		if p.Expiry {
			lowPriorityClearance = make(chan chan struct{}, 1)
		}
		if p.QueueCap > 0 {
			// the scheduler is parked (nothing is waiting): nobody holds the old channels
			mediumPriorityClearance = make(chan chan struct{}, p.QueueCap)
			lowPriorityClearance = make(chan chan struct{}, p.QueueCap)
			// the idle scheduler sits in a select on the OLD channels, offering a task time slot: take one slot so that it
			// goes round its loop and waits on the new channels
			<-taskTimeslot
			vsched.Quiesce()
		}

		body := func(k int, prio, outcome string) func(context.Context) error {
			return func(context.Context) error {
				s.ran[k]++
				if prio == "h" {
					s.high++
				} else {
					s.gauge++
					if s.gauge > s.maxGauge {
						s.maxGauge = s.gauge
					}
					// the limit clause: before shutdown, no high-priority microtask running, and this microtask's own maximum
					// delay (1 s medium, 3 s low; the clock only moves when nothing can run) has not expired
					own := defaultMediumPriorityMaxDelay
					if prio == "l" {
						own = defaultLowPriorityMaxDelay
					}
					if s.gauge > p.Limit && s.high == 0 && !s.shutdown && vsched.Now() < own {
						verifFail("at-most-limit-run-concurrently", "limit-exceeded", "%d medium/low priority microtasks execute at the same time with limit %d (clock %s, maximum delay of the one that just began: %s)", s.gauge, p.Limit, vsched.Now(), own)
					}
				}
				vsched.Ev(fmt.Sprintf("begin:%d", k))
				if p.Expiry && prio == "m" {
					<-release // keeps its slot until the maximum delays of the waiting tasks have expired
				}
				if p.Hold && prio != "h" {
					<-s.hold[k]
				}
				vsched.Point("microtask-work")
				vsched.Ev(fmt.Sprintf("end:%d", k))
				if prio == "h" {
					s.high--
				} else {
					s.gauge--
				}
				switch outcome {
				case "err":
					return wantErr
				case "chatty":
					// more lines than the log buffer holds, while this microtask occupies its slot
					for i := 0; i < 1100; i++ {
						log.Info(fmt.Sprintf("chatty microtask %d line %d", k, i))
					}
					return nil
				case "canceled":
					return context.Canceled
				case "wrapcanceled":
					return fmt.Errorf("gave up: %w", context.Canceled)
				case "panic":
					panic("seeded microtask panic")
				}
				return nil
			}
		}
		checkErr := func(k int, outcome string, err error) {
			switch outcome {
			case "ok", "chatty":
				if err != nil {
					verifFail("blocking-variant-returns-the-error", "unexpected-error", "microtask %d returned %v, want nil", k, err)
				}
			case "err":
				if !errors.Is(err, wantErr) {
					verifFail("blocking-variant-returns-the-error", "wrong-error", "microtask %d returned %v, want its own error", k, err)
				}
			case "canceled", "wrapcanceled":
				if !errors.Is(err, context.Canceled) {
					verifFail("blocking-variant-returns-the-error", "canceled-error-dropped", "microtask %d returned %v, want the context.Canceled error its function returned", k, err)
				}
			case "panic":
				if ok, _ := IsPanic(err); !ok {
					verifFail("blocking-variant-returns-the-error", "panic-not-returned", "panicking microtask %d returned %v, want a panic error", k, err)
				}
			}
		}

		vsched.Explore(true)
		var wg sync.WaitGroup
		for k, spec := range p.Tasks {
			k := k
			parts := strings.Split(spec, "-")
			prio, variant, outcome := parts[0], parts[1], parts[2]
			fn := body(k, prio, outcome)
			wg.Add(1)
			go func() {
				defer wg.Done()
				switch variant {
				case "run":
					var err error
					switch prio {
					case "h":
						err = m.RunHighPriorityMicroTask("t", fn)
					case "m":
						err = m.RunMicroTask("t", 0, fn)
					case "l":
						err = m.RunLowPriorityMicroTask("t", 0, fn)
					}
					checkErr(k, outcome, err)
				case "start":
					switch prio {
					case "h":
						m.StartHighPriorityMicroTask("t", fn)
					case "m":
						m.StartMicroTask("t", 0, fn)
					case "l":
						m.StartLowPriorityMicroTask("t", 0, fn)
					}
				case "signal":
					var done func()
					switch prio {
					case "h":
						done = m.SignalHighPriorityMicroTask()
					case "m":
						done = m.SignalMicroTask(defaultMediumPriorityMaxDelay) // the Signal variants apply no default for 0
					case "l":
						done = m.SignalLowPriorityMicroTask(defaultLowPriorityMaxDelay)
					}
					func() {
						defer func() { _ = recover() }() // the caller of a signalled microtask runs the work itself
						_ = fn(m.Ctx)
					}()
					// done is called three times, twice concurrently: it must take effect once
					var dwg sync.WaitGroup
					dwg.Add(1)
					go func() {
						defer dwg.Done()
						done()
					}()
					done()
					dwg.Wait()
					done()
				}
				s.returned[k] = true
			}()
		}
		if p.Hold {
			// release the bodies that are inside one at a time; the clock stays at 0 (the root never blocks)
			vsched.Quiesce()
			for {
				k := -1
				for i := range p.Tasks {
					if s.ran[i] > 0 && !s.released[i] {
						k = i
						break
					}
				}
				if k < 0 {
					break
				}
				s.released[k] = true
				close(s.hold[k])
				vsched.Quiesce()
			}
			for i := range p.Tasks {
				if !s.released[i] {
					// never begun while the others were held: let it go when it does
					s.released[i] = true
					close(s.hold[i])
				}
			}
		}
		if p.Expiry {
			// let the maximum delays (1s medium, 3s low) of the waiting tasks expire, then free the slots
			vsched.Advance(5 * time.Second)
			close(release)
		}
		if p.StopDuring {
			s.shutdown = true
			before := vsched.Now()
			_ = Shutdown()
			vsched.Explore(false)
			wg.Wait()
			vsched.Quiesce()
			if d := vsched.Now() - before; d >= time.Second {
				verifFail("module-stop-not-held-up", "stop-waited-for-finished-microtasks", "Shutdown, called while microtasks were running, took %s (virtual) although every microtask finished at once", d)
			}
			for k := range p.Tasks {
				if s.ran[k] > 1 {
					verifFail("every-microtask-runs-exactly-once", "ran-2-times", "microtask %d (%s) ran %d times", k, p.Tasks[k], s.ran[k])
				}
			}
			return
		}
		wg.Wait()
		vsched.Quiesce()
		for k := range p.Tasks {
			if s.ran[k] == 0 {
				// a submitted microtask may legitimately wait for the recheck tick or its maximum delay
				vsched.Advance(5 * time.Second)
				break
			}
		}
		if atomic.LoadInt32(microTasks) != 0 {
			// a microtask that is still inside (e.g. waiting for the log writer's 10 ms pause) gets the time to finish
			vsched.Advance(time.Second)
		}
		vsched.Ev("all-submitted-and-idle")
		for k := range p.Tasks {
			if s.ran[k] != 1 {
				verifFail("every-microtask-runs-exactly-once", fmt.Sprintf("ran-%d-times", min(s.ran[k], 2)), "microtask %d (%s) ran %d times", k, p.Tasks[k], s.ran[k])
			}
		}
		if g, l := atomic.LoadInt32(microTasks), atomic.LoadInt32(m.microTaskCnt); g != 0 || l != 0 {
			verifFail("counts-zero-when-all-finished", fmt.Sprintf("global=%s,module=%s", sign(g), sign(l)), "after all microtasks finished: global count %d, module count %d", g, l)
		}
		if vsched.Now() != 0 {
			vsched.Emit(fmt.Sprintf("clock-moved:%s", vsched.Now()))
		}
		// later microtasks are admitted immediately: no waiting for the recheck tick or a maximum delay
		before := vsched.Now()
		for i := 0; i < p.Limit; i++ {
			began := false
			_ = m.RunMicroTask("after", 0, func(context.Context) error { began = true; return nil })
			if !began {
				verifFail("every-microtask-runs-exactly-once", "late-microtask-not-run", "a microtask submitted after all others finished did not run")
			}
		}
		if d := vsched.Now() - before; d != 0 {
			verifFail("later-microtasks-admitted-immediately", "waited", "a microtask submitted after all others had finished waited %s (virtual) for admission", d)
		}
		vsched.Explore(false)
		// module stops are not held up
		s.shutdown = true
		before = vsched.Now()
		_ = Shutdown()
		if d := vsched.Now() - before; d >= time.Second {
			verifFail("module-stop-not-held-up", "stop-waited", "Shutdown took %s (virtual) after all microtasks had finished", d)
		}
	}
	sc.Check = func(r *vsched.Result) []vsched.Issue {
		out := append([]vsched.Issue{}, verifIssues...)
		if r.Panic != "" {
			out = append(out, vsched.Issue{Clause: "no-uncontained-panic", Disc: r.PanicThread, Detail: r.Panic})
		}
		if r.Deadlock {
			out = append(out, vsched.Issue{Clause: "no-deadlock", Disc: "deadlock", Detail: "blocked: " + strings.Join(r.Blocked, " | ")})
		}
		if r.StepLimit {
			out = append(out, vsched.Issue{Clause: "every-microtask-runs-exactly-once", Disc: "never-finishes", Detail: fmt.Sprintf("the execution did not finish within %d scheduler steps (a complete execution takes a few hundred): a submitter or microtask never returns", sc.MaxSteps)})
		}
		return out
	}
	return sc
}

func sign(v int32) string {
	switch {
	case v < 0:
		return "negative"
	case v > 0:
		return "positive"
	}
	return "zero"
}
