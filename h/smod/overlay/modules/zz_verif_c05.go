//go:build verif

package modules

import (
	"context"
	"errors"
	"fmt"
	"strings"
	"time"

	"github.com/safing/portbase/zzverif/vsched"
)

// C05Params describes one closed driver: which work items run on the module
// that is being stopped, how it is stopped and in which dependency graph.
type C05Params struct {
	Graph    string   // "single": one module M; "chain": M depends on D (D must wait for M); "xsrc": M plus an independent module SRC whose event M hooks
	Items    []string // kinds of work running on M when the stop begins
	ItemPts  int      // interior scheduling points of an item between cancellation and return
	StopFn   string   // "none", "plain", "point", "error"
	Trigger  string   // "shutdown" or "disable" (module management)
	DepItem  bool     // chain only: D runs a worker too
	ItemsErr bool     // items return an error instead of nil
	Holder   bool     // another thread takes and releases the module's (exported) read lock twice while the stop runs
	Second   bool     // shutdown only: a second thread calls Shutdown concurrently; whichever call returns, returns only after the stop routine and the work returned
}

func (p C05Params) Name() string {
	n := fmt.Sprintf("c05/%s/%s/items=%s/pts=%d/stop=%s/dep=%v/err=%v", p.Graph, p.Trigger, strings.Join(p.Items, "+"), p.ItemPts, p.StopFn, p.DepItem, p.ItemsErr)
	if p.Holder {
		n += "/holder"
	}
	if p.Second {
		n += "/second"
	}
	return n
}

type c05item struct {
	kind  string
	ctx   context.Context
	begun bool
	ended bool
}

type c05state struct {
	p            C05Params
	m, d, src    *Module
	items        []*c05item
	depItem      *c05item
	stopBegan    bool
	stopEnded    bool
	depStopBegan bool
	sawStopping  bool
	cancelNow    time.Duration
	lastEnd      time.Duration
	triggerDone  bool
	lateRan      []string
	hookRuns     int
}

var c05 *c05state

func (s *c05state) allEnded() bool {
	for _, it := range s.items {
		// a task that was only queued when the stop began is not "work that was running": the statement does not
		// demand that the stop waits for it, should it still begin (observed: it can, with a cancelled context)
		if it.begun && !it.ended && it.kind != "task-late" {
			return false
		}
	}
	return true
}

func (s *c05state) pending() string {
	var out []string
	for _, it := range s.items {
		if it.begun && !it.ended && it.kind != "task-late" {
			out = append(out, it.kind)
		}
	}
	return strings.Join(out, ",")
}

// itemBody is the body of every managed work item: it announces itself, waits
// for cancellation (never for wall-clock time) and returns after 0..n further points.
func (s *c05state) itemBody(it *c05item) func(ctx context.Context) error {
	return func(ctx context.Context) error {
		it.ctx = ctx
		it.begun = true
		vsched.Ev("item-begin:" + it.kind)
		<-ctx.Done()
		for i := 0; i < s.p.ItemPts; i++ {
			vsched.Point("item-work")
		}
		vsched.Ev("item-end:" + it.kind)
		it.ended = true
		s.lastEnd = vsched.Now()
		if s.p.ItemsErr {
			return errors.New("item failed")
		}
		return nil
	}
}

func (s *c05state) launch(m *Module, it *c05item) {
	body := s.itemBody(it)
	switch it.kind {
	case "worker":
		m.StartWorker("w", body)
	case "service":
		m.StartServiceWorker("sw", 0, body)
	case "task":
		m.NewTask("t", func(ctx context.Context, _ *Task) error { return body(ctx) }).Queue()
	case "mt-high":
		m.StartHighPriorityMicroTask("mh", body)
	case "mt-medium":
		m.StartMicroTask("mm", 0, body)
	case "mt-low":
		m.StartLowPriorityMicroTask("ml", 0, body)
	case "mt-signal":
		// a signalled microtask: the caller does the work itself and calls done() later
		go func() {
			done := m.SignalMicroTask(0)
			_ = body(m.Ctx)
			// done is called from two threads at once and once more afterwards: it takes effect once
			both := make(chan struct{})
			go func() {
				done()
				close(both)
			}()
			done()
			<-both
			done()
		}()
	case "prep-worker":
		// launched from the prep routine (before the module was started): see mPrep
	case "service-backoff":
		// a service worker whose function fails: when the module is stopped it sits in its restart back-off
		m.StartServiceWorker("swb", 0, func(ctx context.Context) error {
			it.ctx = ctx
			if !it.begun {
				it.begun = true
				vsched.Ev("item-begin:" + it.kind)
			}
			it.ended = true // the function itself has returned; only the back-off remains
			s.lastEnd = vsched.Now()
			return errors.New("service worker failed")
		})
	case "service-restartnow":
		// a service worker that asks for an immediate restart when it is cancelled: it must not be restarted on the stopping module
		body := s.itemBody(it)
		runs := 0
		m.StartServiceWorker("swr", 0, func(ctx context.Context) error {
			runs++
			if runs > 1 {
				s.lateRan = append(s.lateRan, "service-restartnow")
				vsched.Ev("service-worker-restarted-while-stopping")
				return nil
			}
			_ = body(ctx)
			return fmt.Errorf("asking for a restart: %w", ErrRestartNow)
		})
	case "hook":
		m.TriggerEvent("ev", nil)
	case "xhook":
		// an event of another module, hooked by M: the hook is M's work
		s.src.TriggerEvent("xev", nil)
	default:
		panic("unknown item kind " + it.kind)
	}
}

// VerifC05 builds the scenario.
func VerifC05(p C05Params) *vsched.Scenario {
	sc := &vsched.Scenario{Name: p.Name(), MaxSteps: 60000, PreemptIn: []string{"github.com/safing/portbase/modules."}}
	sc.Reset = func() {
		VerifResetWorld()
		c05 = &c05state{p: p}
	}
	sc.Invariant = func() string {
		s := c05
		if s == nil || s.m == nil {
			return ""
		}
		st := s.m.status // atomic here: nothing else runs while the scheduler decides
		if st == StatusStopping {
			s.sawStopping = true
		}
		if s.sawStopping && st != StatusStopping {
			if vsched.Now() > s.cancelNow+moduleStopTimeout {
				return ""
			}
			if !s.stopEnded && p.StopFn != "none" {
				verifFail("offline-only-after-stop-routine-returned", "status-"+getStatusName(st), "module %s left Stopping (now %s) while its stop routine has not returned", s.m.Name, getStatusName(st))
			}
			if !s.allEnded() {
				verifFail("offline-only-after-work-returned", "status-"+getStatusName(st), "module %s left Stopping (now %s) while work is still running: %s", s.m.Name, getStatusName(st), s.pending())
			}
		}
		return ""
	}
	sc.Body = func() {
		s := c05
		if p.Trigger == "disable" {
			EnableModuleManagement(func(*Module) {})
		}
		stopOf := func(mod **Module, isM bool) func() error {
			return func() error {
				m := *mod
				if isM {
					s.stopBegan = true
					vsched.Ev("stop-begin:" + m.Name)
					// (a) cancellation no later than the invocation of the stop routine
					if m.Ctx.Err() == nil {
						verifFail("context-cancelled-before-stop-routine", "module-ctx", "stop routine of %s invoked with a live module context", m.Name)
					}
					for _, it := range s.items {
						if it.begun && !it.ended && it.ctx != nil && it.ctx.Err() == nil {
							verifFail("context-cancelled-before-stop-routine", "item-"+it.kind, "stop routine of %s invoked while the context of running %s is not cancelled", m.Name, it.kind)
						}
					}
					if p.StopFn == "point" {
						vsched.Point("stop-work")
					}
					vsched.Ev("stop-end:" + m.Name)
					s.stopEnded = true
					s.lastEnd = vsched.Now()
					if p.StopFn == "error" {
						return errors.New("stop failed")
					}
					if p.StopFn == "panic" {
						panic("seeded panic in the stop routine")
					}
					return nil
				}
				// dependency D: may only begin stopping once M has completely stopped
				s.depStopBegan = true
				vsched.Ev("stop-begin:" + m.Name)
				if vsched.Now() <= s.cancelNow+moduleStopTimeout {
					if p.StopFn != "none" && !s.stopEnded {
						verifFail("dependency-stops-only-after-dependent-stopped", "stop-routine-running", "stop routine of dependency %s began while the stop routine of %s has not returned", m.Name, s.m.Name)
					}
					if !s.allEnded() {
						verifFail("dependency-stops-only-after-dependent-stopped", "work-running", "stop routine of dependency %s began while work of %s is still running: %s", m.Name, s.m.Name, s.pending())
					}
				}
				return nil
			}
		}
		var mStop func() error
		if p.StopFn != "none" {
			mStop = stopOf(&s.m, true)
		}
		for _, k := range p.Items {
			s.items = append(s.items, &c05item{kind: k})
		}
		// work that is launched before the module is started (from its prep routine)
		mPrep := func() error {
			for _, it := range s.items {
				if it.kind == "prep-worker" {
					s.m.StartWorker("pw", s.itemBody(it))
				}
			}
			return nil
		}
		if p.Graph == "chain" {
			s.d = Register("dep", nil, nil, stopOf(&s.d, false))
			s.m = Register("mod", mPrep, nil, mStop, "dep")
		} else {
			s.m = Register("mod", mPrep, nil, mStop)
		}
		if p.Graph == "xsrc" {
			s.src = Register("src", nil, nil, nil)
			s.src.RegisterEvent("xev", true)
			s.src.Enable()
		}
		s.m.RegisterEvent("ev", true)
		hookIdx := 0
		_ = s.m.RegisterEventHook("mod", "ev", "h", func(ctx context.Context, _ interface{}) error {
			s.hookRuns++
			// each TriggerEvent of the setup phase is bound to the next "hook" item
			for hookIdx < len(s.items) && (s.items[hookIdx].kind != "hook" || s.items[hookIdx].begun) {
				hookIdx++
			}
			if hookIdx >= len(s.items) {
				s.lateRan = append(s.lateRan, "hook")
				return nil
			}
			return s.itemBody(s.items[hookIdx])(ctx)
		})
		if s.src != nil {
			xIdx := 0
			_ = s.m.RegisterEventHook("src", "xev", "xh", func(ctx context.Context, _ interface{}) error {
				for xIdx < len(s.items) && (s.items[xIdx].kind != "xhook" || s.items[xIdx].begun) {
					xIdx++
				}
				if xIdx >= len(s.items) {
					s.lateRan = append(s.lateRan, "xhook")
					return nil
				}
				return s.itemBody(s.items[xIdx])(ctx)
			})
		}
		s.m.Enable()
		if err := Start(); err != nil {
			verifFail("harness", "start", "Start failed: %v", err)
			return
		}
		for _, it := range s.items {
			if it.kind == "task-late" {
				continue // queued inside the explored window, right before the stop is triggered
			}
			s.launch(s.m, it)
			vsched.Quiesce() // one after the other: deterministic set-up
			if !it.begun {
				// a queued task waits for the previous one up to the execution-wait limit
				vsched.Advance(maxExecutionWait + time.Second)
			}
		}
		if p.DepItem && s.d != nil {
			s.depItem = &c05item{kind: "dep-worker"}
			di := s.depItem
			s.d.StartWorker("dw", func(ctx context.Context) error {
				di.begun = true
				<-ctx.Done()
				di.ended = true
				return nil
			})
		}
		vsched.Quiesce()
		for _, it := range s.items {
			if !it.begun && it.kind != "task-late" {
				verifFail("harness", "item-not-begun", "item %s did not begin during set-up", it.kind)
				return
			}
		}
		s.cancelNow = vsched.Now()

		// ---- the explored window: stopping races with the items finishing ----
		vsched.Explore(true)
		for _, it := range s.items {
			if it.kind == "task-late" {
				// a task that is queued but has not begun when the stop begins: it may be anywhere between the queue
				// and its execution (waiting for its turn, for a time slot, ...), and it may or may not run
				body := s.itemBody(it)
				s.m.NewTask("tl", func(ctx context.Context, _ *Task) error { return body(ctx) }).Queue()
			}
		}
		if p.Holder {
			// somebody reads the module under its lock (the RWMutex is an exported, embedded field) while the stop runs
			mod := s.m
			go func() {
				for i := 0; i < 2; i++ {
					vsched.Point("holder-lock")
					mod.RLock()
					vsched.Point("holding-module-read-lock")
					mod.RUnlock()
				}
			}()
		}
		var err error
		secondDone := make(chan struct{})
		if p.Second {
			go func() {
				defer close(secondDone)
				vsched.Point("second-shutdown-call")
				_ = Shutdown()
				vsched.Ev("second-shutdown-returned")
				if vsched.Now() <= s.cancelNow+moduleStopTimeout {
					if p.StopFn != "none" && !s.stopEnded {
						verifFail("returns-only-after-stop-routine-returned", "second-shutdown-call", "a concurrent second Shutdown call returned while the stop routine of %s has not returned", s.m.Name)
					}
					if !s.allEnded() {
						verifFail("returns-only-after-work-returned", "second-shutdown-call", "a concurrent second Shutdown call returned while work is still running: %s", s.pending())
					}
				}
			}()
		} else {
			close(secondDone)
		}
		if p.Trigger == "shutdown" {
			err = Shutdown()
		} else {
			s.m.Disable()
			err = ManageModules()
		}
		vsched.Ev("trigger-returned")
		s.triggerDone = true
		retNow := vsched.Now()
		<-secondDone
		vsched.Explore(false)

		if p.Second {
			// one of the two calls reports "already initiated"; which one is up to the schedule
		} else if (p.StopFn == "error" || p.StopFn == "panic") != (err != nil) {
			verifFail("stop-error-is-returned", p.Trigger, "trigger returned %v with stop routine variant %q", err, p.StopFn)
		}
		// (b) the trigger returns only after everything returned
		if retNow <= s.cancelNow+moduleStopTimeout {
			if p.StopFn != "none" && !s.stopEnded {
				verifFail("returns-only-after-stop-routine-returned", p.Trigger, "%s returned while the stop routine of %s has not returned", p.Trigger, s.m.Name)
			}
			if !s.allEnded() {
				verifFail("returns-only-after-work-returned", p.Trigger, "%s returned while work is still running: %s", p.Trigger, s.pending())
			}
		}
		if s.m.status != StatusOffline {
			verifFail("module-offline-after-stop", p.Trigger, "module status %s after %s returned", getStatusName(s.m.status), p.Trigger)
		}
		// the dependency is stopped as well (it is no longer needed), whatever the dependent's stop routine returned
		if s.d != nil && s.d.status != StatusOffline {
			verifFail("dependency-stopped-after-dependent", p.Trigger, "dependency %s has status %s after %s returned (stop routine of %s: %q)", s.d.Name, getStatusName(s.d.status), p.Trigger, s.m.Name, p.StopFn)
		}
		// (c) promptness: once everything returned, no waiting out the stop timeout
		if s.allEnded() && (s.stopEnded || p.StopFn == "none") && retNow-s.lastEnd >= time.Second && retNow-s.cancelNow >= time.Second {
			verifFail("stops-promptly", p.Trigger, "%s returned %s (virtual) after the last piece of work ended", p.Trigger, retNow-s.lastEnd)
		}
		for _, k := range s.lateRan {
			if k == "service-restartnow" {
				verifFail("stopped-module-runs-no-new-work", "service-worker-restarted", "a service worker that returned ErrRestartNow after its context was cancelled was started again on the stopping module")
			}
		}
		// (d) nothing new runs on the stopped module
		lateTask := false
		s.m.NewTask("late", func(context.Context, *Task) error { lateTask = true; return nil }).Queue()
		hooksBefore := s.hookRuns
		s.m.TriggerEvent("ev", nil)
		vsched.Advance(2 * time.Second)
		if lateTask {
			verifFail("stopped-module-runs-no-task", p.Trigger, "a task created and queued on the stopped module was executed")
		}
		if s.src != nil && p.Trigger == "disable" {
			s.src.TriggerEvent("xev", nil)
			vsched.Advance(time.Second)
			if len(s.lateRan) > 0 {
				verifFail("stopped-module-runs-no-event-hook", "cross-module", "an event of another module ran the hook of the stopped module")
			}
		}
		if s.hookRuns != hooksBefore {
			verifFail("stopped-module-runs-no-event-hook", p.Trigger, "an event triggered on the stopped module ran its hook")
		}
		_ = s.m.RunWorker("late-worker", func(ctx context.Context) error {
			if ctx.Err() == nil {
				verifFail("late-work-gets-cancelled-context", "worker", "a worker started on the stopped module got a live context")
			}
			return nil
		})
		_ = s.m.RunHighPriorityMicroTask("late-mt", func(ctx context.Context) error {
			if ctx.Err() == nil {
				verifFail("late-work-gets-cancelled-context", "microtask", "a microtask started on the stopped module got a live context")
			}
			return nil
		})
		if p.Trigger == "disable" {
			// leave cleanly (not part of the explored window)
			_ = Shutdown()
		}
	}
	sc.Check = func(r *vsched.Result) []vsched.Issue {
		out := append([]vsched.Issue{}, verifIssues...)
		if r.Panic != "" {
			out = append(out, vsched.Issue{Clause: "no-uncontained-panic", Disc: r.PanicThread, Detail: r.Panic})
		}
		if r.Deadlock {
			out = append(out, vsched.Issue{Clause: "no-deadlock", Disc: "deadlock", Detail: "blocked: " + strings.Join(r.Blocked, " | ")})
		}
		if r.StepLimit {
			out = append(out, vsched.Issue{Clause: "stops-promptly", Disc: "never-finishes", Detail: fmt.Sprintf("the execution did not finish within %d scheduler steps (a complete execution takes a few hundred): some thread keeps running without ever blocking, the stop never completes", sc.MaxSteps)})
		}
		return out
	}
	return sc
}
