//go:build verif

package modules

import (
	"fmt"
	"time"

	"github.com/safing/portbase/log"
	"github.com/safing/portbase/zzverif/vsched"
)

// ---- shared harness plumbing for the engine-S checks of package modules ----

// verifIssues collects oracle complaints of the current execution.
var verifIssues []vsched.Issue

func verifFail(clause, disc, format string, a ...interface{}) {
	for _, is := range verifIssues {
		if is.Clause == clause && is.Disc == disc {
			return
		}
	}
	verifIssues = append(verifIssues, vsched.Issue{Clause: clause, Disc: disc, Detail: fmt.Sprintf(format, a...)})
}

type verifNullAdapter struct{}

func (verifNullAdapter) Write(log.Message, uint64) {}

// VerifResetWorld gives the execution a fresh log + modules world.
func VerifResetWorld() {
	log.VerifReset()
	VerifReset()
	verifIssues = nil
	log.SetAdapter(verifNullAdapter{})
	SetStdErrReporting(false)
	SetMaxConcurrentMicroTasks(4)
}

// verifStatusName is for messages.
func verifStatusName(m *Module) string { return getStatusName(m.status) }

var _ = time.Second
