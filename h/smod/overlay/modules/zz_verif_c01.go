//go:build verif

package modules

import (
	"context"
	"errors"
	"fmt"
	"strings"

	"github.com/safing/portbase/zzverif/vsched"
)

// C01Params: a dependency graph, a fault placement and a management history.
type C01Params struct {
	N       int      // modules m0..m(N-1)
	Deps    [][2]int // (i, j): mi depends on mj, j < i
	Fault   string   // "", or "<module>:<phase>:<err|panic>", phase in prep,start,stop; several faults joined with "+"
	Mgmt    bool     // module management enabled
	Rounds  []int    // bit masks of enabled modules: Rounds[0] before Start, each further one followed by ManageModules
	Pts     int      // interior points of start/stop callbacks
	Work    bool     // every start routine launches a worker that returns on cancellation
	Overlap bool     // management only: the pass for Rounds[1] runs in a second thread while the main thread enables Rounds[2] and runs its own pass
}

func (p C01Params) Name() string {
	var ds []string
	for _, d := range p.Deps {
		ds = append(ds, fmt.Sprintf("%d>%d", d[0], d[1]))
	}
	n := fmt.Sprintf("c01/n=%d/deps=%s/fault=%s/mgmt=%v/rounds=%v/pts=%d/work=%v", p.N, strings.Join(ds, ","), p.Fault, p.Mgmt, p.Rounds, p.Pts, p.Work)
	if p.Overlap {
		n += "/overlap"
	}
	return n
}

type c01mod struct {
	m            *Module
	idx          int
	deps, rdeps  []int
	prepBegun    int
	prepOK       bool
	startRunning bool
	startedOK    bool // successful start-end not yet followed by stop-begin
	startOKCount int
	stopCount    int
	stopRunning  bool
	workRunning  int
	stopEnded    bool // stop routine of the current cycle has ended
	startBegunAt int  // sequence number of the last start-begin
}

type c01state struct {
	p               C01Params
	mods            []*c01mod
	anyStartBegun   bool
	seq             int
	shutdownCalled  bool
	shutdownCallSeq int
	faultHit        bool
}

var c01 *c01state

func (s *c01state) fault(idx int, phase string) error {
	if s.p.Fault == "" {
		return nil
	}
	// several faults are joined with "+"
	for _, f := range strings.Split(s.p.Fault, "+") {
		parts := strings.Split(f, ":")
		if parts[0] != fmt.Sprint(idx) || parts[1] != phase {
			continue
		}
		s.faultHit = true
		if parts[2] == "panic" {
			panic("seeded panic in " + phase)
		}
		if parts[2] == "cancelerr" {
			// a failure whose error value wraps context.Canceled is a failure like any other
			return fmt.Errorf("seeded failure in %s: %w", phase, context.Canceled)
		}
		return errors.New("seeded failure in " + phase)
	}
	return nil
}

// VerifC01 builds the scenario.
func VerifC01(p C01Params) *vsched.Scenario {
	sc := &vsched.Scenario{Name: p.Name(), MaxSteps: 80000, PreemptIn: []string{"github.com/safing/portbase/modules."}}
	sc.Reset = func() {
		VerifResetWorld()
		c01 = &c01state{p: p}
	}
	sc.Body = func() {
		s := c01
		if p.Mgmt {
			EnableModuleManagement(func(*Module) {})
		}
		for i := 0; i < p.N; i++ {
			s.mods = append(s.mods, &c01mod{idx: i})
		}
		for _, d := range p.Deps {
			s.mods[d[0]].deps = append(s.mods[d[0]].deps, d[1])
			s.mods[d[1]].rdeps = append(s.mods[d[1]].rdeps, d[0])
		}
		for i := 0; i < p.N; i++ {
			cm := s.mods[i]
			name := fmt.Sprintf("m%d", cm.idx)
			var depNames []string
			for _, d := range cm.deps {
				depNames = append(depNames, fmt.Sprintf("m%d", d))
			}
			prep := func() error {
				s.seq++
				cm.prepBegun++
				vsched.Ev("prep-begin:" + name)
				// (c) once, before any start, after the prep of its dependencies
				if cm.prepBegun > 1 {
					verifFail("prep-runs-once", "twice", "prep of %s ran %d times", name, cm.prepBegun)
				}
				if s.anyStartBegun {
					verifFail("prep-before-any-start", "after-start", "prep of %s began after a start routine had begun", name)
				}
				for _, d := range cm.deps {
					if !s.mods[d].prepOK {
						verifFail("prep-after-dependencies", "dep-not-prepped", "prep of %s began before the prep of its dependency m%d succeeded", name, d)
					}
				}
				if err := s.fault(cm.idx, "prep"); err != nil {
					return err
				}
				vsched.Ev("prep-end:" + name)
				cm.prepOK = true
				return nil
			}
			start := func() error {
				s.seq++
				s.anyStartBegun = true
				cm.startRunning = true
				defer func() { cm.startRunning = false }()
				cm.startBegunAt = s.seq
				vsched.Ev("start-begin:" + name)
				// (a) every dependency finished starting successfully (and has not begun stopping)
				for _, d := range cm.deps {
					if !s.mods[d].startedOK {
						verifFail("start-after-dependencies-started", "dep-not-started", "start of %s began while dependency m%d has not (successfully) finished starting or is stopping", name, d)
					}
				}
				for k := 0; k < p.Pts; k++ {
					vsched.Point("start-work")
				}
				if err := s.fault(cm.idx, "start"); err != nil {
					return err
				}
				if p.Work {
					cm.workRunning++
					cm.m.StartWorker("w", func(ctx context.Context) error {
						<-ctx.Done()
						vsched.Point("worker-winding-down")
						cm.workRunning--
						return nil
					})
				}
				vsched.Ev("start-end:" + name)
				cm.startedOK = true
				cm.stopEnded = false
				cm.startOKCount++
				return nil
			}
			stop := func() error {
				s.seq++
				cm.stopCount++
				cm.stopRunning = true
				cm.startedOK = false
				vsched.Ev("stop-begin:" + name)
				// (b) every started module that depends on this one has completely stopped
				for _, r := range cm.rdeps {
					rm := s.mods[r]
					if rm.workRunning > 0 {
						verifFail("stop-after-dependents-stopped", "dependent-work-running", "stop of %s began while a worker of dependent m%d is still running", name, r)
					}
					if rm.startedOK || rm.stopRunning || rm.startRunning {
						verifFail("stop-after-dependents-stopped", "dependent-active", "stop of %s began while dependent m%d is still %s", name, r, c01phase(rm))
					} else if rm.startOKCount > 0 && rm.m.status != StatusOffline {
						verifFail("stop-after-dependents-stopped", "dependent-not-offline", "stop of %s began while dependent m%d has status %s", name, r, getStatusName(rm.m.status))
					}
				}
				for k := 0; k < p.Pts; k++ {
					vsched.Point("stop-work")
				}
				defer func() { cm.stopRunning = false; cm.stopEnded = true }()
				if err := s.fault(cm.idx, "stop"); err != nil {
					return err
				}
				vsched.Ev("stop-end:" + name)
				return nil
			}
			cm.m = Register(name, prep, start, stop, depNames...)
		}
		setEnabled := func(mask int) {
			for i, cm := range s.mods {
				cm.m.SetEnabled(mask&(1<<i) != 0)
			}
		}
		wanted := func(mask int) map[int]bool {
			w := map[int]bool{}
			if !p.Mgmt {
				for i := range s.mods {
					w[i] = true
				}
				return w
			}
			var mark func(i int)
			mark = func(i int) {
				for _, d := range s.mods[i].deps {
					if !w[d] {
						w[d] = true
						mark(d)
					}
				}
			}
			for i := range s.mods {
				if mask&(1<<i) != 0 {
					w[i] = true
					mark(i)
				}
			}
			return w
		}
		checkOnline := func(what string, mask int) {
			w := wanted(mask)
			for i, cm := range s.mods {
				on := cm.m.Online()
				if on != w[i] {
					verifFail("wanted-modules-online", what, "after %s returned nil (enabled mask %b): m%d online=%v, wanted=%v", what, mask, i, on, w[i])
				}
			}
		}
		mask := (1 << p.N) - 1
		if p.Mgmt && len(p.Rounds) > 0 {
			mask = p.Rounds[0]
			setEnabled(mask)
		}

		vsched.Explore(true)
		err := Start()
		vsched.Ev(fmt.Sprintf("Start-returned:%v", err != nil))
		if err == nil && p.Overlap && len(p.Rounds) == 3 {
			checkOnline("Start", mask)
			// two overlapping management passes: when both have returned without error, the last enabled set is online
			setEnabled(p.Rounds[1])
			done := make(chan error, 1)
			go func() {
				vsched.Point("overlapping-pass")
				done <- ManageModules()
			}()
			mask = p.Rounds[2]
			setEnabled(mask)
			e2 := ManageModules()
			e1 := <-done
			vsched.Ev(fmt.Sprintf("Manage-returned:%v/%v", e1 != nil, e2 != nil))
			if e1 == nil && e2 == nil {
				checkOnline("ManageModules", mask)
			}
		} else if err == nil {
			checkOnline("Start", mask)
			for _, r := range p.Rounds[min(1, len(p.Rounds)):] {
				mask = r
				setEnabled(mask)
				merr := ManageModules()
				vsched.Ev(fmt.Sprintf("Manage-returned:%v", merr != nil))
				if merr == nil {
					checkOnline("ManageModules", mask)
				}
			}
		}
		lifecycleFault := s.faultHit
		s.shutdownCalled = true
		s.shutdownCallSeq = s.seq
		serr := Shutdown()
		vsched.Ev(fmt.Sprintf("Shutdown-returned:%v", serr != nil))
		// (e) evaluated at the instant Shutdown returns
		for i, cm := range s.mods {
			if cm.m.Online() {
				verifFail("no-module-online-after-shutdown", "online", "m%d is online when Shutdown returns", i)
			}
			if cm.stopCount != cm.startOKCount {
				verifFail("stop-once-per-successful-start", c01cmp(cm.stopCount, cm.startOKCount), "m%d: %d successful starts, %d stop invocations when Shutdown returns", i, cm.startOKCount, cm.stopCount)
			}
		}
		vsched.Explore(false)
		_ = lifecycleFault
		// (e-late) the same once everything went quiescent, for start routines begun before Shutdown was called
		vsched.Quiesce()
		for i, cm := range s.mods {
			if cm.startBegunAt != 0 && cm.startBegunAt <= s.shutdownCallSeq {
				if cm.m.Online() {
					verifFail("no-module-online-after-shutdown", "online-late", "m%d (start begun before Shutdown was called) is online after Shutdown returned and the system went idle", i)
				}
				if cm.stopCount != cm.startOKCount {
					verifFail("stop-once-per-successful-start", "late-"+c01cmp(cm.stopCount, cm.startOKCount), "m%d: %d successful starts, %d stop invocations after Shutdown returned and the system went idle", i, cm.startOKCount, cm.stopCount)
				}
			}
		}
	}
	sc.Check = func(r *vsched.Result) []vsched.Issue {
		out := append([]vsched.Issue{}, verifIssues...)
		if r.Panic != "" {
			out = append(out, vsched.Issue{Clause: "no-uncontained-panic", Disc: r.PanicThread, Detail: r.Panic})
		}
		if r.Deadlock {
			out = append(out, vsched.Issue{Clause: "no-deadlock", Disc: "deadlock", Detail: "blocked: " + strings.Join(r.Blocked, " | ")})
		}
		if r.StepLimit {
			out = append(out, vsched.Issue{Clause: "no-deadlock", Disc: "never-finishes", Detail: fmt.Sprintf("the execution did not finish within %d scheduler steps (a complete execution takes a few hundred to a few thousand): some thread keeps running without ever blocking", sc.MaxSteps)})
		}
		return out
	}
	return sc
}

func c01phase(m *c01mod) string {
	switch {
	case m.startRunning:
		return "starting"
	case m.stopRunning:
		return "stopping"
	case m.startedOK:
		return "started"
	}
	return "idle"
}

func c01cmp(stops, starts int) string {
	if stops < starts {
		return "fewer-stops"
	}
	return "more-stops"
}
