//go:build verif

package modules

import (
	"context"
	"errors"
	"fmt"
	"os"
	"strings"
	"sync/atomic"
	"time"

	"github.com/safing/portbase/zzverif/vsched"
)

// C06Params: which kind of managed execution panics, with which value, among which healthy items.
type C06Params struct {
	Kind    string   // prep, start, stop, run-worker, start-worker, service-worker, task-queue, task-schedule, mt-{run,start}-{high,medium,low}, mt-signal, hook
	Value   string   // nil, error, string, index, nilmap, struct
	Healthy []string // healthy concurrent items: worker, mt-medium, task
	Explore bool     // explore the interleavings of the panicking item with the healthy ones and the stop
	Chain   bool     // the module depends on a second, healthy module (which stops after it and starts before it)
	Panics  int      // how often the item panics in a row (0 = once); the same item is run again after the first panic
	FullCh  bool     // the error reporting channel is full and nobody receives: reporting must not block the panicking item
	Early   bool     // service worker only: it is started from the prep routine (before the module starts) and panics once the module is online
	Mgmt    bool     // service worker: module management is on, the module is disabled during the back-off and enabled again afterwards (no management pass in between); start/stop: the routine runs in a management pass (ManageModules), which must return the error
	Sleep   bool     // service worker only: the module is in sleep mode when the worker panics; it must be restarted after the back-off all the same
}

func (p C06Params) Name() string {
	n := fmt.Sprintf("c06/%s/value=%s/healthy=%s/explore=%v/chain=%v", p.Kind, p.Value, strings.Join(p.Healthy, "+"), p.Explore, p.Chain)
	if p.Panics > 1 {
		n += fmt.Sprintf("/panics=%d", p.Panics)
	}
	if p.Mgmt {
		n += "/mgmt"
	}
	if p.FullCh {
		n += "/fullch"
	}
	if p.Early {
		n += "/early"
	}
	if p.Sleep {
		n += "/sleep"
	}
	return n
}

type c06struct struct {
	A int
	B string
}

// c06unc is a panic value of a type that cannot be compared with ==.
type c06unc struct {
	S []int
}

var c06err = errors.New("seeded panic error value")

var c06me = &ModuleError{Message: "seeded module error used as panic value", ModuleName: "other", TaskName: "nested", TaskType: "worker", Severity: "error"}

// c06panic panics with the configured value and returns (for the oracle) a predicate recognising it.
func c06panic(value string) {
	switch value {
	case "nil":
		panic(nil) //nolint
	case "error":
		panic(c06err)
	case "string":
		panic("seeded panic string")
	case "index":
		var a []int
		i := 3
		_ = a[i]
	case "nilmap":
		var m map[string]int
		m["x"] = 1
	case "struct":
		panic(c06struct{7, "x"})
	case "typednil":
		// an error interface holding a nil pointer whose Error method dereferences it
		var pe *os.PathError
		panic(error(pe))
	case "uncomparable":
		panic(c06unc{[]int{1, 2}})
	case "moduleerror":
		// a panic value that is itself a module error (e.g. a re-panicked error of a nested managed call)
		panic(c06me)
	}
	panic("unknown panic value kind " + value)
}

func c06matches(value string, pv interface{}) bool {
	switch value {
	case "nil":
		// Go >= 1.21 turns panic(nil) into a *runtime.PanicNilError
		_, isErr := pv.(error)
		return pv == nil || isErr
	case "error":
		return pv == c06err
	case "string":
		return pv == "seeded panic string"
	case "index":
		e, ok := pv.(error)
		return ok && strings.Contains(e.Error(), "index out of range")
	case "nilmap":
		e, ok := pv.(error)
		return ok && strings.Contains(e.Error(), "nil map")
	case "struct":
		return pv == c06struct{7, "x"}
	case "typednil":
		pe, ok := pv.(*os.PathError)
		return ok && pe == nil
	case "moduleerror":
		return pv == interface{}(c06me)
	case "uncomparable":
		u, ok := pv.(c06unc)
		return ok && len(u.S) == 2 && u.S[0] == 1 && u.S[1] == 2
	}
	return false
}

type c06state struct {
	entered      int // how often the panicking function was entered
	healthyBegun int
	healthyEnded int
	armed        int // the function panics while armed > 0
}

var c06 *c06state

// VerifC06 builds the scenario.
func VerifC06(p C06Params) *vsched.Scenario {
	sc := &vsched.Scenario{Name: p.Name(), MaxSteps: 80000}
	sc.Reset = func() {
		VerifResetWorld()
		c06 = &c06state{armed: 1}
		if p.Panics > 1 {
			c06.armed = p.Panics
		}
	}
	sc.Body = func() {
		s := c06
		reports := make(chan *ModuleError, 16)
		if p.FullCh {
			if p.Value == "error" {
				// an unbuffered channel whose consumer is busy elsewhere
				reports = make(chan *ModuleError)
			} else {
				reports = make(chan *ModuleError, 1)
				reports <- &ModuleError{Message: "filler"}
			}
		}
		SetErrorReportingChannel(reports)
		SetStdErrReporting(false) // again, with the value already in effect: a no-op that must stay one
		lifecycle := func(phase string) func() error {
			if p.Kind != phase {
				return nil
			}
			return func() error {
				s.entered++
				vsched.Ev("enter:" + phase)
				c06panic(p.Value)
				return nil
			}
		}
		var deps []string
		if p.Chain {
			Register("base", nil, nil, func() error { vsched.Ev("stop:base"); return nil })
			deps = []string{"base"}
		}
		var fn func(ctx context.Context) error
		var mod *Module
		prepFn := lifecycle("prep")
		earlyBegan := make(chan struct{})
		moduleOnline := make(chan struct{})
		if p.Early {
			prepFn = func() error {
				mod.StartServiceWorker("sw", 0, func(ctx context.Context) error { return fn(ctx) })
				<-earlyBegan // the worker is really running before the module is started
				return nil
			}
		}
		m := Register("mod", prepFn, lifecycle("start"), lifecycle("stop"), deps...)
		mod = m
		m.RegisterEvent("ev", true)
		if p.Mgmt {
			EnableModuleManagement(func(*Module) {})
			if p.Kind != "start" {
				m.Enable()
			}
		}
		// the panicking function: panics while armed, otherwise behaves (and may wait for cancellation)
		waitWhenHealthy := p.Kind == "service-worker"
		fn = func(ctx context.Context) error {
			s.entered++
			vsched.Ev(fmt.Sprintf("enter:%d", s.entered))
			if p.Early && s.entered == 1 {
				// started before the module: keep running until the module is online, then panic
				close(earlyBegan)
				<-moduleOnline
			}
			if s.armed > 0 {
				s.armed--
				c06panic(p.Value)
			}
			if waitWhenHealthy {
				<-ctx.Done()
			}
			return nil
		}
		_ = m.RegisterEventHook("mod", "ev", "h", func(ctx context.Context, _ interface{}) error { return fn(ctx) })

		checkReported := func(what string, err error) {
			// the blocking variant's error (if any) identifies itself as a panic and carries value and stack
			if err != nil || what == "blocking" {
				ok, me := IsPanic(err)
				if !ok {
					verifFail("panic-returned-as-panic-error", p.Kind, "%s returned %v (%T), want an error that identifies itself as a panic", p.Kind, err, err)
				} else {
					if !c06matches(p.Value, me.PanicValue) {
						verifFail("panic-error-carries-value", p.Kind, "panic error of %s carries value %v (%T)", p.Kind, me.PanicValue, me.PanicValue)
					}
					if me.StackTrace == "" {
						verifFail("panic-error-carries-stack", p.Kind, "panic error of %s has no stack trace", p.Kind)
					}
				}
			}
		}
		checkChannel := func() {
			if p.FullCh {
				return // nothing can arrive on a full channel; the clause here is that nobody blocks
			}
			// the panic was reported through the module error channel and is the last reported error
			var got *ModuleError
			for {
				select {
				case me := <-reports:
					if me.Severity == "panic" {
						got = me
					}
					continue
				default:
				}
				break
			}
			if got == nil {
				verifFail("panic-reported-on-error-channel", p.Kind, "no panic error arrived on the error reporting channel for %s", p.Kind)
				return
			}
			if !c06matches(p.Value, got.PanicValue) || got.StackTrace == "" {
				verifFail("panic-error-carries-value", p.Kind+"/channel", "reported panic error carries value %v (%T), stack %d bytes", got.PanicValue, got.PanicValue, len(got.StackTrace))
			}
			if last := GetLastReportedError(); last == nil || last.Severity != "panic" && false {
				verifFail("panic-reported-on-error-channel", p.Kind+"/last", "GetLastReportedError is %v", last)
			}
		}

		// ---- lifecycle routines ----
		if p.Kind == "prep" || p.Kind == "start" || p.Kind == "stop" {
			if p.Explore {
				vsched.Explore(true)
			}
			err := Start()
			if p.Mgmt && (p.Kind == "start" || p.Kind == "stop") {
				// the routine runs in a management pass: the module is enabled (start) or disabled (stop) and
				// ManageModules, the call that runs the routine, has to return the error
				if err != nil {
					verifFail("harness", "mgmt-start", "Start failed: %v", err)
				}
				if p.Kind == "start" {
					m.Enable()
				} else {
					m.Disable()
				}
				merr := ManageModules()
				if s.entered == 0 {
					verifFail("harness", "not-entered", "the %s routine was not run by the management pass", p.Kind)
				}
				if merr == nil {
					verifFail("lifecycle-panic-makes-call-return-error", "ManageModules/"+p.Kind, "ManageModules returned nil although the %s routine it ran panicked", p.Kind)
				}
				checkChannel()
				_ = Shutdown()
				vsched.Explore(false)
				if m.Online() {
					verifFail("module-can-still-be-stopped", p.Kind+"/mgmt", "module is online after Shutdown")
				}
				return
			}
			if p.Kind == "stop" && len(p.Healthy) > 0 && err == nil {
				// healthy work that winds down when the module is stopped: the stop must still report the panic
				for range p.Healthy {
					m.StartWorker("hw", func(ctx context.Context) error {
						<-ctx.Done()
						vsched.Point("healthy-winding-down")
						return nil
					})
				}
			}
			if p.Kind != "stop" {
				if err == nil {
					verifFail("lifecycle-panic-makes-call-return-error", "Start/"+p.Kind, "Start returned nil although the %s routine panicked", p.Kind)
				}
				checkChannel()
			}
			serr := Shutdown()
			if p.Kind == "stop" {
				if serr == nil {
					verifFail("lifecycle-panic-makes-call-return-error", "Shutdown/stop", "Shutdown returned nil although the stop routine panicked")
				}
				checkChannel()
			}
			vsched.Explore(false)
			if m.Online() {
				verifFail("module-can-still-be-stopped", p.Kind, "module is online after Shutdown")
			}
			return
		}

		// ---- managed work ----
		if err := Start(); err != nil {
			verifFail("harness", "start", "Start failed: %v", err)
			return
		}
		SetMaxConcurrentMicroTasks(4)
		if p.Sleep {
			m.Sleep(true)
		}
		close(moduleOnline)
		vsched.Quiesce()
		st0 := GetStatus()
		pre := *st0.Modules["mod"]
		preGlobal := atomic.LoadInt32(microTasks)

		healthyBody := func(ctx context.Context) error {
			s.healthyBegun++
			<-ctx.Done()
			vsched.Point("healthy-winding-down")
			s.healthyEnded++
			return nil
		}
		if p.Explore {
			vsched.Explore(true)
		}
		for _, h := range p.Healthy {
			switch h {
			case "worker":
				m.StartWorker("hw", healthyBody)
			case "mt-medium":
				m.StartMicroTask("hm", 0, healthyBody)
			case "task":
				m.NewTask("ht", func(ctx context.Context, _ *Task) error { return healthyBody(ctx) }).Queue()
			}
		}
		var task *Task
		runItem := func(round int) {
			switch p.Kind {
			case "run-worker":
				checkReported("blocking", m.RunWorker("w", fn))
			case "start-worker":
				m.StartWorker("w", fn)
			case "service-worker":
				if !p.Early {
					m.StartServiceWorker("sw", 0, fn)
				}
			case "task-queue":
				if round > 0 {
					task.Queue()
					break
				}
				task = m.NewTask("t", func(ctx context.Context, _ *Task) error { return fn(ctx) }).Queue()
			case "task-schedule":
				if round > 0 {
					task.Schedule(time.Now().Add(5 * time.Second))
					break
				}
				task = m.NewTask("t", func(ctx context.Context, _ *Task) error { return fn(ctx) }).Schedule(time.Now().Add(5 * time.Second))
			case "mt-run-high":
				checkReported("blocking", m.RunHighPriorityMicroTask("mt", fn))
			case "mt-run-medium":
				checkReported("blocking", m.RunMicroTask("mt", 0, fn))
			case "mt-run-low":
				checkReported("blocking", m.RunLowPriorityMicroTask("mt", 0, fn))
			case "mt-start-high":
				m.StartHighPriorityMicroTask("mt", fn)
			case "mt-start-medium":
				m.StartMicroTask("mt", 0, fn)
			case "mt-start-low":
				m.StartLowPriorityMicroTask("mt", 0, fn)
			case "hook":
				m.TriggerEvent("ev", nil)
			default:
				panic("unknown kind " + p.Kind)
			}
		}
		rounds := 1
		if p.Panics > 1 {
			rounds = p.Panics
		}
		for round := 0; round < rounds; round++ {
			before := s.entered
			if round == 0 || p.Kind != "service-worker" {
				runItem(round)
			}
			vsched.Quiesce()
			switch {
			case p.Kind == "task-schedule":
				vsched.Advance(6 * time.Second)
			case p.Kind == "service-worker" && round > 0:
				// it restarts itself after the back-off (which grows with every failure) and panics again
				vsched.Advance(time.Duration(round)*DefaultBackoffDuration + time.Second)
			case (p.Kind == "task-queue") && round > 0 && s.entered == before:
				// the queue may legitimately stay occupied up to the execution-wait limit
				vsched.Advance(maxExecutionWait + time.Second)
			}
			if s.entered == before && task != nil && round > 0 {
				// the queue may legitimately stay occupied up to the execution-wait limit
				vsched.Advance(maxExecutionWait + time.Second)
			}
			if s.entered == before && p.Kind == "service-worker" && round > 0 {
				verifFail("service-worker-restarted", p.Kind, "the service worker function was entered %d time(s) after %d panic(s) and the back-off", s.entered, round)
				return
			}
			if s.entered == before && !(p.Early && round == 0 && s.entered > 0) {
				verifFail("harness", "not-entered", "the panicking %s was not entered in round %d", p.Kind, round)
				return
			}
			checkChannel()
		}
		// accounting: counters are back to their previous values (plus the healthy items still running)
		exp := pre
		for _, h := range p.Healthy {
			switch h {
			case "worker":
				exp.Workers++
			case "mt-medium":
				exp.MicroTasks++
			case "task":
				exp.Tasks++
			}
		}
		if p.Kind == "service-worker" && !p.Early {
			exp.Workers++ // it is restarted and keeps running (an early one is already part of the snapshot)
		}
		checkCounters := func(when string) {
			now := *GetStatus().Modules["mod"]
			if now.Workers != exp.Workers || now.Tasks != exp.Tasks || now.MicroTasks != exp.MicroTasks {
				verifFail("work-counters-restored", p.Kind+"/"+when, "module counters %s: workers=%d tasks=%d microtasks=%d, expected %d/%d/%d",
					when, now.Workers, now.Tasks, now.MicroTasks, exp.Workers, exp.Tasks, exp.MicroTasks)
			}
			if g := atomic.LoadInt32(microTasks); int(g) != int(preGlobal)+exp.MicroTasks-pre.MicroTasks {
				verifFail("work-counters-restored", p.Kind+"/"+when+"/global", "global microtask count %s is %d, expected %d", when, g, int(preGlobal)+exp.MicroTasks-pre.MicroTasks)
			}
		}
		if p.Kind == "service-worker" {
			if p.Mgmt {
				// the module is disabled while the worker backs off and enabled again before any management pass:
				// it never stops, so the worker has to come back
				m.Disable()
				vsched.Advance(time.Duration(rounds)*DefaultBackoffDuration + time.Second)
				m.Enable()
				vsched.Quiesce()
			}
			// restarted after the back-off
			vsched.Advance(time.Duration(rounds)*DefaultBackoffDuration + time.Second)
			if s.entered < rounds+1 {
				verifFail("service-worker-restarted", p.Kind, "the service worker function was entered %d time(s) after %d panic(s) and the back-off", s.entered, rounds)
			}
		}
		checkCounters("after-panic")
		if task != nil {
			// the panicked task can run again
			before := s.entered
			task.Queue()
			vsched.Quiesce()
			if s.entered == before {
				// the queue may legitimately stay occupied up to the execution-wait limit
				vsched.Advance(maxExecutionWait + time.Second)
			}
			if s.entered != before+1 {
				verifFail("panicked-task-runs-again", p.Kind, "the task was entered %d more time(s) after being queued again", s.entered-before)
			}
			checkCounters("after-rerun")
		}
		// the module can still be stopped, promptly
		before := vsched.Now()
		serr := Shutdown()
		vsched.Explore(false)
		if d := vsched.Now() - before; d >= time.Second {
			verifFail("module-can-still-be-stopped", p.Kind+"/slow", "Shutdown took %s (virtual) after the panic in %s", d, p.Kind)
		}
		if m.Online() || serr != nil {
			verifFail("module-can-still-be-stopped", p.Kind, "after the panic in %s: Shutdown returned %v, module online=%v", p.Kind, serr, m.Online())
		}
		if s.healthyEnded != s.healthyBegun {
			verifFail("module-can-still-be-stopped", p.Kind+"/healthy", "%d of %d healthy items ended when Shutdown returned", s.healthyEnded, s.healthyBegun)
		}
	}
	sc.Check = func(r *vsched.Result) []vsched.Issue {
		out := append([]vsched.Issue{}, verifIssues...)
		if r.Panic != "" {
			out = append(out, vsched.Issue{Clause: "panic-never-terminates-the-process", Disc: p.Kind + "@" + r.PanicThread, Detail: r.Panic})
		}
		if r.Deadlock {
			out = append(out, vsched.Issue{Clause: "no-deadlock", Disc: p.Kind, Detail: "blocked: " + strings.Join(r.Blocked, " | ")})
		}
		if r.StepLimit {
			out = append(out, vsched.Issue{Clause: "module-can-still-be-stopped", Disc: "never-finishes", Detail: fmt.Sprintf("the execution did not finish within %d scheduler steps (a complete execution takes a few hundred to a few thousand): some thread keeps running without ever blocking", sc.MaxSteps)})
		}
		return out
	}
	return sc
}
