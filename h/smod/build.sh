#!/bin/bash
# usage: h/smod/build.sh <id> <output>  — builds an engine-S harness over the instrumented log+modules packages
set -e
cd /verif
id="$1"; out="$2"
mkdir -p bin
[ -x bin/instr ] || (cd instr && go build -o /verif/bin/instr .)
rm -rf "build/$id.ov" && mkdir -p "build/$id.ov"
bin/instr -out "build/$id.ov" -sealed log -full modules -harness h/smod/overlay
go build -tags verif -overlay "build/$id.ov/overlay.json" -o "$out" "./h/$id"
