#!/bin/bash
set -e
cd /verif
./mkoverlay.sh selftest
go build -tags verif -overlay build/selftest.overlay.json -o "$1" ./h/selftest
