// Engine S self-tests: toy programs with known interleaving counts and seeded bugs.
package main

import (
	"fmt"
	"os"
	"time"

	vatomic "github.com/safing/portbase/zzverif/vatomic"
	"github.com/safing/portbase/zzverif/vsched"
	vsync "github.com/safing/portbase/zzverif/vsync"
	vtime "github.com/safing/portbase/zzverif/vtime"
)

var failed = false

func expect(name string, ok bool, format string, a ...any) {
	if ok {
		fmt.Printf("ok   %s: %s\n", name, fmt.Sprintf(format, a...))
	} else {
		failed = true
		fmt.Printf("FAIL %s: %s\n", name, fmt.Sprintf(format, a...))
	}
}

func join(n int, f func(i int)) {
	var wg vsync.WaitGroup
	for i := 0; i < n; i++ {
		i := i
		wg.Add(1)
		vsched.Go(fmt.Sprintf("w%d", i), func() { defer wg.Done(); f(i) })
	}
	wg.Wait()
}

func main() {
	// 1. two threads, each two atomic ops on distinct vars, unbounded: count traces
	{
		var a, b int32
		sc := &vsched.Scenario{Name: "atomic-2x2", Body: func() {
			vsched.Explore(true)
			join(2, func(i int) {
				vatomic.AddInt32(&a, 1)
				vsched.Emit(fmt.Sprintf("t%d-1", i))
				vatomic.AddInt32(&b, 1)
				vsched.Emit(fmt.Sprintf("t%d-2", i))
			})
		}, Reset: func() { a, b = 0, 0 }}
		st, _, err := vsched.ExploreScenario(sc, vsched.Options{Bound: 100})
		// interleavings of 2 sequences of 2 steps = C(4,2) = 6 distinct event orders
		expect("atomic-2x2", err == nil && len(st.Traces) == 6, "executions=%d distinct traces=%d err=%v", st.Executions, len(st.Traces), err)
	}
	// 2. lost update: load; store(load+1) by 2 threads; must be found at bound 1 and not at bound 0
	for bound := 0; bound <= 1; bound++ {
		var x int32
		sc := &vsched.Scenario{Name: "lost-update", Body: func() {
			vsched.Explore(true)
			join(2, func(i int) {
				v := vatomic.LoadInt32(&x)
				vatomic.StoreInt32(&x, v+1)
			})
			vsched.Emit(fmt.Sprintf("x=%d", x))
		}, Reset: func() { x = 0 }, Check: func(r *vsched.Result) []vsched.Issue {
			if r.Events[len(r.Events)-1].Name != "x=2" {
				return []vsched.Issue{{Clause: "lost", Disc: "x", Detail: r.Events[len(r.Events)-1].Name}}
			}
			return nil
		}}
		st, found, err := vsched.ExploreScenario(sc, vsched.Options{Bound: bound})
		expect(fmt.Sprintf("lost-update-bound%d", bound), err == nil && (len(found) > 0) == (bound == 1), "executions=%d found=%d err=%v", st.Executions, len(found), err)
	}
	// 3. mutex protects the update: never lost, unbounded
	{
		var x int32
		var mu vsync.Mutex
		sc := &vsched.Scenario{Name: "mutex", Body: func() {
			vsched.Explore(true)
			join(3, func(i int) {
				mu.Lock()
				v := vatomic.LoadInt32(&x)
				vatomic.StoreInt32(&x, v+1)
				mu.Unlock()
			})
			vsched.Emit(fmt.Sprintf("x=%d", x))
		}, Reset: func() { x = 0; mu = vsync.Mutex{} }, Check: func(r *vsched.Result) []vsched.Issue {
			if r.Deadlock || r.Events[len(r.Events)-1].Name != "x=3" {
				return []vsched.Issue{{Clause: "lost", Disc: "x"}}
			}
			return nil
		}}
		st, found, err := vsched.ExploreScenario(sc, vsched.Options{Bound: 100})
		expect("mutex-3", err == nil && len(found) == 0 && st.Executions > 6, "executions=%d found=%d err=%v", st.Executions, len(found), err)
	}
	// 4. deadlock: AB / BA lock order found at bound 1
	{
		var a, b vsync.Mutex
		sc := &vsched.Scenario{Name: "abba", Body: func() {
			vsched.Explore(true)
			join(2, func(i int) {
				if i == 0 {
					a.Lock()
					b.Lock()
					b.Unlock()
					a.Unlock()
				} else {
					b.Lock()
					a.Lock()
					a.Unlock()
					b.Unlock()
				}
			})
		}, Reset: func() { a, b = vsync.Mutex{}, vsync.Mutex{} }, Check: func(r *vsched.Result) []vsched.Issue {
			if r.Deadlock {
				return []vsched.Issue{{Clause: "deadlock", Disc: "abba", Detail: fmt.Sprint(r.Blocked)}}
			}
			return nil
		}}
		st, found, err := vsched.ExploreScenario(sc, vsched.Options{Bound: 1})
		expect("abba-deadlock", err == nil && len(found) == 1, "executions=%d found=%d err=%v", st.Executions, len(found), err)
	}
	// 5. channels: unbuffered hand-over, buffered, close, select with default and with timer
	{
		sc := &vsched.Scenario{Name: "chan", Body: func() {
			vsched.Explore(true)
			ch := make(chan int)
			buf := make(chan int, 1)
			done := make(chan struct{})
			vsched.Go("producer", func() {
				vsched.Send(ch, 1)
				vsched.Send(buf, 2)
				vsched.Send(buf, 3)
				vsched.Close(done)
			})
			sum := 0
			sum += vsched.Recv(ch)
			sum += vsched.Recv(buf)
			sum += vsched.Recv(buf)
			_, ok := vsched.Recv2(done)
			// select: nothing ready -> default
			k0 := vsched.RecvCase(ch)
			def := vsched.Select(true, k0)
			// select with timeout: only the timer can fire
			k1 := vsched.RecvCase(ch)
			k2 := vsched.RecvCase(vtime.After(5 * time.Second))
			idx := vsched.Select(false, k1, k2)
			vsched.Emit(fmt.Sprintf("sum=%d ok=%v def=%d idx=%d now=%s", sum, ok, def, idx, vsched.Now()))
		}, Check: func(r *vsched.Result) []vsched.Issue {
			if r.Deadlock || len(r.Events) == 0 || r.Events[len(r.Events)-1].Name != "sum=6 ok=false def=-1 idx=1 now=5s" {
				return []vsched.Issue{{Clause: "chan", Disc: "x", Detail: fmt.Sprintf("%v deadlock=%v blocked=%v", vsched.EventNames(r), r.Deadlock, r.Blocked)}}
			}
			return nil
		}}
		st, found, err := vsched.ExploreScenario(sc, vsched.Options{Bound: 100})
		d := ""
		if len(found) > 0 {
			d = found[0].Detail
		}
		expect("channels", err == nil && len(found) == 0 && st.Executions > 1, "executions=%d found=%d err=%v %s", st.Executions, len(found), err, d)
	}
	// 6. select with two ready cases: both outcomes observed
	{
		sc := &vsched.Scenario{Name: "select2", Body: func() {
			a := make(chan int, 1)
			b := make(chan int, 1)
			a <- 1
			b <- 2
			vsched.Explore(true)
			ka, kb := vsched.RecvCase(a), vsched.RecvCase(b)
			switch vsched.Select(false, ka, kb) {
			case 0:
				vsched.Emit(fmt.Sprintf("a=%d", ka.Val()))
			case 1:
				vsched.Emit(fmt.Sprintf("b=%d", kb.Val()))
			}
		}}
		st, _, err := vsched.ExploreScenario(sc, vsched.Options{Bound: 1})
		expect("select-2-ready", err == nil && len(st.Traces) == 2, "executions=%d traces=%d err=%v", st.Executions, len(st.Traces), err)
	}
	// 7. 3 threads x 2 lock/unlock pairs: count executions (unbounded), timing
	{
		var mu vsync.Mutex
		sc := &vsched.Scenario{Name: "3x2locks", Body: func() {
			vsched.Explore(true)
			join(3, func(i int) {
				for k := 0; k < 2; k++ {
					mu.Lock()
					vsched.Emit(fmt.Sprintf("t%d", i))
					mu.Unlock()
				}
			})
		}, Reset: func() { mu = vsync.Mutex{} }}
		t0 := time.Now()
		st, _, err := vsched.ExploreScenario(sc, vsched.Options{Bound: 100})
		// distinct orders of critical sections: 6!/(2!2!2!) = 90
		expect("3x2-locks", err == nil && len(st.Traces) == 90, "executions=%d distinct traces=%d in %s (%.0f exec/s) err=%v", st.Executions, len(st.Traces), time.Since(t0), float64(st.Executions)/time.Since(t0).Seconds(), err)
	}
	// 8. abort of parked threads leaves nothing behind and Goexit is not caught by recover
	{
		var mu vsync.Mutex
		caught := 0
		sc := &vsched.Scenario{Name: "abort", Body: func() {
			mu.Lock()
			vsched.Go("stuck", func() {
				defer func() {
					if recover() != nil {
						caught++
					}
				}()
				mu.Lock()
			})
			vsched.Quiesce()
		}, Reset: func() { mu = vsync.Mutex{} }}
		st, _, err := vsched.ExploreScenario(sc, vsched.Options{Bound: 0})
		expect("abort", err == nil && caught == 0 && st.Executions == 1, "executions=%d caught=%d err=%v", st.Executions, caught, err)
	}
	// 9. ticker + Advance
	{
		sc := &vsched.Scenario{Name: "ticker", Body: func() {
			tk := vtime.NewTicker(time.Second)
			n := 0
			vsched.Go("ticker-reader", func() {
				for {
					vsched.Recv(tk.C)
					n++
				}
			})
			vsched.Advance(3500 * time.Millisecond)
			vsched.Emit(fmt.Sprintf("ticks=%d now=%s", n, vsched.Now()))
		}, Check: func(r *vsched.Result) []vsched.Issue {
			if len(r.Events) != 1 || r.Events[0].Name != "ticks=3 now=3.5s" {
				return []vsched.Issue{{Clause: "ticker", Disc: "x", Detail: fmt.Sprint(vsched.EventNames(r))}}
			}
			return nil
		}}
		_, found, err := vsched.ExploreScenario(sc, vsched.Options{Bound: 0})
		d := ""
		if len(found) > 0 {
			d = found[0].Detail
		}
		expect("ticker-advance", err == nil && len(found) == 0, "err=%v %s", err, d)
	}
	// 10. a timer that is already due fires without waiting for idleness; AdvanceRacing lets a due timer race with the caller
	{
		sc := &vsched.Scenario{Name: "due-timer", Body: func() {
			vsched.Explore(true)
			c := vtime.After(-time.Second)
			got := false
			vsched.Go("waiter", func() {
				vsched.Recv(c)
				got = true
				vsched.Emit("timer-received")
			})
			// the root stays runnable: with idle-only firing the waiter could never run before the root's next events
			vsched.Point("root-1")
			vsched.Point("root-2")
			vsched.Emit(fmt.Sprintf("root-done got=%v", got))
			d := vtime.After(5 * time.Second)
			vsched.Go("waiter2", func() {
				vsched.Recv(d)
				vsched.Emit("late-timer-received")
			})
			vsched.Quiesce()
			vsched.AdvanceRacing(5 * time.Second)
			vsched.Point("root-after-race")
			vsched.Emit("root-after-racing-advance")
			vsched.Quiesce()
		}}
		st, _, err := vsched.ExploreScenario(sc, vsched.Options{Bound: 2})
		// some schedule must deliver the due timer before the root is done, and some schedule must run the root's
		// next event before the woken waiter
		expect("due-timer", err == nil && len(st.Traces) >= 4, "executions=%d distinct traces=%d err=%v", st.Executions, len(st.Traces), err)
	}
	// 11. only an unread ticker remains: the execution ends as a deadlock instead of running forever
	{
		sc := &vsched.Scenario{Name: "fruitless-ticker", Body: func() {
			_ = vtime.NewTicker(time.Second)
			block := make(chan struct{})
			vsched.Recv(block)
		}, Check: func(r *vsched.Result) []vsched.Issue {
			if r.Deadlock {
				return []vsched.Issue{{Clause: "deadlock", Disc: "x", Detail: "deadlock"}}
			}
			return nil
		}}
		_, found, err := vsched.ExploreScenario(sc, vsched.Options{Bound: 0})
		expect("fruitless-ticker", err == nil && len(found) == 1, "found=%d err=%v", len(found), err)
	}
	if failed {
		os.Exit(2)
	}
	fmt.Println("selftest: all passed")
}
