// C05: stopping a module waits for all of its managed work (engine S).
package main

import (
	"github.com/safing/portbase/modules"

	"verif/slib"
	"verif/vlib"
)

var kinds = []string{"worker", "service", "task", "mt-high", "mt-medium", "mt-low", "mt-signal", "hook"}

func scenarios(c *vlib.Ctx) []*slib.Scn {
	var out []*slib.Scn
	add := func(p modules.C05Params, bound int) {
		out = append(out, &slib.Scn{Scenario: modules.VerifC05(p), Family: "c05/" + p.Graph + "/" + p.Trigger, Bound: bound})
		if len(p.Items) <= 1 || p.Items[0] == "task-late" {
			// second default scheduler (youngest enabled thread first) for the single-item drivers
			sc := modules.VerifC05(p)
			sc.Name += "/sched=high"
			sc.HighFirst = true
			out = append(out, &slib.Scn{Scenario: sc, Family: "c05/" + p.Graph + "/" + p.Trigger, Bound: bound})
		}
	}
	bound := vlib.Pick(c, 2, 3)
	for _, trig := range []string{"shutdown", "disable"} {
		for _, graph := range []string{"single", "chain"} {
			// one item of each kind, each stop routine variant
			for _, k := range kinds {
				for _, sf := range []string{"none", "plain", "point"} {
					add(modules.C05Params{Graph: graph, Items: []string{k}, ItemPts: 1, StopFn: sf, Trigger: trig}, bound)
				}
			}
			// no item at all
			add(modules.C05Params{Graph: graph, StopFn: "plain", Trigger: trig}, bound)
			add(modules.C05Params{Graph: graph, StopFn: "error", Trigger: trig, Items: []string{"worker"}}, bound)
			add(modules.C05Params{Graph: graph, StopFn: "error", Trigger: trig}, bound)
			// a panicking stop routine: the module still finishes stopping at once
			add(modules.C05Params{Graph: graph, StopFn: "panic", Trigger: trig}, bound)
			add(modules.C05Params{Graph: graph, StopFn: "panic", Trigger: trig, Items: []string{"worker"}, ItemPts: 1}, bound)
			add(modules.C05Params{Graph: graph, StopFn: "panic", Trigger: trig, Items: []string{"mt-signal"}, ItemPts: 1}, bound)
			// pairs of items
			for i, a := range kinds {
				for _, b := range kinds[i:] {
					add(modules.C05Params{Graph: graph, Items: []string{a, b}, ItemPts: 0, StopFn: "plain", Trigger: trig, DepItem: graph == "chain"}, vlib.Pick(c, 2, 2))
				}
			}
		}
	}
	// work launched before the module started, and a service worker that is in its restart back-off when the stop begins
	for _, trig := range []string{"shutdown", "disable"} {
		for _, graph := range []string{"single", "chain"} {
			for _, k := range []string{"prep-worker", "service-backoff", "service-restartnow"} {
				add(modules.C05Params{Graph: graph, Items: []string{k}, ItemPts: 1, StopFn: "plain", Trigger: trig}, bound)
				add(modules.C05Params{Graph: graph, Items: []string{k, "worker"}, ItemPts: 0, StopFn: "none", Trigger: trig}, 2)
			}
		}
	}
	// another thread holds the module's read lock at some moment of the stop
	for _, trig := range []string{"shutdown", "disable"} {
		for _, items := range [][]string{nil, {"worker"}, {"mt-signal"}, {"task"}, {"hook"}} {
			add(modules.C05Params{Graph: "single", Items: items, ItemPts: 1, StopFn: "plain", Trigger: trig, Holder: true}, bound)
			add(modules.C05Params{Graph: "single", Items: items, ItemPts: 0, StopFn: "none", Trigger: trig, Holder: true}, bound)
		}
	}
	// Shutdown is called by two threads at once: neither call returns before the stop routine and the work have returned
	for _, graph := range []string{"single", "chain"} {
		for _, items := range [][]string{nil, {"worker"}, {"task"}, {"mt-medium"}} {
			add(modules.C05Params{Graph: graph, Items: items, ItemPts: 1, StopFn: "plain", Trigger: "shutdown", Second: true}, bound)
		}
		add(modules.C05Params{Graph: graph, Items: []string{"worker"}, ItemPts: 0, StopFn: "none", Trigger: "shutdown", Second: true}, bound)
	}
	// a task that is queued right before the stop is triggered: it is somewhere between the queue and its execution when the stop begins
	for _, trig := range []string{"shutdown", "disable"} {
		for _, graph := range []string{"single", "chain"} {
			add(modules.C05Params{Graph: graph, Items: []string{"task-late"}, ItemPts: 0, StopFn: "plain", Trigger: trig}, bound)
			add(modules.C05Params{Graph: graph, Items: []string{"task-late"}, ItemPts: 1, StopFn: "none", Trigger: trig}, bound)
			for _, k := range []string{"worker", "mt-high", "mt-medium"} {
				add(modules.C05Params{Graph: graph, Items: []string{"task-late", k}, ItemPts: 0, StopFn: "plain", Trigger: trig}, 2)
			}
		}
	}
	for _, trig := range []string{"shutdown", "disable"} {
		add(modules.C05Params{Graph: "xsrc", Items: []string{"xhook"}, ItemPts: 1, StopFn: "plain", Trigger: trig}, bound)
		add(modules.C05Params{Graph: "xsrc", Items: []string{"xhook"}, ItemPts: 0, StopFn: "none", Trigger: trig}, bound)
		add(modules.C05Params{Graph: "xsrc", Items: []string{"xhook", "worker"}, ItemPts: 0, StopFn: "plain", Trigger: trig}, 2)
	}
	return out
}

func main() {
	vlib.Main("C05", "model_checking", func(c *vlib.Ctx) {
		c.Rule("stateless exploration of all interleavings (preemption bound per scenario) of the real modules+log packages, source-instrumented so that every mutex/atomic/abool/channel/select/go operation is a scheduling point; " +
			"scenarios = {single module, dependent+dependency} x {Shutdown, Disable+ManageModules} x work item multisets (<=2 of worker, service worker, task, high/medium/low/signalled microtask, event hook; plus a worker started at prep time, a service worker in its back-off, a service worker answering cancellation with ErrRestartNow, a task queued right before the stop) x stop routine variants; single-item drivers under both default schedulers; " +
			"distinct_nontrivial = distinct observation traces (event order + virtual times) per scenario")
		c.Assume("sequential consistency; data-race freedom outside the instrumented synchronisation operations; RWMutex modelled without writer preference; time is virtual and advances only when no thread can run")
		slib.Run(c, scenarios(c), slib.Opts{})
	})
}
