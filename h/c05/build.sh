#!/bin/bash
exec /verif/h/smod/build.sh c05 "$1"
