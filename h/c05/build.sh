#!/bin/bash
set -e
cd /verif
mkdir -p bin
[ -x bin/instr ] || (cd instr && go build -o /verif/bin/instr .)
rm -rf build/c05.ov && mkdir -p build/c05.ov
bin/instr -out build/c05.ov -full log,modules -harness h/c05/overlay
go build -tags verif -overlay build/c05.ov/overlay.json -o "$1" ./h/c05
