package main

import (
	"errors"
	"fmt"
	"math"
	"strconv"
	"strings"

	"github.com/safing/portbase/database/query"
)

// ---------- witness records of the harness schema ----------
//
// A record is a flat map key -> typed value (int64, float64, bool, string) or
// "absent". It implements accessor.Accessor with the same answers a JSON
// record gives (a number answers GetInt and GetFloat, a string only GetString,
// a bool only GetBool).

type rec struct {
	keys []string
	vals []interface{} // nil = absent
}

func (r *rec) get(key string) (interface{}, bool) {
	for i, k := range r.keys {
		if k == key {
			if r.vals[i] == nil {
				return nil, false
			}
			return r.vals[i], true
		}
	}
	return nil, false
}

func (r *rec) Get(key string) (interface{}, bool) { return r.get(key) }
func (r *rec) GetString(key string) (string, bool) {
	v, ok := r.get(key)
	if !ok {
		return "", false
	}
	s, ok := v.(string)
	return s, ok
}
func (r *rec) GetStringArray(key string) ([]string, bool) { return nil, false }
func (r *rec) GetInt(key string) (int64, bool) {
	v, ok := r.get(key)
	if !ok {
		return 0, false
	}
	switch x := v.(type) {
	case int64:
		return x, true
	case float64:
		return int64(x), true
	}
	return 0, false
}
func (r *rec) GetFloat(key string) (float64, bool) {
	v, ok := r.get(key)
	if !ok {
		return 0, false
	}
	switch x := v.(type) {
	case int64:
		return float64(x), true
	case float64:
		return x, true
	}
	return 0, false
}
func (r *rec) GetBool(key string) (bool, bool) {
	v, ok := r.get(key)
	if !ok {
		return false, false
	}
	b, ok := v.(bool)
	return b, ok
}
func (r *rec) Exists(key string) bool { _, ok := r.get(key); return ok }
func (r *rec) Set(key string, value interface{}) error {
	return errors.New("read-only witness record")
}
func (r *rec) Type() string { return "verif-record" }

func (r *rec) String() string {
	var p []string
	for i, k := range r.keys {
		if r.vals[i] == nil {
			continue
		}
		switch x := r.vals[i].(type) {
		case string:
			p = append(p, fmt.Sprintf("%q:%q", k, x))
		case float64:
			p = append(p, fmt.Sprintf("%q:%s", k, fmtFloat(x)))
		default:
			p = append(p, fmt.Sprintf("%q:%v", k, x))
		}
	}
	return "{" + strings.Join(p, ", ") + "}"
}

func valKey(v interface{}) string {
	switch x := v.(type) {
	case nil:
		return "absent"
	case int64:
		return "i" + strconv.FormatInt(x, 10)
	case float64:
		if x != x {
			return "fNaN"
		}
		return "f" + strconv.FormatUint(math.Float64bits(x), 16)
	case bool:
		return "b" + strconv.FormatBool(x)
	case string:
		return "s" + x
	}
	return "?"
}

// leafCandidates lists field values that make the leaf true / false, most
// discriminating first.
func leafCandidates(t *query.VerifNode) []interface{} {
	switch t.T {
	case "int":
		v := t.I
		var up, down []interface{}
		if v < math.MaxInt64 {
			up = []interface{}{v + 1}
		}
		if v > math.MinInt64 {
			down = []interface{}{v - 1}
		}
		var l []interface{}
		switch t.Op {
		case 1: // >
			l = append(append(append(l, up...), v), down...)
		case 3: // <
			l = append(append(append(l, down...), v), up...)
		case 2: // >=
			l = append(append(append(l, v), down...), up...)
		default:
			l = append(append(append(l, v), up...), down...)
		}
		return l
	case "float":
		v := t.F
		if v != v {
			return []interface{}{float64(0), math.NaN()}
		}
		up, down := math.Nextafter(v, math.Inf(1)), math.Nextafter(v, math.Inf(-1))
		switch t.Op {
		case 6: // f>
			return []interface{}{up, v, down}
		case 8: // f<
			return []interface{}{down, v, up}
		case 7: // f>=
			return []interface{}{v, down, up}
		default:
			return []interface{}{v, up, down}
		}
	case "bool":
		return []interface{}{t.B, !t.B}
	case "string":
		switch t.Op {
		case 10:
			return []interface{}{t.S, t.S + "q", "q" + t.S, ""}
		case 11:
			return []interface{}{"q" + t.S + "q", "q", t.S, ""}
		case 12:
			return []interface{}{t.S + "q", "q" + t.S, t.S, ""}
		default:
			return []interface{}{"q" + t.S, t.S + "q", t.S, ""}
		}
	case "slice":
		l := []interface{}{}
		for _, e := range t.L {
			l = append(l, e)
		}
		l = append(l, "q", strings.Join(t.L, ","))
		if len(t.L) > 0 {
			l = append(l, t.L[0]+"q")
		}
		return l
	case "regex":
		return []interface{}{t.S, "a", "q", "ab", "ba", "1", "a.b", "a b", "", "é", "d+", "aa"}
	case "exists":
		return []interface{}{int64(0)}
	}
	return nil
}

func collectLeaves(t *query.VerifNode, out *[]*query.VerifNode) {
	if t == nil {
		return
	}
	switch t.T {
	case "and", "or", "not":
		for _, c := range t.C {
			collectLeaves(c, out)
		}
	default:
		*out = append(*out, t)
	}
}

const maxRecords = 96

// witnessRecords derives the witness records for a pair of queries: for every
// key that occurs in either, candidate field values around every operand, and
// the cross product over the keys (bounded by maxRecords).
func witnessRecords(t1, t2 *query.VerifNode) []*rec {
	var leaves []*query.VerifNode
	collectLeaves(t1, &leaves)
	collectLeaves(t2, &leaves)
	var keys []string
	perKey := map[string][][]interface{}{}
	for _, l := range leaves {
		if l.T == "error" || l.T == "unknown" {
			continue
		}
		if _, ok := perKey[l.Key]; !ok {
			keys = append(keys, l.Key)
		}
		perKey[l.Key] = append(perKey[l.Key], leafCandidates(l))
	}
	if len(keys) == 0 {
		return []*rec{{}}
	}
	// merge round-robin, de-duplicate, absent second
	cands := make([][]interface{}, len(keys))
	for i, k := range keys {
		seen := map[string]bool{}
		lists := perKey[k]
		var merged []interface{}
		for j := 0; ; j++ {
			any := false
			for _, l := range lists {
				if j < len(l) {
					any = true
					vk := valKey(l[j])
					if !seen[vk] {
						seen[vk] = true
						merged = append(merged, l[j])
					}
				}
			}
			if !any {
				break
			}
			if j == 0 {
				merged = append(merged, nil) // absent
				seen["absent"] = true
			}
		}
		cands[i] = merged
	}
	// bound the cross product
	total := func() int {
		n := 1
		for _, c := range cands {
			n *= len(c)
			if n > 1<<20 {
				return n
			}
		}
		return n
	}
	for total() > maxRecords {
		// cut the longest list by one
		li, ll := -1, 2
		for i, c := range cands {
			if len(c) > ll {
				li, ll = i, len(c)
			}
		}
		if li < 0 {
			break
		}
		cands[li] = cands[li][:ll-1]
	}
	var out []*rec
	if total() <= maxRecords {
		idx := make([]int, len(keys))
		for {
			r := &rec{keys: keys, vals: make([]interface{}, len(keys))}
			for i := range keys {
				r.vals[i] = cands[i][idx[i]]
			}
			out = append(out, r)
			i := 0
			for ; i < len(idx); i++ {
				idx[i]++
				if idx[i] < len(cands[i]) {
					break
				}
				idx[i] = 0
			}
			if i == len(idx) {
				break
			}
		}
		return out
	}
	// too many keys: all-first, all-second, and one key varied at a time
	for base := 0; base < 2; base++ {
		r := &rec{keys: keys, vals: make([]interface{}, len(keys))}
		for i := range keys {
			r.vals[i] = cands[i][base%len(cands[i])]
		}
		out = append(out, r)
		for i := range keys {
			for j := range cands[i] {
				v := &rec{keys: keys, vals: append([]interface{}{}, r.vals...)}
				v.vals[i] = cands[i][j]
				out = append(out, v)
			}
		}
	}
	return out
}
