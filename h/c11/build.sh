#!/bin/bash
set -e
cd /verif
./mkoverlay.sh c11
go build -tags verif -overlay build/c11.overlay.json -o "$1" ./h/c11
