//go:build verif

package query

// VerifNode is a plain copy of a condition tree (private representation of a
// Query's where clause) for the C11 harness.
type VerifNode struct {
	T   string // and, or, not, int, float, string, slice, regex, bool, exists, error, unknown
	C   []*VerifNode
	Key string
	Op  uint8
	I   int64
	F   float64
	B   bool
	S   string
	L   []string
}

// VerifTree returns a copy of the where clause (nil if there is none).
func VerifTree(q *Query) *VerifNode {
	if q == nil || q.where == nil {
		return nil
	}
	return verifCond(q.where)
}

// VerifClauses returns the private clause fields.
func VerifClauses(q *Query) (orderBy string, limit, offset int) {
	return q.orderBy, q.limit, q.offset
}

func verifCond(c Condition) *VerifNode {
	switch v := c.(type) {
	case *andCond:
		n := &VerifNode{T: "and"}
		for _, x := range v.conditions {
			n.C = append(n.C, verifCond(x))
		}
		return n
	case *orCond:
		n := &VerifNode{T: "or"}
		for _, x := range v.conditions {
			n.C = append(n.C, verifCond(x))
		}
		return n
	case *notCond:
		return &VerifNode{T: "not", C: []*VerifNode{verifCond(v.notC)}}
	case *intCondition:
		return &VerifNode{T: "int", Key: v.key, Op: v.operator, I: v.value}
	case *floatCondition:
		return &VerifNode{T: "float", Key: v.key, Op: v.operator, F: v.value}
	case *stringCondition:
		return &VerifNode{T: "string", Key: v.key, Op: v.operator, S: v.value}
	case *stringSliceCondition:
		return &VerifNode{T: "slice", Key: v.key, Op: v.operator, L: append([]string{}, v.value...)}
	case *regexCondition:
		n := &VerifNode{T: "regex", Key: v.key, Op: v.operator}
		if v.regex != nil {
			n.S = v.regex.String()
		}
		return n
	case *boolCondition:
		return &VerifNode{T: "bool", Key: v.key, Op: v.operator, B: v.value}
	case *existsCondition:
		return &VerifNode{T: "exists", Key: v.key, Op: v.operator}
	case *errorCondition:
		return &VerifNode{T: "error"}
	default:
		return &VerifNode{T: "unknown"}
	}
}
