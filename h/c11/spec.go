package main

import (
	"fmt"
	"math"
	"strconv"
	"strings"
	"unicode"
	"unicode/utf8"

	"github.com/safing/portbase/database/query"
)

// ---------- query specifications (what the harness enumerates) ----------

// Val is an operand handed to query.Where.
type Val struct {
	K string   `json:"k"` // nil int64 int uint8 uint32 float64 float32 bool str strs
	I int64    `json:"i,omitempty"`
	F string   `json:"f,omitempty"` // float64 in strconv 'g' -1 form (NaN, +Inf, -Inf allowed)
	B bool     `json:"b,omitempty"`
	S string   `json:"s,omitempty"`
	L []string `json:"l,omitempty"`
}

// Node is a condition tree node.
type Node struct {
	T   string  `json:"t"` // and or not leaf
	C   []*Node `json:"c,omitempty"`
	Key string  `json:"key,omitempty"`
	Op  int     `json:"op"` // operator id 0..17 (anything else: invalid on purpose)
	V   *Val    `json:"v,omitempty"`
}

// QSpec is one query built through the API.
type QSpec struct {
	Prefix  string `json:"prefix"`
	Where   *Node  `json:"where,omitempty"`
	OrderBy string `json:"orderby,omitempty"`
	Limit   int    `json:"limit,omitempty"`
	Offset  int    `json:"offset,omitempty"`
}

// operator table of the README (primary textual name first, then aliases).
var opNames = [][]string{
	{"=="}, {">"}, {">="}, {"<"}, {"<="},
	{"f=="}, {"f>"}, {"f>="}, {"f<"}, {"f<="},
	{"sameas", "s=="}, {"contains", "co"}, {"startswith", "sw"}, {"endswith", "ew"},
	{"in"}, {"matches", "re"}, {"is"}, {"exists", "ex"},
}

const (
	opEquals  = 0
	opFEquals = 5
	opSameAs  = 10
	opIn      = 14
	opMatches = 15
	opIs      = 16
	opExists  = 17
)

func opKind(op int) string {
	switch {
	case op >= 0 && op <= 4:
		return "int"
	case op >= 5 && op <= 9:
		return "float"
	case op >= 10 && op <= 13:
		return "string"
	case op == opIn:
		return "in"
	case op == opMatches:
		return "regex"
	case op == opIs:
		return "bool"
	case op == opExists:
		return "exists"
	}
	return "invalid"
}

func opName(op int) string {
	if op >= 0 && op < len(opNames) {
		return opNames[op][0]
	}
	return fmt.Sprintf("op#%d", op)
}

func fmtFloat(f float64) string { return strconv.FormatFloat(f, 'g', -1, 64) }

func parseFloatS(s string) float64 {
	f, err := strconv.ParseFloat(s, 64)
	if err != nil {
		return math.NaN()
	}
	return f
}

func (v *Val) goValue() interface{} {
	if v == nil {
		return nil
	}
	switch v.K {
	case "nil":
		return nil
	case "int64":
		return v.I
	case "int":
		return int(v.I)
	case "uint8":
		return uint8(v.I)
	case "uint32":
		return uint32(v.I)
	case "float64":
		return parseFloatS(v.F)
	case "float32":
		return float32(parseFloatS(v.F))
	case "bool":
		return v.B
	case "str":
		return v.S
	case "strs":
		return append([]string{}, v.L...)
	}
	return nil
}

func (v *Val) String() string {
	if v == nil {
		return "nil"
	}
	switch v.K {
	case "nil":
		return "nil"
	case "int64", "int", "uint8", "uint32":
		return fmt.Sprintf("%s(%d)", v.K, v.I)
	case "float64", "float32":
		return fmt.Sprintf("%s(%s)", v.K, v.F)
	case "bool":
		return fmt.Sprintf("%t", v.B)
	case "str":
		return strconv.Quote(v.S)
	case "strs":
		return fmt.Sprintf("%q", v.L)
	}
	return "?"
}

func vInt(i int64) *Val      { return &Val{K: "int64", I: i} }
func vGoInt(i int64) *Val    { return &Val{K: "int", I: i} }
func vFloat(f float64) *Val  { return &Val{K: "float64", F: fmtFloat(f)} }
func vBool(b bool) *Val      { return &Val{K: "bool", B: b} }
func vStr(s string) *Val     { return &Val{K: "str", S: s} }
func vStrs(l ...string) *Val { return &Val{K: "strs", L: append([]string{}, l...)} }
func vNil() *Val             { return &Val{K: "nil"} }

func leaf(key string, op int, v *Val) *Node { return &Node{T: "leaf", Key: key, Op: op, V: v} }
func and(c ...*Node) *Node                  { return &Node{T: "and", C: c} }
func or(c ...*Node) *Node                   { return &Node{T: "or", C: c} }
func not(c *Node) *Node                     { return &Node{T: "not", C: []*Node{c}} }

func (n *Node) clone() *Node {
	if n == nil {
		return nil
	}
	m := &Node{T: n.T, Key: n.Key, Op: n.Op}
	if n.V != nil {
		v := *n.V
		v.L = append([]string(nil), n.V.L...)
		m.V = &v
	}
	for _, c := range n.C {
		m.C = append(m.C, c.clone())
	}
	return m
}

func (s *QSpec) clone() *QSpec {
	t := *s
	t.Where = s.Where.clone()
	return &t
}

// key is a canonical, unambiguous text of the spec.
func (s *QSpec) key() string {
	var b strings.Builder
	b.WriteString(strconv.Quote(s.Prefix))
	b.WriteByte('|')
	b.WriteString(strconv.Quote(s.OrderBy))
	b.WriteByte('|')
	b.WriteString(strconv.Itoa(s.Limit))
	b.WriteByte('|')
	b.WriteString(strconv.Itoa(s.Offset))
	b.WriteByte('|')
	s.Where.writeKey(&b)
	return b.String()
}

func (n *Node) writeKey(b *strings.Builder) {
	if n == nil {
		b.WriteByte('-')
		return
	}
	switch n.T {
	case "leaf":
		b.WriteString("L(")
		b.WriteString(strconv.Quote(n.Key))
		b.WriteByte(' ')
		b.WriteString(strconv.Itoa(n.Op))
		b.WriteByte(' ')
		b.WriteString(n.V.String())
		b.WriteByte(')')
	default:
		b.WriteString(n.T)
		b.WriteByte('(')
		for i, c := range n.C {
			if i > 0 {
				b.WriteByte(',')
			}
			c.writeKey(b)
		}
		b.WriteByte(')')
	}
}

// goExpr renders the spec as the Go expression that builds it (for reports).
func (s *QSpec) goExpr() string {
	var b strings.Builder
	fmt.Fprintf(&b, "query.New(%q)", s.Prefix)
	if s.Where != nil {
		b.WriteString(".Where(")
		s.Where.writeGo(&b)
		b.WriteString(")")
	}
	if s.OrderBy != "" {
		fmt.Fprintf(&b, ".OrderBy(%q)", s.OrderBy)
	}
	if s.Limit != 0 {
		fmt.Fprintf(&b, ".Limit(%d)", s.Limit)
	}
	if s.Offset != 0 {
		fmt.Fprintf(&b, ".Offset(%d)", s.Offset)
	}
	return b.String()
}

var goOpNames = []string{"Equals", "GreaterThan", "GreaterThanOrEqual", "LessThan", "LessThanOrEqual", "FloatEquals", "FloatGreaterThan",
	"FloatGreaterThanOrEqual", "FloatLessThan", "FloatLessThanOrEqual", "SameAs", "Contains", "StartsWith", "EndsWith", "In", "Matches", "Is", "Exists"}

func (n *Node) writeGo(b *strings.Builder) {
	switch n.T {
	case "leaf":
		op := fmt.Sprintf("%d", n.Op)
		if n.Op >= 0 && n.Op < len(goOpNames) {
			op = "query." + goOpNames[n.Op]
		}
		v := "nil"
		if n.V != nil {
			switch n.V.K {
			case "int64", "int", "uint8", "uint32":
				v = fmt.Sprintf("%s(%d)", n.V.K, n.V.I)
			case "float64", "float32":
				v = fmt.Sprintf("%s(%s)", n.V.K, n.V.F)
			case "bool":
				v = fmt.Sprintf("%t", n.V.B)
			case "str":
				v = strconv.Quote(n.V.S)
			case "strs":
				v = fmt.Sprintf("%#v", n.V.L)
			}
		}
		fmt.Fprintf(b, "query.Where(%q, %s, %s)", n.Key, op, v)
	default:
		name := map[string]string{"and": "query.And", "or": "query.Or", "not": "query.Not"}[n.T]
		b.WriteString(name + "(")
		for i, c := range n.C {
			if i > 0 {
				b.WriteString(", ")
			}
			c.writeGo(b)
		}
		b.WriteString(")")
	}
}

// build constructs the real query through the public API.
func (s *QSpec) build() *query.Query {
	q := query.New(s.Prefix)
	if s.Where != nil {
		q.Where(s.Where.build())
	}
	if s.OrderBy != "" {
		q.OrderBy(s.OrderBy)
	}
	if s.Limit != 0 {
		q.Limit(s.Limit)
	}
	if s.Offset != 0 {
		q.Offset(s.Offset)
	}
	return q
}

func (n *Node) build() query.Condition {
	switch n.T {
	case "and":
		cs := make([]query.Condition, 0, len(n.C))
		for _, c := range n.C {
			cs = append(cs, c.build())
		}
		return query.And(cs...)
	case "or":
		cs := make([]query.Condition, 0, len(n.C))
		for _, c := range n.C {
			cs = append(cs, c.build())
		}
		return query.Or(cs...)
	case "not":
		return query.Not(n.C[0].build())
	default:
		return query.Where(n.Key, uint8(n.Op), n.V.goValue())
	}
}

// specFromQuery converts a real (checked) query back into a spec, using the
// overlay export of the private representation.
func specFromQuery(q *query.Query) (*QSpec, bool) {
	prefix := q.DatabaseName() + ":" + q.DatabaseKeyPrefix()
	ob, lim, off := query.VerifClauses(q)
	s := &QSpec{Prefix: prefix, OrderBy: ob, Limit: lim, Offset: off}
	t := query.VerifTree(q)
	if t != nil {
		n, ok := nodeFromVerif(t)
		if !ok {
			return nil, false
		}
		s.Where = n
	}
	return s, true
}

func nodeFromVerif(t *query.VerifNode) (*Node, bool) {
	switch t.T {
	case "and", "or", "not":
		n := &Node{T: t.T}
		for _, c := range t.C {
			m, ok := nodeFromVerif(c)
			if !ok {
				return nil, false
			}
			n.C = append(n.C, m)
		}
		return n, true
	case "int":
		return leaf(t.Key, int(t.Op), vInt(t.I)), true
	case "float":
		return leaf(t.Key, int(t.Op), vFloat(t.F)), true
	case "string", "regex":
		return leaf(t.Key, int(t.Op), vStr(t.S)), true
	case "slice":
		return leaf(t.Key, int(t.Op), vStrs(t.L...)), true
	case "bool":
		return leaf(t.Key, int(t.Op), vBool(t.B)), true
	case "exists":
		return leaf(t.Key, int(t.Op), vNil()), true
	}
	return nil, false
}

// leafTok is one leaf as observed in the real object.
type leafTok struct {
	Kind string
	Key  string
	Op   uint8
	Val  string
}

func flatten(t *query.VerifNode, out []leafTok) []leafTok {
	if t == nil {
		return out
	}
	switch t.T {
	case "and", "or", "not":
		for _, c := range t.C {
			out = flatten(c, out)
		}
		return out
	case "int":
		return append(out, leafTok{"int", t.Key, t.Op, strconv.FormatInt(t.I, 10)})
	case "float":
		f := t.F
		if f != f {
			return append(out, leafTok{"float", t.Key, t.Op, "NaN"})
		}
		return append(out, leafTok{"float", t.Key, t.Op, strconv.FormatUint(math.Float64bits(f), 16)})
	case "string":
		return append(out, leafTok{"string", t.Key, t.Op, t.S})
	case "regex":
		return append(out, leafTok{"regex", t.Key, t.Op, t.S})
	case "slice":
		return append(out, leafTok{"slice", t.Key, t.Op, fmt.Sprintf("%q", t.L)})
	case "bool":
		return append(out, leafTok{"bool", t.Key, t.Op, strconv.FormatBool(t.B)})
	case "exists":
		return append(out, leafTok{"exists", t.Key, t.Op, ""})
	}
	return append(out, leafTok{t.T, "", 0, ""})
}

func dumpTree(t *query.VerifNode) string {
	if t == nil {
		return "-"
	}
	switch t.T {
	case "and", "or", "not":
		p := make([]string, 0, len(t.C))
		for _, c := range t.C {
			p = append(p, dumpTree(c))
		}
		return t.T + "(" + strings.Join(p, ",") + ")"
	}
	l := flatten(t, nil)[0]
	return fmt.Sprintf("%s(%q %d %q)", l.Kind, l.Key, l.Op, l.Val)
}

// ---------- default leaves ----------

func defLeaf(i int) *Node {
	switch i % 4 {
	case 0:
		return leaf("a", opEquals, vGoInt(1))
	case 1:
		return leaf("b", opSameAs, vStr("x"))
	case 2:
		return leaf("c", opIs, vBool(true))
	default:
		return leaf("d", opExists, vNil())
	}
}

func isDefaultLeaf(n *Node) bool {
	return n.T == "leaf" && n.Key == "a" && n.Op == opEquals && n.V != nil && (n.V.K == "int" || n.V.K == "int64") && n.V.I == 1
}

// ---------- features of a (minimal) spec: names the scenario family ----------

var keywordSet = map[string]bool{"query": true, "where": true, "orderby": true, "limit": true, "offset": true, "and": true, "or": true, "not": true, "(": true, ")": true}

func tokenClasses(t string) []string {
	var cl []string
	if t == "" {
		return []string{"empty"}
	}
	if keywordSet[t] && t != "(" && t != ")" {
		cl = append(cl, "keyword")
	}
	if strings.Contains(t, `\`) {
		cl = append(cl, "backslash")
	}
	if strings.HasSuffix(t, `"`) {
		cl = append(cl, "quote-at-end")
	} else if strings.Contains(t, `"`) {
		cl = append(cl, "quote")
	}
	if strings.Contains(t, " ") {
		cl = append(cl, "space")
	}
	if strings.ContainsAny(t, "\t\n\r") {
		cl = append(cl, "tab-or-newline")
	}
	if strings.ContainsAny(t, "()") {
		cl = append(cl, "paren")
	}
	if strings.Contains(t, ",") {
		cl = append(cl, "comma")
	}
	if !utf8.ValidString(t) {
		cl = append(cl, "invalid-utf8")
	} else {
		ows, mb := false, false
		for _, r := range t {
			switch {
			case isOtherSpace(r):
				ows = true
			case r >= 0x80:
				mb = true
			}
		}
		if ows {
			cl = append(cl, "other-white-space")
		}
		if mb {
			cl = append(cl, "multibyte")
		}
	}
	return cl
}

// isOtherSpace: Unicode white space that the documentation does not list as a
// separator (it lists blank, \t, \r, \n): \v, \f, U+0085, U+00A0, U+1680, U+2000.., U+3000.
func isOtherSpace(r rune) bool {
	return unicode.IsSpace(r) && r != ' ' && r != '\t' && r != '\n' && r != '\r'
}

func endsInMultibyte(text string) bool {
	if text == "" {
		return false
	}
	r, size := utf8.DecodeLastRuneInString(text)
	return size > 1 && r != utf8.RuneError
}

// lastIsGroup reports whether the printed where clause ends in ")".
func lastIsGroup(n *Node, root bool) bool {
	switch n.T {
	case "leaf":
		return false
	case "not":
		c := n.C[0]
		return c.T == "and" || c.T == "or"
	default:
		if !root {
			return true
		}
		if len(n.C) == 0 {
			return false
		}
		return lastIsGroup(n.C[len(n.C)-1], false)
	}
}

func features(s *QSpec, printed string, leafKinds bool) []string {
	set := map[string]bool{}
	add := func(slot string, tok string) {
		for _, c := range tokenClasses(tok) {
			set[slot+":"+c] = true
		}
	}
	if s.Prefix != "db:" && leafKinds {
		if i := strings.Index(s.Prefix, ":"); i < 0 {
			set["prefix:no-colon"] = true
			add("prefix", s.Prefix)
		} else {
			name, rest := s.Prefix[:i], s.Prefix[i+1:]
			if name == "" {
				set["prefix:empty-name"] = true
			} else if name != "db" {
				add("prefix", name)
			}
			if rest != "" {
				add("prefix", rest)
				if len(tokenClasses(rest)) == 0 && len(tokenClasses(name)) == 0 && name != "" {
					set["prefix:plain-key"] = true
				}
			}
		}
	} else if s.Prefix != "db:" {
		if i := strings.Index(s.Prefix, ":"); i >= 0 {
			add("prefix", s.Prefix[:i])
			add("prefix", s.Prefix[i+1:])
		} else {
			add("prefix", s.Prefix)
		}
		delete(set, "prefix:empty")
	}
	if s.OrderBy != "" {
		set["orderby"] = true
		add("orderby", s.OrderBy)
	}
	for _, x := range []struct {
		name string
		v    int
	}{{"limit", s.Limit}, {"offset", s.Offset}} {
		switch {
		case x.v < 0:
			set["negative-"+x.name] = true
		case x.v > math.MaxInt32:
			set[x.name+"-beyond-int31"] = true
		case x.v > 0:
			set[x.name] = true
		}
	}
	if s.Where != nil {
		if e, ok := whereEndsInParen(printed); ok && e || !ok && lastIsGroup(s.Where, true) {
			set["where-ends-in-group"] = true
		}
		var walk func(n *Node, inGroup bool)
		walk = func(n *Node, inGroup bool) {
			switch n.T {
			case "and", "or":
				switch len(n.C) {
				case 0:
					set["empty-group"] = true
				case 1:
					set["single-child-group"] = true
				default:
					set["group"] = true
				}
				if inGroup {
					set["nested-group"] = true
				}
				for _, c := range n.C {
					walk(c, true)
				}
			case "not":
				switch n.C[0].T {
				case "not":
					set["double-not"] = true
				case "leaf":
					set["not-over-leaf"] = true
				default:
					set["not-over-group"] = true
				}
				walk(n.C[0], inGroup)
			default:
				if isDefaultLeaf(n) {
					return
				}
				before := len(set)
				if n.Key != "a" {
					add("key", n.Key)
				}
				kind := opKind(n.Op)
				if n.V != nil {
					switch {
					case n.V.K == "str" && kind == "string":
						if n.V.S != "x" {
							add("value", n.V.S)
						}
					case n.V.K == "str" && kind == "regex":
						add("regex", n.V.S)
					case n.V.K == "str" && kind == "in":
						add("in-text", n.V.S)
					case n.V.K == "strs":
						if len(n.V.L) < 2 {
							set["in-list-short"] = true
						}
						for _, e := range n.V.L {
							add("in-element", e)
						}
					}
				}
				if len(set) == before && leafKinds {
					set["leaf:"+kind] = true
				}
			}
		}
		walk(s.Where, false)
	}
	if endsInMultibyte(printed) {
		set["text-ends-in-multibyte-rune"] = true
		for k := range set {
			if strings.HasSuffix(k, ":multibyte") {
				delete(set, k)
			}
		}
	}
	if set["where-ends-in-group"] {
		delete(set, "group")
		delete(set, "nested-group")
		delete(set, "not-over-group")
	}
	if set["nested-group"] || set["single-child-group"] || set["empty-group"] {
		delete(set, "group")
	}
	out := make([]string, 0, len(set))
	for k := range set {
		out = append(out, k)
	}
	sortStrings(out)
	if len(out) == 0 {
		return []string{"plain"}
	}
	return out
}

func sortStrings(a []string) {
	for i := 1; i < len(a); i++ {
		for j := i; j > 0 && a[j] < a[j-1]; j-- {
			a[j], a[j-1] = a[j-1], a[j]
		}
	}
}

// ---------- size measure and shrinking ----------

func runeRank(r rune) int {
	switch {
	case r >= 'a' && r <= 'z' || r >= '0' && r <= '9' || r == ':' || r == '/' || r == '.':
		return 0
	case r == ' ':
		return 1
	case r == '\\':
		return 2
	case r == '"':
		return 3
	case r == '(':
		return 4
	case r == ')':
		return 5
	case r == ',':
		return 6
	case r == '\t':
		return 7
	case r == '\n':
		return 8
	case isOtherSpace(r):
		return 11
	case r < 0x80:
		return 9
	}
	return 10
}

func tokCost(t, def string) int {
	if t == def {
		return 0
	}
	c := 3
	for _, r := range t {
		c += 20 + runeRank(r)
	}
	if keywordSet[t] {
		c += 15
	}
	return c
}

func (n *Node) cost() int {
	if n == nil {
		return 0
	}
	if n.T != "leaf" {
		c := 1000
		if n.T == "or" {
			c += 5
		}
		for _, x := range n.C {
			c += x.cost()
		}
		return c
	}
	if isDefaultLeaf(n) {
		return 1000
	}
	c := 1000
	if n.Key != "a" {
		c += 100 + tokCost(n.Key, "a")
	}
	kind := opKind(n.Op)
	switch kind {
	case "int":
		c += 1 + n.Op
		if n.V == nil || n.V.K != "int" {
			c += 2
		}
		if n.V == nil || n.V.I != 1 {
			c += 5
		}
		if n.V != nil && n.V.K == "str" {
			c += 5 + tokCost(n.V.S, "")
		}
	case "float":
		c += 10 + n.Op
		if n.V == nil || n.V.K != "float64" {
			c += 2
		}
		if n.V == nil || n.V.F != "1.5" {
			c += 5
		}
		if n.V != nil && n.V.K == "str" {
			c += 5 + tokCost(n.V.S, "")
		}
	case "bool":
		c += 10
		if n.V == nil || n.V.K != "bool" {
			c += 2 + tokCost(n.V.S, "")
		}
		if n.V != nil && !n.V.B {
			c++
		}
	case "exists":
		c += 10
	case "string":
		c += 20 + (n.Op - opSameAs)
		if n.V == nil || n.V.K != "str" {
			c += 50
		} else {
			c += tokCost(n.V.S, "x")
		}
	case "in":
		c += 60
		if n.V == nil {
			c += 50
		} else if n.V.K == "strs" {
			for _, e := range n.V.L {
				c += 30 + tokCost(e, "x")
			}
		} else {
			c += 40 + tokCost(n.V.S, "")
		}
	case "regex":
		c += 80
		if n.V != nil {
			c += tokCost(n.V.S, "x")
		}
	default:
		c += 500
	}
	return c
}

func (s *QSpec) cost() int {
	c := s.Where.cost()
	if s.Prefix != "db:" {
		if strings.HasPrefix(s.Prefix, "db:") {
			c += 3000 + tokCost(s.Prefix[3:], "")
		} else {
			c += 3500 + tokCost(s.Prefix, "")
		}
	}
	if s.OrderBy != "" {
		c += 2000 + tokCost(s.OrderBy, "z")
	}
	for i, v := range []int{s.Limit, s.Offset} {
		switch {
		case v == 0:
		case v == 1:
			c += 300 + 10*i
		default:
			c += 350 + 10*i
		}
	}
	return c
}

func dropRune(t string) []string {
	var out []string
	seen := map[string]bool{}
	for i := range t {
		_, sz := utf8.DecodeRuneInString(t[i:])
		x := t[:i] + t[i+sz:]
		if !seen[x] {
			seen[x] = true
			out = append(out, x)
		}
	}
	return out
}

// swapRune lists variants of t with one rune replaced by a simpler probe character.
func swapRune(t string, special bool) []string {
	var out []string
	seen := map[string]bool{t: true}
	for i, r := range t {
		_, sz := utf8.DecodeRuneInString(t[i:])
		for _, p := range []string{"a", " ", "\\", `"`, "("} {
			pr, _ := utf8.DecodeRuneInString(p)
			if runeRank(pr) >= runeRank(r) || p != "a" && !special {
				continue
			}
			x := t[:i] + p + t[i+sz:]
			if !seen[x] {
				seen[x] = true
				out = append(out, x)
			}
		}
	}
	return out
}

// shorter lists simpler variants of a token; a non-empty token never becomes the
// empty token (that would be a different scenario family).
// Replacing one special character by another is allowed only in the prefix and
// orderby slots (printed without any escaping, so the classes are equivalent there).
func shorter(t string) []string { return shorterX(t, false) }

func shorterX(t string, special bool) []string {
	var out []string
	for _, x := range append(dropRune(t), swapRune(t, special)...) {
		if x != "" {
			out = append(out, x)
		}
	}
	return out
}

// nodePaths lists every node position as a path of child indices.
func nodePaths(n *Node, cur []int, out *[][]int) {
	if n == nil {
		return
	}
	*out = append(*out, append([]int{}, cur...))
	for i, c := range n.C {
		nodePaths(c, append(cur, i), out)
	}
}

func nodeAt(n *Node, path []int) *Node {
	for _, i := range path {
		n = n.C[i]
	}
	return n
}

// withNode returns a copy of s in which the node at path is replaced by repl.
func withNode(s *QSpec, path []int, repl *Node) *QSpec {
	t := s.clone()
	if len(path) == 0 {
		t.Where = repl
		return t
	}
	p := nodeAt(t.Where, path[:len(path)-1])
	p.C[path[len(path)-1]] = repl
	return t
}

type stopSearch struct{}

// firstCandidate returns the first simplification of s (biggest steps first)
// that is strictly cheaper and accepted by try.
func firstCandidate(s *QSpec, try func(*QSpec) bool) (found *QSpec) {
	defer func() {
		if r := recover(); r != nil {
			if _, ok := r.(stopSearch); !ok {
				panic(r)
			}
		}
	}()
	cc := s.cost()
	eachCandidate(s, func(t *QSpec) {
		if t.cost() < cc && try(t) {
			found = t
			panic(stopSearch{})
		}
	})
	return found
}

// eachCandidate enumerates simplifications of s, biggest steps first.
func eachCandidate(s *QSpec, add func(t *QSpec)) {
	if s.Prefix != "db:" {
		t := s.clone()
		t.Prefix = "db:"
		add(t)
	}
	if s.OrderBy != "" {
		t := s.clone()
		t.OrderBy = ""
		add(t)
	}
	if s.Limit != 0 {
		t := s.clone()
		t.Limit = 0
		add(t)
	}
	if s.Offset != 0 {
		t := s.clone()
		t.Offset = 0
		add(t)
	}
	if s.Where != nil {
		t := s.clone()
		t.Where = nil
		add(t)
	}
	// move a special orderby / prefix token into the simplest slot
	if s.OrderBy != "" && s.OrderBy != "z" {
		add(&QSpec{Prefix: "db:", Where: leaf("a", opSameAs, vStr(s.OrderBy))})
	}
	if s.Prefix != "db:" {
		if i := strings.Index(s.Prefix, ":"); i >= 0 && s.Prefix[i+1:] != "" {
			add(&QSpec{Prefix: "db:", Where: leaf("a", opSameAs, vStr(s.Prefix[i+1:]))})
			t := s.clone()
			t.Prefix = "db:" + s.Prefix[i+1:]
			add(t)
		}
		if strings.HasPrefix(s.Prefix, "db:") {
			for _, x := range shorterX(s.Prefix[3:], true) {
				t := s.clone()
				t.Prefix = "db:" + x
				add(t)
			}
		} else {
			for _, x := range shorterX(s.Prefix, true) {
				t := s.clone()
				t.Prefix = x
				add(t)
			}
		}
	}
	if s.OrderBy != "" {
		if s.OrderBy != "z" {
			t := s.clone()
			t.OrderBy = "z"
			add(t)
		}
		for _, x := range shorterX(s.OrderBy, true) {
			if x != "" {
				t := s.clone()
				t.OrderBy = x
				add(t)
			}
		}
	}
	if s.Limit != 0 && s.Limit != 1 {
		t := s.clone()
		t.Limit = 1
		add(t)
	}
	if s.Offset != 0 && s.Offset != 1 {
		t := s.clone()
		t.Offset = 1
		add(t)
	}
	if s.Offset != 0 && s.Limit == 0 {
		t := s.clone()
		t.Limit, t.Offset = s.Offset, 0
		add(t)
	}
	if s.Where == nil {
		return
	}
	var paths [][]int
	nodePaths(s.Where, nil, &paths)
	// canonical contexts for a single non-default leaf
	for _, p := range paths {
		n := nodeAt(s.Where, p)
		if n.T != "leaf" || isDefaultLeaf(n) {
			continue
		}
		add(&QSpec{Prefix: "db:", Where: n.clone()})
		add(&QSpec{Prefix: "db:", Where: n.clone(), Limit: 1})
		add(&QSpec{Prefix: "db:", Where: not(n.clone())})
		add(&QSpec{Prefix: "db:", Where: and(n.clone(), defLeaf(0))})
		add(&QSpec{Prefix: "db:", Where: and(defLeaf(0), n.clone())})
	}
	// replace a node by one of its children
	for _, p := range paths {
		n := nodeAt(s.Where, p)
		for _, c := range n.C {
			add(withNode(s, p, c.clone()))
		}
	}
	// replace a node by the default leaf
	for _, p := range paths {
		n := nodeAt(s.Where, p)
		if !isDefaultLeaf(n) {
			add(withNode(s, p, defLeaf(0)))
		}
	}
	// remove one child of a group with >= 3 children; or -> and
	for _, p := range paths {
		n := nodeAt(s.Where, p)
		if (n.T == "and" || n.T == "or") && len(n.C) >= 3 {
			for i := range n.C {
				m := n.clone()
				m.C = append(m.C[:i:i], m.C[i+1:]...)
				add(withNode(s, p, m))
			}
		}
		if n.T == "or" {
			m := n.clone()
			m.T = "and"
			add(withNode(s, p, m))
		}
	}
	// simplify leaves
	for _, p := range paths {
		n := nodeAt(s.Where, p)
		if n.T != "leaf" || isDefaultLeaf(n) {
			continue
		}
		rep := func(m *Node) { add(withNode(s, p, m)) }
		kind := opKind(n.Op)
		// move a special key into the value slot of a plain sameas leaf
		if n.Key != "a" {
			rep(leaf("a", opSameAs, vStr(n.Key)))
			m := n.clone()
			m.Key = "a"
			rep(m)
		}
		if n.V != nil {
			switch {
			case n.V.K == "str" && (kind == "string" || kind == "regex" || kind == "in"):
				if !(kind == "string" && n.Op == opSameAs) {
					rep(leaf(n.Key, opSameAs, vStr(n.V.S)))
				}
				if n.V.S != "x" && kind != "in" {
					m := n.clone()
					m.V.S = "x"
					rep(m)
				}
			case n.V.K == "strs":
				for _, e := range n.V.L {
					rep(leaf(n.Key, opSameAs, vStr(e)))
				}
				if len(n.V.L) > 2 {
					for i := range n.V.L {
						m := n.clone()
						m.V.L = append(m.V.L[:i:i], m.V.L[i+1:]...)
						rep(m)
					}
				}
				for i, e := range n.V.L {
					for _, d := range []string{"x", "y"} {
						if e != d && len(e) > 0 {
							m := n.clone()
							m.V.L[i] = d
							rep(m)
						}
					}
				}
			case kind == "int":
				rep(leaf(n.Key, n.Op, vGoInt(1)))
				rep(leaf(n.Key, opEquals, &Val{K: n.V.K, I: n.V.I, S: n.V.S, F: n.V.F}))
			case kind == "float":
				rep(leaf(n.Key, n.Op, vFloat(1.5)))
				rep(leaf(n.Key, opFEquals, &Val{K: n.V.K, I: n.V.I, S: n.V.S, F: n.V.F}))
			case kind == "bool":
				rep(leaf(n.Key, n.Op, vBool(true)))
			}
		}
		// shorten string tokens by one rune
		if n.Key != "a" {
			for _, x := range shorter(n.Key) {
				m := n.clone()
				m.Key = x
				rep(m)
			}
		}
		if n.V != nil && n.V.K == "str" && kind != "int" && kind != "float" && kind != "bool" {
			for _, x := range shorter(n.V.S) {
				m := n.clone()
				m.V.S = x
				rep(m)
			}
		}
		if n.V != nil && n.V.K == "strs" {
			for i, e := range n.V.L {
				for _, x := range shorter(e) {
					m := n.clone()
					m.V.L[i] = x
					rep(m)
				}
			}
		}
	}
}
