package main

import (
	"regexp"
	"strconv"
	"strings"
)

// ---------- reference: hand-written recogniser of the documented grammar ----------
//
// Sources: database/query/README.md (control flow, operators, escaping), the
// doc comment of ParseQuery and the clause layout "query <prefix> [where ..]
// [orderby key] [limit n] [offset n]" shown by Print and the package tests.
// The recogniser is deliberately conservative: whatever the documentation
// leaves open is NOT accepted (accepting a string obliges the parser to accept
// it), see the c.Assume lines in main.go.

type rtok struct {
	text    string
	quoted  bool
	escaped bool // contains a backslash escape
	paren   byte // '(' or ')' for parenthesis tokens
}

type lexInfo struct {
	escapeInWord   bool
	escapeInQuotes bool
	quoted         bool
	tightParens    bool
	prefixNot      bool // "not" in front of a plain condition (accepted by the parser, documented for groups only)
}

func isWS(c byte) bool { return c == ' ' || c == '\t' || c == '\n' || c == '\r' }

func refTokenize(s string) ([]rtok, lexInfo, bool) {
	var toks []rtok
	var li lexInfo
	i := 0
	for i < len(s) {
		c := s[i]
		switch {
		case isWS(c):
			i++
		case c == '(' || c == ')':
			if c == '(' && i > 0 && !isWS(s[i-1]) && s[i-1] != '(' || c == ')' && i+1 < len(s) && !isWS(s[i+1]) && s[i+1] != ')' {
				li.tightParens = true
			}
			toks = append(toks, rtok{text: string(c), paren: c})
			i++
		case c == '"':
			// quoted token: \" and \\ are the documented escapes
			var b strings.Builder
			esc := false
			j := i + 1
			closed := false
			for j < len(s) {
				d := s[j]
				if d == '\\' {
					if j+1 >= len(s) {
						return nil, li, false
					}
					if s[j+1] != '"' && s[j+1] != '\\' {
						return nil, li, false // undocumented escape inside quotes
					}
					b.WriteByte(s[j+1])
					esc = true
					j += 2
					continue
				}
				if d == '"' {
					closed = true
					j++
					break
				}
				b.WriteByte(d)
				j++
			}
			if !closed {
				return nil, li, false
			}
			if j < len(s) && !isWS(s[j]) && s[j] != '(' && s[j] != ')' {
				return nil, li, false // text glued to a closing quote: undocumented
			}
			li.quoted = true
			if esc {
				li.escapeInQuotes = true
			}
			toks = append(toks, rtok{text: b.String(), quoted: true, escaped: esc})
			i = j
		default:
			var b strings.Builder
			esc := false
			j := i
			for j < len(s) {
				d := s[j]
				if isWS(d) || d == '(' || d == ')' {
					break
				}
				if d == '"' {
					return nil, li, false // unescaped quote inside a word
				}
				if d == '\\' {
					if j+1 >= len(s) {
						return nil, li, false
					}
					e := s[j+1]
					if !(e == '(' || e == ')' || e == '"' || e == '\\' || isWS(e)) {
						return nil, li, false // undocumented escape
					}
					b.WriteByte(e)
					esc = true
					j += 2
					continue
				}
				b.WriteByte(d)
				j++
			}
			if esc {
				li.escapeInWord = true
			}
			toks = append(toks, rtok{text: b.String(), escaped: esc})
			i = j
		}
	}
	return toks, li, true
}

var refOps = func() map[string]int {
	m := map[string]int{}
	for id, names := range opNames {
		for _, n := range names {
			m[n] = id
		}
	}
	return m
}()

var (
	reInt   = regexp.MustCompile(`^-?[0-9]+$`)
	reFloat = regexp.MustCompile(`^-?[0-9]+(\.[0-9]+)?([eE][-+]?[0-9]+)?$`)
	reUint  = regexp.MustCompile(`^[0-9]+$`)
)

var refBools = map[string]bool{"1": true, "t": true, "T": true, "true": true, "True": true, "TRUE": true,
	"0": false, "f": false, "F": false, "false": false, "False": false, "FALSE": false}

type refParser struct {
	toks      []rtok
	pos       int
	aliasOp   bool
	prefixNot bool
	ok        bool
	maxDepth  int
}

func (p *refParser) peek() *rtok {
	if p.pos < len(p.toks) {
		return &p.toks[p.pos]
	}
	return nil
}

// plain keyword: an unquoted, unescaped word with exactly this text
func (t *rtok) isKeyword(k string) bool {
	return t != nil && t.paren == 0 && !t.quoted && !t.escaped && t.text == k
}

// a token usable as key / prefix / orderby name: a word that cannot be confused with control words
func (t *rtok) isName() bool {
	if t == nil || t.paren != 0 || t.text == "" && !t.quoted {
		return false
	}
	if keywordSet[t.text] {
		return false
	}
	if _, isOp := refOps[t.text]; isOp {
		return false
	}
	return true
}

// refParse returns the query a string of the documented grammar denotes.
func refParse(s string) (*QSpec, lexInfo, bool) {
	toks, li, ok := refTokenize(s)
	if !ok || len(toks) < 2 {
		return nil, li, false
	}
	p := &refParser{toks: toks}
	if !p.peek().isKeyword("query") {
		return nil, li, false
	}
	p.pos++
	pre := p.peek()
	if !pre.isName() || pre.text == "" {
		return nil, li, false
	}
	p.pos++
	q := &QSpec{Prefix: pre.text}
	if !strings.Contains(q.Prefix, ":") {
		// New("name") and New("name:") denote the same query
		q.Prefix += ":"
	}
	if p.peek().isKeyword("where") {
		p.pos++
		n, ok := p.expr(0)
		if !ok {
			return nil, li, false
		}
		q.Where = n
	}
	if p.peek().isKeyword("orderby") {
		p.pos++
		t := p.peek()
		if !t.isName() || t.text == "" {
			return nil, li, false
		}
		q.OrderBy = t.text
		p.pos++
	}
	for _, cl := range []string{"limit", "offset"} {
		if p.peek().isKeyword(cl) {
			p.pos++
			t := p.peek()
			if t == nil || t.paren != 0 || t.quoted || t.escaped || !reUint.MatchString(t.text) || len(t.text) > 10 {
				return nil, li, false
			}
			n, err := strconv.ParseInt(t.text, 10, 64)
			if err != nil || n < 1 || n > 1<<31-1 {
				return nil, li, false // 0 means "no limit" in the object and is not printed: left open
			}
			if cl == "limit" {
				q.Limit = int(n)
			} else {
				q.Offset = int(n)
			}
			p.pos++
		}
	}
	if p.pos != len(p.toks) {
		return nil, li, false
	}
	li.prefixNot = p.prefixNot
	return q, li, true
}

// expr := term (("and" term)+ | ("or" term)+)?
func (p *refParser) expr(depth int) (*Node, bool) {
	if depth > 16 {
		return nil, false
	}
	first, ok := p.term(depth)
	if !ok {
		return nil, false
	}
	terms := []*Node{first}
	conn := ""
	for {
		t := p.peek()
		switch {
		case t.isKeyword("and"), t.isKeyword("or"):
			if conn != "" && conn != t.text {
				return nil, false // no mixing
			}
			conn = t.text
			p.pos++
			n, ok := p.term(depth)
			if !ok {
				return nil, false
			}
			terms = append(terms, n)
		default:
			if len(terms) == 1 {
				return first, true
			}
			return &Node{T: conn, C: terms}, true
		}
	}
}

// term := ["not"] "(" expr ")" | key ["not"] op [value]
func (p *refParser) term(depth int) (*Node, bool) {
	t := p.peek()
	if t == nil {
		return nil, false
	}
	neg := false
	if t.isKeyword("not") {
		neg = true
		p.pos++
		t = p.peek()
		if t == nil || t.paren == ')' {
			return nil, false
		}
		if t.paren != '(' {
			// "not" in front is documented for groups only; the parser also takes it in front of a plain
			// condition. Extension (flagged): it negates that one condition, like "not (cond)".
			p.prefixNot = true
		}
	}
	if t.paren == '(' {
		p.pos++
		n, ok := p.expr(depth + 1)
		if !ok {
			return nil, false
		}
		c := p.peek()
		if c == nil || c.paren != ')' {
			return nil, false
		}
		p.pos++
		if n.T != "and" && n.T != "or" {
			n = and(n) // a parenthesised single term is a group of one
		}
		if neg {
			return not(n), true
		}
		return n, true
	}
	if !t.isName() || t.text == "" {
		return nil, false // empty keys: left open
	}
	key := t.text
	p.pos++
	o := p.peek()
	negLeaf := false
	if o.isKeyword("not") && neg {
		return nil, false // prefix and infix "not" on one condition: left open
	}
	if o.isKeyword("not") {
		negLeaf = true
		p.pos++
		o = p.peek()
	}
	if o == nil || o.paren != 0 || o.quoted || o.escaped {
		return nil, false
	}
	op, isOp := refOps[o.text]
	if !isOp {
		return nil, false
	}
	if o.text != opNames[op][0] {
		p.aliasOp = true
	}
	p.pos++
	var l *Node
	if op == opExists {
		l = leaf(key, op, vNil())
	} else {
		v := p.peek()
		if v == nil || v.paren != 0 {
			return nil, false
		}
		// an unquoted control word in value position is ambiguous: not accepted
		if !v.quoted && !v.escaped && keywordSet[v.text] {
			return nil, false
		}
		p.pos++
		switch opKind(op) {
		case "int":
			if v.quoted || v.escaped || !reInt.MatchString(v.text) {
				return nil, false
			}
			n, err := strconv.ParseInt(v.text, 10, 64)
			if err != nil {
				return nil, false
			}
			l = leaf(key, op, vInt(n))
		case "float":
			if v.quoted || v.escaped || !reFloat.MatchString(v.text) {
				return nil, false
			}
			f, err := strconv.ParseFloat(v.text, 64)
			if err != nil {
				return nil, false
			}
			l = leaf(key, op, vFloat(f))
		case "bool":
			b, ok := refBools[v.text]
			if !ok || v.quoted || v.escaped {
				return nil, false
			}
			l = leaf(key, op, vBool(b))
		case "string":
			l = leaf(key, op, vStr(v.text))
		case "in":
			parts := strings.Split(v.text, ",")
			if len(parts) < 2 {
				return nil, false // single-element lists: left open by the README
			}
			l = leaf(key, op, vStrs(parts...))
		case "regex":
			if _, err := regexp.Compile(v.text); err != nil {
				return nil, false
			}
			l = leaf(key, op, vStr(v.text))
		default:
			return nil, false
		}
	}
	if negLeaf || neg {
		return not(l), true
	}
	return l, true
}

// ---------- rendering a spec as text of the documented grammar, in variants ----------

type ropt struct {
	Alias      bool `json:"alias"`       // use the short operator names
	Quote      int  `json:"quote"`       // 0 quote when needed, 1 backslash-escape when needed, 2 always quote
	Paren      int  `json:"paren"`       // 0 "(a and b)", 1 "( a and b )", 2 no blanks next to any parenthesis
	Sep        int  `json:"sep"`         // 0 one blank, 1 two blanks, 2 tab
	RootParens bool `json:"root_parens"` // keep the parentheses around a root group
	PrefixNot  bool `json:"prefix_not"`  // write a negated plain condition as "not key op value" instead of "key not op value"
}

func needsQuoting(t string) bool { return t == "" || strings.ContainsAny(t, "()\"\\\t\r\n ") }

func renderToken(t string, style int) string {
	switch {
	case style == 1 && t != "":
		var b strings.Builder
		for i := 0; i < len(t); i++ {
			if strings.IndexByte("()\"\\\t\r\n ", t[i]) >= 0 {
				b.WriteByte('\\')
			}
			b.WriteByte(t[i])
		}
		return b.String()
	case style == 2 || needsQuoting(t):
		r := strings.ReplaceAll(t, `\`, `\\`)
		r = strings.ReplaceAll(r, `"`, `\"`)
		return `"` + r + `"`
	}
	return t
}

// renderWords produces the word sequence of the where clause.
func renderNode(n *Node, o ropt, out *[]string) bool {
	switch n.T {
	case "leaf":
		return renderLeaf(n, false, o, out)
	case "not":
		c := n.C[0]
		switch c.T {
		case "leaf":
			if o.PrefixNot {
				*out = append(*out, "not")
				return renderLeaf(c, false, o, out)
			}
			return renderLeaf(c, true, o, out)
		case "not":
			// not (<inner not>)
			*out = append(*out, "not", "(")
			if !renderNode(c, o, out) {
				return false
			}
			*out = append(*out, ")")
			return true
		default:
			*out = append(*out, "not")
			return renderNode(c, o, out)
		}
	default:
		if len(n.C) == 0 {
			return false // no text form
		}
		*out = append(*out, "(")
		for i, c := range n.C {
			if i > 0 {
				*out = append(*out, n.T)
			}
			if !renderNode(c, o, out) {
				return false
			}
		}
		*out = append(*out, ")")
		return true
	}
}

func renderLeaf(n *Node, neg bool, o ropt, out *[]string) bool {
	if n.Key == "" || keywordSet[n.Key] || n.Op < 0 || n.Op >= len(opNames) {
		return false
	}
	if _, isOp := refOps[n.Key]; isOp {
		return false
	}
	*out = append(*out, renderToken(n.Key, o.Quote))
	if neg {
		*out = append(*out, "not")
	}
	names := opNames[n.Op]
	name := names[0]
	if o.Alias && len(names) > 1 {
		name = names[1]
	}
	*out = append(*out, name)
	if n.V == nil {
		return n.Op == opExists
	}
	switch opKind(n.Op) {
	case "exists":
		return true
	case "int":
		if n.V.K == "str" || strings.HasPrefix(n.V.K, "float") {
			return false
		}
		*out = append(*out, strconv.FormatInt(n.V.I, 10))
	case "float":
		var f float64
		switch n.V.K {
		case "float64", "float32":
			f = parseFloatS(n.V.F)
			if n.V.K == "float32" {
				f = float64(float32(f))
			}
		case "int64", "int", "uint8", "uint32":
			f = float64(n.V.I)
		default:
			return false
		}
		t := fmtFloat(f)
		if !reFloat.MatchString(t) {
			return false // NaN, Inf: no documented text form
		}
		*out = append(*out, t)
	case "bool":
		if n.V.K != "bool" {
			return false
		}
		*out = append(*out, strconv.FormatBool(n.V.B))
	case "string", "regex":
		if n.V.K != "str" {
			return false
		}
		if !(o.Quote != 1 && needsQuoting(n.V.S) || o.Quote == 2) && keywordSet[n.V.S] {
			return false
		}
		if opKind(n.Op) == "regex" {
			if _, err := regexp.Compile(n.V.S); err != nil {
				return false
			}
		}
		*out = append(*out, renderToken(n.V.S, o.Quote))
	case "in":
		var l []string
		if n.V.K == "strs" {
			l = n.V.L
		} else if n.V.K == "str" {
			l = strings.Split(n.V.S, ",")
		} else {
			return false
		}
		if len(l) < 2 {
			return false
		}
		for _, e := range l {
			if strings.Contains(e, ",") && n.V.K == "strs" {
				return false // no text form
			}
		}
		j := strings.Join(l, ",")
		if o.Quote == 0 && !needsQuoting(j) && keywordSet[j] {
			return false
		}
		*out = append(*out, renderToken(j, o.Quote))
	default:
		return false
	}
	return true
}

// render returns a text of the documented grammar that denotes s, or false if s has none.
func render(s *QSpec, o ropt) (string, bool) {
	if s.Prefix == "" || keywordSet[s.Prefix] || s.Limit < 0 || s.Offset < 0 || s.Limit > 1<<31-1 || s.Offset > 1<<31-1 {
		return "", false
	}
	if _, isOp := refOps[s.Prefix]; isOp {
		return "", false
	}
	words := []string{"query", renderToken(s.Prefix, o.Quote)}
	if s.Where != nil {
		words = append(words, "where")
		var w []string
		if !renderNode(s.Where, o, &w) {
			return "", false
		}
		if (s.Where.T == "and" || s.Where.T == "or") && !o.RootParens {
			w = w[1 : len(w)-1]
		}
		words = append(words, w...)
	}
	if s.OrderBy != "" {
		if keywordSet[s.OrderBy] {
			return "", false
		}
		if _, isOp := refOps[s.OrderBy]; isOp {
			return "", false
		}
		words = append(words, "orderby", renderToken(s.OrderBy, o.Quote))
	}
	if s.Limit > 0 {
		words = append(words, "limit", strconv.Itoa(s.Limit))
	}
	if s.Offset > 0 {
		words = append(words, "offset", strconv.Itoa(s.Offset))
	}
	sep := []string{" ", "  ", "\t"}[o.Sep%3]
	var b strings.Builder
	for i, w := range words {
		if i > 0 {
			prev := words[i-1]
			blank := true
			switch o.Paren {
			case 0:
				if prev == "(" || w == ")" {
					blank = false
				}
			case 2:
				if prev == "(" || prev == ")" || w == "(" || w == ")" {
					blank = false
				}
			}
			if blank {
				b.WriteString(sep)
			}
		}
		b.WriteString(w)
	}
	return b.String(), true
}

// whereEndsInParen reports whether the where clause of a text ends in ")"; ok is
// false if the text cannot be tokenized by the reference tokenizer.
func whereEndsInParen(text string) (ends bool, ok bool) {
	toks, _, ok := refTokenize(text)
	if !ok {
		return false, false
	}
	w := -1
	for i := range toks {
		if toks[i].isKeyword("where") && i >= 2 {
			w = i
			break
		}
	}
	if w < 0 {
		return false, true
	}
	last := len(toks) - 1
	for i := w + 1; i < len(toks); i++ {
		if toks[i].isKeyword("orderby") || toks[i].isKeyword("limit") || toks[i].isKeyword("offset") {
			last = i - 1
			break
		}
	}
	return last > w && toks[last].paren == ')', true
}
