// C11: query text and query objects convert into each other without change of meaning.
//
// Engine Q, depth-1 case (pure input property): bounded-exhaustive enumeration of
//   - query objects built through the public API (all tree shapes up to a depth
//     bound x leaf alphabet over all 18 operators x special-character tokens in
//     every token slot x prefix/orderby/limit/offset), each printed, parsed back,
//     re-printed and compared on derived witness records; and
//   - parser inputs (token strings, character strings, condition-unit strings,
//     variant renderings of the enumerated objects), each parsed by the real
//     parser and by a hand-written recogniser of the documented grammar.
//
// Every failing case is shrunk deterministically to a minimal witness; the
// scenario family of the finding (signature site) is named after the features
// of that minimal witness.
package main

import (
	"fmt"
	"hash/fnv"
	"math"
	"os"
	"regexp"
	"runtime/debug"
	"runtime/pprof"
	"sort"
	"strings"
	"sync"
	"sync/atomic"
	"time"
	"unicode/utf8"

	"github.com/safing/portbase/database/query"
	"github.com/safing/portbase/database/record"
	"github.com/safing/portbase/formats/dsd"

	"verif/vlib"
)

// ---------- the round trip oracle (object -> text -> object) ----------

const (
	lvParse = iota + 1
	lvReprint
	lvMatches
	lvTokens
)

type rtOut struct {
	class    string // "ok", "check-rejected", "build-panic" or the violated clause
	level    int
	disc     string
	detail   string
	printed  string
	discrim  bool // the witness records made the query both match and not match
	calls    int64
	nrecords int
}

var implCalls int64
var c11stages []float64

func roundTrip(s *QSpec, upto int) rtOut { return roundTripX(s, upto, true) }

func roundTripX(s *QSpec, upto int, wantDetail bool) (o rtOut) {
	defer func() { atomic.AddInt64(&implCalls, o.calls) }()
	var q *query.Query
	if p, _ := vlib.Catch(func() { q = s.build() }); p != nil {
		return rtOut{class: "build-panic", detail: fmt.Sprint(p)}
	}
	o.calls++
	if _, err := q.Check(); err != nil {
		o.class = "check-rejected"
		return o
	}
	var printed string
	o.calls++
	if p, st := vlib.Catch(func() { printed = q.Print() }); p != nil {
		o.class, o.level, o.disc = "print-never-panics", 0, "panic:"+vlib.PanicSite(st)
		if wantDetail {
			o.detail = fmt.Sprintf("%s: Print() panicked: %v", s.goExpr(), p)
		}
		return o
	}
	o.printed = printed
	var q2 *query.Query
	var err error
	o.calls++
	if p, st := vlib.Catch(func() { q2, err = query.ParseQuery(printed) }); p != nil {
		o.class, o.level, o.disc = "printed-text-parses", lvParse, "panic:"+vlib.PanicSite(st)
		if wantDetail {
			o.detail = fmt.Sprintf("%s prints as %q; ParseQuery of that text panicked: %v", s.goExpr(), printed, p)
		}
		return o
	}
	if err != nil {
		o.class, o.level, o.disc = "printed-text-parses", lvParse, "error-instead-of-ok"
		if wantDetail {
			o.detail = fmt.Sprintf("%s passes Check and prints as %q; ParseQuery of that text fails: %v", s.goExpr(), printed, err)
		}
		return o
	}
	if q2 == nil || !q2.IsChecked() {
		o.class, o.level, o.disc = "printed-text-parses", lvParse, "unchecked-query"
		if wantDetail {
			o.detail = fmt.Sprintf("%s prints as %q; ParseQuery returned no error but query=%v checked=false", s.goExpr(), printed, q2)
		}
		return o
	}
	if upto < lvReprint {
		o.class = "ok"
		return o
	}
	var printed2 string
	o.calls++
	if p, st := vlib.Catch(func() { printed2 = q2.Print() }); p != nil {
		o.class, o.level, o.disc = "reprint-identical", lvReprint, "panic:"+vlib.PanicSite(st)
		if wantDetail {
			o.detail = fmt.Sprintf("%s prints as %q; printing the re-parsed query panicked: %v", s.goExpr(), printed, p)
		}
		return o
	}
	if printed2 != printed {
		o.class, o.level, o.disc = "reprint-identical", lvReprint, "different-text"
		if wantDetail {
			o.detail = fmt.Sprintf("%s prints as %q; that text parses to a query which prints as %q", s.goExpr(), printed, printed2)
		}
		return o
	}
	if upto < lvMatches {
		o.class = "ok"
		return o
	}
	t1, t2 := query.VerifTree(q), query.VerifTree(q2)
	recs := witnessRecords(t1, t2)
	o.nrecords = len(recs)
	sawT, sawF := false, false
	for _, r := range recs {
		var m1, m2 bool
		o.calls += 2
		if p, st := vlib.Catch(func() { m1 = q.MatchesAccessor(r); m2 = q2.MatchesAccessor(r) }); p != nil {
			o.class, o.level, o.disc = "same-matches", lvMatches, "panic:"+vlib.PanicSite(st)
			if wantDetail {
				o.detail = fmt.Sprintf("%s / re-parsed %q: MatchesAccessor(%s) panicked: %v", s.goExpr(), printed, r, p)
			}
			return o
		}
		if m1 {
			sawT = true
		} else {
			sawF = true
		}
		if m1 != m2 {
			o.class, o.level, o.disc = "same-matches", lvMatches, "different-matches"
			if wantDetail {
				o.detail = fmt.Sprintf("%s prints as %q, which re-parses and re-prints identically, but record %s: original matches=%v, re-parsed matches=%v (re-parsed tree %s)",
					s.goExpr(), printed, r, m1, m2, dumpTree(t2))
			}
			return o
		}
	}
	o.discrim = sawT && sawF
	// key prefix part of "matches the same records"
	if q.DatabaseName() != q2.DatabaseName() {
		o.class, o.level, o.disc = "same-matches", lvMatches, "different-database"
		if wantDetail {
			o.detail = fmt.Sprintf("%s prints as %q; re-parsed query addresses database %q instead of %q", s.goExpr(), printed, q2.DatabaseName(), q.DatabaseName())
		}
		return o
	}
	for _, k := range []string{q.DatabaseKeyPrefix(), q2.DatabaseKeyPrefix(), q.DatabaseKeyPrefix() + "x", "", "k"} {
		o.calls += 2
		if q.MatchesKey(k) != q2.MatchesKey(k) {
			o.class, o.level, o.disc = "same-matches", lvMatches, "different-key-prefix"
			if wantDetail {
				o.detail = fmt.Sprintf("%s prints as %q; MatchesKey(%q): original %v, re-parsed %v (prefix %q vs %q)", s.goExpr(), printed, k, q.MatchesKey(k), q2.MatchesKey(k), q.DatabaseKeyPrefix(), q2.DatabaseKeyPrefix())
			}
			return o
		}
	}
	if upto < lvTokens {
		o.class = "ok"
		return o
	}
	if d, det := compareTokens(q, q2); d != "" {
		o.class, o.level, o.disc = "tokens-preserved", lvTokens, d
		if wantDetail {
			o.detail = fmt.Sprintf("%s prints as %q; after re-parsing: %s", s.goExpr(), printed, det)
		}
		return o
	}
	o.class = "ok"
	return o
}

// compareTokens compares key, prefix and value tokens of two real queries.
func compareTokens(q, q2 *query.Query) (disc, detail string) {
	if q.DatabaseName() != q2.DatabaseName() || q.DatabaseKeyPrefix() != q2.DatabaseKeyPrefix() {
		return "prefix-changed", fmt.Sprintf("prefix %q:%q became %q:%q", q.DatabaseName(), q.DatabaseKeyPrefix(), q2.DatabaseName(), q2.DatabaseKeyPrefix())
	}
	o1, _, _ := query.VerifClauses(q)
	o2, _, _ := query.VerifClauses(q2)
	if o1 != o2 {
		return "orderby-changed", fmt.Sprintf("orderby key %q became %q", o1, o2)
	}
	return compareLeaves(flatten(query.VerifTree(q), nil), flatten(query.VerifTree(q2), nil))
}

func compareLeaves(l1, l2 []leafTok) (disc, detail string) {
	if len(l1) != len(l2) {
		return "leaf-count-changed", fmt.Sprintf("%d conditions became %d", len(l1), len(l2))
	}
	for i := range l1 {
		a, b := l1[i], l2[i]
		switch {
		case a.Key != b.Key:
			return "key-changed", fmt.Sprintf("key %q became %q", a.Key, b.Key)
		case a.Kind != b.Kind || a.Op != b.Op:
			return "operator-changed", fmt.Sprintf("condition %d: %s/%d became %s/%d", i, a.Kind, a.Op, b.Kind, b.Op)
		case a.Val != b.Val:
			return "value-changed", fmt.Sprintf("value %q of key %q became %q", a.Val, a.Key, b.Val)
		}
	}
	return "", ""
}

// ---------- shrinking ----------

type failFn func(s *QSpec) (tag string, out rtOut)

var shrinkCache sync.Map // domain|tag|spec key -> *QSpec (minimal)

// shrink greedily applies the first simplification that keeps the same failure.
func shrink(domain string, s *QSpec, tag string, fails failFn) *QSpec {
	start := domain + "|" + tag + "|"
	var visited []string
	cur := s
	for steps := 0; steps < 10000; steps++ {
		k := start + cur.key()
		if m, ok := shrinkCache.Load(k); ok {
			cur = m.(*QSpec)
			break
		}
		visited = append(visited, k)
		next := firstCandidate(cur, func(cand *QSpec) bool {
			t, _ := fails(cand)
			return t == tag
		})
		if next == nil {
			break
		}
		cur = next
	}
	for _, k := range visited {
		shrinkCache.Store(k, cur)
	}
	return cur
}

func rtFails(s *QSpec) (string, rtOut) { return rtFailsAt(lvTokens, true)(s) }

// rtFailsAt evaluates the oracle only up to the level of the failure being shrunk.
func rtFailsAt(level int, detail bool) failFn {
	if level == 0 {
		level = lvParse
	}
	return func(s *QSpec) (string, rtOut) {
		o := roundTripX(s, level, detail)
		if o.level == 0 && o.class != "print-never-panics" {
			return "", o
		}
		return o.class + "|" + o.disc, o
	}
}

// ---------- violation collector (deterministic witness: smallest per signature) ----------

type witness struct {
	Kind    string `json:"kind"` // roundtrip | text | variant
	Spec    *QSpec `json:"spec,omitempty"`
	Go      string `json:"go,omitempty"`
	Printed string `json:"printed,omitempty"`
	Text    string `json:"text,omitempty"`
	Opt     *ropt  `json:"render,omitempty"`
}

type vrec struct {
	clause, site, disc, detail string
	wit                        witness
	size                       int
	wkey                       string
	count                      int64
}

var (
	vmu   sync.Mutex
	vrecs = map[string]*vrec{}
)

func report(clause, site, disc, detail string, w witness, size int, wkey string) {
	reportN(clause, site, disc, detail, w, size, wkey, 1)
}

func reportN(clause, site, disc, detail string, w witness, size int, wkey string, n int64) {
	sig := clause + "|" + site + "|" + disc
	vmu.Lock()
	defer vmu.Unlock()
	v, ok := vrecs[sig]
	if !ok {
		vrecs[sig] = &vrec{clause, site, disc, detail, w, size, wkey, n}
		return
	}
	v.count += n
	if size < v.size || (size == v.size && wkey < v.wkey) {
		v.detail, v.wit, v.size, v.wkey = detail, w, size, wkey
	}
}

func flush(c *vlib.Ctx) {
	vmu.Lock()
	defer vmu.Unlock()
	sigs := make([]string, 0, len(vrecs))
	for s := range vrecs {
		sigs = append(sigs, s)
	}
	sort.Strings(sigs)
	for _, s := range sigs {
		v := vrecs[s]
		c.Violate(v.clause, v.site, v.disc, fmt.Sprintf("%s\n[%d enumerated cases reduce to this signature]", v.detail, v.count), v.wit)
	}
}

// ---------- per-case drivers ----------

type stats struct {
	mu       sync.Mutex
	outcomes map[string]int64
	states   int64
	evals    int64
}

func newStats() *stats { return &stats{outcomes: map[string]int64{}} }

type localStats struct {
	outcomes map[string]int64
	states   int64
	evals    int64
	nontriv  []string
}

func (l *localStats) out(k string) {
	if l.outcomes == nil {
		l.outcomes = map[string]int64{}
	}
	l.outcomes[k]++
}

func (st *stats) merge(c *vlib.Ctx, l *localStats) {
	st.mu.Lock()
	for k, v := range l.outcomes {
		st.outcomes[k] += v
	}
	st.states += l.states
	st.evals += l.evals
	st.mu.Unlock()
	for _, k := range l.nontriv {
		c.Nontrivial(k)
	}
	l.nontriv = l.nontriv[:0]
	l.outcomes = nil
	l.states, l.evals = 0, 0
}

// sharded set of 64-bit hashes for de-duplicating enumerated cases
type hashSet struct {
	sh [64]struct {
		mu sync.Mutex
		m  map[uint64]struct{}
	}
}

func newHashSet() *hashSet {
	h := &hashSet{}
	for i := range h.sh {
		h.sh[i].m = map[uint64]struct{}{}
	}
	return h
}

func (h *hashSet) add(k string) bool {
	f := fnv.New64a()
	f.Write([]byte(k))
	x := f.Sum64()
	s := &h.sh[x%64]
	s.mu.Lock()
	defer s.mu.Unlock()
	if _, ok := s.m[x]; ok {
		return false
	}
	s.m[x] = struct{}{}
	return true
}

var (
	seenSpecs = newHashSet()
	seenTexts = newHashSet()
)

// checkSpec runs the round trip oracle on one API-built query.
func checkSpec(s *QSpec, l *localStats, stage string) {
	k := s.key()
	if !seenSpecs.add(k) {
		return
	}
	l.states++
	l.evals++
	o := roundTrip(s, lvTokens)
	switch o.class {
	case "ok":
		l.out("object:ok")
		if o.discrim {
			l.nontriv = append(l.nontriv, "S"+k)
		}
	case "check-rejected":
		l.out("object:check-rejected")
	case "build-panic":
		l.out("object:build-panic")
		report("api-builds", "constructors", "panic", s.goExpr()+": constructing the query panicked: "+o.detail, witness{Kind: "roundtrip", Spec: s, Go: s.goExpr()}, s.cost(), k)
	default:
		l.out("object:" + o.class + "/" + o.disc)
		reportSpecFailure(s, o)
	}
}

// Failing cases are grouped by (failure tag, features of the failing case); only the
// smallest case of every group is shrunk (after the enumeration), which keeps the
// result deterministic and the cost independent of how many cases fail.
type pending struct {
	kind  string // rt | variant | text
	spec  *QSpec
	opt   ropt
	text  string
	tag   string
	level int
	count int64
	size  int
	key   string
}

var (
	pmu  sync.Mutex
	pend = map[string]*pending{}
)

func addPending(group string, p *pending) {
	pmu.Lock()
	defer pmu.Unlock()
	q, ok := pend[group]
	if !ok {
		p.count = 1
		pend[group] = p
		return
	}
	if p.size < q.size || p.size == q.size && p.key < q.key {
		p.count = q.count + 1
		pend[group] = p
		return
	}
	q.count++
}

func resolvePending(c *vlib.Ctx) {
	pmu.Lock()
	groups := make([]string, 0, len(pend))
	for g := range pend {
		groups = append(groups, g)
	}
	pmu.Unlock()
	sort.Strings(groups)
	c.Extra("failure_groups_shrunk", int64(len(groups)))
	c.ParallelFor(len(groups), func(i int) {
		p := pend[groups[i]]
		switch p.kind {
		case "rt":
			resolveSpecFailure(p)
		case "variant":
			resolveVariantFailure(p.spec, p.opt, p.tag, p.count)
		case "text":
			resolveTextFailure(p)
		}
	})
	pend = map[string]*pending{}
}

func reportSpecFailure(s *QSpec, o rtOut) {
	tag := o.class + "|" + o.disc
	addPending("rt|"+tag+"|"+joinFeatures(features(s, o.printed, true)), &pending{kind: "rt", spec: s, tag: tag, level: o.level, size: s.cost(), key: s.key()})
}

func resolveSpecFailure(p *pending) {
	m := shrink("rt", p.spec, p.tag, rtFailsAt(p.level, false))
	_, mo := rtFails(m)
	site := joinFeatures(features(m, mo.printed, true))
	reportN(mo.class, site, mo.disc, mo.detail, witness{Kind: "roundtrip", Spec: m, Go: m.goExpr(), Printed: mo.printed}, m.cost(), m.key(), p.count)
}

// current input of every worker, for the termination watchdog
type heartbeat struct {
	text atomic.Value
	seq  int64
}

var beats []*heartbeat

func validTokens(q *query.Query) bool {
	ok := utf8.ValidString(q.DatabaseName()) && utf8.ValidString(q.DatabaseKeyPrefix())
	ob, _, _ := query.VerifClauses(q)
	ok = ok && utf8.ValidString(ob)
	for _, l := range flatten(query.VerifTree(q), nil) {
		ok = ok && utf8.ValidString(l.Key) && utf8.ValidString(l.Val)
	}
	return ok
}

func errClass(err error) string {
	m := err.Error()
	for _, p := range []string{"unexpected end", "queries must start", "duplicate", "could not parse integer", "unknown clause", "unknown operator",
		"you may not mix", "parenthesis", "could not parse", "could not compile regex", "no operator"} {
		if strings.HasPrefix(m, p) || strings.Contains(m, p) {
			return p
		}
	}
	return "other"
}

type textOut struct {
	tag    string // "" = fine
	clause string
	disc   string
	detail string
	ref    *QSpec
	li     lexInfo
	class  string
	q      *query.Query
}

// evalText parses one string with the real parser and the reference recogniser.
func evalText(text string) textOut { return evalTextX(text, true) }

func evalTextX(text string, wantDetail bool) (t textOut) {
	var q *query.Query
	var err error
	atomic.AddInt64(&implCalls, 1)
	if p, st := vlib.Catch(func() { q, err = query.ParseQuery(text) }); p != nil {
		t.clause, t.disc = "parse-never-panics", vlib.PanicSite(st)
		t.tag = t.clause + "|" + t.disc
		if wantDetail {
			t.detail = fmt.Sprintf("ParseQuery(%q) panicked: %v", text, p)
		}
		t.class = "panic"
		return t
	}
	if err == nil && (q == nil || !q.IsChecked()) {
		t.clause, t.disc = "parse-returns-checked-query-or-error", "unchecked-query"
		t.tag = t.clause + "|" + t.disc
		if wantDetail {
			t.detail = fmt.Sprintf("ParseQuery(%q) returned no error but query=%v, checked=false", text, q)
		}
		t.class = "unchecked"
		return t
	}
	t.q = q
	ref, li, ok := refParse(text)
	t.li = li
	if !ok {
		if err != nil {
			t.class = "text:both-reject/" + errClass(err)
		} else {
			t.class = "text:accepted-outside-documented-grammar"
		}
		return t
	}
	t.ref = ref
	if err != nil && li.prefixNot {
		// the extension spelling is not documented: its acceptance is not asserted
		t.ref = nil
		t.class = "text:prefix-not-rejected(not asserted)"
		return t
	}
	if err != nil {
		t.clause, t.disc = "grammar-accepted", "error-instead-of-ok"
		t.tag = t.clause + "|" + t.disc
		if wantDetail {
			t.detail = fmt.Sprintf("%q is a query of the documented grammar (it denotes %s) but ParseQuery fails: %v", text, ref.goExpr(), err)
		}
		t.class = "text:grammar-rejected"
		return t
	}
	// tokens preserved (text -> object)
	if d, det := compareRefTokens(ref, q); d != "" {
		t.clause, t.disc = "text-tokens-preserved", d
		t.tag = t.clause + "|" + d
		if wantDetail {
			t.detail = fmt.Sprintf("%q (documented grammar, denotes %s) parses, but %s", text, ref.goExpr(), det)
		}
		t.class = "text:tokens-changed"
		return t
	}
	// same meaning (text -> object): the parsed query matches the same witness records as the
	// API-built query the text denotes
	if rec, m1, m2 := compareRefMatches(ref, q); rec != nil {
		t.clause, t.disc = "text-same-matches", "different-matches"
		t.tag = t.clause + "|" + t.disc
		if wantDetail {
			t.detail = fmt.Sprintf("%q denotes %s, but ParseQuery returns %s: record %s matches the denoted query=%v, the parsed query=%v", text, ref.goExpr(), dumpTree(query.VerifTree(q)), rec, m1, m2)
		}
		t.class = "text:meaning-changed"
		return t
	}
	t.class = "text:both-accept"
	return t
}

func buildRef(ref *QSpec) *query.Query {
	var rq *query.Query
	if p, _ := vlib.Catch(func() { rq = ref.build() }); p != nil {
		return nil
	}
	if _, err := rq.Check(); err != nil {
		return nil
	}
	return rq
}

func compareRefTokens(ref *QSpec, q *query.Query) (string, string) {
	rq := buildRef(ref)
	if rq == nil {
		return "", ""
	}
	return compareTokens(rq, q)
}

func compareRefMatches(ref *QSpec, q *query.Query) (*rec, bool, bool) {
	rq := buildRef(ref)
	if rq == nil {
		return nil, false, false
	}
	for _, r := range witnessRecords(query.VerifTree(rq), query.VerifTree(q)) {
		atomic.AddInt64(&implCalls, 2)
		m1, m2 := rq.MatchesAccessor(r), q.MatchesAccessor(r)
		if m1 != m2 {
			return r, m1, m2
		}
	}
	return nil, false, false
}

// shrinkText removes blank-separated spans, then single characters, while the same failure persists.
func shrinkText(text, tag string) string {
	cur := text
	for changed := true; changed; {
		changed = false
		// spans between word boundaries, longest first
		var bounds []int
		for i := 0; i <= len(cur); i++ {
			if i == 0 || i == len(cur) || isWS(cur[i]) != isWS(cur[i-1]) {
				bounds = append(bounds, i)
			}
		}
	spans:
		for span := len(bounds) - 1; span >= 1; span-- {
			for a := 0; a+span < len(bounds); a++ {
				cand := cur[:bounds[a]] + cur[bounds[a+span]:]
				if cand == cur {
					continue
				}
				if t := evalTextX(cand, false); t.tag == tag {
					cur = cand
					changed = true
					break spans
				}
			}
		}
		if changed {
			continue
		}
		for i := 0; i < len(cur); {
			_, sz := utf8.DecodeRuneInString(cur[i:])
			cand := cur[:i] + cur[i+sz:]
			if t := evalTextX(cand, false); t.tag == tag {
				cur = cand
				changed = true
				continue
			}
			i += sz
		}
	}
	return cur
}

func lexFeatures(li lexInfo) []string {
	var f []string
	if li.escapeInWord {
		f = append(f, "escape-in-word")
	}
	if li.escapeInQuotes {
		f = append(f, "escape-in-quotes")
	}
	if li.tightParens {
		f = append(f, "no-blank-outside-parenthesis")
	}
	if li.prefixNot {
		f = append(f, "prefix-not-on-condition")
	}
	return f
}

func joinFeatures(fs []string) string {
	if len(fs) > 1 {
		out := fs[:0]
		for _, x := range fs {
			if x != "plain" {
				out = append(out, x)
			}
		}
		fs = out
	}
	sortStrings(fs)
	return strings.Join(fs, "+")
}

var allOpts = []ropt{{}, {Alias: true, Paren: 1}, {Quote: 1, Paren: 2}, {Quote: 2, Sep: 1, RootParens: true}, {Alias: true, Quote: 1, Sep: 2, Paren: 0}, {Quote: 2, Paren: 2, Alias: true},
	{Paren: 2, RootParens: true}, {Quote: 1, Paren: 1, Sep: 1}, {PrefixNot: true}, {PrefixNot: true, Alias: true, Paren: 2}}

func variantFails(o ropt) failFn {
	return func(c *QSpec) (string, rtOut) {
		tx, ok := render(c, o)
		if !ok {
			return "", rtOut{}
		}
		e := evalTextX(tx, false)
		return e.tag, rtOut{printed: tx, class: e.clause, disc: e.disc}
	}
}

func optSimplifications(o ropt) []ropt {
	var out []ropt
	if o.Alias {
		x := o
		x.Alias = false
		out = append(out, x)
	}
	if o.Quote != 0 {
		x := o
		x.Quote = 0
		out = append(out, x)
	}
	if o.Paren != 0 {
		x := o
		x.Paren = 0
		out = append(out, x)
	}
	if o.Sep != 0 {
		x := o
		x.Sep = 0
		out = append(out, x)
	}
	if o.RootParens {
		x := o
		x.RootParens = false
		out = append(out, x)
	}
	if o.PrefixNot {
		x := o
		x.PrefixNot = false
		out = append(out, x)
	}
	return out
}

func reportVariantFailure(s *QSpec, o ropt, tag string, text string, li lexInfo) {
	fs := append(features(s, text, false), lexFeatures(li)...)
	addPending(fmt.Sprintf("variant|%s|%s|%v", tag, joinFeatures(fs), o), &pending{kind: "variant", spec: s, opt: o, tag: tag, size: s.cost(), key: s.key()})
}

// resolveVariantFailure shrinks (object, spelling) and reports under the features of the minimum.
func resolveVariantFailure(s *QSpec, o ropt, tag string, n int64) {
	for round := 0; round < 20; round++ {
		changed := false
		for _, cand := range optSimplifications(o) {
			if t, _ := variantFails(cand)(s); t == tag {
				o, changed = cand, true
				break
			}
		}
		m := shrink(fmt.Sprintf("var%v", o), s, tag, variantFails(o))
		if m.key() != s.key() {
			s, changed = m, true
		}
		if !changed {
			break
		}
	}
	text, _ := render(s, o)
	e := evalText(text)
	fs := features(s, text, false)
	fs = append(fs, lexFeatures(e.li)...)
	if o.Alias {
		fs = append(fs, "alias-operator")
	}
	switch o.Sep {
	case 1:
		fs = append(fs, "double-blank-separator")
	case 2:
		fs = append(fs, "tab-separator")
	}
	if o.RootParens {
		fs = append(fs, "parenthesised-root")
	}
	oo := o
	reportN(e.clause, joinFeatures(fs), e.disc, e.detail, witness{Kind: "variant", Spec: s, Go: s.goExpr(), Opt: &oo, Text: text}, s.cost(), s.key()+fmt.Sprint(o), n)
}

func liftText(t textOut, n int64) bool {
	if t.ref == nil {
		return false
	}
	for _, o := range allOpts {
		if tg, _ := variantFails(o)(t.ref); tg == t.tag {
			resolveVariantFailure(t.ref, o, t.tag, n)
			return true
		}
	}
	return false
}

func reportTextFailure(text string, t textOut) {
	g := "text|" + t.tag
	if t.ref != nil {
		g += "|" + joinFeatures(append(features(t.ref, text, false), lexFeatures(t.li)...))
	}
	addPending(g, &pending{kind: "text", text: text, tag: t.tag, size: len(text), key: text})
}

func resolveTextFailure(p *pending) {
	text := p.text
	t := evalText(text)
	if liftText(t, p.count) {
		return
	}
	m := shrinkText(text, t.tag)
	mt := evalText(m)
	if mt.tag != t.tag {
		m, mt = text, t
	}
	if liftText(mt, p.count) {
		return
	}
	if mt.ref == nil { // panic / unchecked query: no grammar reading
		reportN(mt.clause, "ParseQuery", mt.disc, mt.detail, witness{Kind: "text", Text: m}, len(m), m, p.count)
		return
	}
	fs := features(mt.ref, m, false)
	fs = append(fs, lexFeatures(mt.li)...)
	reportN(mt.clause, joinFeatures(fs), mt.disc, mt.detail, witness{Kind: "text", Text: m}, len(m), m, p.count)
}

// checkText is the per-string driver of the parser-input stages.
func checkText(text string, l *localStats, hb *heartbeat) {
	if hb != nil {
		hb.text.Store(text)
		atomic.AddInt64(&hb.seq, 1)
	}
	l.states++
	l.evals++
	t := evalText(text)
	l.out(t.class)
	if t.tag != "" {
		reportTextFailure(text, t)
		return
	}
	if t.q == nil {
		return
	}
	l.nontriv = append(l.nontriv, "T"+text)
	// every accepted text yields a query object: it must round-trip as well
	if !validTokens(t.q) {
		l.out("text:accepted-with-invalid-utf8-token(not round-tripped)")
		return
	}
	s, ok := specFromQuery(t.q)
	if !ok {
		return
	}
	checkSpec(s, l, "parsed")
}

// checkVariant: a spec rendered as documented-grammar text in a variant spelling.
func checkVariant(s *QSpec, o ropt, l *localStats, info *variantInfo) {
	text, ok := render(s, o)
	if !ok {
		return
	}
	if !seenTexts.add(text) {
		return
	}
	if ref, _, ok := refParse(text); !ok {
		atomic.AddInt64(&info.selfReject, 1)
		info.once.Do(func() { info.example = fmt.Sprintf("%s rendered as %q", s.goExpr(), text) })
		return
	} else if d, det := compareSpecLeaves(s, ref); d != "" {
		atomic.AddInt64(&info.selfReject, 1)
		info.once.Do(func() {
			info.example = fmt.Sprintf("%s rendered as %q: recogniser reads %s (%s)", s.goExpr(), text, ref.goExpr(), det)
		})
		return
	}
	l.states++
	l.evals++
	t := evalText(text)
	l.out("variant-" + t.class)
	if t.tag != "" {
		reportVariantFailure(s, o, t.tag, text, t.li)
		return
	}
	l.nontriv = append(l.nontriv, "T"+text)
	// informational only (not an oracle clause): does the parsed object mean the same as the API-built one?
	if t.q != nil {
		var q *query.Query
		if p, _ := vlib.Catch(func() { q = s.build() }); p == nil {
			if _, err := q.Check(); err == nil {
				for _, r := range witnessRecords(query.VerifTree(q), query.VerifTree(t.q)) {
					if q.MatchesAccessor(r) != t.q.MatchesAccessor(r) {
						atomic.AddInt64(&info.meaningDiff, 1)
						info.once2.Do(func() {
							info.example2 = fmt.Sprintf("%q parses to %s, expected the meaning of %s", text, dumpTree(query.VerifTree(t.q)), s.goExpr())
						})
						break
					}
				}
			}
		}
	}
}

type variantInfo struct {
	selfReject  int64
	meaningDiff int64
	once, once2 sync.Once
	example     string
	example2    string
}

func compareSpecLeaves(s, ref *QSpec) (string, string) {
	var q1, q2 *query.Query
	if p, _ := vlib.Catch(func() { q1, q2 = s.build(), ref.build() }); p != nil {
		return "", ""
	}
	if _, err := q1.Check(); err != nil {
		return "", ""
	}
	if _, err := q2.Check(); err != nil {
		return "check", "reference spec fails Check"
	}
	return compareTokens(q1, q2)
}

// ---------- alphabets ----------

func stringsOver(alpha []string, maxLen int) []string {
	out := []string{""}
	level := []string{""}
	for n := 1; n <= maxLen; n++ {
		var next []string
		for _, p := range level {
			for _, a := range alpha {
				next = append(next, p+a)
			}
		}
		out = append(out, next...)
		level = next
	}
	return out
}

var keywordTokens = []string{"and", "or", "not", "where", "orderby", "limit", "offset", "query", "exists", "==", "sameas", "in", "true"}

// shapes returns all condition trees of depth <= d whose groups have an arity in ar; leaves are placeholders.
func shapes(d int, ar []int) []*Node {
	prev := []*Node{{T: "leaf"}}
	for i := 0; i < d; i++ {
		cur := []*Node{{T: "leaf"}}
		for _, x := range prev {
			cur = append(cur, not(x))
		}
		for _, t := range []string{"and", "or"} {
			for _, k := range ar {
				idx := make([]int, k)
				for {
					n := &Node{T: t}
					for _, j := range idx {
						n.C = append(n.C, prev[j])
					}
					cur = append(cur, n)
					i := 0
					for ; i < k; i++ {
						idx[i]++
						if idx[i] < len(prev) {
							break
						}
						idx[i] = 0
					}
					if i == k {
						break
					}
				}
			}
		}
		prev = cur
	}
	return prev
}

// fill clones a shape, putting f(position) into the leaf positions.
func fill(shape *Node, f func(pos int) *Node) *Node {
	pos := 0
	var rec func(n *Node) *Node
	rec = func(n *Node) *Node {
		if n.T == "leaf" {
			l := f(pos)
			pos++
			return l
		}
		m := &Node{T: n.T}
		for _, c := range n.C {
			m.C = append(m.C, rec(c))
		}
		return m
	}
	return rec(shape)
}

func countLeaves(n *Node) int {
	if n.T == "leaf" {
		return 1
	}
	k := 0
	for _, c := range n.C {
		k += countLeaves(c)
	}
	return k
}

// fullLeafAlphabet: all 18 operators with operands of every relevant class.
func fullLeafAlphabet(thorough bool) []*Node {
	var out []*Node
	ints := []int64{0, 1, -1, math.MaxInt64, math.MinInt64, 42}
	for op := 0; op <= 4; op++ {
		for _, i := range ints {
			out = append(out, leaf("k", op, vInt(i)))
		}
	}
	out = append(out, leaf("k", 0, vGoInt(7)), leaf("k", 1, &Val{K: "uint8", I: 200}), leaf("k", 2, &Val{K: "uint32", I: 4000000000}),
		leaf("k", 3, vStr("-12")), leaf("k", 4, vStr("007")), leaf("k", 0, vStr("9223372036854775807")))
	floats := []float64{0, 1.5, -1.5, 1e300, math.MaxFloat64, math.SmallestNonzeroFloat64, math.Inf(1), math.Inf(-1), math.NaN(), math.Copysign(0, -1), 0.1, 1e21, 123456789.125, float64(math.MaxInt64)}
	for op := 5; op <= 9; op++ {
		for _, f := range floats {
			out = append(out, leaf("k", op, vFloat(f)))
		}
	}
	out = append(out, leaf("k", 5, &Val{K: "float32", F: "0.1"}), leaf("k", 6, vGoInt(3)), leaf("k", 7, vStr("2.5")), leaf("k", 8, vStr("1e3")), leaf("k", 9, vInt(math.MaxInt64)))
	strs := []string{"x", "", "a b", `a"`, `"`, `\`, `a\b`, `a\`, `\\`, "(", ")", "a(b)", "a,b", "é", "日本", "xé", "and", "a\tb", "a\nb", `a\"b`, " ", "x y z", "a\u00a0b", "\u3000", "x\v", "\fx", "a\u2028", "\u0085"}
	for op := 10; op <= 13; op++ {
		for _, s := range strs {
			out = append(out, leaf("k", op, vStr(s)))
		}
	}
	out = append(out, leaf("k", opIn, vStr("x,y")), leaf("k", opIn, vStrs("x", "y")), leaf("k", opIn, vStrs("x")), leaf("k", opIn, vStrs()),
		leaf("k", opIn, vStrs("x,y", "z")), leaf("k", opIn, vStrs("a b", "c")), leaf("k", opIn, vStrs("é", "日")), leaf("k", opIn, vStrs("", "x")),
		leaf("k", opIn, vStrs("x", "")), leaf("k", opIn, vStrs(`a\`, "b")), leaf("k", opIn, vStrs(`a"`, `b`)), leaf("k", opIn, vStr("a b,c")),
		leaf("k", opIn, vStr("x,y,z")), leaf("k", opIn, vStrs("x", "y", "z")), leaf("k", opIn, vStr(",")), leaf("k", opIn, vStrs("(", ")")),
		leaf("k", opIn, vStrs("a\u00a0b", "c")), leaf("k", opIn, vStrs("x", "\u3000")), leaf("k", opIn, vStr("x\v,y")))
	for _, r := range []string{"a\u00a0b", "\u2028+", "^a", "a$", "a b", `\d+`, `a\.b`, "[a-c]+", "(a|b)", "é+", `"`, "", `^King `, `\\`, `a\sb`, "x"} {
		out = append(out, leaf("k", opMatches, vStr(r)))
	}
	out = append(out, leaf("k", opIs, vBool(true)), leaf("k", opIs, vBool(false)))
	for _, b := range []string{"1", "t", "T", "TRUE", "true", "True", "0", "f", "F", "FALSE", "false", "False"} {
		out = append(out, leaf("k", opIs, vStr(b)))
	}
	out = append(out, leaf("k", opExists, vNil()), leaf("k", opExists, vStr("ignored")))
	// keys
	for _, k := range []string{"", "a b", `a"`, `a\b`, "(", "é", "日本", "a.b", "map.#", "and", "not", "a,b", "a\u00a0b", "\u3000", "k\v", "\u0085k"} {
		out = append(out, leaf(k, opEquals, vGoInt(1)), leaf(k, opSameAs, vStr("x")), leaf(k, opExists, vNil()))
	}
	// rejected by Check (must be filtered, never printed)
	out = append(out, leaf("k", 0, vStr("x")), leaf("k", 200, vGoInt(1)), leaf("k", 18, vGoInt(1)), leaf("k", opIn, vStr("x")), leaf("k", opMatches, vStr("[")),
		leaf("k", opIs, vStr("great")), leaf("k", opSameAs, vGoInt(5)), leaf("k", opFEquals, vStr("z")), leaf("k", 0, vFloat(1.5)), leaf("k", opIn, vGoInt(1)),
		leaf("k", opMatches, vGoInt(1)), leaf("k", opIs, vGoInt(1)), leaf("k", opFEquals, vBool(true)))
	return out
}

// ---------- main ----------

func main() {
	vlib.Main("C11", "model_checking", func(c *vlib.Ctx) {
		c.Rule("exhaustive enumeration of (1) API-built queries: every condition-tree shape up to the depth/arity bound filled with default leaves in 4 rotations x prefix x orderby/limit/offset; every chain of <= 4 (thorough 6) wrappers {Not, one-member And, one-member Or} around 5 leaves in 5 surroundings; every shape with one position " +
			"replaced by every leaf of the full alphabet (18 operators x int/float/bool/string/list/regex operand classes, boundary values, special-character keys); every string over the token alphabet " +
			"(letters, blank, quote, backslash, parentheses, comma, multi-byte runes, keywords) in every token slot (4 string values, 7 condition keys, list elements, regex, prefix, orderby) x 8 surrounding contexts; " +
			"clause-value cross product; and (2) parser inputs: all token strings, character strings and condition-unit strings up to the length bound, plus every enumerated object rendered in variant spellings of the documented grammar. " +
			"Each object: Check, Print, ParseQuery, Print, MatchesAccessor on derived witness records (cross product of boundary field values per key), token comparison through the private tree. " +
			"Each string: ParseQuery (panic/termination/checked) versus a hand-written recogniser of the README grammar; accepted strings are round-tripped as objects. " +
			"non-trivial = distinct objects whose witness records make the query both match and not match, plus distinct strings accepted by the parser")
		c.Assume("documented grammar = README.md of database/query + clause layout 'query <prefix> [where ..] [orderby key] [limit n] [offset n]' in this order; other clause orders, " +
			"escapes of non-control characters, empty groups, limit 0, single-element 'in' lists, NaN/Inf spellings and control words used as keys are left open by the documentation: the recogniser does not accept them, so nothing is asserted about them")
		c.Assume("for strings of the documented grammar in spellings Print never produces (aliases, tight parentheses, backslash escapes) acceptance, exact key/prefix/value tokens and the meaning (same matches as the API-built query that the README reading of the text denotes: and/or/not, operators of the table) are asserted")
		c.Assume("extension beyond the README: a prefix 'not' in front of a plain condition ('not a exists and b exists'), which the parser accepts although it is documented for groups only, is read as negating that one condition, like 'not (a exists)'; its acceptance is not asserted, only its meaning when it is accepted")
		c.Assume("witness records are flat field maps behind the accessor interface (numbers answer GetInt and GetFloat as JSON records do); gjson path syntax inside keys is not interpreted")
		c.Assume("tokens that are not valid UTF-8 are outside the quantifier: objects the parser produces with such tokens are not round-tripped")
		if c.Replay != "" {
			replay(c)
			return
		}
		if pf := os.Getenv("C11_PROF"); pf != "" {
			f, _ := os.Create(pf)
			_ = pprof.StartCPUProfile(f)
			defer pprof.StopCPUProfile()
		}
		debug.SetGCPercent(400)
		budget := vlib.Pick(c, 150*time.Second, 25*time.Minute)
		if v, err := time.ParseDuration(os.Getenv("C11_BUDGET")); err == nil && v > 0 {
			budget = v // for runs on an overloaded machine
		}
		c.SetBudget(budget)
		startWatchdog(c)
		run(c)
		resolvePending(c)
		flush(c)
	})
}

func replay(c *vlib.Ctx) {
	var w witness
	if _, err := c.LoadReplay(&w); err != nil {
		c.EngineError("replay: %v", err)
		return
	}
	l := &localStats{}
	switch w.Kind {
	case "roundtrip":
		fmt.Printf("replaying object: %s\n", w.Spec.goExpr())
		o := roundTrip(w.Spec, lvTokens)
		fmt.Printf("printed: %q\noutcome: %s %s\n%s\n", o.printed, o.class, o.disc, o.detail)
		checkSpec(w.Spec, l, "replay")
	case "text":
		fmt.Printf("replaying text: %q\n", w.Text)
		t := evalText(w.Text)
		fmt.Printf("outcome: %s %s\n%s\n", t.class, t.tag, t.detail)
		checkText(w.Text, l, nil)
	case "variant":
		text, _ := render(w.Spec, *w.Opt)
		fmt.Printf("replaying variant rendering of %s: %q\n", w.Spec.goExpr(), text)
		t := evalText(text)
		fmt.Printf("outcome: %s %s\n%s\n", t.class, t.tag, t.detail)
		checkVariant(w.Spec, *w.Opt, l, &variantInfo{})
	default:
		c.EngineError("replay: unknown witness kind %q", w.Kind)
		return
	}
	c.Add(l.states, atomic.LoadInt64(&implCalls), l.evals)
	for k, v := range l.outcomes {
		c.OutcomeN(k, v)
	}
	resolvePending(c)
	flush(c)
}

// startWatchdog reports a parser call that does not return (never expected; bounded
// only so that a hang becomes a finding instead of a silent timeout).
func startWatchdog(c *vlib.Ctx) {
	beats = make([]*heartbeat, c.Workers+1)
	for i := range beats {
		beats[i] = &heartbeat{}
	}
	limit := 120 * time.Second
	if v, err := time.ParseDuration(os.Getenv("C11_WATCHDOG")); err == nil && v > 0 {
		limit = v // for demonstrating the watchdog only
	}
	go func() {
		last := make([]int64, len(beats))
		since := make([]time.Time, len(beats))
		for {
			time.Sleep(2 * time.Second)
			for i, b := range beats {
				s := atomic.LoadInt64(&b.seq)
				if s != last[i] || s == 0 {
					last[i], since[i] = s, time.Now()
					continue
				}
				if s < 0 { // idle marker
					continue
				}
				if time.Since(since[i]) > limit {
					t, _ := b.text.Load().(string)
					report("parse-terminates", "ParseQuery", "no-return", fmt.Sprintf("ParseQuery(%q) did not return within %v", t, limit), witness{Kind: "text", Text: t}, len(t), t)
					flush(c)
					os.Exit(c.Finish())
				}
			}
		}
	}()
}

// parallel runs f over [0,n) in chunks on the workers; each worker has local stats and a heartbeat.
func parallel(c *vlib.Ctx, st *stats, n int, f func(i int, l *localStats, hb *heartbeat)) {
	t0 := time.Now()
	defer func() {
		if os.Getenv("C11_TIMING") != "" {
			fmt.Fprintf(os.Stderr, "stage %d (n=%d): %.1fs, states so far %d\n", len(c11stages), n, time.Since(t0).Seconds(), st.states)
		}
		c11stages = append(c11stages, time.Since(t0).Seconds())
	}()
	var next int64
	var wg sync.WaitGroup
	const chunk = 64
	for w := 0; w < c.Workers; w++ {
		wg.Add(1)
		go func(w int) {
			defer wg.Done()
			l := &localStats{}
			hb := beats[w]
			for {
				lo := int(atomic.AddInt64(&next, chunk)) - chunk
				if lo >= n {
					break
				}
				if c.Expired() {
					break
				}
				hi := lo + chunk
				if hi > n {
					hi = n
				}
				for i := lo; i < hi; i++ {
					f(i, l, hb)
				}
				st.merge(c, l)
			}
			atomic.StoreInt64(&hb.seq, -1)
			st.merge(c, l)
		}(w)
	}
	wg.Wait()
}

func run(c *vlib.Ctx) {
	thorough := !c.Quick()
	st := newStats()
	defs := func(rot int) func(int) *Node { return func(p int) *Node { return defLeaf(p + rot) } }

	wvinfo := &variantInfo{}
	// ---- stage S: structure ----
	type shapeSet struct {
		name string
		sh   []*Node
	}
	sets := []shapeSet{{"depth<=2,arity 0..3", shapes(2, []int{0, 1, 2, 3})}}
	if thorough {
		sets = append(sets, shapeSet{"depth<=3,arity 0..2", shapes(3, []int{0, 1, 2})}, shapeSet{"depth<=2,arity 0..4", shapes(2, []int{0, 1, 2, 3, 4})})
	}
	prefixes := []string{"db:", "db:k", "db:k/é"}
	type clause struct {
		ob       string
		lim, off int
	}
	var clauses []clause
	for _, ob := range []string{"", "z"} {
		for _, lim := range []int{0, 7} {
			for _, off := range []int{0, 3} {
				clauses = append(clauses, clause{ob, lim, off})
			}
		}
	}
	for _, set := range sets {
		sh := set.sh
		before := st.states
		c.Scenario("structure: shapes " + set.name + fmt.Sprintf(" (%d shapes) x 4 leaf rotations x 3 prefixes x 8 clause combinations", len(sh)))
		parallel(c, st, len(sh), func(i int, l *localStats, hb *heartbeat) {
			for rot := 0; rot < 4; rot++ {
				var w *Node
				if rot == 3 {
					w = fill(sh[i], func(int) *Node { return defLeaf(0) })
				} else {
					w = fill(sh[i], defs(rot))
				}
				for _, p := range prefixes {
					for _, cl := range clauses {
						checkSpec(&QSpec{Prefix: p, Where: w, OrderBy: cl.ob, Limit: cl.lim, Offset: cl.off}, l, "structure")
					}
				}
			}
		})
		c.Extra("stage_structure_"+set.name, st.states-before)
	}
	c.Sample(map[string]any{"stage": "structure", "object": (&QSpec{Prefix: "db:k", Where: or(defLeaf(0), and(defLeaf(1), not(defLeaf(2)))), OrderBy: "z", Limit: 7}).goExpr()})

	// ---- stage W: wrapper chains: every chain of <= 4 (thorough 6) wrappers out of {Not, one-member And, one-member Or} around a leaf ----
	{
		wdepth := vlib.Pick(c, 4, 6)
		var chains [][]string
		cur := [][]string{{}}
		chains = append(chains, cur...)
		for d := 0; d < wdepth; d++ {
			var next [][]string
			for _, ch := range cur {
				for _, w := range []string{"not", "and", "or"} {
					next = append(next, append(append([]string{}, ch...), w))
				}
			}
			chains = append(chains, next...)
			cur = next
		}
		wrap := func(ch []string, l *Node) *Node {
			n := l
			for i := len(ch) - 1; i >= 0; i-- {
				switch ch[i] {
				case "not":
					n = not(n)
				case "and":
					n = and(n)
				default:
					n = or(n)
				}
			}
			return n
		}
		wleaves := []*Node{defLeaf(0), defLeaf(1), defLeaf(3), leaf("a b", opSameAs, vStr("x y")), leaf("k", opIn, vStrs("x", "y"))}
		c.Scenario(fmt.Sprintf("wrappers: all %d chains of <= %d wrappers {Not, And of one, Or of one} x %d leaves x 5 surroundings (alone, with clauses, first/last member of a two-member group, under Not in a group)", len(chains), wdepth, len(wleaves)))
		before := st.states
		parallel(c, st, len(chains), func(i int, l *localStats, hb *heartbeat) {
			for _, lf := range wleaves {
				w := func() *Node { return wrap(chains[i], lf.clone()) }
				checkSpec(&QSpec{Prefix: "db:", Where: w()}, l, "wrappers")
				checkSpec(&QSpec{Prefix: "db:k", Where: w(), OrderBy: "z", Limit: 7, Offset: 3}, l, "wrappers")
				checkSpec(&QSpec{Prefix: "db:", Where: and(w(), defLeaf(2))}, l, "wrappers")
				checkSpec(&QSpec{Prefix: "db:", Where: or(defLeaf(2), w())}, l, "wrappers")
				checkSpec(&QSpec{Prefix: "db:", Where: and(defLeaf(2), not(w()))}, l, "wrappers")
				for _, o := range []ropt{{}, {Paren: 2, Alias: true}, {PrefixNot: true}} {
					checkVariant(&QSpec{Prefix: "db:", Where: w()}, o, l, wvinfo)
					checkVariant(&QSpec{Prefix: "db:", Where: or(defLeaf(2), w())}, o, l, wvinfo)
				}
			}
		})
		c.Extra("stage_wrappers", st.states-before)
		c.Sample(map[string]any{"stage": "wrappers", "object": (&QSpec{Prefix: "db:", Where: not(or(not(defLeaf(0))))}).goExpr()})
	}

	// ---- stage X: every shape, one position replaced by every leaf of the full alphabet ----
	fl := fullLeafAlphabet(thorough)
	xs := shapes(2, vlib.Pick(c, []int{0, 1, 2}, []int{0, 1, 2, 3}))
	c.Scenario(fmt.Sprintf("cross: %d shapes x each leaf position x %d leaves of the full alphabet x 2 clause settings", len(xs), len(fl)))
	before := st.states
	parallel(c, st, len(xs), func(i int, l *localStats, hb *heartbeat) {
		n := countLeaves(xs[i])
		for pos := 0; pos < n; pos++ {
			for _, lf := range fl {
				w := fill(xs[i], func(p int) *Node {
					if p == pos {
						return lf.clone()
					}
					return defLeaf(p)
				})
				checkSpec(&QSpec{Prefix: "db:", Where: w}, l, "cross")
				checkSpec(&QSpec{Prefix: "db:k", Where: w, OrderBy: "z", Limit: 7, Offset: 3}, l, "cross")
			}
		}
	})
	c.Extra("stage_cross", st.states-before)
	// pairs of special leaves in small shapes
	special := []*Node{leaf("k", opSameAs, vStr("")), leaf("k", opSameAs, vStr("a b")), leaf("k", opSameAs, vStr(`a\b`)), leaf("k", opSameAs, vStr(`a"`)), leaf("k", opSameAs, vStr("é")),
		leaf("a b", opEquals, vGoInt(1)), leaf("é", opExists, vNil()), leaf("k", opMatches, vStr(`\d+`)), leaf("k", opIn, vStrs("a b", "c")), leaf("k", opFEquals, vFloat(math.Inf(1))),
		leaf("k", 1, vInt(math.MinInt64)), leaf("k", opIs, vBool(false))}
	ps := shapes(2, []int{1, 2})
	c.Scenario(fmt.Sprintf("pairs: %d shapes x two positions x %d special leaves squared", len(ps), len(special)))
	before = st.states
	parallel(c, st, len(ps), func(i int, l *localStats, hb *heartbeat) {
		n := countLeaves(ps[i])
		for p1 := 0; p1 < n; p1++ {
			for p2 := p1 + 1; p2 < n; p2++ {
				for _, a := range special {
					for _, b := range special {
						w := fill(ps[i], func(p int) *Node {
							switch p {
							case p1:
								return a.clone()
							case p2:
								return b.clone()
							}
							return defLeaf(p)
						})
						checkSpec(&QSpec{Prefix: "db:", Where: w}, l, "pairs")
					}
				}
			}
		}
	})
	c.Extra("stage_pairs", st.states-before)
	c.Sample(map[string]any{"stage": "cross", "object": (&QSpec{Prefix: "db:", Where: and(defLeaf(0), not(leaf("k", opMatches, vStr(`\d+`))))}).goExpr()})

	// ---- stage T: every token string in every slot and context ----
	alpha := []string{"a", " ", `"`, `\`, "(", ")", ",", "é", "日"}
	maxLen := 3
	if thorough {
		alpha = append(alpha, "\t", "\n")
		maxLen = 4
	}
	universe := append(stringsOver(alpha, maxLen), keywordTokens...)
	// Unicode white space that is NOT a separator of the documented grammar (ordinary word characters):
	// every string to length 3 over the base alphabet extended by these runes (alone, start, middle, end, next to quotes/backslashes/blanks)
	otherSpace := []string{"\v", "\f", "\u0085", "\u00a0", "\u2028", "\u3000"}
	if thorough {
		otherSpace = append(otherSpace, "\u1680", "\u2000", "\u200a", "\u2029", "\u202f", "\u205f")
	}
	{
		have := map[string]bool{}
		for _, u := range universe {
			have[u] = true
		}
		for _, u := range stringsOver(append(append([]string{}, alpha...), otherSpace...), 3) {
			if !have[u] {
				have[u] = true
				universe = append(universe, u)
			}
		}
	}
	type slot struct {
		name string
		mk   func(s string) *Node
	}
	slots := []slot{
		{"value:sameas", func(s string) *Node { return leaf("k", 10, vStr(s)) }},
		{"value:contains", func(s string) *Node { return leaf("k", 11, vStr(s)) }},
		{"value:startswith", func(s string) *Node { return leaf("k", 12, vStr(s)) }},
		{"value:endswith", func(s string) *Node { return leaf("k", 13, vStr(s)) }},
		{"key:int", func(s string) *Node { return leaf(s, opEquals, vGoInt(1)) }},
		{"key:float", func(s string) *Node { return leaf(s, 6, vFloat(1.5)) }},
		{"key:string", func(s string) *Node { return leaf(s, opSameAs, vStr("x")) }},
		{"key:in", func(s string) *Node { return leaf(s, opIn, vStr("x,y")) }},
		{"key:regex", func(s string) *Node { return leaf(s, opMatches, vStr("^a")) }},
		{"key:bool", func(s string) *Node { return leaf(s, opIs, vBool(true)) }},
		{"key:exists", func(s string) *Node { return leaf(s, opExists, vNil()) }},
		{"in:first", func(s string) *Node { return leaf("k", opIn, vStrs(s, "z")) }},
		{"in:last", func(s string) *Node { return leaf("k", opIn, vStrs("z", s)) }},
		{"in:text", func(s string) *Node { return leaf("k", opIn, vStr(s+",z")) }},
		{"regex:literal", func(s string) *Node { return leaf("k", opMatches, vStr(regexp.QuoteMeta(s))) }},
		{"regex:raw", func(s string) *Node { return leaf("k", opMatches, vStr(s)) }},
	}
	type ctx struct {
		name string
		mk   func(h *Node) *QSpec
	}
	ctxs := []ctx{
		{"alone", func(h *Node) *QSpec { return &QSpec{Prefix: "db:", Where: h} }},
		{"before-clauses", func(h *Node) *QSpec { return &QSpec{Prefix: "db:", Where: h, OrderBy: "z", Limit: 7} }},
		{"first-in-group", func(h *Node) *QSpec { return &QSpec{Prefix: "db:", Where: and(h, defLeaf(0))} }},
		{"last-in-group", func(h *Node) *QSpec { return &QSpec{Prefix: "db:", Where: and(defLeaf(0), h)} }},
		{"last-in-nested-group", func(h *Node) *QSpec { return &QSpec{Prefix: "db:", Where: or(defLeaf(0), and(defLeaf(1), h))} }},
		{"negated", func(h *Node) *QSpec { return &QSpec{Prefix: "db:", Where: not(h)} }},
		{"negated-in-group", func(h *Node) *QSpec { return &QSpec{Prefix: "db:", Where: and(defLeaf(0), not(h))} }},
		{"in-negated-group", func(h *Node) *QSpec { return &QSpec{Prefix: "db:", Where: not(and(h, defLeaf(0)))} }},
	}
	wheres := []*Node{nil, defLeaf(0), and(defLeaf(0), defLeaf(1))}
	c.Scenario(fmt.Sprintf("tokens: %d strings (alphabet of %d symbols to length %d + the same alphabet extended by %d non-separator Unicode white-space runes to length 3 + %d control words) x (%d condition slots x %d contexts + prefix/orderby slots x 3 where settings x 2 tails)",
		len(universe), len(alpha), maxLen, len(otherSpace), len(keywordTokens), len(slots), len(ctxs)))
	before = st.states
	parallel(c, st, len(universe), func(i int, l *localStats, hb *heartbeat) {
		s := universe[i]
		for _, sl := range slots {
			for _, cx := range ctxs {
				checkSpec(cx.mk(sl.mk(s)), l, "tokens")
			}
		}
		for _, w := range wheres {
			for _, lim := range []int{0, 7} {
				checkSpec(&QSpec{Prefix: "db:" + s, Where: w.clone(), Limit: lim}, l, "tokens")
				checkSpec(&QSpec{Prefix: "db:k/" + s, Where: w.clone(), Limit: lim}, l, "tokens")
				checkSpec(&QSpec{Prefix: s, Where: w.clone(), Limit: lim}, l, "tokens")
				checkSpec(&QSpec{Prefix: s + ":k", Where: w.clone(), Limit: lim}, l, "tokens")
				checkSpec(&QSpec{Prefix: "db:", Where: w.clone(), OrderBy: s, Limit: lim}, l, "tokens")
			}
		}
	})
	c.Extra("stage_tokens", st.states-before)
	c.Sample(map[string]any{"stage": "tokens", "object": ctxs[6].mk(slots[0].mk(`a\ 日`)).goExpr()})

	// ---- stage C: clause values ----
	cp := []string{"db:", "db:k", "db:k/é", "db:k/日本", "db", ":", "", "db:a:b", "db:k/", ":k", "db:k\u00a0x", "db:\u3000", "d\vb:k"}
	cob := []string{"", "a", "a.b", "é", "limit", "a\u3000b", "\u00a0", "a\f"}
	cn := []int{0, 1, 10, math.MaxInt32, math.MaxInt32 + 1, -1, math.MaxInt64}
	cw := []*Node{nil, defLeaf(0), or(defLeaf(0), and(defLeaf(1), defLeaf(2)))}
	var cs []*QSpec
	for _, p := range cp {
		for _, ob := range cob {
			for _, lim := range cn {
				for _, off := range cn {
					for _, w := range cw {
						cs = append(cs, &QSpec{Prefix: p, Where: w.clone(), OrderBy: ob, Limit: lim, Offset: off})
					}
				}
			}
		}
	}
	c.Scenario(fmt.Sprintf("clauses: %d prefixes x %d orderby keys x %d limits x %d offsets x 3 where settings", len(cp), len(cob), len(cn), len(cn)))
	before = st.states
	parallel(c, st, len(cs), func(i int, l *localStats, hb *heartbeat) { checkSpec(cs[i], l, "clauses") })
	c.Extra("stage_clauses", st.states-before)
	c.Sample(map[string]any{"stage": "clauses", "object": (&QSpec{Prefix: "db:k/日本", Where: defLeaf(0), OrderBy: "a.b", Limit: math.MaxInt32, Offset: 10}).goExpr()})

	// ---- real records (JSON wrapper) for the default leaves: MatchesRecord / Matches path ----
	realRecords(c, st)

	objStates := st.states

	// ---- stage G: variant renderings of enumerated objects ----
	vinfo := &variantInfo{}
	opts := allOpts
	gs := shapes(2, []int{1, 2, 3})
	c.Scenario(fmt.Sprintf("variants: %d shapes x 2 rotations x %d spellings x 2 clause settings; %d shapes x each position x full leaf alphabet x %d spellings", len(gs), len(opts), 155, len(opts)))
	before = st.states
	parallel(c, st, len(gs), func(i int, l *localStats, hb *heartbeat) {
		for rot := 0; rot < 2; rot++ {
			w := fill(gs[i], defs(rot))
			for _, o := range opts {
				checkVariant(&QSpec{Prefix: "db:k", Where: w}, o, l, vinfo)
				checkVariant(&QSpec{Prefix: "db:k/é", Where: w, OrderBy: "z", Limit: 7, Offset: 3}, o, l, vinfo)
			}
		}
	})
	vx := shapes(2, []int{0, 1, 2})
	parallel(c, st, len(vx), func(i int, l *localStats, hb *heartbeat) {
		n := countLeaves(vx[i])
		for pos := 0; pos < n; pos++ {
			for _, lf := range fl {
				w := fill(vx[i], func(p int) *Node {
					if p == pos {
						return lf.clone()
					}
					return defLeaf(p)
				})
				for _, o := range opts {
					checkVariant(&QSpec{Prefix: "db:", Where: w}, o, l, vinfo)
				}
			}
		}
	})
	// token universe in value / key / prefix / orderby position, all spellings
	parallel(c, st, len(universe), func(i int, l *localStats, hb *heartbeat) {
		s := universe[i]
		for _, o := range opts {
			for _, sl := range slots[:1] {
				for _, cx := range ctxs {
					checkVariant(cx.mk(sl.mk(s)), o, l, vinfo)
				}
			}
			checkVariant(ctxs[0].mk(slots[6].mk(s)), o, l, vinfo)
			checkVariant(ctxs[5].mk(slots[6].mk(s)), o, l, vinfo)
			checkVariant(&QSpec{Prefix: "db:k/" + s}, o, l, vinfo)
			checkVariant(&QSpec{Prefix: "db:", OrderBy: s}, o, l, vinfo)
			checkVariant(&QSpec{Prefix: "db:", Where: defLeaf(0), OrderBy: s, Limit: 3}, o, l, vinfo)
		}
	})
	c.Extra("stage_variants", st.states-before)
	c.Extra("variant_meaning_differences_informational", vinfo.meaningDiff)
	if vinfo.example2 != "" {
		c.Extra("variant_meaning_difference_example", vinfo.example2)
	}
	if wvinfo.selfReject > 0 {
		c.EngineError("self-check (wrappers): the reference recogniser disagrees with the harness's own renderer on %d texts, e.g. %s", wvinfo.selfReject, wvinfo.example)
	}
	if vinfo.selfReject > 0 {
		c.EngineError("self-check: the reference recogniser disagrees with the harness's own renderer on %d texts, e.g. %s", vinfo.selfReject, vinfo.example)
	}
	if tx, ok := render(&QSpec{Prefix: "db:k", Where: or(defLeaf(0), not(and(defLeaf(1), leaf("a b", opSameAs, vStr(`x"y`)))))}, opts[2]); ok {
		c.Sample(map[string]any{"stage": "variants", "text": tx})
	}

	// ---- stage P1: token strings ----
	ptoks := []string{"query", "db:k", "where", "(", ")", "and", "or", "not", "a", "==", "1", "sameas", `"x y"`, "orderby", "limit", "é", `\`, `""`, "offset", "b\u3000c"}
	seqCount := func(k, n int) int {
		t, p := 0, 1
		for i := 0; i <= n; i++ {
			t += p
			p *= k
		}
		return t
	}
	seqAt := func(toks []string, idx int) []string {
		// idx enumerates sequences by length then lexicographically
		k := len(toks)
		n, p := 0, 1
		for idx >= p {
			idx -= p
			p *= k
			n++
		}
		out := make([]string, n)
		for i := n - 1; i >= 0; i-- {
			out[i] = toks[idx%k]
			idx /= k
		}
		return out
	}
	tight := func(words []string) (string, bool) {
		has := false
		var b strings.Builder
		for i, w := range words {
			if w == "(" || w == ")" {
				has = true
			}
			if i > 0 && !(w == "(" || w == ")" || words[i-1] == "(" || words[i-1] == ")") {
				b.WriteByte(' ')
			}
			b.WriteString(w)
		}
		return b.String(), has
	}
	n1 := seqCount(len(ptoks), 4)
	c.Scenario(fmt.Sprintf("parser input: all %d strings of <= 4 tokens over %d tokens (blank-separated, and without blanks next to parentheses)", n1, len(ptoks)))
	before = st.states
	parallel(c, st, n1, func(i int, l *localStats, hb *heartbeat) {
		w := seqAt(ptoks, i)
		checkText(strings.Join(w, " "), l, hb)
		if t, has := tight(w); has {
			checkText(t, l, hb)
		}
	})
	plen := vlib.Pick(c, 5, 6)
	n2 := seqCount(len(ptoks), plen)
	c.Scenario(fmt.Sprintf("parser input: 'query db:k' + all %d strings of <= %d tokens", n2, plen))
	parallel(c, st, n2, func(i int, l *localStats, hb *heartbeat) {
		w := append([]string{"query", "db:k"}, seqAt(ptoks, i)...)
		checkText(strings.Join(w, " "), l, hb)
		if t, has := tight(w); has {
			checkText(t, l, hb)
		}
	})
	c.Extra("stage_token_strings", st.states-before)
	c.Sample(map[string]any{"stage": "token strings", "text": `query db:k where not (é sameas "x y")`, "also": "all other strings of <= 5 tokens, e.g. " + strings.Join(append([]string{"query", "db:k"}, seqAt(ptoks, n2-12345)...), " ")})

	// ---- stage P2: character strings ----
	chars := []string{"a", "1", " ", `"`, `\`, "(", ")", ",", "é", "=", "x", "\t", "\u00a0", "\v"}
	clen := vlib.Pick(c, 4, 6)
	n3 := seqCount(len(chars), clen)
	pres := []string{"", "query ", "query db:k where ", "query db:k where a sameas ", "query db:k where a == 1 orderby ", "query db:k where (a == 1 and a sameas "}
	c.Scenario(fmt.Sprintf("parser input: all %d strings of <= %d characters over %d characters, after each of %d prefixes", n3, clen, len(chars), len(pres)))
	before = st.states
	parallel(c, st, n3, func(i int, l *localStats, hb *heartbeat) {
		s := strings.Join(seqAt(chars, i), "")
		for _, p := range pres {
			checkText(p+s, l, hb)
		}
	})
	c.Extra("stage_character_strings", st.states-before)
	c.Sample(map[string]any{"stage": "character strings", "text": pres[3] + strings.Join(seqAt(chars, n3-777), "")})

	// ---- stage P3: condition-unit strings ----
	units := []string{"a == 1", `b not sameas "x y"`, "c ex", "and", "or", "not", "(", ")"}
	ulen := vlib.Pick(c, 7, 8)
	n4 := seqCount(len(units), ulen)
	c.Scenario(fmt.Sprintf("parser input: 'query db:k where' + all %d strings of <= %d units over {3 conditions, and, or, not, (, )}, with and without trailing clauses", n4, ulen))
	before = st.states
	parallel(c, st, n4, func(i int, l *localStats, hb *heartbeat) {
		w := seqAt(units, i)
		t := "query db:k where " + strings.Join(w, " ")
		checkText(t, l, hb)
		if len(w) < ulen || !thorough {
			checkText(t+" orderby a limit 1", l, hb)
		}
		if tt, has := tight(append([]string{"query", "db:k", "where"}, w...)); has && len(w) <= ulen-1 {
			checkText(tt, l, hb)
		}
	})
	if thorough {
		// one step deeper over the reduced unit alphabet {1 condition, and, or, not, (, )}
		u2 := []string{"a == 1", "and", "or", "not", "(", ")"}
		lo, hi := seqCount(len(u2), 8), seqCount(len(u2), 10)
		c.Scenario(fmt.Sprintf("parser input: 'query db:k where' + all %d strings of 9..10 units over {a == 1, and, or, not, (, )}", hi-lo))
		parallel(c, st, hi-lo, func(i int, l *localStats, hb *heartbeat) {
			checkText("query db:k where "+strings.Join(seqAt(u2, lo+i), " "), l, hb)
		})
	}
	c.Extra("stage_unit_strings", st.states-before)
	c.Sample(map[string]any{"stage": "unit strings", "text": `query db:k where ( a == 1 and c ex ) or not ( b not sameas "x y" ) orderby a limit 1`, "also": "query db:k where " + strings.Join(seqAt(units, n4-4321), " ")})

	c.Extra("objects_enumerated", objStates)
	c.Extra("strings_enumerated", st.states-objStates)
	for k, v := range st.outcomes {
		c.OutcomeN(k, v)
	}
	c.Add(st.states, atomic.LoadInt64(&implCalls), st.evals)
}

// realRecords runs the default-leaf structures against real JSON records through
// Query.Matches (key prefix + MatchesRecord -> JSON accessor), comparing the
// API-built query with its re-parsed text.
func realRecords(c *vlib.Ctx, st *stats) {
	var recs []record.Record
	for m := 0; m < 16; m++ {
		parts := []string{}
		if m&1 != 0 {
			parts = append(parts, `"a":1`)
		} else {
			parts = append(parts, `"a":2`)
		}
		if m&2 != 0 {
			parts = append(parts, `"b":"x"`)
		} else {
			parts = append(parts, `"b":"xq"`)
		}
		if m&4 != 0 {
			parts = append(parts, `"c":true`)
		} else {
			parts = append(parts, `"c":false`)
		}
		if m&8 != 0 {
			parts = append(parts, `"d":0`)
		}
		for _, key := range []string{"db:k/1", "db:other"} {
			r, err := record.NewWrapper(key, nil, dsd.JSON, []byte("{"+strings.Join(parts, ",")+"}"))
			if err != nil {
				c.EngineError("cannot build record: %v", err)
				return
			}
			recs = append(recs, r)
		}
	}
	sh := shapes(2, []int{1, 2, 3})
	c.Scenario(fmt.Sprintf("real records: %d shapes x 2 rotations x 2 prefixes against %d JSON records through Query.Matches", len(sh), len(recs)))
	var diff, nrec int64
	parallel(c, st, len(sh), func(i int, l *localStats, hb *heartbeat) {
		for rot := 0; rot < 2; rot++ {
			for _, p := range []string{"db:", "db:k"} {
				s := &QSpec{Prefix: p, Where: fill(sh[i], func(pos int) *Node { return defLeaf(pos + rot) })}
				q := s.build()
				if _, err := q.Check(); err != nil {
					continue
				}
				q2, err := query.ParseQuery(q.Print())
				l.evals++
				atomic.AddInt64(&nrec, 1)
				if err != nil {
					l.out("records:printed-text-rejected")
					continue // reported by the structure stage
				}
				same := true
				t, f := false, false
				for _, r := range recs {
					m1, m2 := q.Matches(r), q2.Matches(r)
					atomic.AddInt64(&implCalls, 2)
					if m1 {
						t = true
					} else {
						f = true
					}
					if m1 != m2 && same {
						same = false
						atomic.AddInt64(&diff, 1)
						if roundTrip(s, lvTokens).class != "ok" {
							continue // already reported (shrunk) by the structure stage
						}
						report("same-matches", "real-json-records", "different-matches",
							fmt.Sprintf("%s prints as %q; record %s %s: original Matches=%v, re-parsed Matches=%v", s.goExpr(), q.Print(), r.Key(), "(JSON)", m1, m2),
							witness{Kind: "roundtrip", Spec: s, Go: s.goExpr(), Printed: q.Print()}, s.cost(), s.key())
					}
				}
				if same {
					l.out("records:same-matches")
					if t && f {
						l.nontriv = append(l.nontriv, "R"+s.key())
					}
				} else {
					l.out("records:different-matches")
				}
			}
		}
	})
	c.Extra("stage_real_records_cases", nrec)
}
