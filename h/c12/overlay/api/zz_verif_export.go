//go:build verif

package api

import (
	"net/http"
	"sort"
	"time"
)

// Private constants the C12 harness needs.
const (
	VerifBridgeRemoteAddress = endpointBridgeRemoteAddress
	VerifSessionCookieName   = sessionCookieName
	VerifSessionTTL          = sessionCookieTTL
)

// VerifHandler returns the API's main handler the way startServer builds it.
// With EnableServer=false startServer never installs it in the (unstarted)
// http.Server, which the database bridge calls through, so it is installed here.
func VerifHandler() http.Handler {
	h := &mainHandler{mux: mainMux}
	if server.Handler == nil {
		server.Handler = h
	}
	return h
}

// VerifSetAuthenticator (un)registers the external authenticator at run time
// (SetAuthenticator can only be called once and only before the module starts).
func VerifSetAuthenticator(fn AuthenticatorFunc) {
	if fn == nil {
		authFnSet.UnSet()
		authFn = nil
		return
	}
	authFn = fn
	authFnSet.Set()
}

// VerifUpdateAPIKeys calls the package's own config-change hook synchronously.
func VerifUpdateAPIKeys() error { return updateAPIKeys(module.Ctx, nil) }

// VerifShiftTime lets d of time "pass" for everything C12 depends on: the
// expiry of every session and of every imported API key is moved d earlier.
// (Stand-in for the virtual clock; no other timestamp influences C12.)
func VerifShiftTime(d time.Duration) {
	apiKeysLock.Lock()
	for _, t := range apiKeys {
		if t.ValidUntil != nil {
			v := t.ValidUntil.Add(-d)
			t.ValidUntil = &v
		}
	}
	apiKeysLock.Unlock()

	sessionsLock.Lock()
	for _, s := range sessions {
		s.Lock()
		s.validUntil = s.validUntil.Add(-d)
		s.Unlock()
	}
	sessionsLock.Unlock()
}

// VerifCleanSessions runs the periodic session cleaner once.
func VerifCleanSessions() { _ = cleanSessions(nil, nil) }

// VerifClearSessions forgets all sessions (fresh state for the next history).
func VerifClearSessions() {
	sessionsLock.Lock()
	for k := range sessions {
		delete(sessions, k)
	}
	sessionsLock.Unlock()
}

// VerifKey describes one imported API key.
type VerifKey struct {
	Key       string
	Read      Permission
	Write     Permission
	HasExpiry bool
	Expired   bool
	RemainMin int // remaining validity rounded to whole minutes (0 without expiry)
}

// VerifKeys lists the imported API keys sorted by key.
func VerifKeys() []VerifKey {
	apiKeysLock.Lock()
	defer apiKeysLock.Unlock()
	out := make([]VerifKey, 0, len(apiKeys))
	now := time.Now()
	for k, t := range apiKeys {
		vk := VerifKey{
			Key: k, Read: t.Read, Write: t.Write,
			HasExpiry: t.ValidUntil != nil,
			Expired:   t.ValidUntil != nil && now.After(*t.ValidUntil),
		}
		if t.ValidUntil != nil {
			vk.RemainMin = int(t.ValidUntil.Sub(now).Round(time.Minute) / time.Minute)
		}
		out = append(out, vk)
	}
	sort.Slice(out, func(i, j int) bool { return out[i].Key < out[j].Key })
	return out
}

// VerifSession describes one stored session.
type VerifSession struct {
	Key       string
	Read      Permission
	Write     Permission
	Expired   bool
	RemainMin int // remaining validity rounded to whole minutes
}

// VerifSessions lists the stored sessions sorted by cookie value.
func VerifSessions() []VerifSession {
	sessionsLock.Lock()
	defer sessionsLock.Unlock()
	out := make([]VerifSession, 0, len(sessions))
	for k, s := range sessions {
		vs := VerifSession{Key: k, Expired: s.Expired()}
		s.Lock()
		vs.RemainMin = int(time.Until(s.validUntil).Round(time.Minute) / time.Minute)
		s.Unlock()
		if s.token != nil {
			vs.Read, vs.Write = s.token.Read, s.token.Write
		}
		out = append(out, vs)
	}
	sort.Slice(out, func(i, j int) bool { return out[i].Key < out[j].Key })
	return out
}
