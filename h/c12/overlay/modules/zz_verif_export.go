//go:build verif

package modules

import "sync/atomic"

// VerifRemoveEventHooks removes the hooks that hookingModule registered on
// eventModule's event and returns how many were removed. The C12 harness uses
// it to take the asynchronous "config change -> update API keys" delivery out
// of the picture: it applies key changes by calling the api package's own
// updateAPIKeys synchronously instead (the delivery is not what C12 is about).
func VerifRemoveEventHooks(eventModule, event, hookingModule string) int {
	m, ok := modules[eventModule]
	if !ok {
		return 0
	}
	m.eventHooksLock.Lock()
	defer m.eventHooksLock.Unlock()
	eh, ok := m.eventHooks[event]
	if !ok {
		return 0
	}
	n := 0
	kept := make([]*eventHook, 0, len(eh.hooks))
	for _, h := range eh.hooks {
		if h.hookingModule != nil && h.hookingModule.Name == hookingModule {
			n++
			continue
		}
		kept = append(kept, h)
	}
	eh.hooks = kept
	return n
}

// VerifMicroTasksRunning returns the number of micro tasks that have been
// cleared to run and have not finished yet. The C12 harness waits for it to
// drop to zero after a key import that schedules the asynchronous "api key
// cleanup" micro task, so that the task's config.SetConfigOption never runs
// concurrently with the next configuration step of the harness.
func VerifMicroTasksRunning() int32 { return atomic.LoadInt32(microTasks) }
