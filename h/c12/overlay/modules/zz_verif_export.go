//go:build verif

package modules

// VerifRemoveEventHooks removes the hooks that hookingModule registered on
// eventModule's event and returns how many were removed. The C12 harness uses
// it to take the asynchronous "config change -> update API keys" delivery out
// of the picture: it applies key changes by calling the api package's own
// updateAPIKeys synchronously instead (the delivery is not what C12 is about).
func VerifRemoveEventHooks(eventModule, event, hookingModule string) int {
	m, ok := modules[eventModule]
	if !ok {
		return 0
	}
	m.eventHooksLock.Lock()
	defer m.eventHooksLock.Unlock()
	eh, ok := m.eventHooks[event]
	if !ok {
		return 0
	}
	n := 0
	kept := make([]*eventHook, 0, len(eh.hooks))
	for _, h := range eh.hooks {
		if h.hookingModule != nil && h.hookingModule.Name == hookingModule {
			n++
			continue
		}
		kept = append(kept, h)
	}
	eh.hooks = kept
	return n
}
