#!/bin/bash
set -e
cd /verif
./mkoverlay.sh c12
go build -tags verif -overlay build/c12.overlay.json -o "$1" ./h/c12
