// Reference model for C12: a decision table. It states only what the property
// states: which credentials grant which permission, which method belongs to
// which class, when an Origin must be refused, and when a handler may run.
// Where the statement leaves a choice (several credentials presented at once,
// header spellings whose meaning is debatable) the model yields a *set* of
// acceptable grants instead of guessing.
package main

import (
	"encoding/base64"
	"fmt"
	"regexp"
	"sort"
	"strings"
	"time"
)

// Permission levels (the numeric values of api.Permission).
const (
	pNotFound     = -2
	pDynamic      = -1
	pNotSupported = 0
	pAnyone       = 1
	pUser         = 2
	pAdmin        = 3
	pSelf         = 4
)

func permName(p int) string {
	switch p {
	case pNotFound:
		return "NotFound"
	case pDynamic:
		return "Dynamic"
	case pNotSupported:
		return "NotSupported"
	case pAnyone:
		return "Anyone"
	case pUser:
		return "User"
	case pAdmin:
		return "Admin"
	case pSelf:
		return "Self"
	}
	return fmt.Sprintf("invalid(%d)", p)
}

// tok is a granted (read, write) permission pair.
type tok struct {
	R int `json:"r"`
	W int `json:"w"`
}

var anon = tok{pAnyone, pAnyone}

func (t tok) String() string { return fmt.Sprintf("(%d,%d)", t.R, t.W) }

func validGrant(p int) bool { return p >= pAnyone && p <= pSelf }

// ---------- configured API keys ----------

// keySpec is one entry of the core/apiKeys option, kept structured so that the
// model does not have to parse what the harness itself wrote.
type keySpec struct {
	Key     string `json:"key"`
	Read    string `json:"read,omitempty"`    // permission word; "" = parameter omitted
	Write   string `json:"write,omitempty"`   // permission word; "" = parameter omitted
	Expires string `json:"expires,omitempty"` // "" none; "+9m"/"-1h" relative to configuration time; "!text" literal garbage
}

func (k keySpec) configString(now time.Time) string {
	var q []string
	if k.Read != "" {
		q = append(q, "read="+k.Read)
	}
	if k.Write != "" {
		q = append(q, "write="+k.Write)
	}
	if k.Expires != "" {
		if strings.HasPrefix(k.Expires, "!") {
			q = append(q, "expires="+k.Expires[1:])
		} else {
			d, err := time.ParseDuration(k.Expires)
			if err != nil {
				panic("bad keySpec duration " + k.Expires)
			}
			q = append(q, "expires="+now.Add(d).UTC().Format(time.RFC3339))
		}
	}
	if len(q) == 0 {
		return k.Key
	}
	return k.Key + "?" + strings.Join(q, "&")
}

func permWord(s string) (int, bool) {
	switch strings.ToLower(s) {
	case "", "anyone":
		return pAnyone, true
	case "user":
		return pUser, true
	case "admin":
		return pAdmin, true
	}
	return 0, false
}

type mKey struct {
	T      tok
	HasExp bool
	Remain time.Duration // logical remaining validity, < 0 = expired
}

type mSess struct {
	T      tok
	Remain time.Duration
}

// model is the reference state: configuration and sessions.
type model struct {
	Dev      bool
	Keys     map[string][]mKey // several entries = the same key configured more than once
	Sessions map[string]*mSess // by symbolic session name
}

func newModel() *model {
	return &model{Keys: map[string][]mKey{}, Sessions: map[string]*mSess{}}
}

// setKeys imports a key configuration: documented format
// `<key>?read=<perm>&write=<perm>[&expires=<RFC3339>]`, permissions anyone|user|admin,
// may be omitted; entries with an invalid permission or date, or already expired, are not keys.
// It returns whether an entry was already expired (the implementation then schedules a config clean-up).
func (m *model) setKeys(specs []keySpec) (hadExpired bool) {
	m.Keys = map[string][]mKey{}
	for _, s := range specs {
		r, ok1 := permWord(s.Read)
		w, ok2 := permWord(s.Write)
		if !ok1 || !ok2 || s.Key == "" {
			continue
		}
		k := mKey{T: tok{r, w}}
		if s.Expires != "" {
			if strings.HasPrefix(s.Expires, "!") {
				continue
			}
			d, _ := time.ParseDuration(s.Expires)
			if d < 0 {
				hadExpired = true
				continue
			}
			k.HasExp, k.Remain = true, d
		}
		m.Keys[s.Key] = append(m.Keys[s.Key], k)
	}
	return hadExpired
}

func (m *model) pass(d time.Duration) {
	for _, l := range m.Keys {
		for i := range l {
			if l[i].HasExp {
				l[i].Remain -= d
			}
		}
	}
	for _, s := range m.Sessions {
		s.Remain -= d
	}
}

// clean is the periodic session cleaner: it may only forget expired sessions.
func (m *model) clean() {
	for n, s := range m.Sessions {
		if s.Remain < 0 {
			delete(m.Sessions, n)
		}
	}
}

func (m *model) keyGrants(key string) []tok {
	var out []tok
	for _, k := range m.Keys[key] {
		if !k.HasExp || k.Remain >= 0 {
			out = append(out, k.T)
		}
	}
	return out
}

func (m *model) canon() string {
	var b strings.Builder
	fmt.Fprintf(&b, "dev=%v;", m.Dev)
	ks := make([]string, 0, len(m.Keys))
	for k := range m.Keys {
		ks = append(ks, k)
	}
	sort.Strings(ks)
	for _, k := range ks {
		fmt.Fprintf(&b, "k:%s=%v;", k, m.Keys[k])
	}
	ss := make([]string, 0, len(m.Sessions))
	for k := range m.Sessions {
		ss = append(ss, k)
	}
	sort.Strings(ss)
	for _, k := range ss {
		fmt.Fprintf(&b, "s:%s=%v/%v;", k, m.Sessions[k].T, m.Sessions[k].Remain)
	}
	return b.String()
}

// ---------- requests ----------

type authnSpec struct {
	Kind string `json:"kind"` // unset (no authenticator registered) | nil | err | deny | tok
	R    int    `json:"r,omitempty"`
	W    int    `json:"w,omitempty"`
}

func (a authnSpec) String() string {
	if a.Kind == "tok" {
		return fmt.Sprintf("tok(%d,%d)", a.R, a.W)
	}
	return a.Kind
}

// reqCase is one request against one harness handler.
type reqCase struct {
	Handler string    `json:"handler"` // URL path
	Kind    string    `json:"kind"`    // wrap | plain | ep-action | ep-data | ep-struct | ep-record | ep-handler | none | reset
	Rr      int       `json:"declared_read"`
	Rw      int       `json:"declared_write"`
	Method  string    `json:"method"`
	ACRM    string    `json:"access_control_request_method,omitempty"`
	Authz   string    `json:"authorization,omitempty"`
	Cookie  string    `json:"cookie,omitempty"` // "$s:NAME" stands for the cookie value of the session saved as NAME
	Origin  string    `json:"origin,omitempty"`
	Host    string    `json:"host"`
	Bridge  bool      `json:"bridge_remote_addr,omitempty"`
	Authn   authnSpec `json:"authenticator"`
}

func methodClass(method, acrm string) string {
	m := method
	if method == "OPTIONS" {
		// Assumption (recorded): for OPTIONS the class is that of the
		// Access-Control-Request-Method header; without it there is none.
		m = acrm
	}
	switch m {
	case "GET", "HEAD":
		return "read"
	case "POST", "PUT", "DELETE":
		return "write"
	}
	return "none"
}

var schemeRe = regexp.MustCompile(`^[A-Za-z][A-Za-z0-9+.\-]*$`)

// originVerdict: "none" (no Origin header), "must-refuse" (the Origin certainly
// matches neither the Host nor a documented exception), "may-pass" (anything else:
// a match, an exception, or a spelling whose reading is debatable - nothing is asserted).
func originVerdict(origin, host string, dev bool) string {
	if origin == "" {
		return "none"
	}
	scheme, rest := "", origin
	if i := strings.Index(origin, ":"); i > 0 && schemeRe.MatchString(origin[:i]) {
		scheme, rest = strings.ToLower(origin[:i]), origin[i+1:]
	}
	if scheme == "chrome-extension" {
		return "may-pass"
	}
	if origin == "http://"+host || origin == "https://"+host {
		return "same-origin"
	}
	if !strings.HasPrefix(rest, "//") {
		return "must-refuse" // no authority part at all
	}
	auth := rest[2:]
	if i := strings.IndexAny(auth, "/?#"); i >= 0 {
		auth = auth[:i]
	}
	if i := strings.LastIndex(auth, "@"); i >= 0 {
		auth = auth[i+1:]
	}
	auth = strings.ToLower(auth)
	hostname := stripPort(auth)
	h := strings.ToLower(host)
	for _, cand := range []string{auth, hostname} {
		if cand != "" && (cand == h || cand == stripPort(h)) {
			return "may-pass"
		}
	}
	if dev && (hostname == "localhost" || hostname == "127.0.0.1") {
		return "may-pass"
	}
	if strings.ContainsAny(auth, "%\\ ") {
		return "may-pass" // escapes and the like: not judged
	}
	return "must-refuse"
}

func stripPort(h string) string {
	if strings.HasPrefix(h, "[") {
		if i := strings.Index(h, "]"); i > 0 {
			return h[1:i]
		}
		return h
	}
	if i := strings.LastIndex(h, ":"); i >= 0 {
		return h[:i]
	}
	return h
}

// authzGrants reads an Authorization header. certain: the header is exactly
// `Bearer <key>` or `Basic base64(user:pass)` (key = user+pass) and what it grants
// (nothing if the key is not a live configured key). uncertain: grants of readings
// the statement does not settle (other scheme case, padded key).
func (m *model) authzGrants(h string) (certain, uncertain []tok) {
	if h == "" {
		return nil, nil
	}
	lookup := func(key string, exact bool) {
		if g := m.keyGrants(key); len(g) > 0 && exact {
			certain = append(certain, g...)
		} else if exact {
			if t := strings.TrimSpace(key); t != key {
				uncertain = append(uncertain, m.keyGrants(t)...)
			}
		} else {
			uncertain = append(uncertain, g...)
			uncertain = append(uncertain, m.keyGrants(strings.TrimSpace(key))...)
		}
	}
	basicKey := func(payload string) (string, bool) {
		b, err := base64.StdEncoding.DecodeString(payload)
		if err != nil {
			return "", false
		}
		u, p, ok := strings.Cut(string(b), ":")
		if !ok {
			return "", false
		}
		return u + p, true
	}
	switch {
	case strings.HasPrefix(h, "Bearer "):
		lookup(h[len("Bearer "):], true)
	case strings.HasPrefix(h, "Basic "):
		if k, ok := basicKey(h[len("Basic "):]); ok {
			lookup(k, true)
		} else if k, ok := basicKey(strings.TrimSpace(h[len("Basic "):])); ok {
			lookup(k, false)
		}
	default:
		l := strings.ToLower(strings.TrimSpace(h))
		t := strings.TrimSpace(h)
		switch {
		case strings.HasPrefix(l, "bearer "):
			lookup(t[len("bearer "):], false)
		case strings.HasPrefix(l, "basic "):
			if k, ok := basicKey(strings.TrimSpace(t[len("basic "):])); ok {
				lookup(k, false)
			}
		}
	}
	return certain, uncertain
}

const cookieName = "Portmaster-API-Token"

var plainCookieVal = regexp.MustCompile(`^[A-Za-z0-9_$:\-]+$`)

// cookieGrants reads a Cookie header. The header is "simple" if it is a
// `; `-separated list of name=value pairs with plain values in which the session
// cookie occurs at most once; then the reading is certain. Otherwise every session
// named by any candidate value is an acceptable (uncertain) grant.
// sess is the name of the session that is certainly the one presented ("" if none).
func (m *model) cookieGrants(h string) (certain, uncertain []tok, sess string) {
	if h == "" {
		return nil, nil, ""
	}
	simple := true
	var cands []string
	for _, part := range strings.Split(h, ";") {
		p := strings.TrimSpace(part)
		if p != strings.TrimPrefix(part, " ") {
			simple = false
		}
		name, val, ok := strings.Cut(p, "=")
		if !ok || name == "" || !plainCookieVal.MatchString(name) {
			simple = false
		}
		if ok && !plainCookieVal.MatchString(val) {
			simple = false
		}
		if strings.Contains(p, cookieName) {
			if !ok || name != cookieName {
				simple = false
			}
			v := p
			if i := strings.Index(p, cookieName+"="); i >= 0 {
				v = p[i+len(cookieName)+1:]
			}
			cands = append(cands, strings.Trim(strings.TrimSpace(v), `"`))
		}
	}
	if len(cands) > 1 {
		simple = false
	}
	for _, v := range cands {
		name := strings.TrimPrefix(v, "$s:")
		if name == v {
			continue // a literal value: never a session the server issued
		}
		s, ok := m.Sessions[name]
		if !ok || s.Remain < 0 {
			continue
		}
		if simple {
			certain = append(certain, s.T)
			sess = name
		} else {
			uncertain = append(uncertain, s.T)
		}
	}
	return certain, uncertain, sess
}

// verdict is what the model says about one request in one state.
type verdict struct {
	Origin    string `json:"origin"`         // none | same-origin | may-pass | must-refuse
	Class     string `json:"class"`          // read | write | none
	Required  int    `json:"required"`       // declared permission for the class
	Accept    []tok  `json:"accept"`         // acceptable effective grants
	MayRefuse bool   `json:"may_refuse"`     // the authenticator failed internally: a 500 is as good as anonymous access
	PermSome  bool   `json:"permitted_some"` // some acceptable grant satisfies the requirement
	PermAll   bool   `json:"permitted_all"`  // every acceptable grant satisfies it
	Preflight bool   `json:"preflight"`      // CORS preflight: OPTIONS + Origin + Access-Control-Request-Method
	Reason    string `json:"reason"`         // why not permitted
	useSess   string // session certainly used as the credential (refreshed)
	authStage bool   // the request certainly reaches credential evaluation
}

func declared(rc *reqCase, class string) int {
	switch rc.Kind {
	case "plain":
		return pSelf // a handler that declares nothing requires Self
	case "none":
		return pNotFound
	}
	if class == "read" {
		return rc.Rr
	}
	return rc.Rw
}

func grantOK(t tok, class string, required int) bool {
	p := t.W
	if class == "read" {
		p = t.R
	}
	if required == pDynamic {
		required = pAnyone
	}
	return validGrant(p) && validGrant(required) && p >= required
}

func (m *model) judge(rc *reqCase) verdict {
	v := verdict{}
	v.Origin = originVerdict(rc.Origin, rc.Host, m.Dev)
	v.Class = methodClass(rc.Method, rc.ACRM)
	v.Preflight = rc.Origin != "" && rc.Method == "OPTIONS" && rc.ACRM != ""
	if v.Class == "none" {
		v.Required = pNotFound
		v.Reason = "no-method-class"
		return v
	}
	v.Required = declared(rc, v.Class)
	req := v.Required
	if req == pDynamic {
		req = pAnyone
	}
	if !validGrant(req) {
		switch v.Required {
		case pNotFound:
			v.Reason = "declares-not-found"
		case pNotSupported:
			v.Reason = "declares-not-supported"
		default:
			v.Reason = "declares-invalid-permission"
		}
		return v
	}

	// Credentials.
	var certain, uncertain []tok
	keyCertain := false
	switch {
	case m.Dev:
		certain = []tok{{pSelf, pSelf}}
	default:
		if rc.Bridge {
			certain = append(certain, tok{pAdmin, pAdmin})
		}
		kc, ku := m.authzGrants(rc.Authz)
		keyCertain = len(kc) > 0
		certain = append(certain, kc...)
		uncertain = append(uncertain, ku...)
		cc, cu, sess := m.cookieGrants(rc.Cookie)
		certain = append(certain, cc...)
		uncertain = append(uncertain, cu...)
		switch rc.Authn.Kind {
		case "tok":
			certain = append(certain, tok{rc.Authn.R, rc.Authn.W})
		case "err":
			v.MayRefuse = true
		}
		if sess != "" && !rc.Bridge && !keyCertain && len(ku) == 0 {
			v.useSess = sess
		}
	}
	v.Accept = append(v.Accept, certain...)
	v.Accept = append(v.Accept, uncertain...)
	if len(certain) == 0 {
		v.Accept = append(v.Accept, anon)
	}
	v.Accept = dedupToks(v.Accept)

	if v.Required == pAnyone {
		// "anyone can execute the operation without any authentication": anonymous
		// access is what every request holds at least; credentials need not be evaluated.
		v.PermSome, v.PermAll = true, true
		v.useSess = ""
		return v
	}
	v.authStage = v.Origin != "must-refuse" && !v.Preflight && !m.Dev
	if !v.authStage {
		v.useSess = ""
	}
	v.PermAll = true
	for _, t := range v.Accept {
		if grantOK(t, v.Class, v.Required) {
			v.PermSome = true
		} else {
			v.PermAll = false
		}
	}
	if !v.PermSome {
		v.Reason = "insufficient-permission"
	}
	return v
}

func dedupToks(l []tok) []tok {
	var out []tok
	for _, t := range l {
		dup := false
		for _, o := range out {
			dup = dup || o == t
		}
		if !dup {
			out = append(out, t)
		}
	}
	return out
}

func tokIn(t tok, l []tok) bool {
	for _, o := range l {
		if o == t {
			return true
		}
	}
	return false
}
