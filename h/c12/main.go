// C12: an API handler runs only for requests holding the permission it requires.
//
// Engine Q. The real api package is started once (the way api/main_test.go does,
// EnableServer=false, no socket); every request goes through the real
// mainHandler.ServeHTTP with a recorder. Harness handlers for every
// (read, write) requirement pair set a flag when their body runs and note the
// AuthToken they see. Enumerated: the full decision table
// requirement x method x credential x origin, dev mode, the database bridge,
// header-string languages for Authorization / Cookie / Origin, and (BFS with state
// de-duplication) histories of key configuration, session creation / use /
// reset / cleaning and the passing of time. Everything is compared with the
// decision-table model in model.go.
package main

import (
	"context"
	"encoding/base64"
	"errors"
	"fmt"
	"io"
	"net/http"
	"net/http/httptest"
	"os"
	"path/filepath"
	"reflect"
	"sort"
	"strings"
	"sync/atomic"
	"time"

	"github.com/safing/portbase/api"
	"github.com/safing/portbase/config"
	"github.com/safing/portbase/database"
	_ "github.com/safing/portbase/database/dbmodule"
	"github.com/safing/portbase/database/record"
	"github.com/safing/portbase/dataroot"
	"github.com/safing/portbase/log"
	"github.com/safing/portbase/modules"
	_ "github.com/safing/portbase/rng"

	"verif/vlib"
)

const (
	hostPort     = "api.test:817"
	hostBare     = "api.test"
	normalRemote = "192.0.2.7:40000"
)

// ---------- probe: what the harness handlers and authenticator record ----------

type probe struct {
	ran       int
	seen      []tok
	authCalls int
	authn     authnSpec
}

type probeKey struct{}

// curProbe is the fallback for requests the harness does not build itself (the
// database bridge builds its own request object). The harness is sequential.
var curProbe *probe

func getProbe(r *http.Request) *probe {
	if r != nil {
		if p, ok := r.Context().Value(probeKey{}).(*probe); ok {
			return p
		}
	}
	return curProbe
}

func noteRun(r *http.Request, ar *api.Request) {
	p := getProbe(r)
	if p == nil {
		return
	}
	p.ran++
	if ar == nil || ar.AuthToken == nil {
		p.seen = append(p.seen, tok{-99, -99})
		return
	}
	p.seen = append(p.seen, tok{int(ar.AuthToken.Read), int(ar.AuthToken.Write)})
}

func rawHandler(w http.ResponseWriter, r *http.Request) {
	noteRun(r, api.GetAPIRequest(r))
	w.WriteHeader(http.StatusOK)
	_, _ = io.WriteString(w, "verif-ran\n")
}

// poison: a handler that raises the AuthToken of its own request to Self after noting what it was
// given. The token belongs to that request only; nothing a handler does to it may change what later
// requests are granted (the model ignores it).
func poison(ar *api.Request) {
	if ar != nil && ar.AuthToken != nil {
		ar.AuthToken.Read = api.PermitSelf
		ar.AuthToken.Write = api.PermitSelf
	}
}

func poisonHandler(w http.ResponseWriter, r *http.Request) {
	ar := api.GetAPIRequest(r)
	noteRun(r, ar)
	poison(ar)
	w.WriteHeader(http.StatusOK)
	_, _ = io.WriteString(w, "verif-ran\n")
}

var poisonHandlers = []hdl{
	{Path: "/verif/poison/1/1", Kind: "wrap", Rr: pAnyone, Rw: pAnyone},
	{Path: "/verif/poison/-1/-1", Kind: "wrap", Rr: pDynamic, Rw: pDynamic},
	{Path: "/verif/poison/2/2", Kind: "wrap", Rr: pUser, Rw: pUser},
	{Path: "/api/v1/verif/poison/action/1/1", Kind: "ep-action", Rr: pAnyone, Rw: pAnyone},
}

var errDenied = fmt.Errorf("%wverif says no", api.ErrAPIAccessDeniedMessage)

func authenticator(r *http.Request, _ *http.Server) (*api.AuthToken, error) {
	p := getProbe(r)
	if p == nil {
		return nil, nil
	}
	p.authCalls++
	switch p.authn.Kind {
	case "tok":
		return &api.AuthToken{Read: api.Permission(p.authn.R), Write: api.Permission(p.authn.W)}, nil
	case "err":
		return nil, errors.New("verif authenticator internal error")
	case "deny":
		return nil, errDenied
	}
	return nil, nil
}

// ---------- handlers ----------

var permAlpha = []int{pNotFound, pDynamic, pNotSupported, pAnyone, pUser, pAdmin, pSelf, 5, -3}

// grantAlpha: what the authenticator may answer (superset of permAlpha: far out-of-range values too).
var grantAlpha = []int{pNotFound, pDynamic, pNotSupported, pAnyone, pUser, pAdmin, pSelf, 5, -3, 100, -100}

// halfValid: tokens that are valid for one method class and out of range / a special constant for the other.
// Sessions for them are obtained with a request of the valid class and then presented for the other class.
var halfValid = []struct {
	Name   string
	Method string
	T      tok
}{
	{"sR2W100", "GET", tok{pUser, 100}}, {"sR3Wm3", "GET", tok{pAdmin, -3}}, {"sR2W0", "GET", tok{pUser, pNotSupported}}, {"sR3Wm2", "GET", tok{pAdmin, pNotFound}}, {"sR4W5", "GET", tok{pSelf, 5}},
	{"sR100W2", "POST", tok{100, pUser}}, {"sR5W3", "POST", tok{5, pAdmin}}, {"sR0W3", "POST", tok{pNotSupported, pAdmin}}, {"sRm1W3", "POST", tok{pDynamic, pAdmin}}, {"sRm100W4", "POST", tok{-100, pSelf}},
}

var epPerms = []int{pDynamic, pNotSupported, pAnyone, pUser, pAdmin, pSelf}
var epKinds = []string{"ep-action", "ep-data", "ep-struct", "ep-record", "ep-handler"}

type hdl struct {
	Path   string
	Kind   string
	Rr, Rw int
}

var (
	wrapHandlers []hdl
	epHandlers   []hdl
	plainHandler = hdl{Path: "/verif/plain", Kind: "plain", Rr: pSelf, Rw: pSelf}
	noRoute      = hdl{Path: "/verif/unregistered", Kind: "none", Rr: pNotFound, Rw: pNotFound}
	noEndpoint   = hdl{Path: "/api/v1/verif/unregistered", Kind: "none", Rr: pNotFound, Rw: pNotFound}
	resetHandler = hdl{Path: "/api/v1/auth/reset", Kind: "reset", Rr: pAnyone, Rw: pNotSupported}
)

func wrapH(r, w int) hdl {
	return hdl{Path: fmt.Sprintf("/verif/w/%d/%d", r, w), Kind: "wrap", Rr: r, Rw: w}
}

func epH(kind string, r, w int) hdl {
	return hdl{Path: fmt.Sprintf("/api/v1/verif/%s/%d/%d", strings.TrimPrefix(kind, "ep-"), r, w), Kind: kind, Rr: r, Rw: w}
}

func registerHandlers(c *vlib.Ctx) {
	for _, r := range permAlpha {
		for _, w := range permAlpha {
			h := wrapH(r, w)
			api.RegisterHandler(h.Path, api.WrapInAuthHandler(rawHandler, api.Permission(r), api.Permission(w)))
			wrapHandlers = append(wrapHandlers, h)
		}
	}
	api.RegisterHandleFunc(plainHandler.Path, rawHandler)
	for _, h := range poisonHandlers {
		if h.Kind == "wrap" {
			api.RegisterHandler(h.Path, api.WrapInAuthHandler(poisonHandler, api.Permission(h.Rr), api.Permission(h.Rw)))
			continue
		}
		if err := api.RegisterEndpoint(api.Endpoint{Path: strings.TrimPrefix(h.Path, "/api/v1/"), Read: api.Permission(h.Rr), Write: api.Permission(h.Rw), Name: "verif poison",
			ActionFunc: func(ar *api.Request) (string, error) { noteRun(ar.Request, ar); poison(ar); return "verif-ran", nil }}); err != nil {
			c.EngineError("RegisterEndpoint(%s): %v", h.Path, err)
		}
	}

	mkRecord := func() record.Record {
		r := &api.EndpointBridgeResponse{MimeType: "text/plain", Body: "verif"}
		r.SetKey("api:verif/record")
		r.UpdateMeta()
		return r
	}
	for _, kind := range epKinds {
		for _, r := range epPerms {
			for _, w := range epPerms {
				h := epH(kind, r, w)
				e := api.Endpoint{Path: strings.TrimPrefix(h.Path, "/api/v1/"), Read: api.Permission(r), Write: api.Permission(w), Name: "verif"}
				switch kind {
				case "ep-action":
					e.ActionFunc = func(ar *api.Request) (string, error) { noteRun(ar.Request, ar); return "verif-ran", nil }
				case "ep-data":
					e.DataFunc = func(ar *api.Request) ([]byte, error) { noteRun(ar.Request, ar); return []byte("verif-ran"), nil }
				case "ep-struct":
					e.StructFunc = func(ar *api.Request) (interface{}, error) {
						noteRun(ar.Request, ar)
						return struct{ Ran bool }{true}, nil
					}
				case "ep-record":
					e.RecordFunc = func(ar *api.Request) (record.Record, error) { noteRun(ar.Request, ar); return mkRecord(), nil }
				case "ep-handler":
					e.HandlerFunc = rawHandler
				}
				if err := api.RegisterEndpoint(e); err != nil {
					c.EngineError("RegisterEndpoint(%s): %v", h.Path, err)
					continue
				}
				epHandlers = append(epHandlers, h)
			}
		}
	}
	// RegisterEndpoint must reject NotFound and out-of-range declarations (that is why
	// those are only reachable through RegisterHandler + WrapInAuthHandler).
	rejected := 0
	for i, p := range []int{pNotFound, 5, -3} {
		for _, side := range []string{"read", "write"} {
			e := api.Endpoint{Path: fmt.Sprintf("verif/reject/%d/%s", i, side), Read: pAnyone, Write: pAnyone, ActionFunc: func(ar *api.Request) (string, error) { noteRun(ar.Request, ar); return "", nil }}
			if side == "read" {
				e.Read = api.Permission(p)
			} else {
				e.Write = api.Permission(p)
			}
			if err := api.RegisterEndpoint(e); err != nil {
				rejected++
			}
		}
	}
	c.Extra("register_endpoint_rejections_of_6_invalid_declarations", int64(rejected))
}

// ---------- world: the real package plus the model, driven by operations ----------

type op struct {
	Op   string    `json:"op"` // keys | dev | pass | clean | req
	Keys []keySpec `json:"keys,omitempty"`
	On   bool      `json:"on,omitempty"`
	D    string    `json:"d,omitempty"`
	Req  *reqCase  `json:"req,omitempty"`
	Save string    `json:"save_session_as,omitempty"` // name for the session cookie this request may be issued
}

func (o op) String() string {
	switch o.Op {
	case "keys":
		var l []string
		for _, k := range o.Keys {
			l = append(l, k.configString(time.Unix(0, 0)))
		}
		return "keys[" + strings.Join(l, " ") + "]"
	case "dev":
		return fmt.Sprintf("dev(%v)", o.On)
	case "pass":
		return "pass(" + o.D + ")"
	case "clean":
		return "cleanSessions"
	case "cfg-unwritable":
		return "makeConfigFileUnwritable"
	case "cfg-writable":
		return "makeConfigFileWritable"
	case "req":
		return "req{" + o.Req.short() + "}"
	}
	return o.Op
}

func (rc *reqCase) short() string {
	s := rc.Method
	if rc.ACRM != "" {
		s += "+ACRM:" + rc.ACRM
	}
	s += " " + rc.Handler
	if rc.Authz != "" {
		s += " Authorization:" + fmt.Sprintf("%q", rc.Authz)
	}
	if rc.Cookie != "" {
		s += " Cookie:" + fmt.Sprintf("%q", rc.Cookie)
	}
	if rc.Origin != "" {
		s += " Origin:" + fmt.Sprintf("%q", rc.Origin)
	}
	if rc.Bridge {
		s += " remote=bridge"
	}
	s += " Host:" + rc.Host + " authn=" + rc.Authn.String()
	return s
}

type obs struct {
	Status    int    `json:"status"`
	Wrote     bool   `json:"response_written"`
	Ran       int    `json:"handler_runs"`
	Seen      []tok  `json:"token_seen"`
	AuthCalls int    `json:"authenticator_calls"`
	NewCookie bool   `json:"session_cookie_issued"`
	PanicSite string `json:"panic_site,omitempty"`
	PanicVal  string `json:"panic_value,omitempty"`
	Escaped   string `json:"panic_escaped,omitempty"`
	cookieVal string
}

type world struct {
	c        *vlib.Ctx
	m        *model
	jar      map[string]string // session name -> cookie value
	handler  http.Handler
	errCh    chan *modules.ModuleError
	cfgKeys  []string // what the harness last wrote to core/apiKeys
	started  time.Time
	nextSess int
	steps    int64
	verbose  bool // replay: print what was observed

	dataDir    string // data root (the configuration file lives here)
	cfgBlocked bool   // the configuration file cannot be saved at the moment
}

var theWorld *world

type respWriter struct {
	*httptest.ResponseRecorder
	wrote bool
}

func (w *respWriter) WriteHeader(code int) {
	w.wrote = true
	w.ResponseRecorder.WriteHeader(code)
}

func (w *respWriter) Write(b []byte) (int, error) {
	w.wrote = true
	return w.ResponseRecorder.Write(b)
}

var inFlight atomic.Int64 // unix nanos of the request in flight, 0 if none
var inFlightWhat atomic.Value

// fresh brings the real package and the model to the initial state: no keys,
// dev mode off, no sessions, no authenticator.
func (w *world) fresh() {
	w.setConfigWritable(true)
	if len(w.cfgKeys) > 0 || w.cfgKeys == nil {
		w.setKeys(nil)
	}
	if w.m != nil && w.m.Dev {
		w.setDev(false)
	}
	api.VerifClearSessions()
	api.VerifSetAuthenticator(nil)
	w.m = newModel()
	w.jar = map[string]string{}
	w.nextSess = 0
	w.started = time.Now()
}

// setConfigWritable(false) puts a directory where the configuration file is saved, so that
// config.SaveConfig fails; the setters then return an error, but the configuration they set is
// what is configured from then on (the model follows the setter).
func (w *world) setConfigWritable(ok bool) {
	if ok == !w.cfgBlocked {
		return
	}
	path := filepath.Join(w.dataDir, "config.json")
	_ = os.RemoveAll(path)
	if !ok {
		if err := os.Mkdir(path, 0o755); err != nil {
			w.c.EngineError("cannot block the config file: %v", err)
		}
	}
	w.cfgBlocked = !ok
}

func (w *world) setDev(on bool) {
	if err := config.SetConfigOption(config.CfgDevModeKey, on); err != nil && !w.cfgBlocked {
		w.c.EngineError("SetConfigOption(devMode): %v", err)
	}
	w.m.Dev = on
}

func (w *world) setKeys(specs []keySpec) {
	now := time.Now()
	vals := []string{}
	for _, s := range specs {
		cs := s.configString(now)
		vals = append(vals, cs)
	}
	if err := config.SetConfigOption(api.CfgAPIKeys, vals); err != nil && !w.cfgBlocked {
		w.c.EngineError("SetConfigOption(apiKeys): %v", err)
	}
	if err := api.VerifUpdateAPIKeys(); err != nil {
		w.c.EngineError("updateAPIKeys: %v", err)
	}
	w.cfgKeys = vals
	hadExpired := false
	if w.m != nil {
		hadExpired = w.m.setKeys(specs)
	}
	if hadExpired {
		// updateAPIKeys has scheduled an asynchronous micro task that rewrites the option
		// without the expired entries. Wait for it (state handshake, not an oracle), so that
		// it cannot overwrite a later configuration step of the history.
		deadline := time.Now().Add(3 * time.Second)
		cur := vals
		for reflect.DeepEqual(cur, vals) {
			if time.Now().After(deadline) {
				w.c.ExtraAdd("cleanup_handshake_timeouts", 1)
				break
			}
			time.Sleep(100 * time.Microsecond)
			cur = config.GetAsStringArray(api.CfgAPIKeys, nil)()
		}
		// ... and for the task to be completely finished (it still saves the config file
		// after setting the value; two concurrent config.SaveConfig calls can deadlock).
		for modules.VerifMicroTasksRunning() != 0 && !time.Now().After(deadline) {
			time.Sleep(100 * time.Microsecond)
		}
		w.cfgKeys = config.GetAsStringArray(api.CfgAPIKeys, nil)()
		w.c.ExtraAdd("expired_key_cleanups_awaited", 1)
	}
}

// exec sends one request through the real main handler.
func (w *world) exec(rc *reqCase) obs {
	if rc.Authn.Kind == "unset" {
		api.VerifSetAuthenticator(nil)
	} else {
		api.VerifSetAuthenticator(authenticator)
	}
	var body io.Reader
	if rc.Method == "POST" || rc.Method == "PUT" {
		body = strings.NewReader("")
	}
	r := httptest.NewRequest(rc.Method, rc.Handler, body)
	r.Host = rc.Host
	r.RemoteAddr = normalRemote
	if rc.Bridge {
		r.RemoteAddr = api.VerifBridgeRemoteAddress
	}
	if rc.ACRM != "" {
		r.Header.Set("Access-Control-Request-Method", rc.ACRM)
	}
	if rc.Authz != "" {
		r.Header.Set("Authorization", rc.Authz)
	}
	if rc.Cookie != "" {
		r.Header.Set("Cookie", w.resolveCookie(rc.Cookie))
	}
	if rc.Origin != "" {
		r.Header.Set("Origin", rc.Origin)
	}
	p := &probe{authn: rc.Authn}
	curProbe = p
	r = r.WithContext(context.WithValue(r.Context(), probeKey{}, p))
	rec := &respWriter{ResponseRecorder: httptest.NewRecorder()}
	w.drainErrors()

	inFlightWhat.Store(rc)
	inFlight.Store(time.Now().UnixNano())
	pv, stack := vlib.Catch(func() { w.handler.ServeHTTP(rec, r) })
	inFlight.Store(0)
	w.steps++

	o := obs{Status: rec.Code, Wrote: rec.wrote, Ran: p.ran, Seen: p.seen, AuthCalls: p.authCalls}
	if pv != nil {
		o.Escaped = fmt.Sprintf("%v at %s", pv, vlib.PanicSite(stack))
	}
	select {
	case me := <-w.errCh:
		o.PanicSite = panicSite(me.StackTrace)
		o.PanicVal = fmt.Sprint(me.PanicValue)
	default:
	}
	for _, ck := range (&http.Response{Header: rec.Header()}).Cookies() {
		if ck.Name == cookieName && ck.Value != "" && ck.MaxAge >= 0 {
			o.NewCookie = true
			o.cookieVal = ck.Value
		}
	}
	return o
}

func (w *world) drainErrors() {
	for {
		select {
		case <-w.errCh:
		default:
			return
		}
	}
}

func (w *world) resolveCookie(h string) string {
	if !strings.Contains(h, "$s:") {
		return h
	}
	names := make([]string, 0, len(w.jar))
	for n := range w.jar {
		names = append(names, n)
	}
	sort.Slice(names, func(i, j int) bool { return len(names[i]) > len(names[j]) })
	for _, n := range names {
		h = strings.ReplaceAll(h, "$s:"+n, w.jar[n])
	}
	return h // an unresolved $s:NAME stays literal: an unknown cookie value
}

// panicSite: innermost portbase function below the panic on a reported stack.
func panicSite(stack string) string {
	lines := strings.Split(stack, "\n")
	start := 0
	for i, l := range lines {
		if strings.HasPrefix(l, "panic(") {
			start = i + 1
		}
	}
	for _, l := range lines[start:] {
		if strings.HasPrefix(l, "github.com/safing/portbase/") && !strings.Contains(l, "Verif") {
			l = strings.TrimPrefix(l, "github.com/safing/portbase/")
			if i := strings.LastIndex(l, "("); i > 0 {
				l = l[:i]
			}
			return l
		}
	}
	return "unknown"
}

// apply executes one operation on the real package and on the model and
// judges it. wit builds the witness for a violation at this step.
func (w *world) apply(o op, wit func(extra map[string]any) any) {
	switch o.Op {
	case "keys":
		w.setKeys(o.Keys)
	case "dev":
		w.setDev(o.On)
	case "pass":
		d, err := time.ParseDuration(o.D)
		if err != nil {
			w.c.EngineError("bad duration %q", o.D)
			return
		}
		api.VerifShiftTime(d)
		w.m.pass(d)
	case "clean":
		api.VerifCleanSessions()
		w.m.clean()
	case "cfg-unwritable":
		w.setConfigWritable(false)
	case "cfg-writable":
		w.setConfigWritable(true)
	case "req":
		v := w.m.judge(o.Req)
		ob := w.exec(o.Req)
		if w.verbose {
			fmt.Printf("     observed: status=%d response_written=%v handler_runs=%d token_seen=%v authenticator_calls=%d session_cookie_issued=%v panic=%q\n",
				ob.Status, ob.Wrote, ob.Ran, ob.Seen, ob.AuthCalls, ob.NewCookie, ob.PanicSite)
		}
		w.judge(o.Req, v, ob, wit)
		// effects on the model
		if v.useSess != "" {
			if s := w.m.Sessions[v.useSess]; s != nil {
				s.Remain = api.VerifSessionTTL
			}
		}
		if ob.NewCookie {
			name := o.Save
			if name == "" {
				w.nextSess++
				name = fmt.Sprintf("anon%d", w.nextSess)
			}
			t := anon
			if o.Req.Authn.Kind == "tok" {
				t = tok{o.Req.Authn.R, o.Req.Authn.W}
			}
			w.m.Sessions[name] = &mSess{T: t, Remain: api.VerifSessionTTL}
			w.jar[name] = ob.cookieVal
		}
		if o.Req.Kind == "reset" && v.Origin != "must-refuse" && v.Class == "read" && !v.Preflight {
			// auth/reset forgets the session named by the cookie.
			_, _, sess := w.m.cookieGrants(o.Req.Cookie)
			if sess != "" {
				delete(w.m.Sessions, sess)
			} else if strings.Contains(o.Req.Cookie, "$s:") {
				for n := range w.m.Sessions {
					if strings.Contains(o.Req.Cookie, "$s:"+n) {
						delete(w.m.Sessions, n)
					}
				}
			}
		}
	default:
		w.c.EngineError("unknown op %q", o.Op)
	}
}

var refusalStatus = map[int]bool{401: true, 403: true, 404: true, 405: true, 500: true}

func family(rc *reqCase) string {
	if strings.HasPrefix(rc.Kind, "ep-") {
		return "endpoint-handler"
	}
	switch rc.Kind {
	case "wrap":
		return "wrapped-handler"
	case "plain":
		return "undeclared-handler"
	case "none":
		return "unregistered-path"
	}
	return rc.Kind
}

// judge compares one observation with the model's verdict.
func (w *world) judge(rc *reqCase, v verdict, ob obs, wit func(extra map[string]any) any) {
	c := w.c
	fam := family(rc)
	mk := func() any { return wit(map[string]any{"model": v, "observed": ob}) }
	desc := func() string {
		return fmt.Sprintf("request %s\n model: origin=%s class=%s required=%s accept=%v permitted(some/all)=%v/%v preflight=%v %s\n observed: status=%d written=%v handler_runs=%d token_seen=%v authenticator_calls=%d",
			rc.short(), v.Origin, v.Class, permName(v.Required), v.Accept, v.PermSome, v.PermAll, v.Preflight, v.Reason,
			ob.Status, ob.Wrote, ob.Ran, ob.Seen, ob.AuthCalls)
	}
	outcome := func(s string) { c.Outcome(s) }

	// never crash
	if ob.Escaped != "" {
		c.Violate("never-crashes", "mainHandler.ServeHTTP", "panic-escaped", "a panic escaped ServeHTTP: "+ob.Escaped+"\n"+desc(), mk())
		outcome("panic-escaped")
		return
	}
	if ob.PanicSite != "" {
		c.Violate("never-crashes", "mainHandler.ServeHTTP", ob.PanicSite,
			fmt.Sprintf("the request worker panicked (%s) in %s; the client gets no status line from the API (implicit 200, empty body)\n%s", ob.PanicVal, ob.PanicSite, desc()), mk())
		outcome("panic-in-request-worker")
		return
	}

	// cross-origin refusal comes first
	if v.Origin == "must-refuse" {
		switch {
		case ob.Ran > 0:
			c.Violate("cross-origin-refused-first", fam, "handler-ran", "cross-origin request reached the handler\n"+desc(), mk())
		case ob.AuthCalls > 0:
			c.Violate("cross-origin-refused-first", fam, "authenticator-ran", "cross-origin request reached the authenticator\n"+desc(), mk())
		case ob.Status < 400:
			c.Violate("cross-origin-refused-first", fam, "not-refused", "cross-origin request was not refused\n"+desc(), mk())
		}
		outcome(fmt.Sprintf("origin-must-refuse->%d", ob.Status))
		return
	}

	if rc.Kind == "reset" {
		// portbase's own auth/reset endpoint: its body is not observable (and it answers 401 by design).
		outcome(fmt.Sprintf("auth/reset->%d", ob.Status))
		return
	}

	if ob.Ran > 0 {
		if !v.PermSome {
			clause := "invoked-only-with-permission"
			if v.Reason == "declares-not-found" || v.Reason == "declares-not-supported" || v.Reason == "declares-invalid-permission" {
				clause = "notfound-notsupported-never-invoked"
			}
			c.Violate(clause, fam, v.Reason, "the handler body ran although the model refuses\n"+desc(), mk())
			outcome("VIOLATION ran without permission")
			return
		}
		for _, t := range ob.Seen {
			okTok := tokIn(t, v.Accept) || (v.Required == pAnyone && t == anon)
			if okTok && v.Required != pAnyone {
				okTok = grantOK(t, v.Class, v.Required)
			}
			if !okTok {
				c.Violate("token-equals-grant", fam, "wrong-token", "the AuthToken seen by the handler is not what the credential grants\n"+desc(), mk())
			}
		}
		outcome(fmt.Sprintf("permit(req=%s)->ran", permName(v.Required)))
		return
	}

	// handler did not run
	switch {
	case v.Preflight:
		outcome(fmt.Sprintf("preflight->%d", ob.Status))
	case !v.PermSome:
		if !refusalStatus[ob.Status] {
			c.Violate("refusal-status", fam, "not-a-refusal-status", fmt.Sprintf("refused request answered with status %d\n%s", ob.Status, desc()), mk())
		}
		outcome(fmt.Sprintf("refuse(%s)->%d", v.Reason, ob.Status))
	case v.PermAll && !v.MayRefuse && (v.Origin == "none" || v.Origin == "same-origin") && (ob.Status == 401 || ob.Status == 403):
		c.Violate("grant-exact", fam, "refused-despite-grant", fmt.Sprintf("a request whose credential grants enough was refused with %d\n%s", ob.Status, desc()), mk())
		outcome(fmt.Sprintf("VIOLATION permit->%d", ob.Status))
	default:
		outcome(fmt.Sprintf("permit-or-either->no-run/%d", ob.Status))
	}
}

// ---------- witnesses and replay ----------

type witness struct {
	Phase   string         `json:"phase"`
	History []op           `json:"history"` // executed from the fresh state; the last op is the failing one
	Extra   map[string]any `json:"extra,omitempty"`
}

func runHistory(w *world, phase string, hist []op) {
	w.fresh()
	for i := range hist {
		i := i
		w.apply(hist[i], func(extra map[string]any) any {
			return witness{Phase: phase, History: append([]op{}, hist[:i+1]...), Extra: extra}
		})
	}
}

// ---------- alphabets ----------

type meth struct{ M, ACRM string }

var methods = []meth{
	{"GET", ""}, {"HEAD", ""}, {"POST", ""}, {"PUT", ""}, {"DELETE", ""}, {"PATCH", ""},
	{"OPTIONS", ""}, {"OPTIONS", "GET"}, {"OPTIONS", "HEAD"}, {"OPTIONS", "POST"}, {"OPTIONS", "PUT"}, {"OPTIONS", "DELETE"},
	{"OPTIONS", "PATCH"}, {"OPTIONS", "OPTIONS"}, {"GET", "POST"}, {"POST", "GET"},
}

func b64(s string) string { return base64.StdEncoding.EncodeToString([]byte(s)) }

// standing key configuration of the decision table
var tableKeys = []keySpec{
	{Key: "kAny"},
	{Key: "kUser", Read: "user", Write: "user"},
	{Key: "kAdmin", Read: "admin", Write: "admin"},
	{Key: "kRuWa", Read: "user", Write: "admin"},
	{Key: "kRaWn", Read: "admin"},
	{Key: "kCase", Read: "USER", Write: "Admin"},
	{Key: "kFuture", Read: "admin", Write: "admin", Expires: "+1000h"},
	{Key: "kLapse", Read: "admin", Write: "admin", Expires: "+9m"},
	{Key: "kPast", Read: "admin", Write: "admin", Expires: "-1h"},
	{Key: "kBadPerm", Read: "root", Write: "admin"},
	{Key: "kBadDate", Read: "admin", Write: "admin", Expires: "!tomorrow"},
	{Key: "ab", Read: "user", Write: "user"},
	{Key: "kDup", Read: "admin", Write: "admin"},
	{Key: "kDup", Read: "user", Write: "user"},
	{Key: " ", Read: "admin", Write: "admin"},      // a key that is one blank: a key like any other, it is not the empty key
	{Key: " kPad ", Read: "admin", Write: "admin"}, // a key with blanks around it is not the key without them
}

func dyn(authn authnSpec) *reqCase {
	h := wrapH(pDynamic, pDynamic)
	return &reqCase{Handler: h.Path, Kind: h.Kind, Rr: h.Rr, Rw: h.Rw, Method: "GET", Host: hostPort, Authn: authn}
}

// tableWorld is the history that builds the standing state of the decision table:
// keys of every kind, one lapsed key, one expired and four live sessions.
func tableWorld(dev, clean bool) []op {
	h := []op{
		{Op: "keys", Keys: tableKeys},
		{Op: "req", Req: dyn(authnSpec{Kind: "tok", R: pAdmin, W: pAdmin}), Save: "sOld"},
		{Op: "pass", D: "20m"},
		{Op: "req", Req: dyn(authnSpec{Kind: "tok", R: pUser, W: pUser}), Save: "sUser"},
		{Op: "req", Req: dyn(authnSpec{Kind: "tok", R: pAdmin, W: pAdmin}), Save: "sAdmin"},
		{Op: "req", Req: dyn(authnSpec{Kind: "tok", R: pUser, W: pAdmin}), Save: "sRuWa"},
		{Op: "req", Req: dyn(authnSpec{Kind: "tok", R: pNotSupported, W: 5}), Save: "sInvalid"},
	}
	for _, hv := range halfValid {
		rq := dyn(authnSpec{Kind: "tok", R: hv.T.R, W: hv.T.W})
		rq.Method = hv.Method
		h = append(h, op{Op: "req", Req: rq, Save: hv.Name})
	}
	if clean {
		h = append(h, op{Op: "clean"})
	}
	if dev {
		h = append(h, op{Op: "dev", On: true})
	}
	return h
}

// cred is a credential presentation.
type cred struct {
	Name   string
	Authz  string
	Cookie string
	Bridge bool
	Authn  authnSpec
}

func ck(v string) string { return cookieName + "=" + v }

var unset = authnSpec{Kind: "unset"}

func credentials(full bool) []cred {
	l := []cred{
		{Name: "none", Authn: unset},
		// API keys, Bearer
		{Name: "bearer-anyone", Authz: "Bearer kAny", Authn: unset},
		{Name: "bearer-user", Authz: "Bearer kUser", Authn: unset},
		{Name: "bearer-admin", Authz: "Bearer kAdmin", Authn: unset},
		{Name: "bearer-read-user-write-admin", Authz: "Bearer kRuWa", Authn: unset},
		{Name: "bearer-read-admin-write-default", Authz: "Bearer kRaWn", Authn: unset},
		{Name: "bearer-case-insensitive-perm-words", Authz: "Bearer kCase", Authn: unset},
		{Name: "bearer-unexpired", Authz: "Bearer kFuture", Authn: unset},
		{Name: "bearer-lapsed", Authz: "Bearer kLapse", Authn: unset},
		{Name: "bearer-expired-at-config", Authz: "Bearer kPast", Authn: unset},
		{Name: "bearer-bad-perm-word", Authz: "Bearer kBadPerm", Authn: unset},
		{Name: "bearer-bad-date", Authz: "Bearer kBadDate", Authn: unset},
		{Name: "bearer-2byte-configured", Authz: "Bearer ab", Authn: unset},
		{Name: "bearer-configured-twice", Authz: "Bearer kDup", Authn: unset},
		{Name: "bearer-unknown", Authz: "Bearer nosuchkey", Authn: unset},
		{Name: "bearer-unknown-4B", Authz: "Bearer wxyz", Authn: unset},
		{Name: "bearer-unknown-3B", Authz: "Bearer xyz", Authn: unset},
		{Name: "bearer-unknown-2B", Authz: "Bearer xy", Authn: unset},
		{Name: "bearer-unknown-1B", Authz: "Bearer x", Authn: unset},
		{Name: "bearer-unknown-0B", Authz: "Bearer ", Authn: unset},
		{Name: "bearer-blank-key", Authz: "Bearer  ", Authn: unset},
		{Name: "bearer-padded-key-exact", Authz: "Bearer  kPad ", Authn: unset},
		{Name: "bearer-padded-key-without-padding", Authz: "Bearer kPad", Authn: unset},
		{Name: "basic-blank-user", Authz: "Basic " + b64(" :"), Authn: unset},
		{Name: "basic-not-base64-long", Authz: "Basic !!!not-base64!!!", Authn: unset},
		// API keys, Basic (key = user + pass)
		{Name: "basic-admin-user-part", Authz: "Basic " + b64("kAdmin:"), Authn: unset},
		{Name: "basic-admin-pass-part", Authz: "Basic " + b64(":kAdmin"), Authn: unset},
		{Name: "basic-user-split", Authz: "Basic " + b64("kUs:er"), Authn: unset},
		{Name: "basic-admin-split-4+2", Authz: "Basic " + b64("kAdm:in"), Authn: unset},
		{Name: "basic-admin-user-plus-junk-pass", Authz: "Basic " + b64("kAdmin:junk"), Authn: unset},
		{Name: "basic-junk-user-plus-admin-pass", Authz: "Basic " + b64("junk:kAdmin"), Authn: unset},
		{Name: "basic-lapsed", Authz: "Basic " + b64("kLapse:"), Authn: unset},
		{Name: "basic-unknown", Authz: "Basic " + b64("who:ever"), Authn: unset},
		{Name: "basic-unknown-2B", Authz: "Basic " + b64("x:y"), Authn: unset},
		{Name: "basic-empty-userpass", Authz: "Basic " + b64(":"), Authn: unset},
		{Name: "basic-no-colon", Authz: "Basic " + b64("kAdmin"), Authn: unset},
		{Name: "basic-not-base64", Authz: "Basic !!!", Authn: unset},
		// malformed schemes
		{Name: "scheme-missing", Authz: "kAdmin", Authn: unset},
		{Name: "scheme-no-space", Authz: "Bearer", Authn: unset},
		{Name: "scheme-lowercase", Authz: "bearer kAdmin", Authn: unset},
		{Name: "scheme-other", Authz: "Token kAdmin", Authn: unset},
		{Name: "scheme-double-space", Authz: "Bearer  kAdmin", Authn: unset},
		// session cookies
		{Name: "cookie-user", Cookie: ck("$s:sUser"), Authn: unset},
		{Name: "cookie-admin", Cookie: ck("$s:sAdmin"), Authn: unset},
		{Name: "cookie-read-user-write-admin", Cookie: ck("$s:sRuWa"), Authn: unset},
		{Name: "cookie-session-with-invalid-token", Cookie: ck("$s:sInvalid"), Authn: unset},
		{Name: "cookie-expired", Cookie: ck("$s:sOld"), Authn: unset},
		{Name: "cookie-half-valid-sR2W100", Cookie: ck("$s:sR2W100"), Authn: unset},
		{Name: "cookie-half-valid-sR3Wm3", Cookie: ck("$s:sR3Wm3"), Authn: unset},
		{Name: "cookie-half-valid-sR2W0", Cookie: ck("$s:sR2W0"), Authn: unset},
		{Name: "cookie-half-valid-sR3Wm2", Cookie: ck("$s:sR3Wm2"), Authn: unset},
		{Name: "cookie-half-valid-sR4W5", Cookie: ck("$s:sR4W5"), Authn: unset},
		{Name: "cookie-half-valid-sR100W2", Cookie: ck("$s:sR100W2"), Authn: unset},
		{Name: "cookie-half-valid-sR5W3", Cookie: ck("$s:sR5W3"), Authn: unset},
		{Name: "cookie-half-valid-sR0W3", Cookie: ck("$s:sR0W3"), Authn: unset},
		{Name: "cookie-half-valid-sRm1W3", Cookie: ck("$s:sRm1W3"), Authn: unset},
		{Name: "cookie-half-valid-sRm100W4", Cookie: ck("$s:sRm100W4"), Authn: unset},
		{Name: "cookie-unknown", Cookie: ck("AAAAAAAAAAAAAAAAAAAAAAAAAAAAAAAAAAAAAAAAAAA"), Authn: unset},
		{Name: "cookie-empty-value", Cookie: ck(""), Authn: unset},
		{Name: "cookie-other-name", Cookie: "Other=$s:sAdmin", Authn: unset},
		{Name: "cookie-among-others", Cookie: "a=1; " + ck("$s:sAdmin") + "; b=2", Authn: unset},
		// authenticator
		{Name: "authn-nil", Authn: authnSpec{Kind: "nil"}},
		{Name: "authn-error", Authn: authnSpec{Kind: "err"}},
		{Name: "authn-denied", Authn: authnSpec{Kind: "deny"}},
		// other sources
		{Name: "bridge", Bridge: true, Authn: unset},
	}
	// authenticator returning every permission pair of the alphabet (diagonal in quick, all pairs in thorough)
	quickPair := map[tok]bool{{pUser, pAdmin}: true, {pAdmin, pAnyone}: true, {5, pAdmin}: true, {pAdmin, pNotSupported}: true}
	for _, hv := range halfValid {
		quickPair[hv.T] = true
	}
	for _, r := range grantAlpha {
		for _, w := range grantAlpha {
			if full || r == w || quickPair[tok{r, w}] {
				l = append(l, cred{Name: fmt.Sprintf("authn-tok(%d,%d)", r, w), Authn: authnSpec{Kind: "tok", R: r, W: w}})
			}
		}
	}
	// several credentials at once
	l = append(l,
		cred{Name: "lapsed-key+live-cookie", Authz: "Bearer kLapse", Cookie: ck("$s:sUser"), Authn: unset},
		cred{Name: "unknown-key+live-cookie", Authz: "Bearer nosuchkey", Cookie: ck("$s:sAdmin"), Authn: unset},
		cred{Name: "user-key+admin-cookie", Authz: "Bearer kUser", Cookie: ck("$s:sAdmin"), Authn: unset},
		cred{Name: "admin-key+user-cookie", Authz: "Bearer kAdmin", Cookie: ck("$s:sUser"), Authn: unset},
		cred{Name: "expired-cookie+authn-user", Cookie: ck("$s:sOld"), Authn: authnSpec{Kind: "tok", R: pUser, W: pUser}},
		cred{Name: "user-cookie+authn-admin", Cookie: ck("$s:sUser"), Authn: authnSpec{Kind: "tok", R: pAdmin, W: pAdmin}},
		cred{Name: "lapsed-key+authn-denied", Authz: "Bearer kLapse", Authn: authnSpec{Kind: "deny"}},
		cred{Name: "admin-key+authn-error", Authz: "Bearer kAdmin", Authn: authnSpec{Kind: "err"}},
		cred{Name: "unknown-key+authn-error", Authz: "Bearer nosuchkey", Authn: authnSpec{Kind: "err"}},
		cred{Name: "bridge+user-key", Bridge: true, Authz: "Bearer kUser", Authn: unset},
		cred{Name: "half-valid-cookie+authn-admin", Cookie: ck("$s:sR2W100"), Authn: authnSpec{Kind: "tok", R: pAdmin, W: pAdmin}},
		cred{Name: "expired-cookie+authn-nil", Cookie: ck("$s:sOld"), Authn: authnSpec{Kind: "nil"}},
	)
	return l
}

type originCase struct{ Origin, Host string }

func origins() []originCase {
	var l []originCase
	for _, host := range []string{hostPort, hostBare} {
		for _, o := range []string{
			"http://" + host, "https://" + host, "http://" + hostBare, "http://" + hostBare + ":9999",
			"http://other.test", "http://other.test:817", "http://api.test.evil.test", "http://evil.test/" + host,
			"http://" + host + "@evil.test", "http://evil.test#@" + host,
			"chrome-extension://abcdefghijklmnop", "CHROME-EXTENSION://x", "moz-extension://abcdef",
			"http://localhost:4200", "http://127.0.0.1", "https://localhost", "http://localhost.evil.test", "http://127.0.0.1.evil.test",
			"null", hostBare, "//" + host, "http://", "http://[::1", "%zz", "://" + host, "http:" + host,
		} {
			l = append(l, originCase{o, host})
		}
	}
	return l
}

func mkReq(h hdl, m meth, cr cred, origin, host string) *reqCase {
	return &reqCase{Handler: h.Path, Kind: h.Kind, Rr: h.Rr, Rw: h.Rw, Method: m.M, ACRM: m.ACRM,
		Authz: cr.Authz, Cookie: cr.Cookie, Bridge: cr.Bridge, Authn: cr.Authn, Origin: origin, Host: host}
}

// ---------- phases ----------

// block runs cells on top of a standing world. Cells do not depend on each other:
// within a block no time passes, keys do not change and nothing references the
// sessions that authenticator grants leave behind. The witness of a cell is the
// world's history plus the cell, which is what --replay executes.
var scenarioSeen = map[string]bool{}

func block(c *vlib.Ctx, w *world, phase string, base []op, cells func(emit func(rc *reqCase))) {
	if !scenarioSeen[phase] {
		scenarioSeen[phase] = true
		c.Scenario(phase)
	}
	runHistory(w, phase+"/world", base)
	t0 := time.Now()
	n := 0
	cells(func(rc *reqCase) {
		if n&1023 == 1023 && c.Expired() {
			return
		}
		if n&255 == 255 && time.Since(t0) > 20*time.Second {
			// keep the real time spent on one standing world far below the 1 min logical-time margin
			runHistory(w, phase+"/world", base)
			t0 = time.Now()
		}
		o := op{Op: "req", Req: rc}
		w.apply(o, func(extra map[string]any) any {
			return witness{Phase: phase, History: append(append([]op{}, base...), o), Extra: extra}
		})
		n++
		c.Add(1, 1, 1)
		if rc.Authz != "" || rc.Cookie != "" || rc.Bridge || rc.Authn.Kind != "unset" || rc.Origin != "" || w.m.Dev {
			c.NontrivialN(1)
		}
	})
	if time.Since(t0) > 40*time.Second {
		c.EngineError("block %s took %s: the logical-time margins (1 min) are no longer safe", phase, time.Since(t0))
	}
}

func sampleReq(c *vlib.Ctx, phase string, rc *reqCase) {
	c.Sample(map[string]any{"phase": phase, "request": rc.short()})
}

func phaseTable(c *vlib.Ctx, w *world) {
	full := !c.Quick()
	creds := credentials(full)
	c.Extra("table_credentials", int64(len(creds)))
	c.Extra("table_methods", int64(len(methods)))
	c.Extra("table_wrapped_handlers", int64(len(wrapHandlers)))
	// T1: every requirement pair x method x credential, without Origin and with a same / a foreign Origin.
	tableOrigins := []string{"", "http://" + hostPort, "http://other.test"}
	if full {
		tableOrigins = []string{""}
		for _, o := range origins() {
			if o.Host == hostPort {
				tableOrigins = append(tableOrigins, o.Origin)
			}
		}
	}
	c.Extra("table_origins", int64(len(tableOrigins)))
	all := append(append([]hdl{}, wrapHandlers...), plainHandler, noRoute, noEndpoint)
	// T0: the same cells on the fresh state (nothing configured: every key and cookie is unknown).
	// It runs first so that a violation that does not depend on the standing state gets a one-request witness.
	block(c, w, "table-fresh-state", nil, func(emit func(*reqCase)) {
		for _, h := range all {
			for _, m := range methods {
				for _, cr := range creds {
					emit(mkReq(h, m, cr, "", hostPort))
				}
			}
		}
	})
	for hi, h := range all {
		if c.Expired() {
			return
		}
		h := h
		base := tableWorld(false, full && hi%2 == 1)
		block(c, w, "table", base, func(emit func(*reqCase)) {
			for _, m := range methods {
				for _, cr := range creds {
					for oi, o := range tableOrigins {
						if o != "" && !full && h.Kind == "wrap" && h.Rr != h.Rw {
							continue // quick: origins in the table only on the diagonal handlers (the origins phase has its own handlers)
						}
						if full && oi > 5 && h.Kind == "wrap" && h.Rr != h.Rw {
							continue // thorough: the whole origin alphabet on the diagonal handlers, its first entries on the others
						}
						emit(mkReq(h, m, cr, o, hostPort))
					}
				}
			}
		})
	}
	sampleReq(c, "table", mkReq(wrapH(pUser, pAdmin), methods[2], creds[4], "", hostPort))
	sampleReq(c, "table", mkReq(wrapH(pDynamic, pSelf), methods[9], creds[35], "http://other.test", hostPort))
}

func phaseEndpoints(c *vlib.Ctx, w *world) {
	full := !c.Quick()
	creds := credentials(full)
	var sel []cred
	for _, cr := range creds {
		switch cr.Name {
		case "none", "bearer-user", "bearer-admin", "bearer-read-user-write-admin", "bearer-lapsed", "bearer-unknown", "basic-user-split",
			"cookie-user", "cookie-admin", "cookie-expired", "authn-denied", "authn-error", "bridge", "authn-tok(2,2)", "authn-tok(4,4)", "authn-tok(0,0)", "authn-tok(3,1)":
			sel = append(sel, cr)
		default:
			if full {
				sel = append(sel, cr)
			}
		}
	}
	c.Extra("endpoint_handlers", int64(len(epHandlers)))
	origs := []string{"", "http://other.test"}
	if full {
		origs = append(origs, "http://"+hostPort)
	}
	step := vlib.Pick(c, 36, 6)
	for i := 0; i < len(epHandlers); i += step {
		if c.Expired() {
			return
		}
		hs := epHandlers[i:min(i+step, len(epHandlers))]
		block(c, w, "endpoints", tableWorld(false, false), func(emit func(*reqCase)) {
			for _, h := range hs {
				for _, m := range methods {
					for _, cr := range sel {
						for _, o := range origs {
							emit(mkReq(h, m, cr, o, hostPort))
						}
					}
				}
			}
		})
	}
	sampleReq(c, "endpoints", mkReq(epH("ep-struct", pUser, pAdmin), methods[0], sel[1], "", hostPort))
}

func phaseDevAndOrigins(c *vlib.Ctx, w *world) {
	full := !c.Quick()
	creds := credentials(false)
	var sel []cred
	for _, cr := range creds {
		switch cr.Name {
		case "none", "bearer-user", "bearer-unknown", "bearer-unknown-2B", "basic-not-base64", "cookie-admin", "cookie-expired", "authn-tok(2,2)", "authn-tok(0,0)", "authn-error", "authn-denied", "bridge":
			sel = append(sel, cr)
		}
	}
	// D1: dev mode on: every requirement pair x method x selected credentials.
	for _, h := range append(append([]hdl{}, wrapHandlers...), plainHandler, noEndpoint) {
		if c.Expired() {
			return
		}
		h := h
		if !full && h.Kind == "wrap" && h.Rr != h.Rw && h.Rr != pSelf && h.Rw != pSelf {
			continue
		}
		block(c, w, "devmode", tableWorld(true, false), func(emit func(*reqCase)) {
			for _, m := range methods {
				for _, cr := range sel {
					for _, o := range []string{"", "http://localhost:4200", "http://other.test"} {
						emit(mkReq(h, m, cr, o, hostPort))
					}
				}
			}
		})
	}
	// O1: the origin alphabet x host x dev mode x method x a few handlers x a few credentials.
	hs := []hdl{wrapH(pDynamic, pDynamic), wrapH(pAnyone, pAnyone), wrapH(pUser, pAdmin), wrapH(pSelf, pSelf), wrapH(pNotFound, pNotSupported), epH("ep-action", pUser, pAdmin)}
	var osel []cred
	for _, cr := range sel {
		switch cr.Name {
		case "none", "bearer-user", "cookie-admin", "authn-tok(2,2)", "authn-error", "bearer-unknown-2B":
			osel = append(osel, cr)
		}
	}
	oc := origins()
	c.Extra("origin_alphabet", int64(len(oc)))
	for _, dev := range []bool{false, true} {
		dev := dev
		block(c, w, "origins", tableWorld(dev, false), func(emit func(*reqCase)) {
			for _, o := range oc {
				for _, h := range hs {
					for _, m := range methods {
						for _, cr := range osel {
							emit(mkReq(h, m, cr, o.Origin, o.Host))
						}
					}
				}
			}
		})
	}
	sampleReq(c, "origins", mkReq(hs[2], methods[9], osel[1], "http://api.test", hostPort))
	sampleReq(c, "devmode", mkReq(wrapH(pSelf, 5), methods[0], sel[0], "http://localhost:4200", hostPort))
}

// words returns all concatenations of at most n tokens.
func words(tokens []string, n int) []string {
	out := []string{""}
	level := []string{""}
	for i := 0; i < n; i++ {
		var next []string
		for _, p := range level {
			for _, t := range tokens {
				next = append(next, p+t)
			}
		}
		out = append(out, next...)
		level = next
	}
	seen := map[string]bool{}
	var uniq []string
	for _, s := range out {
		if !seen[s] {
			seen[s] = true
			uniq = append(uniq, s)
		}
	}
	return uniq
}

func headerSafe(s string) bool {
	for i := 0; i < len(s); i++ {
		if s[i] < 0x20 || s[i] == 0x7f {
			return false
		}
	}
	return true
}

func phaseHeaderStrings(c *vlib.Ctx, w *world) {
	n := vlib.Pick(c, 2, 3)
	authzTok := []string{"Bearer ", "Basic ", "bearer ", "Bearer", " ", "kAdmin", "kLapse", "xy", b64("kAdmin:"), b64("kUs:er"), "="}
	cookieTok := []string{cookieName + "=", "$s:sAdmin", "$s:sOld", "nosuch", "; ", "\"", "other=1", cookieName, "=", " "}
	originTok := []string{"http://", "https://", "chrome-extension://", "//", hostBare, "other.test", "localhost", ":817", "@", "/"}
	hs := []hdl{wrapH(pDynamic, pDynamic), wrapH(pUser, pAdmin), wrapH(pAdmin, pSelf)}
	ms := []meth{{"GET", ""}, {"POST", ""}, {"OPTIONS", "PUT"}}
	aw, cw, ow := words(authzTok, n), words(cookieTok, n), words(originTok, n)
	c.Extra("header_words_authorization", int64(len(aw)))
	c.Extra("header_words_cookie", int64(len(cw)))
	c.Extra("header_words_origin", int64(len(ow)))
	for _, dev := range []bool{false, true} {
		dev := dev
		block(c, w, "header-strings", tableWorld(dev, false), func(emit func(*reqCase)) {
			for _, h := range hs {
				for _, m := range ms {
					for _, a := range aw {
						if a != "" && headerSafe(a) && !dev {
							emit(&reqCase{Handler: h.Path, Kind: h.Kind, Rr: h.Rr, Rw: h.Rw, Method: m.M, ACRM: m.ACRM, Host: hostPort, Authz: a, Authn: unset})
						}
					}
					for _, ckv := range cw {
						if ckv != "" && headerSafe(ckv) && !dev {
							emit(&reqCase{Handler: h.Path, Kind: h.Kind, Rr: h.Rr, Rw: h.Rw, Method: m.M, ACRM: m.ACRM, Host: hostPort, Cookie: ckv, Authn: unset})
						}
					}
					for _, o := range ow {
						if o != "" && headerSafe(o) {
							for _, host := range []string{hostPort, hostBare} {
								emit(&reqCase{Handler: h.Path, Kind: h.Kind, Rr: h.Rr, Rw: h.Rw, Method: m.M, ACRM: m.ACRM, Host: host, Origin: o, Authz: "Bearer kAdmin", Authn: authnSpec{Kind: "tok", R: pUser, W: pUser}})
							}
						}
					}
				}
			}
		})
	}
	sampleReq(c, "header-strings", &reqCase{Handler: hs[1].Path, Kind: "wrap", Rr: pUser, Rw: pAdmin, Method: "GET", Host: hostPort, Authz: aw[len(aw)/3], Authn: unset})
}

// phaseBridge drives the real database bridge (database "api") for every endpoint
// requirement pair: the bridged request must be granted exactly Admin.
func phaseBridge(c *vlib.Ctx, w *world) {
	c.Scenario("bridge")
	runHistory(w, "bridge/world", tableWorld(false, false))
	db := database.NewInterface(&database.Options{Local: true, Internal: true})
	for _, h := range epHandlers {
		if h.Kind != "ep-action" && h.Kind != "ep-handler" {
			continue
		}
		for _, method := range []string{"GET", "POST"} {
			p := &probe{authn: unset}
			curProbe = p
			api.VerifSetAuthenticator(nil)
			key := "api:" + strings.TrimPrefix(h.Path, "/api/v1/")
			var err error
			w.drainErrors()
			pv, stack := vlib.Catch(func() {
				if method == "GET" {
					_, err = db.Get(key)
				} else {
					r := &api.EndpointBridgeRequest{Method: "POST", Data: []byte("x")}
					r.SetKey(key)
					r.UpdateMeta()
					err = db.Put(r)
				}
			})
			w.steps++
			c.Add(1, 1, 1)
			c.NontrivialN(1)
			class := methodClass(method, "")
			required := h.Rw
			if class == "read" {
				required = h.Rr
			}
			permitted := grantOK(tok{pAdmin, pAdmin}, class, required) || required == pAnyone
			wit := map[string]any{"phase": "bridge", "db_key": key, "method": method, "declared_read": h.Rr, "declared_write": h.Rw}
			detail := fmt.Sprintf("bridge %s %s (declared %s/%s): handler_runs=%d token_seen=%v err=%v", method, key, permName(h.Rr), permName(h.Rw), p.ran, p.seen, err)
			switch {
			case pv != nil:
				c.Violate("never-crashes", "database-bridge", vlib.PanicSite(stack), fmt.Sprintf("panic %v\n%s", pv, detail), wit)
			case p.ran > 0 && !permitted:
				c.Violate("invoked-only-with-permission", "database-bridge", "insufficient-permission", detail, wit)
			case p.ran > 0 && required != pAnyone && (len(p.seen) == 0 || p.seen[0] != tok{pAdmin, pAdmin}):
				c.Violate("token-equals-grant", "database-bridge", "wrong-token", detail, wit)
			case p.ran == 0 && !permitted && err == nil:
				c.Violate("refusal-status", "database-bridge", "not-a-refusal-status", detail, wit)
			case p.ran == 0 && permitted && err != nil && (strings.Contains(err.Error(), "code 401") || strings.Contains(err.Error(), "code 403")):
				c.Violate("grant-exact", "database-bridge", "refused-despite-grant", detail, wit)
			}
			c.Outcome(fmt.Sprintf("bridge permitted=%v ran=%v", permitted, p.ran > 0))
		}
	}
	c.Sample(map[string]any{"phase": "bridge", "request": "database Get(\"api:verif/action/2/3\") -> callAPI -> GET /api/v1/verif/action/2/3 from the bridge address"})
}

// ---------- histories (BFS) ----------

// halfValidAlphabet: sessions for tokens that are valid only for the class of the request that
// obtains them (the other side out of range or a special constant), then presented as a cookie
// for the other class, with time, cleaning and reset in between.
func halfValidAlphabet(c *vlib.Ctx) []op {
	hU, hA, hD := wrapH(pUser, pUser), wrapH(pAdmin, pAdmin), wrapH(pDynamic, pDynamic)
	req := func(h hdl, method string, cr cred) *reqCase { return mkReq(h, meth{method, ""}, cr, "", hostPort) }
	authn := func(r, w int) cred { return cred{Authn: authnSpec{Kind: "tok", R: r, W: w}} }
	cookie := func(n string) cred { return cred{Cookie: ck("$s:" + n), Authn: unset} }
	l := []op{
		{Op: "req", Req: req(hA, "POST", cookie("s3"))},
		{Op: "req", Req: req(hU, "GET", cookie("s3"))},
		{Op: "req", Req: req(hU, "GET", cookie("s4"))},
		{Op: "req", Req: req(hD, "DELETE", cookie("s4"))},
		{Op: "req", Req: req(hD, "GET", authn(pUser, 100)), Save: "s3"},
		{Op: "req", Req: req(hD, "POST", authn(-100, pAdmin)), Save: "s4"},
		{Op: "req", Req: req(hU, "GET", authn(pAdmin, pNotFound)), Save: "s3"},
		{Op: "req", Req: req(hU, "PUT", authn(pNotSupported, pUser)), Save: "s4"},
		{Op: "pass", D: "4m"},
		{Op: "pass", D: "6m"},
		{Op: "clean"},
	}
	if !c.Quick() {
		l = append(l,
			op{Op: "req", Req: req(hA, "GET", authn(5, pSelf)), Save: "s3"}, // invalid for the obtaining class itself
			op{Op: "req", Req: req(hA, "PUT", cookie("s3"))},
			op{Op: "req", Req: &reqCase{Handler: resetHandler.Path, Kind: "reset", Rr: pAnyone, Rw: pNotSupported, Method: "GET", Host: hostPort, Cookie: ck("$s:s3"), Authn: unset}},
		)
	}
	return l
}

func histAlphabet(c *vlib.Ctx) []op {
	hU, hA, hD := wrapH(pUser, pUser), wrapH(pAdmin, pAdmin), wrapH(pDynamic, pDynamic)
	req := func(h hdl, method string, cr cred) *reqCase { return mkReq(h, meth{method, ""}, cr, "", hostPort) }
	authn := func(r, w int) cred { return cred{Authn: authnSpec{Kind: "tok", R: r, W: w}} }
	cookie := func(n string) cred { return cred{Cookie: ck("$s:" + n), Authn: unset} }
	bearer := func(k string) cred { return cred{Authz: "Bearer " + k, Authn: unset} }
	reset := func(n string) *reqCase {
		return &reqCase{Handler: resetHandler.Path, Kind: "reset", Rr: pAnyone, Rw: pNotSupported, Method: "GET", Host: hostPort, Cookie: ck("$s:" + n), Authn: unset}
	}
	l := []op{
		// observers first
		{Op: "req", Req: req(hU, "GET", cookie("s1"))},
		{Op: "req", Req: req(hA, "POST", cookie("s1"))},
		{Op: "req", Req: req(hD, "GET", cookie("s2"))},
		{Op: "req", Req: req(hA, "GET", bearer("kA"))},
		{Op: "req", Req: req(hU, "PUT", bearer("kA"))},
		{Op: "req", Req: req(hU, "GET", bearer("kB"))},
		{Op: "req", Req: req(hA, "GET", cred{Authz: "Basic Og==", Authn: unset})}, // empty user and password: the empty key, never a configured one
		// session creation
		{Op: "req", Req: req(hD, "GET", authn(pUser, pUser)), Save: "s1"},
		{Op: "req", Req: req(hU, "GET", authn(pAdmin, pAdmin)), Save: "s2"},
		// time
		{Op: "pass", D: "4m"},
		{Op: "pass", D: "6m"},
		// key configuration
		{Op: "keys", Keys: []keySpec{{Key: "kA", Read: "admin", Write: "admin"}}},
		{Op: "keys", Keys: []keySpec{{Key: "kA", Read: "user", Write: "user", Expires: "+9m"}, {Key: "kB", Read: "admin", Write: "admin"}}},
		{Op: "keys", Keys: []keySpec{{Key: "kA", Read: "admin", Write: "admin", Expires: "-1h"}, {Key: "kB", Read: "user"}, {Key: " ", Read: "admin", Write: "admin"}}},
		{Op: "keys", Keys: nil},
		// session reset, cleaning, dev mode
		{Op: "req", Req: reset("s1")},
		{Op: "clean"},
		{Op: "dev", On: true},
		{Op: "dev", On: false},
	}
	if !c.Quick() {
		l = append(l,
			op{Op: "req", Req: req(hA, "DELETE", cookie("s2"))},
			op{Op: "req", Req: req(hA, "GET", authn(pUser, pAdmin)), Save: "s1"}, // re-authentication under the same harness name
			op{Op: "keys", Keys: []keySpec{{Key: "kA", Read: "admin", Write: "admin", Expires: "+9m"}, {Key: "kA", Read: "user", Write: "user"}}},
			op{Op: "req", Req: reset("s2")},
		)
	}
	return l
}

func implCanon(w *world) string {
	rev := map[string]string{}
	for n, v := range w.jar {
		rev[v] = n
	}
	var b strings.Builder
	for _, k := range api.VerifKeys() {
		fmt.Fprintf(&b, "K%s:%d/%d/%v/%v/%d;", k.Key, k.Read, k.Write, k.HasExpiry, k.Expired, k.RemainMin)
	}
	var ss []string
	for _, s := range api.VerifSessions() {
		n, ok := rev[s.Key]
		if !ok {
			n = "?"
		}
		ss = append(ss, fmt.Sprintf("S%s:%d/%d/%v/%d;", n, s.Read, s.Write, s.Expired, s.RemainMin))
	}
	sort.Strings(ss)
	b.WriteString(strings.Join(ss, ""))
	return b.String()
}

func phaseHistories(c *vlib.Ctx, w *world) {
	bfs(c, w, "histories", histAlphabet(c), vlib.Pick(c, 5, 6))
	bfs(c, w, "histories-half-valid-tokens", halfValidAlphabet(c), vlib.Pick(c, 4, 5))
}

func bfs(c *vlib.Ctx, w *world, name string, alpha []op, maxDepth int) {
	c.Scenario(name)
	c.Extra(name+"_alphabet", int64(len(alpha)))
	seen := map[string]bool{}
	runHistory(w, name, nil)
	seen[w.m.canon()+"|"+implCanon(w)] = true
	frontier := [][]op{nil}
	completed := 0
	var sampleHist []string
	for depth := 1; depth <= maxDepth && len(frontier) > 0; depth++ {
		var next [][]op
		for _, hist := range frontier {
			if c.Expired() {
				c.Extra(name+"_depth_completed", int64(completed))
				return
			}
			for _, a := range alpha {
				h2 := append(append([]op{}, hist...), a)
				t0 := time.Now()
				runHistory(w, name, h2)
				if time.Since(t0) > 40*time.Second {
					c.EngineError("history took %s: logical-time margins unsafe", time.Since(t0))
				}
				c.Add(0, int64(len(h2)), 1)
				k := w.m.canon() + "|" + implCanon(w)
				if !seen[k] {
					seen[k] = true
					next = append(next, h2)
					c.Add(1, 0, 0)
					if depth >= 3 {
						c.NontrivialN(1)
						if len(sampleHist) < 2 && depth == 3 && len(next)%37 == 5 {
							var s []string
							for _, o := range h2 {
								s = append(s, o.String())
							}
							sampleHist = append(sampleHist, strings.Join(s, " ; "))
						}
					}
				}
			}
		}
		completed = depth
		c.Extra(fmt.Sprintf("%s_new_states_depth_%d", name, depth), int64(len(next)))
		frontier = next
	}
	c.Extra(name+"_depth_completed", int64(completed))
	c.Extra(name+"_states", int64(len(seen)))
	for _, s := range sampleHist {
		c.Sample(map[string]any{"phase": name, "history": s})
	}
}

// phaseUnwritableConfig: dev mode is switched off / API keys are removed through the real config
// setters while the configuration file cannot be saved. Afterwards nobody has full access any
// more and a removed key no longer works.
func phaseUnwritableConfig(c *vlib.Ctx, w *world) {
	c.Scenario("unwritable-config")
	hS, hU, hA := wrapH(pSelf, pSelf), wrapH(pUser, pUser), wrapH(pAdmin, pAdmin)
	req := func(h hdl, method, authz string) op {
		return op{Op: "req", Req: &reqCase{Handler: h.Path, Kind: h.Kind, Rr: h.Rr, Rw: h.Rw, Method: method, Host: hostPort, Authz: authz, Authn: unset}}
	}
	kA := keySpec{Key: "kA", Read: "admin", Write: "admin"}
	kB := keySpec{Key: "kB", Read: "user", Write: "user"}
	probes := func(authzs ...string) []op {
		var l []op
		for _, a := range authzs {
			for _, h := range []hdl{hS, hA, hU} {
				for _, m := range []string{"GET", "POST"} {
					l = append(l, req(h, m, a))
				}
			}
		}
		return l
	}
	block := op{Op: "cfg-unwritable"}
	unblock := op{Op: "cfg-writable"}
	var fams [][]op
	for _, pre := range [][]op{nil, {{Op: "keys", Keys: []keySpec{kA, kB}}}} {
		// dev mode on, file blocked, dev mode off
		h := append(append([]op{}, pre...), op{Op: "dev", On: true})
		h = append(h, probes("")...)
		h = append(h, block, op{Op: "dev", On: false})
		h = append(h, probes("", "Bearer kA", "Bearer kB")...)
		h = append(h, unblock)
		h = append(h, probes("")...)
		fams = append(fams, h)
	}
	for _, after := range [][]keySpec{nil, {kB}, {{Key: "kA", Read: "user", Write: "user"}, kB}} {
		// keys configured, file blocked, key removed / downgraded
		h := []op{{Op: "keys", Keys: []keySpec{kA, kB}}}
		h = append(h, probes("Bearer kA")...)
		h = append(h, block, op{Op: "keys", Keys: after})
		h = append(h, probes("Bearer kA", "Bearer kB", "")...)
		h = append(h, unblock, op{Op: "keys", Keys: after})
		h = append(h, probes("Bearer kA", "Bearer kB")...)
		fams = append(fams, h)
	}
	// dev mode switched off while blocked, with the file blocked from the start
	fams = append(fams, append([]op{block, {Op: "dev", On: true}, {Op: "dev", On: false}}, probes("")...))
	for _, h := range fams {
		runHistory(w, "unwritable-config", h)
		c.Add(1, int64(len(h)), 1)
		c.NontrivialN(1)
	}
	w.fresh()
	var sm []string
	for _, o := range fams[2][:3] {
		sm = append(sm, o.String())
	}
	c.Sample(map[string]any{"phase": "unwritable-config", "history": strings.Join(sm, " ; ") + " ; makeConfigFileUnwritable ; keys[] ; req{... Bearer kA} ..."})
}

// phasePoisoning: histories of length >= 2 whose first request reaches a handler that raises the
// AuthToken of its own request (anonymously on a public handler, or with a credential on a
// protected one); afterwards every credential x method x requirement is judged as usual: what a
// handler did to its token must not change what any later request is granted.
func phasePoisoning(c *vlib.Ctx, w *world) {
	full := !c.Quick()
	creds := credentials(full)
	pr := func(h hdl, method string, cr cred) op {
		return op{Op: "req", Req: mkReq(h, meth{method, ""}, cr, "", hostPort)}
	}
	pAny, pDyn, pUsr, pEp := poisonHandlers[0], poisonHandlers[1], poisonHandlers[2], poisonHandlers[3]
	none := cred{Authn: unset}
	firsts := [][]op{
		{pr(pAny, "GET", none)},
		{pr(pAny, "POST", none)},
		{pr(pEp, "GET", none)},
		{pr(pDyn, "GET", none), pr(pDyn, "PUT", cred{Authn: authnSpec{Kind: "nil"}})},
		{pr(pAny, "GET", cred{Authz: "Bearer kAdmin", Authn: unset}), pr(pUsr, "POST", cred{Authz: "Bearer kUser", Authn: unset})},
		{pr(pDyn, "GET", cred{Cookie: ck("$s:sUser"), Authn: unset}), pr(pAny, "DELETE", cred{Cookie: ck("$s:sUser"), Authn: unset})},
		{pr(pDyn, "GET", cred{Authn: authnSpec{Kind: "tok", R: pUser, W: pUser}}), pr(pAny, "HEAD", cred{Bridge: true, Authn: unset})},
	}
	hs := []hdl{wrapH(pAnyone, pAnyone), wrapH(pDynamic, pDynamic), wrapH(pUser, pUser), wrapH(pAdmin, pAdmin), wrapH(pSelf, pSelf), wrapH(pUser, pAdmin), plainHandler, epH("ep-action", pUser, pAdmin), pAny}
	ms := []meth{{"GET", ""}, {"POST", ""}, {"HEAD", ""}, {"DELETE", ""}, {"OPTIONS", "PUT"}}
	if full {
		hs = []hdl{plainHandler, wrapH(pUser, pAdmin), wrapH(pAdmin, pUser), epH("ep-action", pUser, pAdmin), epH("ep-handler", pDynamic, pSelf), pAny, pDyn}
		for _, h := range wrapHandlers {
			if h.Rr == h.Rw {
				hs = append(hs, h)
			}
		}
		ms = methods
	}
	for i, first := range firsts {
		if c.Expired() {
			return
		}
		for _, onFresh := range []bool{false, true} {
			var base []op
			if !onFresh {
				base = tableWorld(false, false)
			} else if i > 2 {
				continue // credentials of the first requests need the standing world
			}
			base = append(base, first...)
			block(c, w, "poisoning", base, func(emit func(*reqCase)) {
				for _, h := range hs {
					for _, m := range ms {
						for _, cr := range creds {
							emit(mkReq(h, m, cr, "", hostPort))
						}
					}
				}
			})
		}
	}
	c.Sample(map[string]any{"phase": "poisoning", "history": firsts[0][0].String() + " ; req{GET /verif/w/3/3 Host:api.test:817 authn=nil}"})
}

// ---------- main ----------

func setup(c *vlib.Ctx) (*world, func()) {
	tmp, err := os.MkdirTemp("", "verif-c12-")
	if err != nil {
		c.EngineError("tmp dir: %v", err)
		return nil, func() {}
	}
	cleanup := func() { _ = os.RemoveAll(tmp) }
	if err := dataroot.Initialize(tmp, 0o755); err != nil {
		c.EngineError("dataroot: %v", err)
		return nil, cleanup
	}
	api.EnableServer = false
	api.SetDefaultAPIListenAddress("127.0.0.1:8817")
	log.SetLogLevel(log.CriticalLevel)
	modules.SetStdErrReporting(false)
	errCh := make(chan *modules.ModuleError, 64)
	modules.SetErrorReportingChannel(errCh)
	registerHandlers(c)
	if err := modules.Start(); err != nil {
		c.EngineError("modules.Start: %v", err)
		return nil, cleanup
	}
	log.SetLogLevel(log.CriticalLevel)
	if n := modules.VerifRemoveEventHooks("config", "config change", "api"); n != 1 {
		c.EngineError("expected to detach exactly one api hook from config change, detached %d", n)
	}
	w := &world{c: c, handler: api.VerifHandler(), errCh: errCh, dataDir: tmp}
	theWorld = w
	return w, func() {
		_ = modules.Shutdown()
		cleanup()
	}
}

func watchdog(c *vlib.Ctx) {
	go func() {
		for {
			time.Sleep(2 * time.Second)
			t := inFlight.Load()
			if t != 0 && time.Since(time.Unix(0, t)) > 60*time.Second {
				rc, _ := inFlightWhat.Load().(*reqCase)
				c.Violate("never-hangs", "mainHandler.ServeHTTP", "no-return-in-60s", "request did not return: "+rc.short(), witness{Phase: "hang", History: []op{{Op: "req", Req: rc}}})
				os.Exit(c.Finish())
			}
		}
	}()
}

func main() {
	vlib.Main("C12", "model_checking", func(c *vlib.Ctx) {
		c.SetBudget(vlib.Pick(c, 150*time.Second, 25*time.Minute))
		w, done := setup(c)
		defer done()
		if w == nil {
			return
		}
		watchdog(c)
		c.Rule("non-trivial = a request cell in which a credential, an Origin header, the bridge address or dev mode is present (the decision depends on more than the declared permission), and every history state first reached at depth >= 3; the handler alphabet includes handlers that raise the AuthToken of their own request (poisoning histories of length >= 2), the key alphabet blank and blank-padded key entries together with empty / undecodable Basic credentials")
		c.Assume("for OPTIONS requests the method class is that of the Access-Control-Request-Method header (api.getEffectiveMethod); the statement names classes only for GET/HEAD/POST/PUT/DELETE")
		c.Assume("a handler declaring Anyone runs without credentials being evaluated and sees the anonymous token (documented: anyone can execute the operation without any authentication)")
		c.Assume("a session is live until 5 minutes after its creation or its last use as the deciding credential (sliding sessionCookieTTL)")
		c.Assume("when several credentials are presented at once any of their grants is acceptable (the statement fixes no precedence); header spellings whose reading is debatable (scheme case, padded keys, quoted or repeated cookies, Origins without scheme) are never asserted to grant or to be refused")
		c.Assume("time is moved by shifting the stored expiry of sessions and API keys (overlay VerifShiftTime) instead of a virtual clock; key changes are applied by calling updateAPIKeys synchronously, the asynchronous config-change delivery is detached")
		c.Assume("a CORS preflight (OPTIONS + Origin + Access-Control-Request-Method) that is answered without running the handler is not a refusal; its status is not asserted")

		if c.Replay != "" {
			replay(c, w)
			return
		}
		for _, ph := range []struct {
			name string
			f    func(*vlib.Ctx, *world)
		}{{"table", phaseTable}, {"endpoints", phaseEndpoints}, {"devmode+origins", phaseDevAndOrigins}, {"header-strings", phaseHeaderStrings}, {"bridge", phaseBridge}, {"unwritable-config", phaseUnwritableConfig}, {"poisoning", phasePoisoning}, {"histories", phaseHistories}} {
			t0, s0 := time.Now(), w.steps
			ph.f(c, w)
			c.Extra("phase "+ph.name, fmt.Sprintf("%d requests, %.1fs", w.steps-s0, time.Since(t0).Seconds()))
		}
		c.Extra("requests_through_ServeHTTP", w.steps)
	})
}

func replay(c *vlib.Ctx, w *world) {
	var raw map[string]any
	if _, err := c.LoadReplay(&raw); err != nil {
		c.EngineError("cannot load replay: %v", err)
		return
	}
	if raw["phase"] == "bridge" {
		fmt.Println("replay: bridge witness - re-running the bridge phase")
		phaseBridge(c, w)
		return
	}
	var wt witness
	if _, err := c.LoadReplay(&wt); err != nil {
		c.EngineError("cannot decode witness: %v", err)
		return
	}
	fmt.Printf("replay: phase %s, %d operations from the fresh state\n", wt.Phase, len(wt.History))
	w.verbose = true
	w.fresh()
	for i, o := range wt.History {
		before := c.ViolationCount()
		last := i == len(wt.History)-1
		if o.Op == "req" {
			v := w.m.judge(o.Req)
			fmt.Printf("  %d. %s\n     model: origin=%s class=%s required=%s accept=%v permitted(some/all)=%v/%v %s\n", i+1, o.String(), v.Origin, v.Class, permName(v.Required), v.Accept, v.PermSome, v.PermAll, v.Reason)
		} else {
			fmt.Printf("  %d. %s\n", i+1, o.String())
		}
		hist := wt.History[:i+1]
		w.apply(o, func(extra map[string]any) any { return witness{Phase: wt.Phase, History: hist, Extra: extra} })
		if c.ViolationCount() > before {
			fmt.Printf("     -> violation reproduced at step %d\n", i+1)
		} else if last {
			fmt.Println("     -> the last step did not violate the property this time")
		}
	}
}
