//go:build verif

package bbolt

import "go.etcd.io/bbolt"

// VerifPutRaw stores raw bytes under key, bypassing record serialization.
func (b *BBolt) VerifPutRaw(key string, data []byte) error {
	return b.db.Update(func(tx *bbolt.Tx) error {
		return tx.Bucket(bucketName).Put([]byte(key), data)
	})
}
