//go:build verif

package badger

import "github.com/dgraph-io/badger"

// VerifPutRaw stores raw bytes under key, bypassing record serialization.
func (b *Badger) VerifPutRaw(key string, data []byte) error {
	return b.db.Update(func(txn *badger.Txn) error {
		return txn.Set([]byte(key), data)
	})
}
