//go:build verif

package database

// VerifReset shuts down all loaded storages and forgets every controller and
// registered database, so that a harness can start the next case from an
// empty database system inside the same process. The system stays
// initialized (same root directory).
func VerifReset() {
	controllersLock.Lock()
	for name, c := range controllers {
		_ = c.storage.Shutdown()
		delete(controllers, name)
	}
	controllersLock.Unlock()

	registryLock.Lock()
	for name := range registry {
		delete(registry, name)
	}
	registryLock.Unlock()
}
