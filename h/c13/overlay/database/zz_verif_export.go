//go:build verif

package database

// VerifReset shuts down all loaded storages and forgets every controller and
// registered database, so that a harness can start the next case from an
// empty database system inside the same process. The system stays
// initialized (same root directory).
func VerifReset() {
	controllersLock.Lock()
	for name, c := range controllers {
		_ = c.storage.Shutdown()
		delete(controllers, name)
	}
	controllersLock.Unlock()

	registryLock.Lock()
	for name := range registry {
		delete(registry, name)
	}
	registryLock.Unlock()
}

// VerifStorage returns the storage behind a registered database (starting it
// if needed), so that a harness can place a record that does not parse
// directly into the storage.
func VerifStorage(name string) (interface{}, error) {
	c, err := getController(name)
	if err != nil {
		return nil, err
	}
	return c.storage, nil
}
