//go:build verif

package api

// VerifHasSub reports whether the database API currently holds a running
// subscription for the operation ID (read-only view for the C13 harness).
func (api *DatabaseAPI) VerifHasSub(opID string) bool {
	api.subsLock.Lock()
	defer api.subsLock.Unlock()
	_, ok := api.subs[opID]
	return ok
}

// VerifOpen returns the number of running query iterators and subscriptions.
func (api *DatabaseAPI) VerifOpen() (queries, subs int) {
	api.queriesLock.Lock()
	queries = len(api.queries)
	api.queriesLock.Unlock()
	api.subsLock.Lock()
	subs = len(api.subs)
	api.subsLock.Unlock()
	return
}
