package main

// Judge: the oracle. Decides from the recorded transcript of a case whether
// the protocol automaton of every request was followed, whether replies carry
// the request's operation ID, whether written JSON objects read back
// unchanged apart from _meta, and whether the process still answers.

import (
	"fmt"
	"sort"
	"strings"
)

// V is one violation candidate.
type V struct {
	Clause, Site, Disc, Detail string
}

type modelRec struct {
	known bool           // content is a known JSON object
	obj   map[string]any // valid if known
}

type subState struct {
	opID     string
	kind     string // sub | qsub
	q        subQuery
	step     int
	expect   []notifExp
	streamed []Reply // notifications seen
}

type notifExp struct {
	key   string
	del   bool
	level int // 2 = must, 1 = optional, 0 = must not
	step  int
	msg   []byte // set for writes made on another connection (scenarios)
}

type judged struct {
	viols      []V
	outcomes   []string
	nontrivial bool
	handles    int
}

func seedModel() map[string]*modelRec {
	j1, _ := parseJSONObject([]byte(`{"a":1,"s":"x"}`))
	j2, _ := parseJSONObject([]byte(`{"a":0}`))
	live, _ := parseJSONObject([]byte(`{"live":true}`))
	m := map[string]*modelRec{
		"tdb:j1":   {known: true, obj: j1},
		"tdb:j2":   {known: true, obj: j2},
		"tdb:live": {known: true, obj: live},
	}
	for i := 0; i < 8; i++ {
		obj, _ := parseJSONObject(comboContent(i))
		m[comboKey(i)] = &modelRec{known: true, obj: obj}
	}
	return m
}

// The records tdb:n/0 .. tdb:n/7 hold every combination of the fields a, b, c
// (plus z), so that where-clauses over "exists" terms have distinct result sets.
func comboKey(i int) string { return fmt.Sprintf("tdb:n/%d", i) }

func comboContent(i int) []byte {
	s := `{"z":1`
	for bit, f := range []string{"a", "b", "c"} {
		if i&(1<<bit) != 0 {
			s += fmt.Sprintf(`,%q:1`, f)
		}
	}
	return []byte(s + "}")
}

// checkResultSet compares the ok replies of a finished query with the records
// that match the query as documented (only for where-clauses the reference
// understands and only while the content of every record under the prefix is known).
func checkResultSet(jd *judged, k int, st StepRec, kind string, text string, rs []Reply, model map[string]*modelRec) {
	sq := parseSubQuery(text)
	if !sq.Understood || sq.Expr == nil || len(rs) == 0 || rs[len(rs)-1].Type != "done" {
		return
	}
	want := map[string]bool{}
	for key, mr := range model {
		db, dbKey := splitKey(key)
		if db != sq.DB || !strings.HasPrefix(dbKey, sq.Prefix) {
			continue
		}
		if !mr.known {
			return
		}
		if sq.Expr.eval(mr.obj) {
			want[key] = true
		}
	}
	got := map[string]int{}
	for _, r := range rs {
		if r.Type == "ok" {
			key, _ := r.keyAndData()
			got[key]++
		}
	}
	var missing, extra []string
	for key := range want {
		if got[key] == 0 {
			missing = append(missing, key)
		}
	}
	for key, n := range got {
		if !want[key] || n > 1 {
			extra = append(extra, key)
		}
	}
	sort.Strings(missing)
	sort.Strings(extra)
	if len(missing) == 0 && len(extra) == 0 {
		return
	}
	disc := "wrong-records"
	if len(extra) == 0 {
		disc = "missing-records"
	} else if len(missing) == 0 {
		disc = "non-matching-records"
	}
	jd.viols = append(jd.viols, V{"query-result-set", kind, disc, fmt.Sprintf("step %d: %s answered ok for records that do not match (or twice): %v; matching records not answered: %v", k, q(st.Msg), extra, missing)})
}

func typesOf(rs []Reply) string {
	ts := make([]string, len(rs))
	for i, r := range rs {
		ts[i] = r.Type
	}
	return strings.Join(ts, ",")
}

// compress turns a reply sequence into an outcome class that does not depend
// on record order or timestamps: ok,ok,ok,done -> ok+,done; a run mixing ok and
// warning -> (ok|warning)+; upd and new are one class.
func compress(rs []Reply) string {
	class := func(t string) string {
		switch t {
		case "ok", "warning":
			return "rec"
		case "upd", "new":
			return "upd/new"
		}
		return t
	}
	var out []string
	for i := 0; i < len(rs); {
		j := i
		kinds := map[string]bool{}
		for j < len(rs) && class(rs[j].Type) == class(rs[i].Type) {
			kinds[rs[j].Type] = true
			j++
		}
		name := class(rs[i].Type)
		if name == "rec" {
			if len(kinds) == 2 {
				out = append(out, "(ok|warning)+")
				i = j
				continue
			}
			name = rs[i].Type
		}
		if j-i > 1 {
			name += "+"
		}
		out = append(out, name)
		i = j
	}
	if len(out) == 0 {
		return "none"
	}
	return strings.Join(out, ",")
}

func in(t string, set ...string) bool {
	for _, s := range set {
		if s == t {
			return true
		}
	}
	return false
}

func judge(res *Result) *judged {
	jd := &judged{handles: len(res.Steps)}
	add := func(clause, site, disc, format string, a ...any) {
		jd.viols = append(jd.viols, V{clause, site, disc, fmt.Sprintf(format, a...)})
	}
	nSteps := len(res.Steps)
	reqs := make([]Req, nSteps)
	for i, s := range res.Steps {
		reqs[i] = classify(s.Msg)
	}
	site := func(step int) string {
		if step < 0 || step >= nSteps {
			return "unknown"
		}
		if res.Steps[step].Kind == "live" {
			return "live-probe"
		}
		return reqs[step].Kind
	}

	// parse replies
	replies := make([]Reply, len(res.Events))
	consumed := make([]bool, len(res.Events))
	for i, e := range res.Events {
		replies[i] = parseReply(e.Data)
		if !replies[i].OK {
			add("reply-format", site(e.Step), "unparsable-reply", "step %d (%s): reply %s has no known type", e.Step, q(res.Steps[e.Step].Msg), q(e.Data))
			consumed[i] = true
		}
	}

	// nextUse[k] = first later step whose (well-formed) request uses the same opID
	nextUse := func(k int) int {
		for j := k + 1; j < nSteps; j++ {
			if reqs[j].Kind != kMalformed && reqs[j].OpID == reqs[k].OpID {
				return j
			}
		}
		return nSteps
	}
	// own(k) = replies with the request's opID from step k up to the next use of the opID
	own := func(k int) []Reply {
		var out []Reply
		end := nextUse(k)
		for i, e := range res.Events {
			if consumed[i] || e.Step < k || e.Step >= end || replies[i].OpID != reqs[k].OpID {
				continue
			}
			consumed[i] = true
			out = append(out, replies[i])
		}
		return out
	}

	// 1. malformed messages: the replies recorded while Handle was executing.
	malformedReplies := map[int][]Reply{}
	for k := range res.Steps {
		if reqs[k].Kind != kMalformed {
			continue
		}
		for i, e := range res.Events {
			// (a notification of a running subscription can arrive while Handle executes: only replies
			// under the message's own or the empty operation ID are the malformed message's)
			if !consumed[i] && e.Step == k && e.Sync && (replies[i].OpID == "" || (reqs[k].HasOpID && replies[i].OpID == reqs[k].OpID)) {
				consumed[i] = true
				malformedReplies[k] = append(malformedReplies[k], replies[i])
			}
		}
	}

	model := seedModel()
	subs := map[string]*subState{}
	var subOrder []*subState

	for k, st := range res.Steps {
		rq := reqs[k]
		if st.HandleStuck {
			add("no-wedge", site(k), "handle-blocked", "step %d: Handle(%s) did not return", k, q(st.Msg))
			continue
		}
		switch rq.Kind {
		case kMalformed:
			rs := malformedReplies[k]
			if !st.Timeout || len(rs) > 0 {
				// late (asynchronous) replies of a malformed message end up as foreign below
				switch {
				case len(rs) == 0:
					add("malformed-gets-error", kMalformed, "no-reply", "step %d: malformed message %s got no reply", k, q(st.Msg))
				case len(rs) > 1:
					add("malformed-gets-error", kMalformed, "multiple-replies", "step %d: malformed message %s got %s", k, q(st.Msg), typesOf(rs))
				case rs[0].Type != "error":
					add("malformed-gets-error", kMalformed, rs[0].Type+"-instead-of-error", "step %d: malformed message %s got %s", k, q(st.Msg), typesOf(rs))
				}
			} else {
				add("malformed-gets-error", kMalformed, "no-reply", "step %d: malformed message %s got no reply", k, q(st.Msg))
			}
			cl := "malformed:" + compress(rs)
			if len(rs) == 1 {
				cl += malformedClass(rq, rs[0])
			}
			jd.outcomes = append(jd.outcomes, cl)
			continue
		}

		rs := own(k)
		label := rq.Kind
		if st.Kind != "msg" {
			label = st.Kind + "-" + rq.Kind
		}
		if st.Timeout {
			add("terminal-reply", site(k), "no-reply", "step %d: %s got %s and then nothing within the guard", k, q(st.Msg), compress(rs))
			jd.outcomes = append(jd.outcomes, label+":timeout")
			continue
		}
		nonError := false
		for _, r := range rs {
			if r.Type != "error" {
				nonError = true
			}
		}
		if nonError && st.Kind == "msg" {
			jd.nontrivial = true
		}

		switch rq.Kind {
		case kGet:
			okGet := len(rs) == 1 && in(rs[0].Type, "ok", "error")
			if !okGet {
				disc := "wrong-type"
				if len(rs) == 0 {
					disc = "no-reply"
				} else if len(rs) > 1 {
					disc = "multiple-replies"
				}
				if st.Kind == "live" {
					add("no-wedge", "live-probe", disc, "liveness get after the sequence got %s", compress(rs))
				} else {
					add("get-protocol", kGet, disc, "step %d: %s got %s, expected one ok or one error", k, q(st.Msg), typesOf(rs))
				}
			} else if rs[0].Type == "ok" {
				key, data := rs[0].keyAndData()
				if key == "" || len(data) == 0 {
					add("get-protocol", kGet, "ok-without-record", "step %d: %s got ok with key %q and %d data bytes", k, q(st.Msg), key, len(data))
				}
			}
			if st.Kind == "live" && okGet && rs[0].Type != "ok" {
				add("no-wedge", "live-probe", "error-instead-of-ok", "liveness get of tdb:live got %s", q(rs[0].Rest))
			}
			if st.Kind == "probe" && okGet {
				// read-back of a record written through the API
				w := reqs[st.Ref]
				mr := model[w.Arg]
				if mr != nil && mr.known {
					if rs[0].Type != "ok" {
						add("roundtrip", w.Kind, "error-instead-of-ok", "after %s succeeded, get %s answered error %s", q(res.Steps[st.Ref].Msg), w.Arg, q(rs[0].Rest))
					} else {
						key, data := rs[0].keyAndData()
						if key != w.Arg {
							add("roundtrip", w.Kind, "wrong-key", "after %s, get answered key %q", q(res.Steps[st.Ref].Msg), key)
						} else if len(data) < 1 || data[0] != 'J' {
							add("roundtrip", w.Kind, "wrong-format", "after %s, get answered data %s", q(res.Steps[st.Ref].Msg), q(data))
						} else if obj, ok := parseJSONObject(data[1:]); !ok {
							add("roundtrip", w.Kind, "not-a-json-object", "after %s, get answered data %s", q(res.Steps[st.Ref].Msg), q(data))
						} else {
							meta, hasMeta := obj["_meta"]
							delete(obj, "_meta")
							if _, isObj := meta.(map[string]any); !hasMeta || !isObj {
								add("roundtrip", w.Kind, "no-meta-section", "after %s, get answered data %s", q(res.Steps[st.Ref].Msg), q(data))
							} else if canon(obj) != canon(mr.obj) {
								add("roundtrip", w.Kind, "wrong-content", "after %s, get answered %s, expected content %s", q(res.Steps[st.Ref].Msg), q(data), canon(mr.obj))
							}
						}
					}
				}
			}
			jd.outcomes = append(jd.outcomes, label+":"+compress(rs))

		case kCreate, kUpdate, kInsert, kDelete:
			if !(len(rs) == 1 && in(rs[0].Type, "success", "error")) {
				disc := "wrong-type"
				if len(rs) == 0 {
					disc = "no-reply"
				} else if len(rs) > 1 {
					disc = "multiple-replies"
				}
				add("write-protocol", rq.Kind, disc, "step %d: %s got %s, expected one success or one error", k, q(st.Msg), typesOf(rs))
				model[rq.Arg] = &modelRec{} // content no longer known
			}
			jd.outcomes = append(jd.outcomes, label+":"+compress(rs))
			if len(rs) == 1 && rs[0].Type == "success" {
				// model update
				old := model[rq.Arg]
				var now *modelRec
				switch rq.Kind {
				case kCreate, kUpdate:
					now = &modelRec{}
					if len(rq.Payload) >= 2 && rq.Payload[0] == 'J' {
						if obj, ok := parseJSONObject(rq.Payload[1:]); ok {
							if _, has := obj["_meta"]; !has {
								now = &modelRec{known: true, obj: obj}
							}
						}
					}
				case kInsert:
					now = &modelRec{}
					if old != nil && old.known {
						if ins, ok := parseJSONObject(rq.Payload); ok {
							simple := true
							for key := range ins {
								if !simpleKeyRe.MatchString(key) || key == "_meta" {
									simple = false
								}
							}
							if simple {
								obj := map[string]any{}
								for key, v := range old.obj {
									obj[key] = v
								}
								for key, v := range ins {
									obj[key] = v
								}
								now = &modelRec{known: true, obj: obj}
							}
						}
					}
				case kDelete:
					now = nil
				}
				if now == nil {
					delete(model, rq.Arg)
				} else {
					model[rq.Arg] = now
				}
				// expected notifications of the open subscriptions
				db, dbKey := splitKey(rq.Arg)
				for _, s := range subOrder {
					if subs[s.opID] != s || !s.q.Understood {
						continue
					}
					e := notifExp{key: rq.Arg, del: rq.Kind == kDelete, step: k}
					switch {
					case db != s.q.DB || !strings.HasPrefix(dbKey, s.q.Prefix):
						e.level = 0
					case !s.q.CondAGt0 && s.q.Expr == nil:
						e.level = 2
					case s.q.Expr != nil:
						// the record as notified: the new content, for a delete the content it had
						ref := now
						if rq.Kind == kDelete {
							ref = old
						}
						e.level = 1
						if ref != nil && ref.known {
							e.level = 0
							if s.q.Expr.eval(ref.obj) {
								e.level = 2
							}
						}
					case rq.Kind == kDelete:
						e.level = 1
					case now != nil && now.known:
						if val, known := condAGt0(now.obj); known {
							if val {
								e.level = 2
							} else {
								e.level = 0
							}
						} else {
							e.level = 1
						}
					default:
						e.level = 1
					}
					s.expect = append(s.expect, e)
				}
			}

		case kQuery:
			checkQueryPart(jd, k, st, rq.Kind, rs, true)
			checkResultSet(jd, k, st, rq.Kind, rq.Arg, rs, model)
			jd.outcomes = append(jd.outcomes, label+":"+compress(rs))

		case kSub, kQsub:
			s := &subState{opID: rq.OpID, kind: rq.Kind, q: parseSubQuery(rq.Arg), step: k}
			rest := rs
			failed := false
			if rq.Kind == kQsub {
				// query part: (ok|warning)* then done or error
				cut := -1
				for i, r := range rs {
					if in(r.Type, "done", "error") {
						cut = i
						break
					}
				}
				if cut < 0 {
					add("qsub-protocol", kQsub, "query-part-not-terminated", "step %d: %s got %s", k, q(st.Msg), typesOf(rs))
					failed = true
					rest = nil
				} else {
					checkQueryPart(jd, k, st, kQsub, rs[:cut+1], false)
					checkResultSet(jd, k, st, kQsub, rq.Arg, rs[:cut+1], model)
					failed = rs[cut].Type == "error"
					rest = rs[cut+1:]
				}
			} else if len(rs) > 0 && rs[0].Type == "error" {
				failed = true
				rest = rs[1:]
			}
			if failed {
				if len(rest) > 0 {
					add(rq.Kind+"-protocol", rq.Kind, "replies-after-error", "step %d: %s got %s", k, q(st.Msg), typesOf(rs))
				}
			} else {
				for _, r := range rest {
					switch {
					case in(r.Type, "upd", "new", "del", "warning"):
						s.streamed = append(s.streamed, r)
					case r.Type == "done":
						add(rq.Kind+"-protocol", rq.Kind, "done-without-cancel", "step %d: %s got %s before any cancel", k, q(st.Msg), typesOf(rs))
					default:
						add(rq.Kind+"-protocol", rq.Kind, "wrong-type", "step %d: %s got %s", k, q(st.Msg), typesOf(rs))
					}
				}
				subs[rq.OpID] = s
				subOrder = append(subOrder, s)
			}
			// notifications are reported with the cancel that ends the stream (their arrival step is timing)
			head := rs[:len(rs)-len(rest)]
			if failed || len(head) > 0 {
				jd.outcomes = append(jd.outcomes, label+":"+compress(head))
			} else {
				jd.outcomes = append(jd.outcomes, label+":open")
			}

		case kCancel:
			if res.Scen != nil {
				// writes made on other connections while the qsub was stalled in its query phase
				if s := subs[rq.OpID]; s != nil && s.q.Understood && len(s.expect) == 0 {
					for _, w := range res.ExtWrites {
						if !(len(w.Replies) == 1 && w.Replies[0] == "success") {
							continue
						}
						db, dbKey := splitKey(w.Key)
						e := notifExp{key: w.Key, del: w.Kind == kDelete, step: s.step, msg: w.Msg}
						if db == s.q.DB && strings.HasPrefix(dbKey, s.q.Prefix) {
							e.level = 2
						}
						s.expect = append(s.expect, e)
					}
				}
			}
			s := subs[rq.OpID]
			if s == nil {
				// nothing to cancel: the statement prescribes no reply; an error reply is accepted
				if !(len(rs) == 0 || (len(rs) == 1 && rs[0].Type == "error")) {
					add("cancel-protocol", kCancel, "wrong-type", "step %d: cancel without running operation got %s", k, typesOf(rs))
				}
				jd.outcomes = append(jd.outcomes, label+"-nothing:"+compress(rs))
				break
			}
			delete(subs, rq.OpID)
			// (upd|new|del|warning)* done
			sawDone := false
			for _, r := range rs {
				switch {
				case sawDone:
					add(s.kind+"-protocol", s.kind, "replies-after-done", "cancel of %s got %s", s.kind, typesOf(rs))
				case in(r.Type, "upd", "new", "del", "warning"):
					s.streamed = append(s.streamed, r)
				case r.Type == "done":
					sawDone = true
				default:
					add(s.kind+"-protocol", s.kind, r.Type+"-on-cancel", "cancel of running %s got %s", s.kind, typesOf(rs))
				}
			}
			if !sawDone {
				add(s.kind+"-protocol", s.kind, "no-done-after-cancel", "cancel of running %s got %s", s.kind, compress(rs))
			}
			checkNotifications(jd, res, s)
			all := append([]Reply{}, s.streamed...)
			if sawDone {
				all = append(all, Reply{Type: "done"})
			}
			jd.outcomes = append(jd.outcomes, label+"-"+s.kind+":"+compress(all))
		}
	}

	if res.Scen != nil {
		judgeScen(jd, res)
	}

	// 2. replies that belong to no request of the case
	for i, e := range res.Events {
		if consumed[i] {
			continue
		}
		add("reply-opid", site(e.Step), "foreign-opid", "during step %d (%s) a reply with operation ID %q arrived that belongs to no request: %s", e.Step, q(res.Steps[e.Step].Msg), replies[i].OpID, q(e.Data))
	}
	return jd
}

// checkQueryPart checks (ok|warning)* (done|error) with nothing after it.
func checkQueryPart(jd *judged, k int, st StepRec, kind string, rs []Reply, whole bool) {
	add := func(disc, format string, a ...any) {
		jd.viols = append(jd.viols, V{kind + "-protocol", kind, disc, fmt.Sprintf(format, a...)})
	}
	term := -1
	for i, r := range rs {
		if in(r.Type, "done", "error") {
			term = i
			break
		}
		if !in(r.Type, "ok", "warning") {
			add("wrong-type", "step %d: %s got %s", k, q(st.Msg), typesOf(rs))
			return
		}
		if r.Type == "ok" {
			key, data := r.keyAndData()
			if key == "" || len(data) == 0 {
				add("ok-without-record", "step %d: %s got ok with key %q and %d data bytes", k, q(st.Msg), key, len(data))
			}
		}
	}
	if term < 0 {
		add("no-terminal-reply", "step %d: %s got %s", k, q(st.Msg), compress(rs))
		return
	}
	if whole && term != len(rs)-1 {
		add("replies-after-terminal", "step %d: %s got %s", k, q(st.Msg), typesOf(rs))
	}
}

// checkNotifications matches the notifications a subscription produced with
// the writes that happened while it was open: there must be an order-preserving
// assignment of notifications to writes that covers every write that must be
// notified and uses no write that must not be.
func checkNotifications(jd *judged, res *Result, s *subState) {
	add := func(disc, format string, a ...any) {
		jd.viols = append(jd.viols, V{"sub-notifications", s.kind, disc, fmt.Sprintf(format, a...)})
	}
	if !s.q.Understood {
		return
	}
	stream := s.streamed
	compatible := func(r Reply, e notifExp) bool {
		if r.Type == "warning" {
			return !e.del
		}
		key, _ := r.keyAndData()
		if key != e.key {
			return false
		}
		if e.del {
			return r.Type == "del"
		}
		return in(r.Type, "upd", "new")
	}
	n, m := len(stream), len(s.expect)
	// f[i][j]: stream[i:] can be assigned to expect[j:]
	f := make([][]bool, n+1)
	for i := range f {
		f[i] = make([]bool, m+1)
	}
	for i := n; i >= 0; i-- {
		for j := m; j >= 0; j-- {
			switch {
			case j == m:
				f[i][j] = i == n
			default:
				e := s.expect[j]
				if e.level != 2 && f[i][j+1] {
					f[i][j] = true
				}
				if i < n && e.level > 0 && compatible(stream[i], e) && f[i+1][j+1] {
					f[i][j] = true
				}
			}
		}
	}
	if f[0][0] {
		return
	}
	must, may, forbiddenHit := 0, 0, false
	var writes []string
	for _, e := range s.expect {
		switch e.level {
		case 2:
			must++
			may++
		case 1:
			may++
		case 0:
			for _, r := range stream {
				if compatible(r, e) {
					forbiddenHit = true
				}
			}
		}
		wmsg := res.Steps[e.step].Msg
		if e.msg != nil {
			wmsg = e.msg
		}
		writes = append(writes, fmt.Sprintf("step %d %s (%s)", e.step, q(wmsg), []string{"must not notify", "may notify", "must notify"}[e.level]))
	}
	disc := "wrong-notification"
	switch {
	case n < must:
		disc = "missing-notification"
	case n > may && forbiddenHit:
		disc = "notification-for-non-matching-change"
	case n > may:
		disc = "unexpected-notification"
	}
	add(disc, "subscription %q (%s) produced [%s] for the writes: %s", s.opID, q(res.Steps[s.step].Msg), typesOf(stream), strings.Join(writes, "; "))
}

// malformedClass names which operation ID the reply to a malformed message carries.
func malformedClass(rq Req, r Reply) string {
	switch {
	case rq.HasOpID && r.OpID == rq.OpID:
		return "/own-opid"
	case r.OpID == "":
		return "/empty-opid"
	}
	return "/other-opid"
}
