package main

// Executor: runs cases against the real api.DatabaseAPI inside an isolated
// child process (a panic on one of the goroutines started by Handle kills the
// process; the parent attributes the death to the case in flight).
// The executor does not judge; it records what was sent and what came back.

import (
	"bufio"
	"encoding/json"
	"fmt"
	"os"
	"path/filepath"
	"runtime"
	"sort"
	"sync"
	"time"

	"github.com/safing/portbase/api"
	"github.com/safing/portbase/database"
	"github.com/safing/portbase/database/record"
	_ "github.com/safing/portbase/database/storage/badger"
	_ "github.com/safing/portbase/database/storage/bbolt"
	_ "github.com/safing/portbase/database/storage/fstree"
	_ "github.com/safing/portbase/database/storage/hashmap"
	"github.com/safing/portbase/formats/dsd"
)

// Job is one case (a message sequence) or one bulk of short byte strings.
type Job struct {
	ID      int      `json:"id"`
	Backend string   `json:"backend"`
	Shadow  bool     `json:"shadow"`
	Msgs    [][]byte `json:"msgs,omitempty"`
	Bulk    *Bulk    `json:"bulk,omitempty"`
	Scen    *Scen    `json:"scen,omitempty"`
	GuardMS int      `json:"guard_ms"`
}

// Bulk = all byte strings of exactly Len bytes over Alpha (nil: all 256
// values), restricted to first byte First if First >= 0.
type Bulk struct {
	Len   int    `json:"len"`
	First int    `json:"first"`
	Alpha []byte `json:"alpha,omitempty"`
}

// Event is one message passed to the send function.
type Event struct {
	Step int    `json:"s"`
	Sync bool   `json:"y,omitempty"` // recorded while Handle was executing
	Data []byte `json:"d"`
}

// StepRec is one message handed to Handle.
type StepRec struct {
	Kind        string `json:"k"` // msg | probe | cleanup | live
	Msg         []byte `json:"m"`
	Ref         int    `json:"ref,omitempty"` // probe: index of the write step
	Timeout     bool   `json:"timeout,omitempty"`
	HandleStuck bool   `json:"stuck,omitempty"`
	NoReply     bool   `json:"noreply,omitempty"` // cancel of nothing without any reply (accepted)
	Foreign     bool   `json:"foreign,omitempty"` // the wait ended because a reply with an operation ID of no request arrived
	HadSub      bool   `json:"hadsub,omitempty"`
}

// Result is what the executor reports for a case.
type Result struct {
	ID        int            `json:"id"`
	SetupErr  string         `json:"setup_err,omitempty"`
	Steps     []StepRec      `json:"steps,omitempty"`
	Events    []Event        `json:"events,omitempty"`
	Settled   bool           `json:"settled"`
	OpenQ     int            `json:"open_q"`
	OpenS     int            `json:"open_s"`
	Bulk      *BulkResult    `json:"bulk,omitempty"`
	Scen      *Scen          `json:"scen,omitempty"`
	ExtWrites []ExtWrite     `json:"ext_writes,omitempty"`
	Stalled   bool           `json:"stalled,omitempty"`
	Classes   map[string]int `json:"classes,omitempty"`
}

// BulkResult summarises a bulk of short byte strings.
type BulkResult struct {
	Count   int64    `json:"count"`
	Bad     [][]byte `json:"bad,omitempty"` // strings not answered by exactly one synchronous error reply
	BadN    int64    `json:"bad_n"`
	LiveOK  bool     `json:"live_ok"`
	Samples [][]byte `json:"samples,omitempty"`
}

type typedRec struct {
	record.Base
	sync.Mutex
	A int64
	S string
	F float64
	B bool
	L []string
	u string // unexported fields: an insert naming them must be refused, not crash
	n int64
}

type recorder struct {
	mu       sync.Mutex
	events   []Event
	step     int
	inHandle bool
	notify   chan struct{}
	hook     func(data []byte) // called on the sending goroutine after recording (scenarios: stall the connection)
}

func (r *recorder) send(data []byte) {
	d := make([]byte, len(data))
	copy(d, data)
	r.mu.Lock()
	r.events = append(r.events, Event{Step: r.step, Sync: r.inHandle, Data: d})
	r.mu.Unlock()
	select {
	case r.notify <- struct{}{}:
	default:
	}
	if r.hook != nil {
		r.hook(d)
	}
}

func (r *recorder) snapshot(from int) []Event {
	r.mu.Lock()
	defer r.mu.Unlock()
	if from > len(r.events) {
		from = len(r.events)
	}
	out := make([]Event, len(r.events)-from)
	copy(out, r.events[from:])
	return out
}

func (r *recorder) length() int {
	r.mu.Lock()
	defer r.mu.Unlock()
	return len(r.events)
}

type executor struct {
	root  string
	guard time.Duration
	rec   *recorder
	api   *api.DatabaseAPI
	steps []StepRec
	open  map[string]bool
	ids   map[string]bool  // operation IDs used by the requests of the case so far
	mark  func(msg []byte) // tells the parent which message is about to be handled
}

const dbName = "tdb"

func (x *executor) setup(backend string, shadow bool) error {
	database.VerifReset()
	if backend != "hashmap" {
		if err := os.RemoveAll(filepath.Join(x.root, "databases", dbName)); err != nil {
			return err
		}
	}
	if _, err := database.Register(&database.Database{Name: dbName, Description: "c13", StorageType: backend, ShadowDelete: shadow}); err != nil {
		return err
	}
	priv := database.NewInterface(&database.Options{Local: true, Internal: true})
	put := func(key string, format uint8, data []byte) error {
		w, err := record.NewWrapper(key, nil, format, data)
		if err != nil {
			return err
		}
		return priv.Put(w)
	}
	if err := put("tdb:j1", dsd.JSON, []byte(`{"a":1,"s":"x"}`)); err != nil {
		return err
	}
	if err := put("tdb:j2", dsd.JSON, []byte(`{"a":0}`)); err != nil {
		return err
	}
	if err := put("tdb:live", dsd.JSON, []byte(`{"live":true}`)); err != nil {
		return err
	}
	for i := 0; i < 8; i++ {
		if err := put(comboKey(i), dsd.JSON, comboContent(i)); err != nil {
			return err
		}
	}
	if err := put("tdb:c1", dsd.CBOR, []byte{0xa1, 0x61, 0x61, 0x01}); err != nil {
		return err
	}
	if err := put("tdb:r1", dsd.RAW, []byte("raw")); err != nil {
		return err
	}
	if err := put("tdb:e0", dsd.JSON, []byte{}); err != nil {
		return err
	}
	t := &typedRec{A: 5, S: "t", F: 1.5, B: true, L: []string{"l"}, u: "u", n: 1}
	t.SetKey("tdb:t1")
	if err := priv.Put(t); err != nil {
		return err
	}
	sec := database.NewInterface(&database.Options{Local: true, Internal: true, AlwaysMakeSecret: true})
	w, _ := record.NewWrapper("tdb:sec", nil, dsd.JSON, []byte(`{"a":7}`))
	if err := sec.Put(w); err != nil {
		return err
	}
	x.rec = &recorder{notify: make(chan struct{}, 1)}
	a := api.CreateDatabaseAPI(x.rec.send)
	x.api = &a
	x.steps = nil
	x.open = map[string]bool{}
	x.ids = map[string]bool{}
	return nil
}

// waitUntil polls pred until it holds or the guard expires.
func (x *executor) waitUntil(guard time.Duration, pred func() bool) bool {
	deadline := time.Now().Add(guard)
	pause := 20 * time.Microsecond
	for {
		if pred() {
			return true
		}
		if time.Now().After(deadline) {
			return pred()
		}
		t := time.NewTimer(pause)
		select {
		case <-x.rec.notify:
			t.Stop()
		case <-t.C:
		}
		if pause < 2*time.Millisecond {
			pause *= 2
		}
	}
}

func (x *executor) handle(msg []byte) (stuck bool) {
	m := make([]byte, len(msg))
	copy(m, msg)
	x.rec.mu.Lock()
	x.rec.inHandle = true
	x.rec.mu.Unlock()
	done := make(chan struct{})
	go func() {
		x.api.Handle(m)
		close(done)
	}()
	t := time.NewTimer(x.guard)
	select {
	case <-done:
		t.Stop()
	case <-t.C:
		stuck = true
	}
	x.rec.mu.Lock()
	x.rec.inHandle = false
	x.rec.mu.Unlock()
	return stuck
}

// step hands one message to Handle and waits for the terminal reply the
// protocol prescribes for it. It returns false if the wait ran into the guard.
func (x *executor) step(kind string, msg []byte, ref int) bool {
	req := classify(msg)
	idx := len(x.steps)
	sr := StepRec{Kind: kind, Msg: msg, Ref: ref}
	x.rec.mu.Lock()
	x.rec.step = idx
	i0 := len(x.rec.events)
	x.rec.mu.Unlock()
	if req.Kind == kCancel {
		sr.HadSub = x.api.VerifHasSub(req.OpID)
	}
	if req.HasOpID {
		x.ids[req.OpID] = true
	}
	if req.Kind == kMalformed {
		x.ids[""] = true
	}
	if x.mark != nil {
		x.mark(msg)
	}
	if x.handle(msg) {
		sr.HandleStuck = true
		x.steps = append(x.steps, sr)
		return false
	}
	own := func(f func(Reply) bool) int {
		n := 0
		for _, e := range x.rec.snapshot(i0) {
			r := parseReply(e.Data)
			if r.OpID == req.OpID && f(r) {
				n++
			}
		}
		return n
	}
	anyReply := func(Reply) bool { return true }
	isType := func(ts ...string) func(Reply) bool {
		return func(r Reply) bool {
			for _, t := range ts {
				if r.Type == t {
					return true
				}
			}
			return false
		}
	}
	// a reply whose operation ID belongs to no request of the case ends the wait:
	// the reply the request is waiting for has probably been sent under a wrong ID
	foreign := func() bool {
		for _, e := range x.rec.snapshot(i0) {
			if r := parseReply(e.Data); !x.ids[r.OpID] {
				return true
			}
		}
		return false
	}
	wait := func(pred func() bool) bool {
		if x.waitUntil(x.guard, func() bool { return pred() || foreign() }) {
			if !pred() {
				sr.Foreign = true
			}
			return true
		}
		return false
	}
	ok := true
	switch req.Kind {
	case kMalformed:
		ok = x.waitUntil(x.guard, func() bool { return x.rec.length() > i0 })
	case kGet, kCreate, kUpdate, kInsert, kDelete:
		ok = wait(func() bool { return own(anyReply) >= 1 })
	case kQuery:
		ok = wait(func() bool { return own(isType("done", "error")) >= 1 })
	case kSub:
		ok = wait(func() bool { return own(isType("error")) >= 1 || x.api.VerifHasSub(req.OpID) })
		if ok {
			x.open[req.OpID] = own(isType("error")) == 0 && !sr.Foreign
		}
	case kQsub:
		ok = wait(func() bool {
			return own(isType("error")) >= 1 || (own(isType("done")) >= 1 && x.api.VerifHasSub(req.OpID))
		})
		if ok {
			x.open[req.OpID] = own(isType("error")) == 0 && !sr.Foreign
		}
	case kCancel:
		if x.open[req.OpID] || sr.HadSub {
			ok = wait(func() bool { return own(isType("done")) >= 1 })
			if ok {
				delete(x.open, req.OpID)
			}
		} else {
			g := x.guard
			if g > time.Second {
				g = time.Second
			}
			if !x.waitUntil(g, func() bool { return own(anyReply) >= 1 }) {
				sr.NoReply = true
			}
		}
	}
	sr.Timeout = !ok
	x.steps = append(x.steps, sr)
	return ok
}

func (x *executor) lastOwnSuccess(stepIdx int, opID string) bool {
	for _, e := range x.rec.snapshot(0) {
		if e.Step == stepIdx {
			r := parseReply(e.Data)
			if r.OpID == opID && r.Type == "success" {
				return true
			}
		}
	}
	return false
}

// runCase executes one sequence: the messages, a read-back probe after every
// successful create/update/insert, a cancel for every subscription still
// open, a liveness probe, and then waits for the handler goroutines to exit.
func (x *executor) runCase(j *Job) (res Result) {
	res.ID = j.ID
	x.guard = time.Duration(j.GuardMS) * time.Millisecond
	if err := x.setup(j.Backend, j.Shadow); err != nil {
		res.SetupErr = err.Error()
		return
	}
	runtime.Gosched()
	g0 := runtime.NumGoroutine()
	alive := true
	for i, m := range j.Msgs {
		if !x.step("msg", m, 0) {
			alive = false
			break
		}
		req := classify(m)
		if (req.Kind == kCreate || req.Kind == kUpdate || req.Kind == kInsert) && x.lastOwnSuccess(len(x.steps)-1, req.OpID) {
			probe := []byte(fmt.Sprintf("p%d|get|%s", i, req.Arg))
			if !x.step("probe", probe, len(x.steps)-1) {
				alive = false
				break
			}
		}
	}
	if alive {
		ids := make([]string, 0, len(x.open))
		for id, o := range x.open {
			if o {
				ids = append(ids, id)
			}
		}
		sort.Strings(ids)
		for _, id := range ids {
			if !x.step("cleanup", []byte(id+"|cancel"), 0) {
				alive = false
				break
			}
		}
	}
	if alive {
		alive = x.step("live", []byte("live|get|tdb:live"), 0)
	}
	if alive {
		res.Settled = x.waitUntil(300*time.Millisecond, func() bool {
			oq, os := x.api.VerifOpen()
			return runtime.NumGoroutine() <= g0 && oq == 0 && os == 0
		})
	}
	res.OpenQ, res.OpenS = x.api.VerifOpen()
	res.Steps = x.steps
	res.Events = x.rec.snapshot(0)
	return
}

// runBulk hands every string of the bulk to Handle on one API instance and
// checks only the synchronous part: exactly one reply, recorded during
// Handle, of type error. Every other string is reported back to be run as a
// normal case.
func (x *executor) runBulk(j *Job) (res Result) {
	res.ID = j.ID
	x.guard = time.Duration(j.GuardMS) * time.Millisecond
	if err := x.setup(j.Backend, j.Shadow); err != nil {
		res.SetupErr = err.Error()
		return
	}
	b := j.Bulk
	alpha := b.Alpha
	if alpha == nil {
		alpha = make([]byte, 256)
		for i := range alpha {
			alpha[i] = byte(i)
		}
	}
	br := &BulkResult{}
	classes := map[string]int{}
	buf := make([]byte, b.Len)
	idx := make([]int, b.Len)
	var events []Event
	x.rec.mu.Lock()
	x.rec.inHandle = true
	x.rec.mu.Unlock()
	for {
		skip := false
		for i := range buf {
			buf[i] = alpha[idx[i]]
		}
		if b.First >= 0 && b.Len > 0 && int(buf[0]) != b.First {
			skip = true
		}
		if !skip {
			br.Count++
			msg := append([]byte(nil), buf...)
			x.rec.mu.Lock()
			x.rec.events = x.rec.events[:0]
			x.rec.mu.Unlock()
			panicked := false
			func() {
				defer func() {
					if r := recover(); r != nil {
						panicked = true
					}
				}()
				x.api.Handle(msg)
			}()
			events = x.rec.snapshot(0)
			good := false
			if !panicked && classify(msg).Kind == kMalformed && len(events) == 1 {
				r := parseReply(events[0].Data)
				if r.OK && r.Type == "error" {
					good = true
					classes["malformed:error"+malformedClass(classify(msg), r)]++
				}
			}
			if !good {
				br.BadN++
				if len(br.Bad) < 50 {
					br.Bad = append(br.Bad, msg)
				}
			}
			if br.Count%7919 == 1 && len(br.Samples) < 3 {
				br.Samples = append(br.Samples, msg)
			}
		}
		// next
		k := b.Len - 1
		for k >= 0 {
			idx[k]++
			if idx[k] < len(alpha) {
				break
			}
			idx[k] = 0
			k--
		}
		if k < 0 {
			break
		}
	}
	x.rec.mu.Lock()
	x.rec.inHandle = false
	x.rec.events = x.rec.events[:0]
	x.rec.mu.Unlock()
	x.steps = nil
	if x.step("live", []byte("live|get|tdb:live"), 0) {
		for _, e := range x.rec.snapshot(0) {
			r := parseReply(e.Data)
			if r.OpID == "live" && r.Type == "ok" {
				br.LiveOK = true
			}
		}
	}
	res.Bulk = br
	res.Classes = classes
	res.Settled = true
	return
}

type childLine struct {
	T   string  `json:"t"` // B = begin of a job, S = a message is about to be handled, R = result
	ID  int     `json:"id"`
	Msg []byte  `json:"msg,omitempty"`
	Res *Result `json:"res,omitempty"`
}

// childMain: jobs as JSON values on stdin, one JSON line per begin/result on stdout.
func childMain() {
	root := os.Getenv("C13_CHILD")
	if err := database.InitializeWithPath(root); err != nil {
		fmt.Fprintln(os.Stderr, "C13-CHILD-SETUP-ERROR:", err)
		os.Exit(3)
	}
	x := &executor{root: root}
	in := json.NewDecoder(bufio.NewReaderSize(os.Stdin, 1<<20))
	out := bufio.NewWriterSize(os.Stdout, 1<<20)
	enc := json.NewEncoder(out)
	for {
		var j Job
		if err := in.Decode(&j); err != nil {
			break
		}
		_ = enc.Encode(childLine{T: "B", ID: j.ID})
		_ = out.Flush()
		id := j.ID
		x.mark = func(msg []byte) {
			_ = enc.Encode(childLine{T: "S", ID: id, Msg: msg})
			_ = out.Flush()
		}
		var res Result
		if j.Bulk != nil {
			res = x.runBulk(&j)
		} else if j.Scen != nil {
			res = x.runScen(&j)
		} else {
			res = x.runCase(&j)
		}
		_ = enc.Encode(childLine{T: "R", ID: j.ID, Res: &res})
		_ = out.Flush()
		if !res.Settled || res.SetupErr != "" {
			// Left-over goroutines or a stuck handler: do not let them touch the next case.
			os.Exit(0)
		}
	}
	os.Exit(0)
}
