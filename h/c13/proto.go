package main

// Protocol grammar shared by the executor (child process) and the judge
// (parent process): how a request message is classified and how a reply is
// split. Written from the protocol comment in api/database.go and the
// property statement, not from the dispatch code.

import (
	"bytes"
	"encoding/json"
	"io"
	"regexp"
	"strconv"
	"strings"
)

// Request kinds.
const (
	kMalformed = "malformed"
	kGet       = "get"
	kQuery     = "query"
	kSub       = "sub"
	kQsub      = "qsub"
	kCancel    = "cancel"
	kCreate    = "create"
	kUpdate    = "update"
	kInsert    = "insert"
	kDelete    = "delete"
)

// Req is a classified request message.
type Req struct {
	Kind    string
	OpID    string // text before the first separator (only meaningful if HasOpID)
	HasOpID bool
	Arg     string // key or query text
	Payload []byte // create/update/insert
}

// classify applies the message grammar
//
//	opID|get|key   opID|query|text   opID|sub|text   opID|qsub|text   opID|cancel
//	opID|create|key|payload   opID|update|key|payload   opID|insert|key|payload   opID|delete|key
//
// Everything else is a malformed message.
func classify(msg []byte) Req {
	i := bytes.IndexByte(msg, '|')
	if i < 0 {
		return Req{Kind: kMalformed}
	}
	r := Req{OpID: string(msg[:i]), HasOpID: true}
	rest := msg[i+1:]
	j := bytes.IndexByte(rest, '|')
	if j < 0 {
		if string(rest) == "cancel" {
			r.Kind = kCancel
			return r
		}
		r.Kind = kMalformed
		return r
	}
	cmd, args := string(rest[:j]), rest[j+1:]
	switch cmd {
	case "get", "query", "sub", "qsub", "delete":
		r.Kind = cmd
		r.Arg = string(args)
	case "create", "update", "insert":
		k := bytes.IndexByte(args, '|')
		if k < 0 {
			r.Kind = kMalformed
			return r
		}
		r.Kind = cmd
		r.Arg = string(args[:k])
		r.Payload = args[k+1:]
	default:
		r.Kind = kMalformed
	}
	return r
}

func isWrite(kind string) bool {
	return kind == kCreate || kind == kUpdate || kind == kInsert || kind == kDelete
}

// Reply is a split reply message "opID|type|key|data" / "opID|type|message".
type Reply struct {
	OK   bool // could be split into opID and a known type
	OpID string
	Type string
	Rest []byte // everything after the type
}

var replyTypes = map[string]bool{"ok": true, "error": true, "done": true, "success": true,
	"upd": true, "new": true, "del": true, "warning": true}

func parseReply(b []byte) Reply {
	i := bytes.IndexByte(b, '|')
	if i < 0 {
		return Reply{}
	}
	r := Reply{OpID: string(b[:i])}
	rest := b[i+1:]
	j := bytes.IndexByte(rest, '|')
	if j < 0 {
		r.Type = string(rest)
	} else {
		r.Type = string(rest[:j])
		r.Rest = rest[j+1:]
	}
	r.OK = replyTypes[r.Type]
	return r
}

// keyAndData splits the rest of an ok/upd/new reply into key and data.
func (r Reply) keyAndData() (key string, data []byte) {
	i := bytes.IndexByte(r.Rest, '|')
	if i < 0 {
		return string(r.Rest), nil
	}
	return string(r.Rest[:i]), r.Rest[i+1:]
}

// parseJSONObject decodes b as exactly one JSON object (numbers kept as text).
func parseJSONObject(b []byte) (map[string]any, bool) {
	dec := json.NewDecoder(bytes.NewReader(b))
	dec.UseNumber()
	var v any
	if err := dec.Decode(&v); err != nil {
		return nil, false
	}
	var extra any
	if err := dec.Decode(&extra); err != io.EOF {
		return nil, false
	}
	m, ok := v.(map[string]any)
	return m, ok
}

func canon(v any) string {
	b, err := json.Marshal(v)
	if err != nil {
		return "!" + err.Error()
	}
	return string(b)
}

// subQuery is the part of a query text the reference model understands.
type subQuery struct {
	Understood bool
	DB         string
	Prefix     string
	CondAGt0   bool  // "where a > 0"
	Expr       *expr // where-clause over "<field> exists" terms, nil if none
}

var subQueryRe = regexp.MustCompile(`^query ([A-Za-z0-9_-]+):([A-Za-z0-9/]*)( where (.+))?$`)

func parseSubQuery(text string) subQuery {
	m := subQueryRe.FindStringSubmatch(text)
	if m == nil {
		return subQuery{}
	}
	sq := subQuery{Understood: true, DB: m[1], Prefix: m[2]}
	switch {
	case m[3] == "":
	case m[4] == "a > 0":
		sq.CondAGt0 = true
	default:
		e, ok := parseExpr(strings.Fields(m[4]))
		if !ok {
			return subQuery{}
		}
		sq.Expr = e
	}
	return sq
}

// expr is the reference form of the documented where-clause semantics for the
// fragment used by the templates:
//
//	group := term { "and" term } | term { "or" term }      (no mixing)
//	term  := [ "not" ] ( "(" group ")" | field "exists" | field "not" "exists" )
//
// A "not" in front of a term negates that term only.
type expr struct {
	op    string // exists | not | and | or
	field string
	sub   []*expr
}

func parseExpr(tok []string) (*expr, bool) {
	pos := 0
	var group func() (*expr, bool)
	term := func() (*expr, bool) {
		neg := false
		if pos < len(tok) && tok[pos] == "not" {
			neg = true
			pos++
		}
		var e *expr
		switch {
		case pos < len(tok) && tok[pos] == "(":
			pos++
			g, ok := group()
			if !ok || pos >= len(tok) || tok[pos] != ")" {
				return nil, false
			}
			pos++
			e = g
		case pos+1 < len(tok) && simpleKeyRe.MatchString(tok[pos]) && tok[pos+1] == "exists":
			e = &expr{op: "exists", field: tok[pos]}
			pos += 2
		case pos+2 < len(tok) && simpleKeyRe.MatchString(tok[pos]) && tok[pos+1] == "not" && tok[pos+2] == "exists":
			e = &expr{op: "not", sub: []*expr{{op: "exists", field: tok[pos]}}}
			pos += 3
		default:
			return nil, false
		}
		if neg {
			e = &expr{op: "not", sub: []*expr{e}}
		}
		return e, true
	}
	group = func() (*expr, bool) {
		first, ok := term()
		if !ok {
			return nil, false
		}
		terms := []*expr{first}
		op := ""
		for pos < len(tok) && (tok[pos] == "and" || tok[pos] == "or") {
			if op != "" && tok[pos] != op {
				return nil, false
			}
			op = tok[pos]
			pos++
			t, ok := term()
			if !ok {
				return nil, false
			}
			terms = append(terms, t)
		}
		if len(terms) == 1 {
			return first, true
		}
		return &expr{op: op, sub: terms}, true
	}
	e, ok := group()
	if !ok || pos != len(tok) {
		return nil, false
	}
	return e, true
}

func (e *expr) eval(obj map[string]any) bool {
	switch e.op {
	case "exists":
		_, ok := obj[e.field]
		return ok
	case "not":
		return !e.sub[0].eval(obj)
	case "and":
		for _, s := range e.sub {
			if !s.eval(obj) {
				return false
			}
		}
		return true
	default: // or
		for _, s := range e.sub {
			if s.eval(obj) {
				return true
			}
		}
		return false
	}
}

func splitKey(key string) (db, dbKey string) {
	i := strings.IndexByte(key, ':')
	if i < 0 {
		return key, ""
	}
	return key[:i], key[i+1:]
}

// condAGt0 evaluates "a > 0" on a known JSON object: yes / no / unknown.
func condAGt0(obj map[string]any) (val bool, known bool) {
	v, ok := obj["a"]
	if !ok {
		return false, true
	}
	n, ok := v.(json.Number)
	if !ok {
		return false, false
	}
	i, err := strconv.ParseInt(string(n), 10, 64)
	if err != nil {
		return false, false
	}
	return i > 0, true
}

var simpleKeyRe = regexp.MustCompile(`^[A-Za-z0-9_]+$`)

func q(b []byte) string { return strconv.Quote(string(b)) }
