package main

// Protocol grammar shared by the executor (child process) and the judge
// (parent process): how a request message is classified and how a reply is
// split. Written from the protocol comment in api/database.go and the
// property statement, not from the dispatch code.

import (
	"bytes"
	"encoding/json"
	"io"
	"regexp"
	"strconv"
	"strings"
)

// Request kinds.
const (
	kMalformed = "malformed"
	kGet       = "get"
	kQuery     = "query"
	kSub       = "sub"
	kQsub      = "qsub"
	kCancel    = "cancel"
	kCreate    = "create"
	kUpdate    = "update"
	kInsert    = "insert"
	kDelete    = "delete"
)

// Req is a classified request message.
type Req struct {
	Kind    string
	OpID    string // text before the first separator (only meaningful if HasOpID)
	HasOpID bool
	Arg     string // key or query text
	Payload []byte // create/update/insert
}

// classify applies the message grammar
//
//	opID|get|key   opID|query|text   opID|sub|text   opID|qsub|text   opID|cancel
//	opID|create|key|payload   opID|update|key|payload   opID|insert|key|payload   opID|delete|key
//
// Everything else is a malformed message.
func classify(msg []byte) Req {
	i := bytes.IndexByte(msg, '|')
	if i < 0 {
		return Req{Kind: kMalformed}
	}
	r := Req{OpID: string(msg[:i]), HasOpID: true}
	rest := msg[i+1:]
	j := bytes.IndexByte(rest, '|')
	if j < 0 {
		if string(rest) == "cancel" {
			r.Kind = kCancel
			return r
		}
		r.Kind = kMalformed
		return r
	}
	cmd, args := string(rest[:j]), rest[j+1:]
	switch cmd {
	case "get", "query", "sub", "qsub", "delete":
		r.Kind = cmd
		r.Arg = string(args)
	case "create", "update", "insert":
		k := bytes.IndexByte(args, '|')
		if k < 0 {
			r.Kind = kMalformed
			return r
		}
		r.Kind = cmd
		r.Arg = string(args[:k])
		r.Payload = args[k+1:]
	default:
		r.Kind = kMalformed
	}
	return r
}

func isWrite(kind string) bool {
	return kind == kCreate || kind == kUpdate || kind == kInsert || kind == kDelete
}

// Reply is a split reply message "opID|type|key|data" / "opID|type|message".
type Reply struct {
	OK   bool // could be split into opID and a known type
	OpID string
	Type string
	Rest []byte // everything after the type
}

var replyTypes = map[string]bool{"ok": true, "error": true, "done": true, "success": true,
	"upd": true, "new": true, "del": true, "warning": true}

func parseReply(b []byte) Reply {
	i := bytes.IndexByte(b, '|')
	if i < 0 {
		return Reply{}
	}
	r := Reply{OpID: string(b[:i])}
	rest := b[i+1:]
	j := bytes.IndexByte(rest, '|')
	if j < 0 {
		r.Type = string(rest)
	} else {
		r.Type = string(rest[:j])
		r.Rest = rest[j+1:]
	}
	r.OK = replyTypes[r.Type]
	return r
}

// keyAndData splits the rest of an ok/upd/new reply into key and data.
func (r Reply) keyAndData() (key string, data []byte) {
	i := bytes.IndexByte(r.Rest, '|')
	if i < 0 {
		return string(r.Rest), nil
	}
	return string(r.Rest[:i]), r.Rest[i+1:]
}

// parseJSONObject decodes b as exactly one JSON object (numbers kept as text).
func parseJSONObject(b []byte) (map[string]any, bool) {
	dec := json.NewDecoder(bytes.NewReader(b))
	dec.UseNumber()
	var v any
	if err := dec.Decode(&v); err != nil {
		return nil, false
	}
	var extra any
	if err := dec.Decode(&extra); err != io.EOF {
		return nil, false
	}
	m, ok := v.(map[string]any)
	return m, ok
}

func canon(v any) string {
	b, err := json.Marshal(v)
	if err != nil {
		return "!" + err.Error()
	}
	return string(b)
}

// subQuery is the part of a subscription query the reference model understands.
type subQuery struct {
	Understood bool
	DB         string
	Prefix     string
	CondAGt0   bool // "where a > 0"
}

var subQueryRe = regexp.MustCompile(`^query ([A-Za-z0-9_-]+):([A-Za-z0-9]*)( where a > 0)?$`)

func parseSubQuery(text string) subQuery {
	m := subQueryRe.FindStringSubmatch(text)
	if m == nil {
		return subQuery{}
	}
	return subQuery{Understood: true, DB: m[1], Prefix: m[2], CondAGt0: m[3] != ""}
}

func splitKey(key string) (db, dbKey string) {
	i := strings.IndexByte(key, ':')
	if i < 0 {
		return key, ""
	}
	return key[:i], key[i+1:]
}

// condAGt0 evaluates "a > 0" on a known JSON object: yes / no / unknown.
func condAGt0(obj map[string]any) (val bool, known bool) {
	v, ok := obj["a"]
	if !ok {
		return false, true
	}
	n, ok := v.(json.Number)
	if !ok {
		return false, false
	}
	i, err := strconv.ParseInt(string(n), 10, 64)
	if err != nil {
		return false, false
	}
	return i > 0, true
}

var simpleKeyRe = regexp.MustCompile(`^[A-Za-z0-9_]+$`)

func q(b []byte) string { return strconv.Quote(string(b)) }
