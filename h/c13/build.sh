#!/bin/bash
set -e
cd /verif
./mkoverlay.sh c13
go build -tags verif -overlay build/c13.overlay.json -o "$1" ./h/c13
/verif/h/c13s/build.sh /verif/build/c13s
