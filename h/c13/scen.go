package main

// Scenario families of the engine-Q part that need a consumer that is slower
// than the storage:
//
//   slow    - a query (or the query phase of a qsub) whose connection stalls on
//             the first ok reply while other connections write; optionally the
//             stall lasts 1.5 s of real time so that the storage's send
//             timeout makes the iterator fail (the wait causes a fault, it is
//             not an oracle)
//   corrupt - a stored record that does not parse makes the iterator fail
//             after the query was accepted
//
// Oracle additions: every ok (and upd/new) reply of the stalled operation
// carries, for its key, content the record had at some moment between the
// start of the query and the reply; the stream has exactly one terminal reply.

import (
	"fmt"
	"os"
	"path/filepath"
	"runtime"
	"strings"
	"sync"
	"time"

	"github.com/safing/portbase/api"
	"github.com/safing/portbase/database"
	"github.com/safing/portbase/database/record"
	"github.com/safing/portbase/formats/dsd"
)

// Scen describes one scenario case.
type Scen struct {
	Kind    string `json:"kind"` // slow | corrupt
	Cmd     string `json:"cmd"`  // query | qsub
	Prefix  string `json:"prefix"`
	StallMS int    `json:"stall_ms,omitempty"`
	Writes  int    `json:"writes,omitempty"`
	Pattern string `json:"pattern,omitempty"` // mixed | update | create | delete
	Records int    `json:"records"`
	Corrupt string `json:"corrupt,omitempty"` // database key of the record that does not parse
}

// ExtWrite is a request made on another connection while the operation under test is stalled.
type ExtWrite struct {
	Kind    string   `json:"kind"`
	Key     string   `json:"key"`
	Payload []byte   `json:"payload,omitempty"`
	Msg     []byte   `json:"msg"`
	Replies []string `json:"replies"`
}

const scenOpID = "Q"

func scenKey(i int) string { return fmt.Sprintf("tdb:s%02d", i) }

// scenContent is version ver of the content of key (ver 0 = seeded).
func scenContent(key string, ver int) []byte {
	pad := strings.Repeat(string(rune('a'+ver%26)), 60+10*(ver%5))
	return []byte(fmt.Sprintf(`{"k":%q,"v":%d,"pad":%q}`, key, ver, pad))
}

func (x *executor) setupScen(j *Job) error {
	sc := j.Scen
	database.VerifReset()
	if j.Backend != "hashmap" {
		if err := os.RemoveAll(filepath.Join(x.root, "databases", dbName)); err != nil {
			return err
		}
	}
	if _, err := database.Register(&database.Database{Name: dbName, Description: "c13", StorageType: j.Backend, ShadowDelete: j.Shadow}); err != nil {
		return err
	}
	priv := database.NewInterface(&database.Options{Local: true, Internal: true})
	put := func(key string, data []byte) error {
		w, err := record.NewWrapper(key, nil, dsd.JSON, data)
		if err != nil {
			return err
		}
		return priv.Put(w)
	}
	if err := put("tdb:live", []byte(`{"live":true}`)); err != nil {
		return err
	}
	for i := 0; i < sc.Records; i++ {
		if err := put(scenKey(i), scenContent(scenKey(i), 0)); err != nil {
			return err
		}
	}
	if sc.Corrupt != "" {
		raw := []byte{1, 0xff, 0x01, 'x'} // version 1, then a meta block that claims more bytes than there are
		if j.Backend == "fstree" {
			if err := os.WriteFile(filepath.Join(x.root, "databases", dbName, "fstree", sc.Corrupt), raw, 0o644); err != nil {
				return err
			}
		} else {
			st, err := database.VerifStorage(dbName)
			if err != nil {
				return err
			}
			rp, ok := st.(interface {
				VerifPutRaw(key string, data []byte) error
			})
			if !ok {
				return fmt.Errorf("storage %s cannot hold a raw record", j.Backend)
			}
			if err := rp.VerifPutRaw(sc.Corrupt, raw); err != nil {
				return err
			}
		}
	}
	x.rec = &recorder{notify: make(chan struct{}, 1)}
	a := api.CreateDatabaseAPI(x.rec.send)
	x.api = &a
	x.steps = nil
	x.open = map[string]bool{}
	x.ids = map[string]bool{}
	return nil
}

// extWrites builds the requests made on the other connections.
func extWrites(sc *Scen) []ExtWrite {
	var matching []string
	for i := 0; i < sc.Records; i++ {
		if strings.HasPrefix(scenKey(i), "tdb:"+sc.Prefix) {
			matching = append(matching, scenKey(i))
		}
	}
	version := map[string]int{}
	var out []ExtWrite
	upd, del := 0, 0
	for i := 0; i < sc.Writes; i++ {
		kind := sc.Pattern
		if kind == "mixed" {
			kind = []string{"create", "update", "update", "other"}[i%4]
		}
		var w ExtWrite
		switch {
		case kind == "update" && len(matching) > 0:
			w.Kind, w.Key = "update", matching[(upd*7)%len(matching)]
			upd++
		case kind == "delete" && len(matching) > 0:
			w.Kind, w.Key = "delete", matching[(del*3)%len(matching)]
			del++
		case kind == "other":
			w.Kind, w.Key = "create", fmt.Sprintf("tdb:z%02d", i)
		default:
			w.Kind, w.Key = "create", fmt.Sprintf("tdb:%sn%02d", sc.Prefix, i)
		}
		if w.Kind == "delete" {
			w.Msg = []byte(fmt.Sprintf("w%d|delete|%s", i, w.Key))
		} else {
			version[w.Key]++
			w.Payload = append([]byte("J"), scenContent(w.Key, version[w.Key])...)
			w.Msg = []byte(fmt.Sprintf("w%d|%s|%s|%s", i, w.Kind, w.Key, w.Payload))
		}
		out = append(out, w)
	}
	return out
}

func (x *executor) runScen(j *Job) (res Result) {
	res.ID = j.ID
	res.Scen = j.Scen
	sc := j.Scen
	x.guard = time.Duration(j.GuardMS) * time.Millisecond
	if err := x.setupScen(j); err != nil {
		res.SetupErr = err.Error()
		return
	}
	stalled := make(chan struct{})
	release := make(chan struct{})
	var once sync.Once
	x.rec.hook = func(data []byte) {
		// called on the sending goroutine after the reply was recorded
		if r := parseReply(data); r.OpID == scenOpID && r.Type == "ok" {
			once.Do(func() {
				close(stalled)
				<-release
			})
		}
	}
	runtime.Gosched()
	g0 := runtime.NumGoroutine()

	// step 0: the operation under test
	msg := []byte(fmt.Sprintf("%s|%s|query tdb:%s", scenOpID, sc.Cmd, sc.Prefix))
	sr := StepRec{Kind: "msg", Msg: msg}
	x.ids[scenOpID] = true
	if x.mark != nil {
		x.mark(msg)
	}
	terminal := func() (done, failed bool) {
		for _, e := range x.rec.snapshot(0) {
			if r := parseReply(e.Data); r.OpID == scenOpID {
				done = done || r.Type == "done"
				failed = failed || r.Type == "error"
			}
		}
		return
	}
	if x.handle(msg) {
		sr.HandleStuck = true
		x.steps = append(x.steps, sr)
		res.Steps, res.Events = x.steps, x.rec.snapshot(0)
		return
	}
	isStalled := func() bool {
		select {
		case <-stalled:
			return true
		default:
			return false
		}
	}
	x.waitUntil(x.guard, func() bool {
		d, f := terminal()
		return isStalled() || d || f
	})
	if isStalled() {
		res.Stalled = true
		writes := extWrites(sc)
		conns := make([]*recorder, 2)
		apis := make([]*api.DatabaseAPI, 2)
		for i := range conns {
			conns[i] = &recorder{notify: make(chan struct{}, 1)}
			a := api.CreateDatabaseAPI(conns[i].send)
			apis[i] = &a
		}
		for i := range writes {
			w := &writes[i]
			rc, a := conns[i%2], apis[i%2]
			i0 := rc.length()
			id := fmt.Sprintf("w%d", i)
			if x.mark != nil {
				x.mark(w.Msg)
			}
			a.Handle(append([]byte(nil), w.Msg...))
			own := func() []string {
				var ts []string
				for _, e := range rc.snapshot(i0) {
					if r := parseReply(e.Data); r.OpID == id {
						ts = append(ts, r.Type)
					}
				}
				return ts
			}
			xw := &executor{rec: rc}
			xw.waitUntil(x.guard, func() bool { return len(own()) >= 1 })
			w.Replies = own()
		}
		res.ExtWrites = writes
		if sc.StallMS > 0 {
			time.Sleep(time.Duration(sc.StallMS) * time.Millisecond) // causes the storage's send timeout; not an oracle
		}
		close(release)
	}
	ok := x.waitUntil(x.guard, func() bool { d, f := terminal(); return d || f })
	if ok && sc.Cmd == kQsub {
		if _, failed := terminal(); !failed {
			ok = x.waitUntil(x.guard, func() bool { return x.api.VerifHasSub(scenOpID) })
			x.open[scenOpID] = ok
		}
	}
	sr.Timeout = !ok
	x.steps = append(x.steps, sr)
	alive := ok
	if alive && x.open[scenOpID] {
		alive = x.step("cleanup", []byte(scenOpID+"|cancel"), 0)
	}
	if alive && sc.Corrupt != "" {
		alive = x.step("msg", []byte("g|get|tdb:"+sc.Corrupt), 0)
	}
	if alive {
		alive = x.step("live", []byte("live|get|tdb:live"), 0)
	}
	if alive {
		res.Settled = x.waitUntil(300*time.Millisecond, func() bool {
			oq, os := x.api.VerifOpen()
			return runtime.NumGoroutine() <= g0 && oq == 0 && os == 0
		})
	}
	res.OpenQ, res.OpenS = x.api.VerifOpen()
	res.Steps = x.steps
	res.Events = x.rec.snapshot(0)
	return
}

// ---------- judge side ----------

// scenAllowed returns the canonical forms of every content key had between
// the start of the stalled operation and its end.
func scenAllowed(res *Result) map[string]map[string]bool {
	allowed := map[string]map[string]bool{}
	addv := func(key string, data []byte) {
		obj, ok := parseJSONObject(data)
		if !ok {
			return
		}
		if allowed[key] == nil {
			allowed[key] = map[string]bool{}
		}
		allowed[key][canon(obj)] = true
	}
	for i := 0; i < res.Scen.Records; i++ {
		addv(scenKey(i), scenContent(scenKey(i), 0))
	}
	addv("tdb:live", []byte(`{"live":true}`))
	for _, w := range res.ExtWrites {
		if w.Kind != "delete" && len(w.Replies) == 1 && w.Replies[0] == "success" {
			addv(w.Key, w.Payload[1:])
		}
	}
	return allowed
}

// judgeScen checks the scenario-specific clauses.
func judgeScen(jd *judged, res *Result) {
	sc := res.Scen
	add := func(clause, site, disc, format string, a ...any) {
		jd.viols = append(jd.viols, V{clause, site, disc, fmt.Sprintf(format, a...)})
	}
	for _, w := range res.ExtWrites {
		if !(len(w.Replies) == 1 && in(w.Replies[0], "success", "error")) {
			disc := "multiple-replies"
			if len(w.Replies) == 0 {
				disc = "no-reply"
			}
			add("write-protocol", w.Kind, disc, "while %s was stalled, %s on another connection got %v", sc.Cmd, q(w.Msg), w.Replies)
		}
	}
	allowed := scenAllowed(res)
	deleted := map[string]bool{}
	for _, w := range res.ExtWrites {
		if w.Kind == "delete" && len(w.Replies) == 1 && w.Replies[0] == "success" {
			deleted[w.Key] = true
		}
	}
	for _, e := range res.Events {
		r := parseReply(e.Data)
		if r.OpID != scenOpID || !in(r.Type, "ok", "upd", "new") {
			continue
		}
		key, data := r.keyAndData()
		versions, known := allowed[key]
		what := "query-record-content"
		if r.Type != "ok" {
			what = "notification-record-content"
		}
		switch {
		case !known:
			add(what, sc.Cmd, "key-never-stored", "%s reply for key %q, which was never stored: %s", r.Type, key, q(e.Data))
		case len(data) < 1 || data[0] != 'J':
			add(what, sc.Cmd, "wrong-format", "%s reply for %s carries %s", r.Type, key, q(data))
		default:
			obj, ok := parseJSONObject(data[1:])
			if !ok {
				add(what, sc.Cmd, "not-a-json-object", "%s reply for %s carries %s", r.Type, key, q(data))
				continue
			}
			meta, isObj := obj["_meta"].(map[string]any)
			if !isObj {
				add(what, sc.Cmd, "no-meta-section", "%s reply for %s carries %s", r.Type, key, q(data))
			}
			delete(obj, "_meta")
			if len(obj) == 0 && deleted[key] && isObj && fmt.Sprint(meta["Deleted"]) != "0" {
				// storages that hand out the stored object itself (hashmap): the record was deleted while it
				// waited in the iterator buffer and is delivered in its state at reply time (no content, Deleted set)
				jd.outcomes = append(jd.outcomes, sc.Cmd+":ok-for-record-deleted-meanwhile")
				continue
			}
			if !versions[canon(obj)] {
				add(what, sc.Cmd, "content-never-stored", "%s reply for %s carries content the record never had: %s (scenario %+v)", r.Type, key, q(data), *sc)
			}
		}
	}
}
