// C13: every database-API message gets the replies its protocol prescribes.
//
// Engine Q part: bounded-exhaustive enumeration of messages (all byte strings
// up to 3 bytes, a message grammar opID|cmd|rest over small alphabets) and of
// sequences of up to 2 (thorough: 3 over a core alphabet) messages, each
// executed on the real api.DatabaseAPI.Handle with real goroutines against a
// freshly seeded database of every backend, and judged by a protocol
// automaton per operation ID plus a map model for read-back and
// subscription notifications.
//
// Cases run in child processes (this binary re-executed with C13_CHILD set):
// a panic on a goroutine started by Handle kills the child, the parent
// attributes the death to the case in flight, confirms it in isolation and
// reports it as a violation of "no message crashes the process".
package main

import (
	"bufio"
	"bytes"
	"encoding/json"
	"fmt"
	"os"
	"os/exec"
	"sort"
	"strings"
	"sync"
	"time"

	"verif/vlib"
)

// ---------- alphabets ----------

type tmpl struct {
	cmd  string // get, query, ..., cancel, cancel-other, raw
	rest string // after "opID|cmd|"; for raw: the whole message with %s for the opID
}

func (t tmpl) render(opID string) []byte {
	switch t.cmd {
	case "raw":
		return []byte(strings.ReplaceAll(t.rest, "%s", opID))
	case "cancel", "cancel-other":
		return []byte(opID + "|cancel")
	}
	return []byte(opID + "|" + t.cmd + "|" + t.rest)
}

func (t tmpl) opensSub() bool { return t.cmd == "sub" || t.cmd == "qsub" }

const cborA1 = "C\xa1aa\x01"

// depth-1 grammar alphabet
var d1OpIDs = []string{"", "1", "a|"}
var d1Cmds = []string{"get", "query", "sub", "qsub", "cancel", "create", "update", "insert", "delete", "bogus", ""}

func d1Rests() []string {
	keys := []string{"tdb:j1", "tdb:j2", "tdb:c1", "tdb:r1", "tdb:t1", "tdb:sec", "tdb:e0", "tdb:nx", "tdb:", "nodb:x", "tdb", "tdb:d/x", "tdb:../x"}
	queries := []string{"query tdb:", "query tdb:j", "query tdb: where a > 0", "query tdb:zz", "query nodb:", "query tdb: where", "tdb:", "query",
		"query tdb: limit 1", "query tdb: where a > x", "query tdb:../", "query tdb: orderby a", "query tdb: where s sameas x"}
	queries = append(queries, notQueries...)
	queries = append(queries, escQueries...)
	wkeys := []string{"tdb:j1", "tdb:c1", "tdb:r1", "tdb:t1", "tdb:sec", "tdb:e0", "tdb:nx", "nodb:x", "", "tdb:", "tdb:d/x", "tdb:../x"}
	payloads := []string{"", "J", "J{}", `J{"a":1}`, `{"a":2}`, "Jnot-json", cborA1, `{"a":"str"}`, "J[1]", `J{"a":0}`,
		`J{"_meta":1}`, `{"b.c":1}`, `J"s"`, "\x01raw", `{"A":9}`, `{"S":"v"}`, `{"S":null}`, `{"a":null}`, `{"L":[1]}`, `{"F":1}`, `{"B":true}`,
		`{"Mutex":{}}`, `{"Base":1}`, `{}`, `[1]`, `{"a":{"b":1}}`,
		// unexported and promoted unexported fields of the typed record, assignable and not
		`{"dbKey":"other"}`, `{"dbName":"x"}`, `{"meta":{}}`, `{"u":"v"}`, `{"u":1}`, `{"n":2}`}
	rests := []string{""}
	rests = append(rests, keys...)
	rests = append(rests, queries...)
	for _, k := range wkeys {
		for _, p := range payloads {
			rests = append(rests, k+"|"+p)
		}
	}
	return rests
}

// where-clauses with a prefix "not" followed by further plain conditions (and the documented spellings)
var notQueries = []string{
	"query tdb:n/ where not a exists and b exists",
	"query tdb:n/ where not a exists or b exists",
	"query tdb:n/ where a exists and not b exists and c exists",
	"query tdb:n/ where not a exists and not b exists",
	"query tdb:n/ where a not exists and b exists",
	"query tdb:n/ where not ( a exists ) and b exists",
	"query tdb:n/ where not ( a exists or b exists ) and c exists",
	"query tdb:n/ where b exists and not a exists",
}

// query texts with backslashes: a lone backslash at the end of the text (end of the key prefix, of a value, of a
// clause argument), a backslash before a closing quote, at the end of a quoted key, escaped characters inside tokens
var escQueries = []string{
	`query tdb:x\`, `query tdb:\`, `query tdb: where a == x\`, `query tdb: where s sameas x\`,
	`query tdb: where s sameas "x\"`, `query tdb: where s sameas "x\\"`, `query tdb: where "a\" > 0`, `query tdb: where a\ > 0`,
	`query tdb:j\1`, `query tdb: where s sameas x\ y`, `query tdb: orderby a\`, `query tdb: limit 1\`, `query\`, `\`,
	`query tdb: where ( a > 0 \`, `query tdb: where s in ( x, y\`,
}

func seqAlphabet(thorough bool) []tmpl {
	a := []tmpl{
		{"get", "tdb:j1"}, {"get", "tdb:nx"}, {"get", "tdb:c1"}, {"get", "tdb:sec"},
		{"query", "query tdb:"}, {"query", "query tdb: where a > 0"}, {"query", "query tdb: where"}, {"query", "query nodb:"},
		{"sub", "query tdb:"}, {"sub", "query tdb:j"}, {"sub", "query tdb: where a > 0"}, {"sub", "bad"},
		{"qsub", "query tdb:"}, {"qsub", "query tdb:j where a > 0"}, {"qsub", "query nodb:"},
		{"cancel", ""}, {"cancel-other", ""},
		{"create", `tdb:nx|J{"a":1}`}, {"create", `tdb:j1|J{"a":5}`}, {"create", `tdb:zq|J{"a":0}`}, {"create", "tdb:nx|Jnot-json"}, {"create", "tdb:nx|" + cborA1}, {"create", "tdb:nx|J"},
		{"update", `tdb:j1|J{"a":0}`}, {"update", `tdb:j1|J{"b":2}`}, {"update", `tdb:nx|J{"a":1}`}, {"update", `tdb:c1|J{"a":1}`}, {"update", "tdb:sec|J{}"},
		{"insert", `tdb:j1|{"a":2}`}, {"insert", `tdb:j1|{"n":1}`}, {"insert", `tdb:c1|{"a":2}`}, {"insert", `tdb:nx|{"a":1}`}, {"insert", `tdb:t1|{"A":9}`}, {"insert", `tdb:j1|{"a":"str"}`},
		{"delete", "tdb:j1"}, {"delete", "tdb:nx"}, {"delete", "tdb:c1"}, {"delete", "tdb:sec"},
		{"raw", "garbage"}, {"raw", "%s|get"}, {"raw", "%s|bogus|x"}, {"raw", "%s|create|tdb:nx"},
	}
	if thorough {
		a = append(a, []tmpl{
			{"get", "tdb:t1"}, {"get", "tdb:e0"}, {"get", "tdb:r1"}, {"get", "tdb:j2"}, {"get", "tdb:zq"}, {"get", "tdb:d/x"}, {"get", "nodb:x"}, {"get", ""},
			{"query", "query tdb:j"}, {"query", "query tdb:zz"}, {"query", "query tdb: limit 1"}, {"query", "query tdb:d"}, {"query", "query tdb: where s sameas x"},
			{"sub", "query tdb:zz"}, {"sub", "query nodb:"}, {"sub", "query tdb: limit 1"}, {"sub", "query tdb:j where a > 0"}, {"sub", "query tdb:d"},
			{"qsub", "query tdb:j"}, {"qsub", "query tdb: where a > 0"}, {"qsub", "bad"}, {"qsub", "query tdb:zz"},
			{"create", `tdb:j1|J{"a":1,"s":"x"}`}, {"create", "tdb:nx|J{}"}, {"create", `tdb:d/x|J{"a":1}`}, {"create", `tdb:d|J{"a":2}`}, {"create", `nodb:x|J{"a":1}`}, {"create", `tdb:sec|J{"a":1}`},
			{"create", "tdb:nx|J[1]"}, {"create", `tdb:jn|J{"a":3,"o":{"p":[1,2]}}`}, {"create", "tdb:nx|\x01raw"}, {"create", `tdb:nx|J{"_meta":1}`}, {"create", `tdb:c1|J{"a":1}`}, {"create", `tdb:t1|J{"A":1}`},
			{"update", `tdb:j2|J{"a":4}`}, {"update", `tdb:t1|J{"A":2}`}, {"update", "tdb:j1|" + cborA1}, {"update", "tdb:j1|Jnot-json"}, {"update", "tdb:j1|J"}, {"update", `tdb:e0|J{"a":1}`}, {"update", `tdb:jn|J{"a":-1}`},
			{"insert", `tdb:j2|{"a":3}`}, {"insert", `tdb:e0|{"a":1}`}, {"insert", `tdb:r1|{"a":1}`}, {"insert", `tdb:t1|{"S":null}`}, {"insert", `tdb:t1|{"S":"v"}`}, {"insert", `tdb:t1|{"nofield":1}`},
			{"insert", `tdb:j1|J{"a":2}`}, {"insert", "tdb:j1|"}, {"insert", `tdb:j1|{"s":"y","z":true}`}, {"insert", `tdb:sec|{"a":1}`}, {"insert", `tdb:nx|{}`}, {"insert", `tdb:j1|{"a":null}`},
			{"delete", "tdb:j2"}, {"delete", "tdb:t1"}, {"delete", "tdb:e0"}, {"delete", "tdb:zq"}, {"delete", "nodb:x"}, {"delete", ""},
			{"raw", ""}, {"raw", "%s|"}, {"raw", "%s|cancel|x"}, {"raw", "%s|insert|tdb:j1"}, {"raw", "%s||"},
			{"query", notQueries[0]}, {"query", notQueries[2]}, {"query", notQueries[1]},
			{"sub", notQueries[0]}, {"sub", notQueries[1]}, {"sub", notQueries[2]},
			{"qsub", notQueries[0]}, {"qsub", notQueries[2]},
			{"create", `tdb:n/8|J{"b":1,"z":1}`}, {"update", `tdb:n/1|J{"z":2}`}, {"update", `tdb:n/4|J{"a":1,"c":1}`}, {"delete", "tdb:n/2"}, {"delete", "tdb:n/0"},
			{"query", escQueries[0]}, {"sub", escQueries[2]}, {"qsub", escQueries[4]},
			{"insert", `tdb:t1|{"dbKey":"other"}`}, {"insert", `tdb:t1|{"u":"v"}`}, {"insert", `tdb:t1|{"meta":{}}`},
		}...)
	}
	return a
}

// core alphabet for depth 3 (thorough)
func coreAlphabet() []tmpl {
	return []tmpl{
		{"get", "tdb:j1"}, {"get", "tdb:nx"},
		{"query", "query tdb:"}, {"query", "query tdb: where a > 0"},
		{"sub", "query tdb:"}, {"sub", "query tdb: where a > 0"}, {"sub", "query tdb:n"},
		{"qsub", "query tdb:j"}, {"qsub", "query tdb: where a > 0"},
		{"cancel", ""}, {"cancel-other", ""},
		{"create", `tdb:nx|J{"a":1}`}, {"create", `tdb:j1|J{"a":5}`}, {"create", "tdb:nx|" + cborA1},
		{"update", `tdb:j1|J{"a":0}`}, {"update", `tdb:nx|J{"b":2}`}, {"update", `tdb:c1|J{"a":3}`},
		{"insert", `tdb:j1|{"a":2}`}, {"insert", `tdb:nx|{"n":1}`}, {"insert", `tdb:j1|{"a":0}`},
		{"delete", "tdb:j1"}, {"delete", "tdb:nx"}, {"delete", "tdb:c1"},
		{"raw", "%s|get"}, {"raw", "%s|bogus|x"},
		{"sub", notQueries[0]}, {"create", `tdb:n/8|J{"b":1,"z":1}`}, {"delete", "tdb:n/2"},
	}
}

// renderSeq assigns operation IDs. mode "D": distinct IDs 1,2,3 (a cancel
// takes the ID of the nearest earlier sub/qsub, cancel-other takes 9);
// "S": all messages use ID 1; "E": all use the empty ID. In S and E a
// sequence is skipped if a message other than cancel follows a sub/qsub that
// has not been cancelled: reusing the ID of a running operation is outside
// "well-formed requests".
func renderSeq(ts []tmpl, mode string) ([][]byte, bool) {
	var out [][]byte
	openAt := -1
	for i, t := range ts {
		var id string
		switch mode {
		case "D":
			id = fmt.Sprint(i + 1)
			if t.cmd == "cancel" && openAt >= 0 {
				id = fmt.Sprint(openAt + 1)
			}
		case "S":
			id = "1"
		case "E":
			id = ""
		}
		if t.cmd == "cancel-other" {
			id = "9"
		}
		if mode != "D" && openAt >= 0 && t.cmd != "cancel" && t.cmd != "cancel-other" {
			return nil, false
		}
		if t.cmd == "cancel" {
			openAt = -1
		}
		if t.opensSub() {
			if mode != "D" && openAt >= 0 {
				return nil, false
			}
			openAt = i
		}
		out = append(out, t.render(id))
	}
	return out, true
}

type config struct {
	backend string
	shadow  bool
	level   int
}

// ---------- witness ----------

// Witness is enough to re-run one case.
type Witness struct {
	Backend string   `json:"backend"`
	Shadow  bool     `json:"shadow_delete"`
	Msgs    [][]byte `json:"msgs,omitempty"`
	Text    []string `json:"msgs_quoted,omitempty"`
	Bulk    *Bulk    `json:"bulk,omitempty"`
	Scen    *Scen    `json:"scenario,omitempty"`
}

func witnessOf(j *Job) Witness {
	w := Witness{Backend: j.Backend, Shadow: j.Shadow, Msgs: j.Msgs, Bulk: j.Bulk, Scen: j.Scen}
	for _, m := range j.Msgs {
		w.Text = append(w.Text, q(m))
	}
	return w
}

// ---------- child process management ----------

var selfPath string

func tmpBase() string {
	if st, err := os.Stat("/dev/shm"); err == nil && st.IsDir() {
		if f, err := os.CreateTemp("/dev/shm", "c13probe"); err == nil {
			f.Close()
			os.Remove(f.Name())
			return "/dev/shm"
		}
	}
	return os.TempDir()
}

type childEnd struct {
	results  map[int]*Result
	inflight int    // job ID begun but not finished, -1 if none
	lastMsg  []byte // the message handed to Handle last in the job in flight
	stderr   string // tail of the child's stderr
	exitErr  string
	hang     bool
}

// runChild runs the jobs in one child process until it ends.
func runChild(jobs []Job, watchdog time.Duration) childEnd {
	end := childEnd{results: map[int]*Result{}, inflight: -1}
	root, err := os.MkdirTemp(tmpBase(), "c13-")
	if err != nil {
		end.exitErr = "mkdtemp: " + err.Error()
		return end
	}
	defer os.RemoveAll(root)
	cmd := exec.Command(selfPath)
	cmd.Env = append(os.Environ(), "C13_CHILD="+root, "GOMAXPROCS=2", "GOTRACEBACK=all")
	stdin, _ := cmd.StdinPipe()
	stdout, _ := cmd.StdoutPipe()
	var errBuf bytes.Buffer
	cmd.Stderr = &errBuf
	if err := cmd.Start(); err != nil {
		end.exitErr = "start: " + err.Error()
		return end
	}
	go func() {
		w := bufio.NewWriterSize(stdin, 1<<20)
		enc := json.NewEncoder(w)
		for i := range jobs {
			if enc.Encode(&jobs[i]) != nil {
				break
			}
		}
		_ = w.Flush()
		_ = stdin.Close()
	}()
	lines := make(chan []byte, 64)
	go func() {
		rd := bufio.NewReaderSize(stdout, 1<<20)
		for {
			b, err := rd.ReadBytes('\n')
			if len(b) > 0 {
				lines <- b
			}
			if err != nil {
				close(lines)
				return
			}
		}
	}()
	timer := time.NewTimer(watchdog)
loop:
	for {
		select {
		case b, ok := <-lines:
			if !ok {
				break loop
			}
			if !timer.Stop() {
				select {
				case <-timer.C:
				default:
				}
			}
			timer.Reset(watchdog)
			var l childLine
			if err := json.Unmarshal(b, &l); err != nil {
				continue
			}
			switch l.T {
			case "B":
				end.inflight = l.ID
				end.lastMsg = nil
			case "S":
				end.lastMsg = l.Msg
			case "R":
				end.results[l.ID] = l.Res
				end.inflight = -1
			}
		case <-timer.C:
			end.hang = true
			_ = cmd.Process.Kill()
			break loop
		}
	}
	werr := cmd.Wait()
	if werr != nil {
		end.exitErr = werr.Error()
	}
	s := errBuf.String()
	if len(s) > 1<<16 {
		s = s[:1<<16]
	}
	end.stderr = s
	return end
}

// crashSite extracts the panic message and the innermost portbase frame.
func crashSite(stderr string) (site, head string) {
	lines := strings.Split(stderr, "\n")
	for _, l := range lines {
		if strings.HasPrefix(l, "panic:") || strings.HasPrefix(l, "fatal error:") {
			head = l
			break
		}
	}
	// the first goroutine block after the panic line is the panicking one
	start := 0
	for i, l := range lines {
		if strings.HasPrefix(l, "goroutine ") && strings.Contains(l, "[running]") {
			start = i
			break
		}
	}
	endBlock := len(lines)
	for i := start + 1; i < len(lines); i++ {
		if strings.TrimSpace(lines[i]) == "" {
			endBlock = i
			break
		}
	}
	site = vlib.PanicSite(strings.Join(lines[start:endBlock], "\n"))
	return site, head
}

// ---------- the run ----------

type caseReport struct {
	job      Job
	viols    []V
	outcomes []string
	nontriv  bool
	handles  int
	crashed  bool
	bulk     *BulkResult
	classes  map[string]int
	extraJob []Job // strings of a bulk to be run as normal cases
	unsett   bool
}

type runner struct {
	c         *vlib.Ctx
	guardMS   int
	mu        sync.Mutex
	reports   map[int]*caseReport
	crashOK   map[string]bool // crash signatures confirmed in isolation
	timeoutOK map[string]int  // confirmed missing terminal replies per request kind
	crashes   int64
	restarts  int64
}

func (r *runner) watchdog(guardMS int) time.Duration {
	return time.Duration(guardMS)*time.Millisecond*4 + 30*time.Second
}

// runAlone runs one job in a child of its own.
func (r *runner) runAlone(j Job, guardMS int) childEnd {
	j.GuardMS = guardMS
	return runChild([]Job{j}, r.watchdog(guardMS))
}

// A missing terminal reply is confirmed in isolation (3 runs, 8x guard) for
// the first three cases per request kind; after three confirmed ones further
// cases of the kind are taken as they are (same signature, saves hours when a
// defect makes thousands of cases hang).
func (r *runner) needConfirm(kind string) bool {
	r.mu.Lock()
	defer r.mu.Unlock()
	return r.timeoutOK[kind] < 3
}

func (r *runner) confirmed(kind string) {
	r.mu.Lock()
	r.timeoutOK[kind]++
	r.mu.Unlock()
}

func hasTimeout(res *Result) (int, bool) {
	for i, s := range res.Steps {
		if s.Timeout || s.HandleStuck {
			return i, true
		}
	}
	return -1, false
}

func (r *runner) crashReport(j Job, end childEnd) *caseReport {
	rep := &caseReport{job: j, crashed: true}
	site, head := crashSite(end.stderr)
	clause, disc := "no-crash", site
	if end.hang {
		clause, disc, head = "no-wedge", "process-hang", "child produced no output until the watchdog fired"
	}
	kind := "bulk"
	if len(j.Msgs) > 0 || j.Scen != nil {
		kind = "setup"
		if end.lastMsg != nil {
			kind = classify(end.lastMsg).Kind
		}
	}
	sig := clause + "|" + kind + "|" + disc
	r.mu.Lock()
	confirmed := r.crashOK[sig]
	r.mu.Unlock()
	if !confirmed {
		again := 0
		for i := 0; i < 3 && again == 0; i++ {
			e2 := r.runAlone(j, r.guardMS*5)
			if e2.inflight == j.ID {
				s2, _ := crashSite(e2.stderr)
				if e2.hang == end.hang && (end.hang || s2 == site) {
					again++
				}
			}
		}
		if again == 0 {
			r.c.EngineError("case %d (%v): child died (%s / %s) but the case alone does not reproduce it\n%s", j.ID, witnessOf(&j).Text, end.exitErr, head, tail(end.stderr, 30))
			return rep
		}
		r.mu.Lock()
		r.crashOK[sig] = true
		r.mu.Unlock()
	}
	rep.viols = append(rep.viols, V{clause, kind, disc, fmt.Sprintf("the process died while handling %s of %v on %s (%s)\n%s", q(end.lastMsg), witnessOf(&j).Text, j.Backend, end.exitErr, tail(firstBlock(end.stderr), 14))})
	return rep
}

func firstBlock(stderr string) string {
	i := strings.Index(stderr, "panic:")
	if i < 0 {
		i = strings.Index(stderr, "fatal error:")
	}
	if i < 0 {
		return stderr
	}
	s := stderr[i:]
	if k := strings.Index(s, "\n\ngoroutine "); k >= 0 {
		if k2 := strings.Index(s[k+2:], "\n\n"); k2 >= 0 {
			s = s[:k+2+k2]
		}
	}
	return s
}

func tail(s string, n int) string {
	l := strings.Split(strings.TrimRight(s, "\n"), "\n")
	if len(l) > n {
		l = l[:n]
	}
	return strings.Join(l, "\n")
}

func (r *runner) resultReport(j Job, res *Result) *caseReport {
	rep := &caseReport{job: j}
	if res.SetupErr != "" {
		r.c.EngineError("case %d: setup failed on %s: %s", j.ID, j.Backend, res.SetupErr)
		return rep
	}
	if j.Bulk != nil {
		rep.bulk = res.Bulk
		rep.classes = res.Classes
		if !res.Bulk.LiveOK {
			rep.viols = append(rep.viols, V{"no-wedge", "live-probe", "no-ok-reply", fmt.Sprintf("after the byte strings of bulk %+v the liveness get was not answered with ok", *j.Bulk)})
		}
		if res.Bulk.BadN > int64(len(res.Bulk.Bad)) {
			r.c.NotExhaustive("more than 50 deviating byte strings in one bulk; only the first 50 were judged individually")
		}
		for _, b := range res.Bulk.Bad {
			rep.extraJob = append(rep.extraJob, Job{Backend: j.Backend, Shadow: j.Shadow, Msgs: [][]byte{b}})
		}
		return rep
	}
	if idx0, to := hasTimeout(res); to && r.needConfirm(classify(res.Steps[idx0].Msg).Kind) {
		// candidate "no reply": confirm 3x alone with a longer guard
		var clean *Result
		for i := 0; i < 3; i++ {
			e2 := r.runAlone(j, r.guardMS*8)
			r2 := e2.results[j.ID]
			if r2 == nil {
				if e2.inflight == j.ID {
					return r.crashReport(j, e2)
				}
				r.c.EngineError("case %d: confirmation run gave no result: %s", j.ID, e2.exitErr)
				return rep
			}
			if idx, to2 := hasTimeout(r2); !to2 || idx != idx0 {
				clean = r2
				break
			}
			res = r2
		}
		if clean != nil {
			res = clean
			r.c.ExtraAdd("slow_cases_reconfirmed_clean", 1)
		} else {
			r.confirmed(classify(res.Steps[idx0].Msg).Kind)
		}
	}
	jd := judge(res)
	rep.viols, rep.outcomes, rep.nontriv, rep.handles = jd.viols, jd.outcomes, jd.nontrivial, jd.handles+len(res.ExtWrites)
	rep.unsett = !res.Settled
	if res.OpenQ > 0 || res.OpenS > 0 {
		// not part of the statement and timing dependent (the entry is removed after the last reply was sent)
		r.c.ExtraAdd("cases_with_query_or_sub_entries_left_after_cleanup", 1)
	}
	return rep
}

// runChunk runs the jobs of a chunk, restarting the child after a crash.
func (r *runner) runChunk(jobs []Job) {
	pending := jobs
	for len(pending) > 0 {
		end := runChild(pending, r.watchdog(r.guardMS))
		var next []Job
		progressed := false
		for _, j := range pending {
			if res, ok := end.results[j.ID]; ok {
				progressed = true
				rep := r.resultReport(j, res)
				r.mu.Lock()
				r.reports[j.ID] = rep
				r.mu.Unlock()
			} else if j.ID == end.inflight {
				progressed = true
				r.mu.Lock()
				r.crashes++
				r.mu.Unlock()
				rep := r.crashReport(j, end)
				r.mu.Lock()
				r.reports[j.ID] = rep
				r.mu.Unlock()
			} else {
				next = append(next, j)
			}
		}
		if !progressed {
			r.c.EngineError("child made no progress: %s\n%s", end.exitErr, tail(end.stderr, 20))
			return
		}
		if len(next) > 0 {
			r.mu.Lock()
			r.restarts++
			r.mu.Unlock()
		}
		pending = next
	}
}

// Levels of a configuration: full = everything of the tier; light = depth-1
// grammar and pairs over the small sequence alphabet; mini = single messages
// of the sequence alphabet and pairs over the small alphabet with distinct IDs
// (badger takes ~7 ms per fresh database, the others well below 1 ms).
const (
	full = iota
	light
	mini
)

func buildJobs(c *vlib.Ctx) (jobs []Job, counts map[string]int) {
	counts = map[string]int{}
	thorough := !c.Quick()
	configs := []config{{"hashmap", false, full}, {"bbolt", false, full}, {"fstree", false, full}, {"badger", false, mini}}
	if thorough {
		configs = []config{{"hashmap", false, full}, {"bbolt", false, full}, {"fstree", false, full}, {"badger", false, light},
			{"hashmap", true, full}, {"bbolt", true, full}}
	}
	add := func(cf config, msgs [][]byte, class string) {
		jobs = append(jobs, Job{Backend: cf.backend, Shadow: cf.shadow, Msgs: msgs})
		counts[class]++
	}
	// scenario families: slow consumer / failing iterator (first, so that their real waits overlap with the rest)
	for _, cf := range configs {
		if cf.shadow && !thorough {
			continue
		}
		patterns, sizes, writes := []string{"mixed"}, []int{30}, 20
		if thorough {
			patterns, sizes, writes = []string{"mixed", "update", "create", "delete"}, []int{30, 100}, 40
		}
		for _, cmd := range []string{kQuery, kQsub} {
			for _, n := range sizes {
				for _, pat := range patterns {
					prefixes := []string{"s0", "s"}
					if thorough {
						prefixes = []string{"s0", "s1", "s"}
					}
					for _, prefix := range prefixes {
						for _, stall := range []int{0, 1500} {
							if stall > 0 && pat != "mixed" {
								continue
							}
							jobs = append(jobs, Job{Backend: cf.backend, Shadow: cf.shadow,
								Scen: &Scen{Kind: "slow", Cmd: cmd, Prefix: prefix, StallMS: stall, Writes: writes, Pattern: pat, Records: n}})
							counts["scenario_slow_consumer"]++
						}
					}
				}
				if cf.backend != "hashmap" {
					for _, ck := range []string{"s!", "s15x", "s29z"} {
						jobs = append(jobs, Job{Backend: cf.backend, Shadow: cf.shadow,
							Scen: &Scen{Kind: "corrupt", Cmd: cmd, Prefix: "s", Records: n, Corrupt: ck}})
						counts["scenario_corrupt_record"]++
					}
				}
			}
		}
	}
	// byte strings
	small := []byte("|1aJ{:}\"cgqsiudnetly \x00\xff\x80\n\\(")
	for _, cf := range configs {
		if cf.shadow || cf.level == mini {
			continue
		}
		for l := 0; l <= 2; l++ {
			jobs = append(jobs, Job{Backend: cf.backend, Bulk: &Bulk{Len: l, First: -1}})
		}
		if thorough && cf.level == full {
			for f := 0; f < 256; f++ {
				jobs = append(jobs, Job{Backend: cf.backend, Bulk: &Bulk{Len: 3, First: f}})
			}
		} else {
			jobs = append(jobs, Job{Backend: cf.backend, Bulk: &Bulk{Len: 3, First: -1, Alpha: small}})
		}
	}
	// depth 1: grammar
	rests := d1Rests()
	alpha := seqAlphabet(true)
	smallAlpha := seqAlphabet(false)
	for _, cf := range configs {
		if cf.level == mini {
			for _, a := range alpha {
				id := "1"
				if a.cmd == "cancel-other" {
					id = "9"
				}
				add(cf, [][]byte{a.render(id)}, "depth1")
			}
			continue
		}
		for _, id := range d1OpIDs {
			for _, cmd := range d1Cmds {
				add(cf, [][]byte{[]byte(id + "|" + cmd)}, "depth1")
				for _, rest := range rests {
					add(cf, [][]byte{[]byte(id + "|" + cmd + "|" + rest)}, "depth1")
				}
			}
		}
	}
	// depth 2
	for _, cf := range configs {
		al, modes := alpha, []string{"D", "S", "E"}
		if cf.level != full {
			al = smallAlpha
		}
		if cf.level == mini {
			modes = []string{"D"}
		}
		for _, a := range al {
			for _, b := range al {
				for _, mode := range modes {
					if msgs, ok := renderSeq([]tmpl{a, b}, mode); ok {
						add(cf, msgs, "depth2")
					}
				}
			}
		}
	}
	// depth 2, wide: a message of the sequence alphabet followed by every message of the depth-1 grammar
	if thorough {
		for _, cf := range configs {
			if cf.shadow || cf.level != full || cf.backend == "fstree" {
				continue
			}
			for _, a := range alpha {
				first := a.render("1")
				if a.cmd == "cancel-other" {
					first = a.render("9")
				}
				for _, cmd := range d1Cmds {
					add(cf, [][]byte{first, []byte("2|" + cmd)}, "depth2wide")
					for _, rest := range rests {
						add(cf, [][]byte{first, []byte("2|" + cmd + "|" + rest)}, "depth2wide")
					}
				}
			}
		}
	}
	// depth 3 over the core alphabet
	if thorough {
		core := coreAlphabet()
		for _, cf := range configs {
			if cf.shadow || cf.level != full {
				continue
			}
			for _, a := range core {
				for _, b := range core {
					for _, d := range core {
						for _, mode := range []string{"D", "S"} {
							if msgs, ok := renderSeq([]tmpl{a, b, d}, mode); ok {
								add(cf, msgs, "depth3")
							}
						}
					}
				}
			}
		}
	}
	for i := range jobs {
		jobs[i].ID = i
	}
	return jobs, counts
}

func run(c *vlib.Ctx) {
	guardMS := vlib.Pick(c, 3000, 4000)
	r := &runner{c: c, guardMS: guardMS, reports: map[int]*caseReport{}, crashOK: map[string]bool{}, timeoutOK: map[string]int{}}

	if c.Replay != "" {
		replay(c, r)
		return
	}

	c.Rule("a case is non-trivial if at least one well-formed request of the sequence reached its handler and was answered with a non-error reply (ok/done/success/notification); alphabet: all byte strings up to 3 bytes, opID|cmd|rest over 3 opIDs x 11 commands x rests (keys, key|payload incl. unexported struct fields, query texts incl. prefix-not where-clauses and texts with trailing / quoted / escaping backslashes), sequences of up to 2 (thorough 3) messages, slow-consumer and failing-iterator scenarios")
	c.Assume("replies to malformed messages are required to be exactly one error reply; the operation ID they carry is not asserted (the statement prescribes it for well-formed requests only); observed IDs are recorded in the outcome classes malformed:error/empty-opid and /own-opid")
	c.Assume("warning replies (documented in api/database.go: error with a single record, operation continues) are accepted inside query, sub and qsub streams")
	c.Assume("a cancel for an operation ID without a running subscription may be answered by nothing or by one error reply")
	c.Assume("read-back content is asserted for create/update with a J payload holding a JSON object without a _meta key, and for insert of simple top-level keys into such a record; for other accepted payloads only the reply protocol is checked")
	c.Assume("a subscription notification is required when the written key has the query's prefix and the query has no condition or the new content satisfies 'a > 0'; it is forbidden when prefix or database differ or the known new content does not satisfy the condition; upd and new are not distinguished (the implementation decides by second-granular timestamps)")
	c.Assume("reusing the operation ID of a still-running sub/qsub for another request is not generated (not a well-formed use of the protocol)")
	c.Assume("the interleaving clause (concurrent requests, cancels racing queries, writes racing subscriptions) is left to engine S; here every message is run to its terminal reply before the next is sent")
	c.Assume("scenario families: a connection that stalls on the first ok reply of a query/qsub while two other connections write (and, in one variant, for 1.5 s of real time so that the storage send timeout fires), and a stored record that does not parse (not on hashmap); there every ok/upd/new reply must carry content the record had between the start of the operation and the reply")
	c.Assume("on storages that hand out the stored object itself (hashmap) a record deleted while it waits in the iterator buffer is delivered as ok with no content and _meta.Deleted set; accepted as the record's state at reply time")
	c.Assume("result sets are compared with the documented query semantics only for where-clauses over '<field> exists' terms with and/or/not (prefix not negates the next term only) on the records tdb:n/0..7, which hold every combination of the fields a, b, c; for other query texts only the reply protocol is checked")
	c.Assume("backends: hashmap, bbolt, fstree, badger (sinkhole and injected storages are not exercised)")

	jobs, counts := buildJobs(c)
	for i := range jobs {
		jobs[i].GuardMS = guardMS
	}
	chunkSize := 60
	var chunks [][]Job
	nScen := 0
	for nScen < len(jobs) && jobs[nScen].Scen != nil {
		nScen++
	}
	for i := 0; i < nScen; i += 2 { // scenario cases wait in real time: spread them
		e := i + 2
		if e > nScen {
			e = nScen
		}
		chunks = append(chunks, jobs[i:e])
	}
	for i := nScen; i < len(jobs); i += chunkSize {
		e := i + chunkSize
		if e > len(jobs) {
			e = len(jobs)
		}
		chunks = append(chunks, jobs[i:e])
	}
	if c.Workers > 14 {
		c.Workers = 14
	}
	skipped := int64(0)
	var smu sync.Mutex
	c.ParallelFor(len(chunks), func(i int) {
		if c.Expired() {
			smu.Lock()
			skipped += int64(len(chunks[i]))
			smu.Unlock()
			return
		}
		r.runChunk(chunks[i])
	})

	// byte strings that deviated inside a bulk are judged as normal cases
	var extra []Job
	for id := 0; id < len(jobs); id++ {
		if rep := r.reports[id]; rep != nil {
			extra = append(extra, rep.extraJob...)
		}
	}
	for i := range extra {
		extra[i].ID = len(jobs) + i
		extra[i].GuardMS = guardMS
	}
	if len(extra) > 0 {
		r.runChunk(extra)
	}
	all := append(append([]Job{}, jobs...), extra...)

	// report in job order (deterministic witnesses)
	var states, transitions, evals, unsettled, byteStrings int64
	scenSamples := 0
	samplesLeft := map[string]int{"depth1": 2, "depth2": 4, "depth3": 2}
	for id := range all {
		rep := r.reports[id]
		if rep == nil {
			continue
		}
		j := &all[id]
		if rep.bulk != nil {
			states += rep.bulk.Count
			transitions += rep.bulk.Count + 1
			evals += rep.bulk.Count
			byteStrings += rep.bulk.Count
			for k, n := range rep.classes {
				c.OutcomeN(k, int64(n))
			}
			if j.Bulk.Len == 2 && j.Backend == "hashmap" && len(rep.bulk.Samples) > 0 {
				c.Sample(map[string]any{"byte_string_bulk": j.Bulk, "example": q(rep.bulk.Samples[0]), "answered": "exactly one synchronous error reply"})
			}
		} else {
			states++
			evals++
			transitions += int64(rep.handles)
			if rep.crashed {
				c.Outcome("process-death")
			}
			for _, o := range rep.outcomes {
				if j.Scen != nil {
					o = "scenario-" + j.Scen.Kind + "/" + o
				}
				c.Outcome(o)
			}
			if rep.nontriv {
				c.Nontrivial(fmt.Sprintf("%s|%v|%q|%+v", j.Backend, j.Shadow, j.Msgs, j.Scen))
			}
			if j.Scen != nil && j.Backend == "bbolt" && j.Scen.Cmd == kQsub && j.Scen.Prefix == "s0" && scenSamples < 2 {
				scenSamples++
				c.Sample(map[string]any{"backend": j.Backend, "scenario": j.Scen, "outcomes": rep.outcomes})
			}
			if rep.unsett {
				unsettled++
			}
			class := "depth" + fmt.Sprint(len(j.Msgs))
			if samplesLeft[class] > 0 && rep.nontriv && id%7 == 3 {
				samplesLeft[class]--
				c.Sample(map[string]any{"backend": j.Backend, "msgs": witnessOf(j).Text, "outcomes": rep.outcomes})
			}
		}
		for _, v := range rep.viols {
			c.Violate(v.Clause, v.Site, v.Disc, v.Detail, witnessOf(j))
		}
	}
	c.Add(states, transitions, evals)
	keys := make([]string, 0, len(counts))
	for k := range counts {
		keys = append(keys, k)
	}
	sort.Strings(keys)
	for _, k := range keys {
		c.Extra("cases_"+k, int64(counts[k]))
	}
	c.Extra("byte_strings", byteStrings)
	c.Extra("child_process_deaths", r.crashes)
	c.Extra("cases_with_goroutines_left_after_cleanup", unsettled)
	c.Extra("seq_alphabet_size", int64(len(seqAlphabet(true))))
	c.Extra("small_seq_alphabet_size", int64(len(seqAlphabet(false))))
	c.Extra("core_alphabet_size_depth3", int64(len(coreAlphabet())))
	c.Extra("depth1_messages_per_config", int64(len(d1OpIDs)*len(d1Cmds)*(len(d1Rests())+1)))
	if skipped > 0 {
		c.NotExhaustive(fmt.Sprintf("%d cases not run", skipped))
	}
}

func replay(c *vlib.Ctx, r *runner) {
	var w Witness
	old, err := c.LoadReplay(&w)
	if err != nil {
		c.EngineError("cannot load replay: %v", err)
		return
	}
	j := Job{ID: 0, Backend: w.Backend, Shadow: w.Shadow, Msgs: w.Msgs, Bulk: w.Bulk, Scen: w.Scen}
	fmt.Printf("replaying %s on %s (shadow delete %v): %v %+v\n", old.Signature, w.Backend, w.Shadow, w.Text, w.Bulk)
	if w.Scen != nil {
		fmt.Printf("  scenario %+v\n", *w.Scen)
	}
	end := r.runAlone(j, r.guardMS*3)
	var rep *caseReport
	if res := end.results[0]; res != nil {
		for i, s := range res.Steps {
			fmt.Printf("  step %d [%s] -> %s%s\n", i, s.Kind, q(s.Msg), map[bool]string{true: "   (TIMEOUT)", false: ""}[s.Timeout || s.HandleStuck])
			for _, e := range res.Events {
				if e.Step == i {
					fmt.Printf("      <- %s\n", q(e.Data))
				}
			}
		}
		rep = r.resultReport(j, res)
		for _, x := range rep.extraJob {
			x.ID = 0
			e2 := r.runAlone(x, r.guardMS*3)
			var rep2 *caseReport
			if r2 := e2.results[0]; r2 != nil {
				rep2 = r.resultReport(x, r2)
			} else {
				rep2 = r.crashReport(x, e2)
			}
			for _, v := range rep2.viols {
				c.Violate(v.Clause, v.Site, v.Disc, v.Detail, witnessOf(&x))
			}
		}
	} else if end.inflight == 0 {
		fmt.Printf("  the child process died (%s):\n%s\n", end.exitErr, tail(firstBlock(end.stderr), 16))
		rep = r.crashReport(j, end)
	} else {
		c.EngineError("replay child gave no result: %s\n%s", end.exitErr, tail(end.stderr, 20))
		return
	}
	for _, v := range rep.viols {
		c.Violate(v.Clause, v.Site, v.Disc, v.Detail, witnessOf(&j))
	}
	if len(rep.viols) == 0 {
		fmt.Println("  no violation in this run")
	}
	c.Add(1, int64(rep.handles), 1)
}

func main() {
	if os.Getenv("C13_CHILD") != "" {
		childMain()
		return
	}
	p, err := os.Executable()
	if err != nil {
		p = os.Args[0]
	}
	selfPath = p
	vlib.Main("C13", "model_checking", func(c *vlib.Ctx) {
		// the interleaving clause (concurrent requests, cancels, writes feeding subscriptions) is decided by the engine-S part
		if c.ReplayPart(`"c13s/`, "/verif/build/c13s") {
			return
		}
		if !c.IsShard() {
			defer c.RunPart("/verif/build/c13s")
		}
		run(c)
	})
}
