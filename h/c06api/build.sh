#!/bin/bash
set -e
cd /verif
./mkoverlay.sh c06api
go build -tags verif -overlay build/c06api.overlay.json -o "$1" ./h/c06api
