//go:build verif

package api

import "net/http"

// VerifC06Handler returns the API's main handler the way startServer builds it
// (with EnableServer=false startServer installs nothing and opens no socket).
func VerifC06Handler() http.Handler {
	h := &mainHandler{mux: mainMux}
	if server.Handler == nil {
		server.Handler = h
	}
	return h
}

// VerifC06SetAuthenticator (un)registers the external authenticator at run time
// (SetAuthenticator can only be called once and only before the module starts).
func VerifC06SetAuthenticator(fn AuthenticatorFunc) {
	if fn == nil {
		authFnSet.UnSet()
		authFn = nil
		return
	}
	authFn = fn
	authFnSet.Set()
}

// VerifC06ClearSessions forgets all sessions and returns how many there were.
func VerifC06ClearSessions() int {
	sessionsLock.Lock()
	defer sessionsLock.Unlock()
	n := len(sessions)
	for k := range sessions {
		delete(sessions, k)
	}
	return n
}

// VerifC06LocksFree reports whether the package-level locks a request passes
// through can be taken right now (a panic must not leave one of them held).
func VerifC06LocksFree() (held []string) {
	if handlerLock.TryLock() {
		handlerLock.Unlock()
	} else {
		held = append(held, "handlerLock")
	}
	if endpointsLock.TryLock() {
		endpointsLock.Unlock()
	} else {
		held = append(held, "endpointsLock")
	}
	if sessionsLock.TryLock() {
		sessionsLock.Unlock()
	} else {
		held = append(held, "sessionsLock")
	}
	if apiKeysLock.TryLock() {
		apiKeysLock.Unlock()
	} else {
		held = append(held, "apiKeysLock")
	}
	return held
}
