//go:build verif

package modules

// VerifC06RemoveEventHooks removes the hooks that hookingModule registered on
// eventModule's event and returns how many were removed. The C06 API harness
// detaches the api module's "config change" hook so that toggling dev mode does
// not start an asynchronous api worker while the worker counter is compared.
func VerifC06RemoveEventHooks(eventModule, event, hookingModule string) int {
	m, ok := modules[eventModule]
	if !ok {
		return 0
	}
	m.eventHooksLock.Lock()
	defer m.eventHooksLock.Unlock()
	eh, ok := m.eventHooks[event]
	if !ok {
		return 0
	}
	n := 0
	kept := make([]*eventHook, 0, len(eh.hooks))
	for _, h := range eh.hooks {
		if h.hookingModule != nil && h.hookingModule.Name == hookingModule {
			n++
			continue
		}
		kept = append(kept, h)
	}
	eh.hooks = kept
	return n
}
