// C06 (API part): a panic raised inside an HTTP API request handler is contained,
// reported and leaves the api module's accounting intact.
//
// Engine Q. The real api package is started once (EnableServer=false, no socket);
// every request goes through the real mainHandler.ServeHTTP with a recorder.
// Harness handlers of every registration kind (the five endpoint function types of
// api.Endpoint, a raw handler registered with RegisterHandler, a handler wrapped
// with WrapInAuthHandler) and the authenticator function panic on demand (request
// headers say where, with which value and after which part of the response).
// Enumerated: the complete table panic site x panic value x method x response stage
// x route protection x dev mode, each cell as the sequence
//
//	panicking request -> healthy request to the same route -> healthy request(s) to
//	other route(s) -> the panicking request again,
//
// plus all histories up to depth 2 (thorough 3) over the alphabet
// {panic(site, value)} u {healthy(route)}. Every step of every sequence is judged.
//
// The binary is run by the C06 harness as `c06api -tier T -shard 0/1 -out FILE`.
package main

import (
	"errors"
	"fmt"
	"io"
	"net/http"
	"net/http/httptest"
	"os"
	"strings"
	"time"

	"github.com/safing/portbase/api"
	"github.com/safing/portbase/config"
	"github.com/safing/portbase/database"
	_ "github.com/safing/portbase/database/dbmodule"
	"github.com/safing/portbase/database/record"
	"github.com/safing/portbase/dataroot"
	"github.com/safing/portbase/log"
	"github.com/safing/portbase/modules"
	_ "github.com/safing/portbase/rng"

	"verif/vlib"
)

const (
	hostPort     = "api.test:817"
	normalRemote = "192.0.2.7:40000"

	hdrSite  = "X-Verif-Site"  // "handler" | "authenticator": which function panics
	hdrValue = "X-Verif-Panic" // name of the panic value
	hdrStage = "X-Verif-Stage" // before | after-header | after-partial-body
)

// ---------- panic value alphabet (the one of the modules part plus http.ErrAbortHandler) ----------

var values = []string{"string", "error", "nil", "index", "nilmap", "struct", "typednil", "aborthandler"}

type c06struct struct {
	A int
	B string
}

var errSeeded = errors.New("seeded panic error value")

// evilErr: an error whose Error method dereferences the (nil) receiver.
type evilErr struct{ s string }

func (e *evilErr) Error() string { return e.s }

func doPanic(value string) {
	st.panicsRaised++
	switch value {
	case "nil":
		panic(nil) //nolint
	case "error":
		panic(errSeeded)
	case "string":
		panic("seeded panic string")
	case "index":
		var a []int
		i := 3
		_ = a[i]
	case "nilmap":
		var m map[string]int
		m["x"] = 1
	case "struct":
		panic(c06struct{7, "x"})
	case "typednil":
		var pe *evilErr
		panic(error(pe))
	case "aborthandler":
		panic(http.ErrAbortHandler)
	}
	panic("unknown panic value kind " + value)
}

func valueMatches(value string, pv interface{}) bool {
	switch value {
	case "nil":
		// Go >= 1.21 turns panic(nil) into a *runtime.PanicNilError
		_, isErr := pv.(error)
		return pv == nil || isErr
	case "error":
		return pv == errSeeded
	case "string":
		return pv == "seeded panic string"
	case "index":
		e, ok := pv.(error)
		return ok && strings.Contains(e.Error(), "index out of range")
	case "nilmap":
		e, ok := pv.(error)
		return ok && strings.Contains(e.Error(), "nil map")
	case "struct":
		return pv == c06struct{7, "x"}
	case "typednil":
		pe, ok := pv.(*evilErr)
		return ok && pe == nil
	case "aborthandler":
		return pv == http.ErrAbortHandler //nolint:errorlint
	}
	return false
}

// ---------- what the harness functions record (the harness is sequential) ----------

type probeState struct {
	handlerRuns  int
	authRuns     int
	panicsRaised int
}

var st probeState

// ---------- routes ----------

var (
	funcKinds    = []string{"ep-action", "ep-data", "ep-struct", "ep-record"} // functions without a ResponseWriter
	handlerKinds = []string{"ep-handler", "raw", "wrap"}                      // functions with a ResponseWriter
	routeKinds   = []string{"ep-action", "ep-data", "ep-struct", "ep-record", "ep-handler", "raw", "wrap"}
	sites        = []string{"ep-action", "ep-data", "ep-struct", "ep-record", "ep-handler", "raw", "wrap", "authenticator"}
)

type route struct {
	Kind string `json:"kind"`
	Prot bool   `json:"protected"` // requires a permission that only the authenticator (or dev mode) grants
}

func (rt route) path() string {
	v := "open"
	if rt.Prot {
		v = "prot"
	}
	switch rt.Kind {
	case "raw":
		return "/verif/raw"
	case "wrap":
		return "/verif/wrap/" + v
	}
	return "/api/v1/verif/" + strings.TrimPrefix(rt.Kind, "ep-") + "/" + v
}

func (rt route) String() string {
	if rt.Prot {
		return rt.Kind + "(protected)"
	}
	return rt.Kind + "(anyone)"
}

// allRoutes: raw handlers are not AuthenticatedHandlers, the API requires PermitSelf for them.
func allRoutes() []route {
	var l []route
	for _, k := range routeKinds {
		if k != "raw" {
			l = append(l, route{k, false})
		}
		l = append(l, route{k, true})
	}
	return l
}

// ctl reads a control value of the harness from the request header or, for requests
// that come through the database bridge (which cannot carry headers), from the URL query.
func ctl(r *http.Request, name string) string {
	if v := r.Header.Get(name); v != "" {
		return v
	}
	return r.URL.Query().Get(strings.ToLower(name))
}

// fnBody is the body of the endpoint functions that get no ResponseWriter.
func fnBody(ar *api.Request) {
	st.handlerRuns++
	if ctl(ar.Request, hdrSite) != "handler" {
		return
	}
	if ctl(ar.Request, hdrStage) == "after-header" {
		ar.ResponseHeader.Set("Content-Type", "application/x-verif")
		ar.ResponseHeader.Set("Content-Length", "100")
		ar.ResponseHeader.Set("X-Verif-Partial", "1")
	}
	doPanic(ctl(ar.Request, hdrValue))
}

// rawHandler is the body of the handlers that get a ResponseWriter.
func rawHandler(w http.ResponseWriter, r *http.Request) {
	st.handlerRuns++
	if ctl(r, hdrSite) == "handler" {
		switch ctl(r, hdrStage) {
		case "after-header":
			w.Header().Set("Content-Type", "application/x-verif")
			w.Header().Set("Content-Length", "100")
			w.Header().Set("X-Verif-Partial", "1")
		case "after-partial-body":
			w.Header().Set("Content-Type", "application/x-verif")
			w.WriteHeader(http.StatusAccepted)
			_, _ = io.WriteString(w, "partial-")
		}
		doPanic(ctl(r, hdrValue))
	}
	w.WriteHeader(http.StatusOK)
	_, _ = io.WriteString(w, "verif-ran\n")
}

func authenticator(r *http.Request, _ *http.Server) (*api.AuthToken, error) {
	st.authRuns++
	if r.Header.Get(hdrSite) == "authenticator" {
		doPanic(r.Header.Get(hdrValue))
	}
	return &api.AuthToken{Read: api.PermitSelf, Write: api.PermitSelf}, nil
}

func registerRoutes(c *vlib.Ctx) {
	mkRecord := func() record.Record {
		r := &api.EndpointBridgeResponse{MimeType: "text/plain", Body: "verif"}
		r.SetKey("api:verif/record")
		r.UpdateMeta()
		return r
	}
	for _, rt := range allRoutes() {
		perm := api.PermitAnyone
		if rt.Prot {
			perm = api.PermitUser
		}
		switch rt.Kind {
		case "raw":
			api.RegisterHandler(rt.path(), http.HandlerFunc(rawHandler))
			continue
		case "wrap":
			api.RegisterHandler(rt.path(), api.WrapInAuthHandler(rawHandler, perm, perm))
			continue
		}
		e := api.Endpoint{Path: strings.TrimPrefix(rt.path(), "/api/v1/"), Read: perm, Write: perm, Name: "verif " + rt.String()}
		switch rt.Kind {
		case "ep-action":
			e.ActionFunc = func(ar *api.Request) (string, error) { fnBody(ar); return "verif-ran", nil }
		case "ep-data":
			e.DataFunc = func(ar *api.Request) ([]byte, error) { fnBody(ar); return []byte("verif-ran"), nil }
		case "ep-struct":
			e.StructFunc = func(ar *api.Request) (interface{}, error) { fnBody(ar); return struct{ Ran bool }{true}, nil }
		case "ep-record":
			e.RecordFunc = func(ar *api.Request) (record.Record, error) { fnBody(ar); return mkRecord(), nil }
		case "ep-handler":
			e.HandlerFunc = rawHandler
		}
		if err := api.RegisterEndpoint(e); err != nil {
			c.EngineError("RegisterEndpoint(%s): %v", rt.path(), err)
		}
	}
}

// ---------- steps, scenarios, observations ----------

type step struct {
	Healthy bool   `json:"healthy,omitempty"`
	Site    string `json:"panic_site,omitempty"` // which function panics (one of sites)
	Route   route  `json:"route"`                // where the request goes
	Method  string `json:"method"`
	Value   string `json:"panic_value,omitempty"`
	Stage   string `json:"stage,omitempty"` // before | after-header | after-partial-body
	Bridge  bool   `json:"via_database_bridge,omitempty"`
}

func (s step) String() string {
	via := ""
	if s.Bridge {
		via = " via database bridge"
	}
	if s.Healthy {
		return fmt.Sprintf("healthy %s %s%s", s.Method, s.Route, via)
	}
	return fmt.Sprintf("panic[%s value=%s stage=%s] %s %s%s", s.Site, s.Value, s.Stage, s.Method, s.Route, via)
}

type scenario struct {
	Phase string `json:"phase"`
	Dev   bool   `json:"dev_mode"`
	Steps []step `json:"steps"` // executed from the fresh state
	Fail  int    `json:"failing_step,omitempty"`
}

type report struct {
	Severity    string `json:"severity"`
	TaskName    string `json:"task_name"`
	TaskType    string `json:"task_type"`
	Module      string `json:"module"`
	ValueOK     bool   `json:"carries_the_value"`
	Value       string `json:"value"`
	StackLen    int    `json:"stack_bytes"`
	NamesOrigin bool   `json:"stack_names_panic_origin"`
	IsPanic     bool   `json:"is_panic"`
	Message     string `json:"message"`
}

type counters struct{ Workers, Tasks, MicroTasks int }

type obs struct {
	Status       int      `json:"status"`
	Wrote        bool     `json:"response_written"`
	Body         string   `json:"body"`
	HandlerRuns  int      `json:"handler_runs"`
	AuthRuns     int      `json:"authenticator_runs"`
	PanicsRaised int      `json:"panics_raised"`
	Escaped      string   `json:"panic_escaped,omitempty"`
	EscapedSite  string   `json:"panic_escaped_at,omitempty"`
	Hung         bool     `json:"hung,omitempty"`
	Reports      []report `json:"reports"`
	Before       counters `json:"api_counters_before"`
	After        counters `json:"api_counters_after"`
	Settled      bool     `json:"counters_only_restored_later,omitempty"`
	LocksHeld    []string `json:"api_locks_held,omitempty"`
	BridgeErr    string   `json:"bridge_error,omitempty"`
}

type respWriter struct {
	*httptest.ResponseRecorder
	wrote bool
}

func (w *respWriter) WriteHeader(code int) {
	w.wrote = true
	w.ResponseRecorder.WriteHeader(code)
}

func (w *respWriter) Write(b []byte) (int, error) {
	w.wrote = true
	return w.ResponseRecorder.Write(b)
}

type world struct {
	c        *vlib.Ctx
	handler  http.Handler
	errCh    chan *modules.ModuleError
	base     counters
	dev      bool
	steps    int64
	leaks    int
	db       *database.Interface
	verbose  bool
	aborted  bool // a request hung: stop enumerating
	stateSet map[string]bool
}

func apiCounters() counters {
	s := modules.GetStatus()
	if s == nil || s.Modules["api"] == nil {
		return counters{-1, -1, -1}
	}
	m := s.Modules["api"]
	return counters{m.Workers, m.Tasks, m.MicroTasks}
}

func (w *world) drain() (l []*modules.ModuleError) {
	for {
		select {
		case me := <-w.errCh:
			l = append(l, me)
		default:
			return l
		}
	}
}

// settle waits (state handshake, not an oracle) until the api module's counters are at the baseline.
func (w *world) settle() bool {
	deadline := time.Now().Add(3 * time.Second)
	for apiCounters() != w.base {
		if time.Now().After(deadline) {
			return false
		}
		time.Sleep(200 * time.Microsecond)
	}
	return true
}

func (w *world) setDev(on bool) {
	if w.dev == on {
		return
	}
	if err := config.SetConfigOption(config.CfgDevModeKey, on); err != nil {
		w.c.EngineError("SetConfigOption(devMode): %v", err)
	}
	w.dev = on
	if !w.settle() {
		w.c.EngineError("api counters did not return to the baseline after toggling dev mode: %+v vs %+v", apiCounters(), w.base)
	}
}

// fresh: no sessions, nothing pending on the error channel, authenticator installed.
func (w *world) fresh(dev bool) {
	w.setDev(dev)
	api.VerifC06ClearSessions()
	api.VerifC06SetAuthenticator(authenticator)
	w.drain()
}

// exec sends one request through the real main handler.
func (w *world) exec(s step) obs {
	var body io.Reader
	if s.Method == "POST" {
		body = strings.NewReader("x")
	}
	r := httptest.NewRequest(s.Method, s.Route.path(), body)
	r.Host = hostPort
	r.RemoteAddr = normalRemote
	if !s.Healthy {
		if s.Site == "authenticator" {
			r.Header.Set(hdrSite, "authenticator")
		} else {
			r.Header.Set(hdrSite, "handler")
		}
		r.Header.Set(hdrValue, s.Value)
		r.Header.Set(hdrStage, s.Stage)
	}
	rec := &respWriter{ResponseRecorder: httptest.NewRecorder()}
	w.drain()
	st = probeState{}
	o := obs{Before: apiCounters()}

	type res struct {
		pv    any
		stack string
	}
	done := make(chan res, 1)
	var bridgeErr error
	go func() {
		pv, stack := vlib.Catch(func() {
			if s.Bridge {
				bridgeErr = w.bridgeCall(s)
			} else {
				w.handler.ServeHTTP(rec, r)
			}
		})
		done <- res{pv, stack}
	}()
	select {
	case x := <-done:
		if x.pv != nil {
			o.Escaped = fmt.Sprintf("%v", x.pv)
			o.EscapedSite = vlib.PanicSite(x.stack)
		}
	case <-time.After(60 * time.Second):
		o.Hung = true
		w.aborted = true
		w.c.NotExhaustive("a request did not return within 60 s; enumeration stopped")
		return o
	}
	w.steps++

	o.After = apiCounters()
	if o.After != o.Before {
		// A leak is permanent; a transient difference (background work of the module) is not one.
		// (Once three differences have proven permanent, later ones are no longer waited for.)
		deadline := time.Now().Add(2 * time.Second)
		for w.leaks < 3 && time.Now().Before(deadline) {
			time.Sleep(500 * time.Microsecond)
			if a := apiCounters(); a == o.Before {
				o.After, o.Settled = a, true
				break
			}
		}
		if o.After != o.Before {
			w.leaks++
			w.base = o.After // the level the module is at from now on (for the handshakes)
		}
	}
	o.Status, o.Wrote, o.Body = rec.Code, rec.wrote, rec.Body.String()
	if s.Bridge {
		// the bridge owns the recorder; what the caller sees is the returned error
		o.Status, o.Wrote = 200, true
		if bridgeErr != nil {
			o.BridgeErr = firstLine(bridgeErr.Error())
			o.Status = 0
			if strings.Contains(bridgeErr.Error(), "bridged api call failed") {
				o.Status = 500 // callAPI's translation of a 500 answer
			}
		}
	}
	if len(o.Body) > 200 {
		o.Body = o.Body[:200] + "..."
	}
	o.HandlerRuns, o.AuthRuns, o.PanicsRaised = st.handlerRuns, st.authRuns, st.panicsRaised
	for _, me := range w.drain() {
		isP, _ := modules.IsPanic(error(me))
		o.Reports = append(o.Reports, report{
			Severity: me.Severity, TaskName: me.TaskName, TaskType: me.TaskType, Module: me.ModuleName,
			ValueOK: !s.Healthy && valueMatches(s.Value, me.PanicValue), Value: fmt.Sprintf("%v (%T)", me.PanicValue, me.PanicValue),
			StackLen: len(me.StackTrace), NamesOrigin: strings.Contains(me.StackTrace, "main.doPanic"), IsPanic: isP, Message: firstLine(me.Message),
		})
	}
	o.LocksHeld = api.VerifC06LocksFree()
	return o
}

// bridgeCall sends the step through the database bridge (database "api" -> callAPI -> ServeHTTP).
func (w *world) bridgeCall(s step) error {
	r := &api.EndpointBridgeRequest{Method: s.Method}
	if s.Method == "POST" {
		r.Data = []byte("x")
	}
	if !s.Healthy {
		r.Query = map[string]string{strings.ToLower(hdrSite): "handler", strings.ToLower(hdrValue): s.Value, strings.ToLower(hdrStage): s.Stage}
	}
	r.SetKey("api:" + strings.TrimPrefix(s.Route.path(), "/api/v1/"))
	r.UpdateMeta()
	return w.db.Put(r)
}

func firstLine(s string) string {
	if i := strings.IndexByte(s, '\n'); i >= 0 {
		s = s[:i]
	}
	if len(s) > 160 {
		s = s[:160] + "..."
	}
	return s
}

// siteOf: the coarse, stable "site" word of a signature.
func siteOf(s step) string {
	if s.Healthy {
		return "healthy/" + s.Route.Kind
	}
	return s.Site
}

// judge compares one observation with what the statement demands.
func (w *world) judge(sc *scenario, i int, o obs) {
	c := w.c
	s := sc.Steps[i]
	site := siteOf(s)
	wit := func() any {
		return map[string]any{"phase": sc.Phase, "dev_mode": sc.Dev, "steps": sc.Steps[:i+1], "failing_step": i + 1, "observed": o}
	}
	desc := func() string {
		var hist []string
		for k := 0; k <= i; k++ {
			hist = append(hist, fmt.Sprintf("%d. %s", k+1, sc.Steps[k]))
		}
		return fmt.Sprintf("dev_mode=%v; %s\n observed at step %d: status=%d written=%v handler_runs=%d authenticator_runs=%d panics_raised=%d reports=%d api_counters %+v -> %+v body=%q",
			sc.Dev, strings.Join(hist, " ; "), i+1, o.Status, o.Wrote, o.HandlerRuns, o.AuthRuns, o.PanicsRaised, len(o.Reports), o.Before, o.After, firstLine(o.Body))
	}

	// ---- clauses common to every request ----
	if o.Hung {
		if s.Healthy {
			c.Violate("next-request-served-normally", site, "hang", "the request did not return within 60 s\n"+desc(), wit())
		} else {
			c.Violate("panic-never-terminates-the-process", site, "hang", "the panicking request did not return within 60 s\n"+desc(), wit())
		}
		c.Outcome("hang")
		return
	}
	if o.Escaped != "" {
		c.Violate("panic-never-terminates-the-process", site, "escaped-ServeHTTP",
			fmt.Sprintf("a panic (%s) escaped mainHandler.ServeHTTP (innermost portbase frame %s); outside net/http's per-connection recover this ends the process\n%s", o.Escaped, o.EscapedSite, desc()), wit())
	}
	if o.After != o.Before {
		c.Violate("work-counters-restored", site, "counter-differs",
			fmt.Sprintf("the api module's work counters are %+v after the request, %+v before (still so 2 s later)\n%s", o.After, o.Before, desc()), wit())
	}
	if o.Settled {
		c.ExtraAdd("counter_differences_that_settled_within_2s", 1)
	}

	// ---- healthy request: served normally ----
	if s.Healthy {
		switch {
		case o.HandlerRuns != 1:
			c.Violate("next-request-served-normally", site, "handler-did-not-run", fmt.Sprintf("healthy request: the handler ran %d times\n%s", o.HandlerRuns, desc()), wit())
		case o.Status != 200 || !o.Wrote:
			c.Violate("next-request-served-normally", site, "status-not-200", fmt.Sprintf("healthy request answered with %d (written=%v)\n%s", o.Status, o.Wrote, desc()), wit())
		case len(o.Reports) > 0:
			c.Violate("next-request-served-normally", site, "panic-reported", fmt.Sprintf("healthy request: %d module error(s) were reported: %+v\n%s", len(o.Reports), o.Reports, desc()), wit())
		}
		c.Outcome(fmt.Sprintf("healthy %s -> %d", s.Route.Kind, o.Status))
		return
	}

	// ---- panicking request ----
	if o.PanicsRaised != 1 {
		c.EngineError("harness: the panic site of %q was entered %d times\n%s", s.String(), o.PanicsRaised, desc())
		return
	}
	var pr *report
	for k := range o.Reports {
		if o.Reports[k].Severity == "panic" {
			pr = &o.Reports[k]
		}
	}
	repClass := "none"
	if pr != nil {
		repClass = fmt.Sprintf("%s/%s x%d", pr.TaskName, pr.TaskType, len(o.Reports))
	}
	via := ""
	if s.Bridge {
		via = " via bridge"
	}
	c.Outcome(fmt.Sprintf("panic in %s%s stage=%s dev=%v value=%s -> status=%d written=%v report=%s", s.Site, via, s.Stage, sc.Dev, valueClass(s.Value), o.Status, o.Wrote, repClass))
	if pr != nil && pr.NamesOrigin {
		c.ExtraAdd("reported_stack_traces_naming_the_panic_origin", 1)
	}

	if s.Value == "aborthandler" {
		// net/http's sentinel for "abort this response silently": the statement is silent on it.
		return
	}
	switch {
	case pr == nil:
		c.Violate("panic-reported-on-error-channel", site, "no-report", "no *modules.ModuleError with Severity \"panic\" arrived on the error reporting channel\n"+desc(), wit())
	default:
		if !pr.IsPanic {
			c.Violate("panic-returned-as-panic-error", site, "not-is-panic", "modules.IsPanic is false for the reported error\n"+desc(), wit())
		}
		if !pr.ValueOK {
			c.Violate("panic-error-carries-value", site, "wrong-value", fmt.Sprintf("the reported panic error carries %s\n%s", pr.Value, desc()), wit())
		}
		if pr.StackLen == 0 {
			c.Violate("panic-error-carries-stack", site, "empty-stack", "the reported panic error has no stack trace\n"+desc(), wit())
		}
	}
	// The property statement says nothing about the HTTP status of the answer (only containment,
	// reporting, accounting and continued service), so the answer is recorded but not asserted.
	if s.Stage != "after-partial-body" {
		switch {
		case !o.Wrote:
			c.Outcome("info:panicking-request-not-answered/" + site)
		case o.Status != 500:
			c.Outcome(fmt.Sprintf("info:panicking-request-answered-%d/%s", o.Status, site))
		}
	}
}

func valueClass(v string) string {
	switch v {
	case "aborthandler":
		return "ErrAbortHandler"
	}
	return "*"
}

// run executes a scenario from the fresh state and judges every step.
func (w *world) run(sc *scenario) {
	if w.aborted {
		return
	}
	w.fresh(sc.Dev)
	for i := range sc.Steps {
		o := w.exec(sc.Steps[i])
		if w.verbose {
			fmt.Printf("  %d. %s\n     observed: status=%d written=%v handler_runs=%d authenticator_runs=%d panics_raised=%d escaped=%q counters %+v -> %+v\n",
				i+1, sc.Steps[i], o.Status, o.Wrote, o.HandlerRuns, o.AuthRuns, o.PanicsRaised, o.Escaped, o.Before, o.After)
			for _, r := range o.Reports {
				fmt.Printf("     reported: severity=%s task=%q type=%q value=%s carries_value=%v stack=%dB\n", r.Severity, r.TaskName, r.TaskType, r.Value, r.ValueOK, r.StackLen)
			}
		}
		before := w.c.ViolationCount()
		w.judge(sc, i, o)
		if w.verbose && w.c.ViolationCount() > before {
			fmt.Printf("     -> violation at step %d\n", i+1)
		}
		if w.aborted {
			return
		}
	}
	key := fmt.Sprintf("%+v|sessions=%d|locks=%v|status=%s", apiCounters(), api.VerifC06ClearSessions(), api.VerifC06LocksFree(), apiStatus())
	w.stateSet[key] = true
}

func apiStatus() string {
	s := modules.GetStatus()
	if s == nil || s.Modules["api"] == nil {
		return "?"
	}
	m := s.Modules["api"]
	return m.Status + "/" + m.FailureType
}

// ---------- enumeration ----------

type cell struct {
	Site  string
	Route route
	Stage string
}

// cells: every (panic site, route, response stage) the API offers.
func cells(dev bool) []cell {
	var l []cell
	for _, rt := range allRoutes() {
		stages := []string{"before", "after-header"}
		for _, k := range handlerKinds {
			if k == rt.Kind {
				stages = append(stages, "after-partial-body")
			}
		}
		for _, sg := range stages {
			l = append(l, cell{rt.Kind, rt, sg})
		}
	}
	if !dev {
		// the authenticator only runs for protected routes outside dev mode; it gets no ResponseWriter
		for _, rt := range allRoutes() {
			if rt.Prot {
				l = append(l, cell{"authenticator", rt, "before"})
			}
		}
	}
	return l
}

func otherRoutes(rt route, all bool) []route {
	rts := allRoutes()
	idx := 0
	for i, x := range rts {
		if x == rt {
			idx = i
		}
	}
	if !all {
		// one other route of another kind, chosen by position
		for k := 1; k < len(rts); k++ {
			x := rts[(idx+3*k)%len(rts)]
			if x.Kind != rt.Kind {
				return []route{x}
			}
		}
	}
	var l []route
	for _, x := range rts {
		if x != rt {
			l = append(l, x)
		}
	}
	return l
}

func phaseTable(c *vlib.Ctx, w *world) {
	n := 0
	for _, dev := range []bool{false, true} {
		for _, ce := range cells(dev) {
			for _, v := range values {
				for _, m := range []string{"GET", "POST"} {
					if w.aborted || c.Expired() {
						return
					}
					p := step{Site: ce.Site, Route: ce.Route, Method: m, Value: v, Stage: ce.Stage}
					sc := &scenario{Phase: "table", Dev: dev, Steps: []step{p, {Healthy: true, Route: ce.Route, Method: m}}}
					for _, o := range otherRoutes(ce.Route, true) {
						om := "GET"
						if (n+len(sc.Steps))%2 == 1 {
							om = "POST"
						}
						sc.Steps = append(sc.Steps, step{Healthy: true, Route: o, Method: om})
					}
					sc.Steps = append(sc.Steps, p)
					s0 := w.steps
					w.run(sc)
					n++
					c.Add(1, w.steps-s0, 1)
					c.NontrivialN(1)
					if n%397 == 5 {
						var l []string
						for _, s := range sc.Steps {
							l = append(l, s.String())
						}
						c.Sample(map[string]any{"phase": "table", "dev_mode": dev, "sequence": strings.Join(l, " ; ")})
					}
				}
			}
		}
	}
	c.Extra("table_sequences", int64(n))
	c.Extra("table_cells_site_x_route_x_stage", int64(len(cells(false))+len(cells(true))))
}

// phaseBridge: the same endpoint functions reached through the database bridge.
func phaseBridge(c *vlib.Ctx, w *world) {
	n := 0
	for _, rt := range allRoutes() {
		if !strings.HasPrefix(rt.Kind, "ep-") {
			continue
		}
		stages := []string{"before", "after-header"}
		if rt.Kind == "ep-handler" {
			stages = append(stages, "after-partial-body")
		}
		for _, sg := range stages {
			for _, v := range values {
				for _, m := range []string{"GET", "POST"} {
					if w.aborted || c.Expired() {
						return
					}
					p := step{Site: rt.Kind, Route: rt, Method: m, Value: v, Stage: sg, Bridge: true}
					sc := &scenario{Phase: "bridge", Steps: []step{p, {Healthy: true, Route: rt, Method: m, Bridge: true}, {Healthy: true, Route: rt, Method: m}, p}}
					s0 := w.steps
					w.run(sc)
					n++
					c.Add(1, w.steps-s0, 1)
					c.NontrivialN(1)
					if n == 77 {
						c.Sample(map[string]any{"phase": "bridge", "sequence": fmt.Sprintf("%s ; %s ; %s ; %s", sc.Steps[0], sc.Steps[1], sc.Steps[2], sc.Steps[3])})
					}
				}
			}
		}
	}
	c.Extra("bridge_sequences", int64(n))
}

// phaseHistories: all histories up to the depth over {panic(site, value)} u {healthy(route)}.
func phaseHistories(c *vlib.Ctx, w *world) {
	var alpha []step
	for _, rt := range allRoutes() {
		if rt.Prot || rt.Kind == "raw" {
			alpha = append(alpha, step{Healthy: true, Route: rt, Method: "GET"})
		}
	}
	for _, site := range sites {
		for _, v := range values {
			rt := route{site, true}
			if site == "authenticator" {
				rt = route{"wrap", true}
			}
			alpha = append(alpha, step{Site: site, Route: rt, Method: "GET", Value: v, Stage: "before"})
		}
	}
	// a few steps of the other stages / method, so that their after-effects meet every other step too
	alpha = append(alpha,
		step{Site: "ep-handler", Route: route{"ep-handler", false}, Method: "POST", Value: "error", Stage: "after-partial-body"},
		step{Site: "wrap", Route: route{"wrap", false}, Method: "GET", Value: "string", Stage: "after-header"},
		step{Site: "ep-struct", Route: route{"ep-struct", false}, Method: "POST", Value: "nilmap", Stage: "after-header"},
		step{Site: "authenticator", Route: route{"ep-action", true}, Method: "POST", Value: "struct", Stage: "before"},
	)
	depth := vlib.Pick(c, 2, 3)
	c.Extra("history_alphabet", int64(len(alpha)))
	c.Extra("history_depth", int64(depth))
	n := 0
	idx := make([]int, depth)
	for d := 1; d <= depth; d++ {
		for k := range idx {
			idx[k] = 0
		}
		for {
			if w.aborted || (n&255 == 255 && c.Expired()) {
				c.Extra("histories", int64(n))
				return
			}
			sc := &scenario{Phase: "histories", Steps: make([]step, d)}
			panics := 0
			for k := 0; k < d; k++ {
				sc.Steps[k] = alpha[idx[k]]
				if !sc.Steps[k].Healthy {
					panics++
				}
			}
			s0 := w.steps
			w.run(sc)
			n++
			c.Add(1, w.steps-s0, 1)
			if panics > 0 {
				c.NontrivialN(1)
			}
			if d == depth && (n == 3011 || n == 5477) {
				var l []string
				for _, s := range sc.Steps {
					l = append(l, s.String())
				}
				c.Sample(map[string]any{"phase": "histories", "sequence": strings.Join(l, " ; ")})
			}
			// next word
			k := d - 1
			for k >= 0 {
				idx[k]++
				if idx[k] < len(alpha) {
					break
				}
				idx[k] = 0
				k--
			}
			if k < 0 {
				break
			}
		}
	}
	c.Extra("histories", int64(n))
}

// ---------- main ----------

func setup(c *vlib.Ctx) (*world, func()) {
	tmp, err := os.MkdirTemp("", "verif-c06api-")
	if err != nil {
		c.EngineError("tmp dir: %v", err)
		return nil, func() {}
	}
	cleanup := func() { _ = os.RemoveAll(tmp) }
	if err := dataroot.Initialize(tmp, 0o755); err != nil {
		c.EngineError("dataroot: %v", err)
		return nil, cleanup
	}
	api.EnableServer = false
	api.SetDefaultAPIListenAddress("127.0.0.1:8817")
	log.SetLogLevel(log.CriticalLevel)
	modules.SetStdErrReporting(false)
	errCh := make(chan *modules.ModuleError, 64)
	modules.SetErrorReportingChannel(errCh)
	registerRoutes(c)
	if err := modules.Start(); err != nil {
		c.EngineError("modules.Start: %v", err)
		return nil, cleanup
	}
	log.SetLogLevel(log.CriticalLevel)
	if n := modules.VerifC06RemoveEventHooks("config", "config change", "api"); n != 1 {
		c.EngineError("expected to detach exactly one api hook from config change, detached %d", n)
	}
	w := &world{c: c, handler: api.VerifC06Handler(), errCh: errCh, stateSet: map[string]bool{},
		db: database.NewInterface(&database.Options{Local: true, Internal: true})}
	// baseline of the api module's counters once start-up work has finished
	last, stable := apiCounters(), 0
	for t0 := time.Now(); stable < 50 && time.Since(t0) < 5*time.Second; {
		time.Sleep(time.Millisecond)
		if x := apiCounters(); x == last {
			stable++
		} else {
			last, stable = x, 0
		}
	}
	w.base = last
	c.Extra("api_counters_baseline", fmt.Sprintf("%+v", w.base))
	return w, cleanup
}

func main() {
	vlib.Main("C06", "model_checking", func(c *vlib.Ctx) {
		c.SetBudget(vlib.Pick(c, 150*time.Second, 25*time.Minute))
		w, cleanup := setup(c)
		defer cleanup()
		if w == nil {
			return
		}
		c.Rule("API part: complete table {5 endpoint function types, RegisterHandler handler, WrapInAuthHandler handler, authenticator} x {anyone / protected route} x {panic before anything, after setting response headers, after status + partial body} x 8 panic values x {GET, POST} x {dev mode off, on}, " +
			"each cell as the sequence panicking request -> healthy request to the same route -> healthy request(s) to other route(s) -> the panicking request again; plus all histories up to depth 2 (thorough 3) over {panic(site, value)} u {healthy(route)}; every step judged, all through the real mainHandler.ServeHTTP in-process; " +
			"distinct_nontrivial = sequences in which the seeded panic was really raised inside the named function")
		c.Assume("API part: the statement is silent on what the client receives once a part of the response was written before the panic; nothing is asserted about status or body of such a request (containment, report, counters and the following requests are still checked)")
		c.Assume("API part: http.ErrAbortHandler (net/http's 'abort the response silently' sentinel) is outside the documented semantics: only 'no panic escapes', 'counters restored' and 'later requests are served' are asserted for it, not the report or the 500")
		c.Assume("API part: requests are sequential and in-process (EnableServer=false, httptest recorder); net/http's own per-connection recover is not relied upon - a panic escaping ServeHTTP counts as not contained")
		c.Assume("API part: panic(nil) is observed as *runtime.PanicNilError (Go >= 1.21 semantics of the main module)")

		if c.Replay != "" {
			replay(c, w)
			shutdown(c, w, false)
			return
		}
		for _, ph := range []struct {
			name string
			f    func(*vlib.Ctx, *world)
		}{{"table", phaseTable}, {"bridge", phaseBridge}, {"histories", phaseHistories}} {
			t0, s0 := time.Now(), w.steps
			ph.f(c, w)
			c.Extra("api phase "+ph.name, fmt.Sprintf("%d requests, %.1fs", w.steps-s0, time.Since(t0).Seconds()))
		}
		c.Extra("api_requests_through_ServeHTTP", w.steps)
		c.Extra("api_distinct_end_states", int64(len(w.stateSet)))
		shutdown(c, w, true)
	})
}

// shutdown: after all those panics the module can still be stopped.
func shutdown(c *vlib.Ctx, w *world, judge bool) {
	if w.aborted {
		return // a request goroutine is stuck inside a worker: Shutdown would only time out
	}
	w.setDev(false)
	var err error
	pv, stack := vlib.Catch(func() { err = modules.Shutdown() })
	if !judge {
		return
	}
	wit := map[string]any{"phase": "shutdown-after-the-whole-run"}
	switch {
	case pv != nil:
		c.Violate("module-can-still-be-stopped", "api", "shutdown-panicked", fmt.Sprintf("modules.Shutdown panicked: %v at %s", pv, vlib.PanicSite(stack)), wit)
	case err != nil:
		c.Violate("module-can-still-be-stopped", "api", "shutdown-error", fmt.Sprintf("modules.Shutdown after %d requests returned %v", w.steps, err), wit)
	default:
		if s := modules.GetStatus(); s != nil && s.Modules["api"] != nil && s.Modules["api"].Status == "online" {
			c.Violate("module-can-still-be-stopped", "api", "still-online", "the api module is still online after modules.Shutdown", wit)
		}
	}
	c.Outcome("shutdown after the run -> ok")
}

func replay(c *vlib.Ctx, w *world) {
	var sc scenario
	if _, err := c.LoadReplay(&sc); err != nil {
		c.EngineError("cannot load replay: %v", err)
		return
	}
	if sc.Phase == "shutdown-after-the-whole-run" {
		fmt.Println("replay: the witness is the whole run; re-run the check")
		return
	}
	fmt.Printf("replay: phase %s, dev_mode=%v, %d requests from the fresh state\n", sc.Phase, sc.Dev, len(sc.Steps))
	w.verbose = true
	before := c.ViolationCount()
	w.run(&sc)
	if c.ViolationCount() == before {
		fmt.Println("  -> no step violated the property this time")
	}
}
