// C02, schedule clause: a storage error is reported to the consumer once the result stream has ended (engine S on database/iterator).
package main

import (
	"github.com/safing/portbase/database/iterator"

	"verif/slib"
	"verif/vlib"
)

func main() {
	vlib.Main("C02", "model_checking", func(c *vlib.Ctx) {
		c.Rule("iterator hand-over: all interleavings (unbounded: deviation bound 50) of a producer sending 0-3 records and finishing with/without an error and a consumer draining the stream, optionally cancelling after the first record; both default schedulers")
		var scns []*slib.Scn
		for n := 0; n <= 3; n++ {
			for _, we := range []bool{true, false} {
				for _, cancel := range []bool{false, true} {
					if cancel && n == 0 {
						continue
					}
					for _, hf := range []bool{false, true} {
						sc := iterator.VerifC02Handover(n, we, cancel)
						sc.HighFirst = hf
						if hf {
							sc.Name += "/sched=high"
						}
						scns = append(scns, &slib.Scn{Scenario: sc, Family: "c02/iterator-handover", Bound: 50})
					}
				}
			}
		}
		slib.Run(c, scns, slib.Opts{Shards: 4})
	})
}
