//go:build verif

package iterator

import (
	"errors"
	"fmt"

	"github.com/safing/portbase/zzverif/vsched"
)

// VerifC02Handover: a producer sends n records and finishes the iterator with
// an error (or nil); a consumer drains the stream until it ends and then asks
// for the error. Clause: a storage error during the query is reported to the
// consumer once the result stream has ended.
func VerifC02Handover(n int, withErr bool, cancel bool) *vsched.Scenario {
	var issues []vsched.Issue
	storageErr := errors.New("seeded storage error")
	sc := &vsched.Scenario{Name: fmt.Sprintf("c02/iterator-handover/records=%d/err=%v/cancel=%v", n, withErr, cancel), MaxSteps: 20000}
	sc.Reset = func() { issues = nil }
	sc.Body = func() {
		it := New()
		var want error
		if withErr {
			want = storageErr
		}
		vsched.Explore(true)
		go func() {
			// the storage's query executor
			for i := 0; i < n; i++ {
				select {
				case it.Next <- nil:
				case <-it.Done:
					it.Finish(want)
					return
				}
			}
			it.Finish(want)
		}()
		got := 0
		for range it.Next {
			got++
			vsched.Emit("record")
			if cancel && got == 1 {
				it.Cancel()
			}
		}
		vsched.Ev("stream-ended")
		err := it.Err()
		vsched.Emit(fmt.Sprintf("err=%v", err != nil))
		if !errors.Is(err, want) || (want == nil && err != nil) {
			issues = append(issues, vsched.Issue{Clause: "storage-error-reported-when-stream-ended", Disc: "error-missing",
				Detail: fmt.Sprintf("the result stream ended (Next closed) and Err() returned %v, the query had finished with %v", err, want)})
		}
		if !cancel && got != n {
			issues = append(issues, vsched.Issue{Clause: "all-records-delivered", Disc: "count", Detail: fmt.Sprintf("consumer got %d of %d records", got, n)})
		}
		vsched.Quiesce()
	}
	sc.Check = func(r *vsched.Result) []vsched.Issue {
		out := append([]vsched.Issue{}, issues...)
		if r.Panic != "" {
			out = append(out, vsched.Issue{Clause: "no-uncontained-panic", Disc: r.PanicThread, Detail: r.Panic})
		}
		if r.Deadlock {
			out = append(out, vsched.Issue{Clause: "no-deadlock", Disc: "deadlock", Detail: fmt.Sprint(r.Blocked)})
		}
		return out
	}
	return sc
}
