#!/bin/bash
set -e
cd /verif
mkdir -p bin
[ -x bin/instr ] || (cd instr && go build -o /verif/bin/instr .)
rm -rf build/c02s.ov && mkdir -p build/c02s.ov
bin/instr -out build/c02s.ov -full database/iterator -harness h/c02s/overlay
go build -tags verif -overlay build/c02s.ov/overlay.json -o "$1" ./h/c02s
