// C20: no enabled log line is lost, duplicated or reordered (engine S on the log package).
package main

import (
	"context"

	"github.com/safing/portbase/log"

	"verif/slib"
	"verif/vlib"
)

var sevNames = []string{"Trace", "Debug", "Info", "Warning", "Error", "Critical"}

// emitExternal makes one log call of the given kind from this package (a call site outside package log: the logger
// derives the caller's package, "c20", from this file's path).
func emitExternal(kind, text string) bool {
	plain := map[string]func(){
		"Trace": func() { log.Trace(text) }, "Tracef": func() { log.Tracef("%s", text) },
		"Debug": func() { log.Debug(text) }, "Debugf": func() { log.Debugf("%s", text) },
		"Info": func() { log.Info(text) }, "Infof": func() { log.Infof("%s", text) },
		"Warning": func() { log.Warning(text) }, "Warningf": func() { log.Warningf("%s", text) },
		"Error": func() { log.Error(text) }, "Errorf": func() { log.Errorf("%s", text) },
		"Critical": func() { log.Critical(text) }, "Criticalf": func() { log.Criticalf("%s", text) },
	}
	if f, ok := plain[kind]; ok {
		f()
		return true
	}
	var tr *log.ContextTracer
	real := false
	method := kind[2:]
	if kind[:2] == "R." {
		_, tr = log.AddTracer(context.Background())
		if tr == nil {
			return false
		}
		real = true
	}
	switch method {
	case "Trace":
		tr.Trace(text)
	case "Tracef":
		tr.Tracef("%s", text)
	case "Debug":
		tr.Debug(text)
	case "Debugf":
		tr.Debugf("%s", text)
	case "Info":
		tr.Info(text)
	case "Infof":
		tr.Infof("%s", text)
	case "Warning":
		tr.Warning(text)
	case "Warningf":
		tr.Warningf("%s", text)
	case "Error":
		tr.Error(text)
	case "Errorf":
		tr.Errorf("%s", text)
	case "Critical":
		tr.Critical(text)
	case "Criticalf":
		tr.Criticalf("%s", text)
	default:
		panic("unknown kind " + kind)
	}
	if real {
		tr.Submit()
	}
	return true
}

// entryPoints returns one line per parallel entry point of the logging API (function, method on a nil tracer, single line of a real tracer).
func entryPoints() []string {
	var out []string
	for _, prefix := range []string{"", "N.", "R."} {
		for _, sv := range sevNames {
			for _, f := range []string{"", "f"} {
				k := prefix + sv + f
				out = append(out, "X."+k+":"+k)
			}
		}
	}
	return out
}

func scenarios(c *vlib.Ctx) []*slib.Scn {
	log.C20External = emitExternal
	var out []*slib.Scn
	add := func(fam string, p log.C20Params, bound int) {
		out = append(out, &slib.Scn{Scenario: log.VerifC20(p), Family: "c20/" + fam, Bound: bound})
		sc := log.VerifC20(p)
		sc.Name += "/sched=high"
		sc.HighFirst = true
		out = append(out, &slib.Scn{Scenario: sc, Family: "c20/" + fam, Bound: bound})
	}
	b := vlib.Pick(c, 2, 3)
	prodSets := [][][]string{
		{{"i:a", "i:b"}, {"i:c", "i:d"}},
		{{"i:x", "i:x", "i:y"}, {"w:z"}},               // identical consecutive lines (merged) interleaved with another producer
		{{"i:a", "d:b", "w:c"}, {"d:e", "e:f"}},        // severities around the threshold
		{{"i:a", "i:b", "i:c"}, {"i:d", "i:e", "i:f"}}, // more lines than the (shrunk) buffer holds
	}
	for _, sched := range []string{"free", "external"} {
		for pi, ps := range prodSets {
			total := 0
			for _, l := range ps {
				total += len(l)
			}
			shutdowns := []int{-1, 0, 1, total - 1, total}
			if pi == 3 && c.Quick() {
				shutdowns = []int{-1, 2, total}
			}
			for _, sd := range shutdowns {
				trig := 0
				if sched == "external" {
					trig = 2
				}
				add("lines", log.C20Params{Producers: ps, Sched: sched, Triggers: trig, Level: "i", Buf: 2, Shutdown: sd}, b)
			}
		}
		// two concurrent Shutdown callers: each must return only after the earlier lines were written
		add("two-shutdowns", log.C20Params{Producers: [][]string{{"i:a", "i:b", "i:c"}}, Sched: sched, Triggers: 1, Level: "i", Buf: 2, Shutdown: 3, Second: true}, b)
		add("two-shutdowns", log.C20Params{Producers: [][]string{{"i:a", "i:b"}, {"i:c"}}, Sched: sched, Triggers: 0, Level: "i", Buf: 2, Shutdown: -1, Second: true}, b)
		// level changes while lines are logged
		for _, ch := range []string{"w", "d", "pkg:w", "pkg:d"} {
			trig := 0
			if sched == "external" {
				trig = 1
			}
			add("level-change", log.C20Params{Producers: [][]string{{"i:a", "d:b", "w:c"}, {"i:d"}}, Sched: sched, Triggers: trig, Level: "i", Change: ch, Buf: 2, Shutdown: -1}, b)
			add("level-change", log.C20Params{Producers: [][]string{{"i:a", "d:b", "w:c"}}, Sched: sched, Triggers: trig, Level: "i", Change: ch, Buf: 2, Shutdown: 2}, b)
		}
		// a package level set before Start and dropped again (by a later SetPkgLevels without the package, or UnSetPkgLevels): the global level decides again
		for _, ch := range []string{"pkgdrop", "pkgunset"} {
			add("pkg-level-dropped", log.C20Params{Producers: [][]string{{"i:a", "d:b", "w:c"}, {"d:e"}}, Sched: sched, Triggers: 1, Level: "i", PkgInit: "d", Change: ch, Buf: 2, Shutdown: -1}, b)
			add("pkg-level-dropped", log.C20Params{Producers: [][]string{{"i:a", "w:b", "i:c"}}, Sched: sched, Triggers: 1, Level: "i", PkgInit: "w", Change: ch, Buf: 2, Shutdown: -1}, b)
		}
		// Start inside the explored window: the root starts the logger, logs and shuts down at once (the writer may not have run yet)
		add("start-log-shutdown", log.C20Params{Producers: [][]string{{"i:a", "i:b", "i:c"}}, Sched: sched, Level: "i", Buf: 4, Shutdown: 3, Inline: true}, b)
		add("start-log-shutdown", log.C20Params{Producers: [][]string{{"w:a"}}, Sched: sched, Level: "i", Buf: 0, Shutdown: 1, Inline: true}, b)
		// every parallel entry point of the API, called from another package, at every global level and with a package level
		// above / below the global one: emitted iff enabled, with its own severity
		for _, lvl := range []string{"t", "d", "i", "w", "e", "c"} {
			add("entry-points", log.C20Params{Producers: [][]string{entryPoints()}, Sched: sched, Triggers: 1, Level: lvl, Buf: 0, Shutdown: -1}, 0)
		}
		for _, lv := range [][2]string{{"e", "w"}, {"i", "c"}, {"c", "t"}, {"w", "d"}} {
			add("entry-points", log.C20Params{Producers: [][]string{entryPoints()}, Sched: sched, Triggers: 1, Level: lv[0], PkgInit: lv[1], PkgName: "c20", Buf: 0, Shutdown: -1}, 0)
		}
		// a slow output and a backlog at Shutdown: flushing takes longer than the writer's 10 ms idle timeout
		add("slow-output", log.C20Params{Producers: [][]string{{"i:a", "i:b", "i:c", "i:d", "i:e", "i:f"}}, Sched: sched, Triggers: 0, Level: "i", Buf: 0, Shutdown: 6, Slow: 4}, b)
		// context tracer submissions
		add("tracer", log.C20Params{Producers: [][]string{{"T:s1", "i:a"}, {"i:b", "T:s2"}}, Sched: sched, Triggers: 1, Level: "t", Buf: 2, Shutdown: -1}, b)
		add("tracer", log.C20Params{Producers: [][]string{{"T:s1", "T:s2", "T:s3"}}, Sched: sched, Triggers: 1, Level: "t", Buf: 2, Shutdown: 2}, b)
		add("tracer", log.C20Params{Producers: [][]string{{"T:s1", "i:a"}}, Sched: sched, Triggers: 1, Level: "i", Buf: 2, Shutdown: -1}, b)
		// the same text and severity from two different source lines: not identical lines, never merged
		add("call-sites", log.C20Params{Producers: [][]string{{"i:x", "i2:x", "i2:x", "i:x"}}, Sched: sched, Triggers: 1, Level: "i", Buf: 4, Shutdown: -1}, b)
		add("call-sites", log.C20Params{Producers: [][]string{{"i2:x", "i:x"}, {"i:y"}}, Sched: sched, Triggers: 1, Level: "i", Buf: 2, Shutdown: -1}, b)
		// a plain line and the main line of a tracer submission with the same text from the same call site must not be merged
		add("tracer", log.C20Params{Producers: [][]string{{"N:x", "T:x", "N:x"}}, Sched: sched, Triggers: 1, Level: "t", Buf: 4, Shutdown: -1}, b)
		add("tracer", log.C20Params{Producers: [][]string{{"T:x", "N:x"}, {"i:y"}}, Sched: sched, Triggers: 1, Level: "t", Buf: 4, Shutdown: -1}, b)
	}
	// the real buffer size once: more lines than the 1024-entry buffer holds, writer externally scheduled and never triggered
	big := make([]string, 1030)
	for i := range big {
		big[i] = "i:" + string(rune('a'+i%26)) + string(rune('a'+(i/26)%26)) + string(rune('a'+i/676))
	}
	add("full-size-buffer", log.C20Params{Producers: [][]string{big}, Sched: "external", Triggers: 0, Level: "i", Buf: 0, Shutdown: -1}, 0)
	add("full-size-buffer", log.C20Params{Producers: [][]string{big[:600], big[600:]}, Sched: "free", Level: "i", Buf: 0, Shutdown: 1030}, 0)
	return out
}

func main() {
	vlib.Main("C20", "model_checking", func(c *vlib.Ctx) {
		c.Rule("stateless exploration of all interleavings within a deviation bound of the real log package (source-instrumented: buffer channel, wake-up flag, forced emptying, writer select choices, 10 ms back-off timers on the virtual clock): " +
			"1-2 producers x 1-4 lines (distinct, identical consecutive, same text from two source lines, below/at/above the level, tracer submissions) x {free-running, externally triggered writer} x concurrent level / package-level changes (incl. a package level that is dropped again) x Shutdown at every position, plus Start-log-Shutdown in one go, all 36 parallel entry points (functions, methods on a nil tracer, single lines of a real tracer) called from another package at every global level and with package levels, and a slow output with a backlog at Shutdown; buffer shrunk to 2 slots, plus the real 1024-slot buffer with 1030 lines; both default schedulers; " +
			"distinct_nontrivial = distinct observation traces (order of deliveries and of Shutdown) per scenario")
		c.Assume("sequential consistency; a line logged concurrently with a level change, or whose call had not returned when Shutdown was requested, may or may not be emitted")
		slib.Run(c, scenarios(c), slib.Opts{})
	})
}
