#!/bin/bash
exec /verif/h/slog/build.sh c20 "$1"
