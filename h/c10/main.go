// C10: varint pack/unpack are exact inverses with exact byte accounting.
// Engine Q, depth-1 case: exhaustive enumeration of finite input domains
// against a textbook base-128 reference written without encoding/binary.
package main

import (
	"bytes"
	"fmt"
	"sync/atomic"

	"github.com/safing/portbase/formats/varint"

	"verif/vlib"
)

// ---------- reference model ----------

// refPack is the textbook little-endian base-128 encoding.
func refPack(n uint64) []byte {
	var out []byte
	for {
		b := byte(n & 0x7f)
		n >>= 7
		if n != 0 {
			out = append(out, b|0x80)
		} else {
			return append(out, b)
		}
	}
}

type refStatus int

const (
	refOK refStatus = iota
	refTruncated
	refTooLarge
)

// refDecode decodes the first varint of b. overflow beyond 64 bit => refTooLarge.
func refDecode(b []byte) (v uint64, consumed int, st refStatus) {
	over := false
	shift := uint(0)
	for i, x := range b {
		g := uint64(x & 0x7f)
		if g != 0 {
			if shift >= 64 || (g<<shift)>>shift != g {
				over = true
			} else {
				v |= g << shift
			}
		}
		if x < 0x80 {
			if over {
				return 0, i + 1, refTooLarge
			}
			return v, i + 1, refOK
		}
		shift += 7
	}
	return 0, 0, refTruncated
}

type unpackFn struct {
	name string
	max  uint64
	f    func([]byte) (uint64, int, error)
}

var unpackers = []unpackFn{
	{"Unpack8", 0xff, func(b []byte) (uint64, int, error) { v, n, e := varint.Unpack8(b); return uint64(v), n, e }},
	{"Unpack16", 0xffff, func(b []byte) (uint64, int, error) { v, n, e := varint.Unpack16(b); return uint64(v), n, e }},
	{"Unpack32", 0xffffffff, func(b []byte) (uint64, int, error) { v, n, e := varint.Unpack32(b); return uint64(v), n, e }},
	{"Unpack64", ^uint64(0), func(b []byte) (uint64, int, error) { v, n, e := varint.Unpack64(b); return v, n, e }},
}

type witness struct {
	Func  string `json:"func"`
	Input []byte `json:"input_bytes,omitempty"`
	Hex   string `json:"input_hex,omitempty"`
	Value uint64 `json:"value,omitempty"`
}

// checkUnpack compares one unpacker on one input against the reference.
// It returns an outcome class.
func checkUnpack(c *vlib.Ctx, u unpackFn, b []byte) string {
	var v uint64
	var n int
	var err error
	p, stack := vlib.Catch(func() { v, n, err = u.f(b) })
	if p != nil {
		c.Violate("unpack-never-panics", u.name, vlib.PanicSite(stack), fmt.Sprintf("%s(%x) panicked: %v", u.name, b, p), mkw(u.name, b))
		return "panic"
	}
	if len(b) < 12 {
		var wbuf [24]byte
		copy(wbuf[:], b)
		for i := len(b); i < len(wbuf); i++ {
			wbuf[i] = 0x81
		}
		var v2 uint64
		var n2 int
		var err2 error
		p2, stack2 := vlib.Catch(func() { v2, n2, err2 = u.f(wbuf[:len(b)]) })
		if p2 != nil {
			c.Violate("unpack-never-panics", u.name, vlib.PanicSite(stack2), fmt.Sprintf("%s(%x as a window into a larger buffer) panicked: %v", u.name, b, p2), mkw(u.name, b))
		} else if (err == nil) != (err2 == nil) || (err == nil && (v != v2 || n != n2)) {
			c.Violate("no-read-beyond-input", u.name, "result-depends-on-bytes-behind-the-input", fmt.Sprintf("%s(%x) = (%d,%d,%v) for an exact slice, (%d,%d,%v) as a window into a larger buffer", u.name, b, v, n, err, v2, n2, err2), mkw(u.name, b))
		}
	}
	rv, rn, st := refDecode(b)
	if st == refOK && rv > u.max {
		st = refTooLarge
	}
	switch st {
	case refTruncated, refTooLarge:
		if err == nil {
			cl := "truncated-input-is-error"
			if st == refTooLarge {
				cl = "too-large-is-error"
			}
			c.Violate(cl, u.name, "ok-instead-of-error", fmt.Sprintf("%s(%x) = (%d,%d,nil), reference: error", u.name, b, v, n), mkw(u.name, b))
		}
		if st == refTruncated {
			return "err-truncated"
		}
		return "err-toolarge"
	}
	minimal := rn == len(refPack(rv))
	if err != nil {
		if minimal {
			c.Violate("valid-minimal-encoding-accepted", u.name, "error-instead-of-ok", fmt.Sprintf("%s(%x) = error %v, reference (%d,%d)", u.name, b, err, rv, rn), mkw(u.name, b))
		}
		return "err-nonminimal"
	}
	if v != rv {
		c.Violate("unpack-value", u.name, "wrong-value", fmt.Sprintf("%s(%x) value %d, reference %d", u.name, b, v, rv), mkw(u.name, b))
	}
	if n != rn {
		c.Violate("unpack-consumed", u.name, "wrong-consumed", fmt.Sprintf("%s(%x) consumed %d, reference %d (len %d)", u.name, b, n, rn, len(b)), mkw(u.name, b))
	}
	if n < 0 || n > len(b) {
		c.Violate("consumed-within-input", u.name, "out-of-range", fmt.Sprintf("%s(%x) consumed %d of %d", u.name, b, n, len(b)), mkw(u.name, b))
	}
	if rn > 11 {
		rn = 11
	}
	if minimal {
		return okMin[rn]
	}
	return okNonMin[rn]
}

var okMin, okNonMin, okBlk [12]string

func init() {
	for i := range okMin {
		okMin[i] = fmt.Sprintf("ok-minimal-%d", i)
		okNonMin[i] = fmt.Sprintf("ok-nonminimal-%d", i)
		okBlk[i] = fmt.Sprintf("ok-len%d", i)
	}
}

func mkw(fn string, b []byte) witness {
	return witness{Func: fn, Input: append([]byte{}, b...), Hex: fmt.Sprintf("%x", b)}
}

// checkRoundTrip checks Pack/Unpack/EncodedSize for one value and width.
func checkRoundTrip(c *vlib.Ctx, width int, n uint64) {
	var packed []byte
	name := fmt.Sprintf("Pack%d", width)
	p, stack := vlib.Catch(func() {
		switch width {
		case 8:
			packed = varint.Pack8(uint8(n))
		case 16:
			packed = varint.Pack16(uint16(n))
		case 32:
			packed = varint.Pack32(uint32(n))
		case 64:
			packed = varint.Pack64(n)
		}
	})
	w := witness{Func: name, Value: n}
	if p != nil {
		c.Violate("pack-never-panics", name, vlib.PanicSite(stack), fmt.Sprintf("%s(%d) panicked: %v", name, n, p), w)
		return
	}
	ref := refPack(n)
	if !bytes.Equal(packed, ref) {
		c.Violate("pack-is-shortest-base128", name, "wrong-bytes", fmt.Sprintf("%s(%d) = %x, reference %x", name, n, packed, ref), w)
	}
	if es := varint.EncodedSize(n); es != len(ref) {
		c.Violate("encoded-size", "EncodedSize", "wrong-size", fmt.Sprintf("EncodedSize(%d) = %d, reference %d", n, es, len(ref)), w)
	}
	// the returned slice belongs to the caller: scribbling over it (and over its spare capacity) must not change what
	// a later Pack of the same or a neighbouring value returns
	if len(packed) > 0 {
		scr := packed[:cap(packed)]
		for i := range scr {
			scr[i] ^= 0xff
		}
		for _, v := range []uint64{n, n ^ 1} {
			var again []byte
			switch width {
			case 8:
				again = varint.Pack8(uint8(v))
			case 16:
				again = varint.Pack16(uint16(v))
			case 32:
				again = varint.Pack32(uint32(v))
			case 64:
				again = varint.Pack64(v)
			}
			want := v
			switch width {
			case 8:
				want = uint64(uint8(v))
			case 16:
				want = uint64(uint16(v))
			case 32:
				want = uint64(uint32(v))
			}
			if !bytes.Equal(again, refPack(want)) {
				c.Violate("pack-result-is-owned-by-the-caller", name, "later-pack-corrupted", fmt.Sprintf("after the caller overwrote the bytes returned by %s(%d), %s(%d) = %x, reference %x", name, n, name, want, again, refPack(want)), w)
			}
		}
		for i := range scr {
			scr[i] ^= 0xff
		}
	}
	// unpack with the same and all wider widths, with and without trailing bytes
	for _, u := range unpackers {
		for _, tail := range [][]byte{nil, {0x00}, {0xff, 0x80}} {
			in := append(append([]byte{}, packed...), tail...)
			if n > u.max {
				// the encoding of a value beyond the unpacker's width must be refused (too-large-is-error)
				checkUnpack(c, u, in)
				continue
			}
			v, k, err := uint64(0), 0, error(nil)
			p, stack := vlib.Catch(func() { v, k, err = u.f(in) })
			w := witness{Func: u.name, Input: in, Hex: fmt.Sprintf("%x", in), Value: n}
			if p != nil {
				c.Violate("unpack-never-panics", u.name, vlib.PanicSite(stack), fmt.Sprintf("%s(%x) panicked: %v", u.name, in, p), w)
				continue
			}
			if err != nil {
				c.Violate("roundtrip", u.name, "error-instead-of-ok", fmt.Sprintf("%s(%s(%d)=%x) = error %v", u.name, name, n, in, err), w)
				continue
			}
			if v != n {
				c.Violate("roundtrip", u.name, "wrong-value", fmt.Sprintf("%s(%s(%d)=%x) = %d", u.name, name, n, in, v), w)
			}
			if k != len(packed) {
				c.Violate("roundtrip-consumed", u.name, "wrong-consumed", fmt.Sprintf("%s(%s(%d)=%x) consumed %d, packed length %d", u.name, name, n, in, k, len(packed)), w)
			}
		}
	}
}

// checkBlock checks GetNextBlock on data.
func checkBlock(c *vlib.Ctx, data []byte) string {
	var blk []byte
	var total int
	var err error
	p, stack := vlib.Catch(func() { blk, total, err = varint.GetNextBlock(data) })
	if p != nil {
		c.Violate("block-never-panics", "GetNextBlock", vlib.PanicSite(stack), fmt.Sprintf("GetNextBlock(%x) panicked: %v", data, p), mkw("GetNextBlock", data))
		return "panic"
	}
	// the same input as a window into a larger buffer (len < cap, live bytes behind it): the result must not depend on them
	{
		big := make([]byte, len(data), len(data)+12)
		copy(big, data)
		big = append(big, 0x41, 0x42, 0x43, 0x44, 0x45, 0x46, 0x47, 0x48, 0x49, 0x4a, 0x4b, 0x4c)
		win := big[:len(data)]
		var blk2 []byte
		var total2 int
		var err2 error
		p2, stack2 := vlib.Catch(func() { blk2, total2, err2 = varint.GetNextBlock(win) })
		if p2 != nil {
			c.Violate("block-never-panics", "GetNextBlock", vlib.PanicSite(stack2), fmt.Sprintf("GetNextBlock(%x as a window into a larger buffer) panicked: %v", data, p2), mkw("GetNextBlock", data))
		} else if (err == nil) != (err2 == nil) || total != total2 || !bytes.Equal(blk, blk2) {
			c.Violate("no-read-beyond-input", "GetNextBlock", "result-depends-on-bytes-behind-the-input", fmt.Sprintf("GetNextBlock(%x) = (%x,%d,%v) for an exact slice, (%x,%d,%v) for the same bytes as a window into a larger buffer", data, blk, total, err, blk2, total2, err2), mkw("GetNextBlock", data))
		}
	}
	l, n, st := refDecode(data)
	ok := st == refOK && l <= uint64(len(data)-n)
	minimal := st == refOK && n == len(refPack(l))
	if !ok {
		if err == nil {
			c.Violate("block-length-exceeding-input-is-error", "GetNextBlock", "ok-instead-of-error", fmt.Sprintf("GetNextBlock(%x) = (%x,%d,nil), reference: error", data, blk, total), mkw("GetNextBlock", data))
		}
		return "err"
	}
	if err != nil {
		if minimal {
			c.Violate("block-valid-accepted", "GetNextBlock", "error-instead-of-ok", fmt.Sprintf("GetNextBlock(%x) = error %v", data, err), mkw("GetNextBlock", data))
		}
		return "err-nonminimal"
	}
	if total != n+int(l) || total < 0 || total > len(data) {
		c.Violate("block-total", "GetNextBlock", "wrong-consumed", fmt.Sprintf("GetNextBlock(%x) total %d, reference %d", data, total, n+int(l)), mkw("GetNextBlock", data))
	}
	if !bytes.Equal(blk, data[n:n+int(l)]) {
		c.Violate("block-bytes", "GetNextBlock", "wrong-value", fmt.Sprintf("GetNextBlock(%x) = %x, reference %x", data, blk, data[n:n+int(l)]), mkw("GetNextBlock", data))
	}
	if l > 11 {
		l = 11
	}
	return okBlk[l]
}

func boundaryValues() []uint64 {
	seen := map[uint64]bool{}
	var out []uint64
	add := func(v uint64) {
		if !seen[v] {
			seen[v] = true
			out = append(out, v)
		}
	}
	for k := uint(0); k <= 64; k++ {
		var base uint64
		if k < 64 {
			base = 1 << k
		}
		for d := uint64(0); d <= 3; d++ {
			add(base + d)
			add(base - d)
		}
	}
	return out
}

func main() {
	vlib.Main("C10", "model_checking", func(c *vlib.Ctx) {
		c.Rule("exhaustive enumeration: all 2^8/2^16 values, 2^24 low range + every value within 3 of every power of two for 32/64 bit (round trip, minimality, EncodedSize, trailing bytes; each encoding is also given to every narrower unpacker, which must refuse it; the caller overwrites every packed result and packs again); " +
			"all byte strings of length<=3 and all strings of length 4..10 over {00,01,7f,80,ff} and all runs of 8..12 continuation bytes over {80,ff} followed by <= 2 bytes for every UnpackN and GetNextBlock; GetNextBlock over all byte strings <=3, 5-symbol strings <=7 and every boundary length prefix x short payload; " +
			"non-trivial = distinct byte strings that start a multi-byte varint (first byte >= 0x80, length >= 2), counted while enumerating; each input evaluated against the textbook reference, and a second time as a window into a larger buffer with live bytes behind it (same result demanded)")
		c.Assume("reference decoder treats non-minimal (zero-padded) encodings as 'value or error' since the property only fixes the packed form to be minimal")
		if c.Replay != "" {
			var w witness
			if _, err := c.LoadReplay(&w); err != nil {
				c.EngineError("replay: %v", err)
				return
			}
			replay(c, w)
			return
		}
		var evals, rt int64
		// 1. round trips
		for n := uint64(0); n < 1<<8; n++ {
			checkRoundTrip(c, 8, n)
			rt++
		}
		for n := uint64(0); n < 1<<16; n++ {
			checkRoundTrip(c, 16, n)
			rt++
		}
		low := vlib.Pick(c, uint64(1<<20), uint64(1<<24))
		c.ParallelFor(64, func(i int) {
			var k int64
			for n := uint64(i); n < low; n += 64 {
				checkRoundTrip(c, 32, n)
				checkRoundTrip(c, 64, n)
				k += 2
			}
			atomic.AddInt64(&rt, k)
		})
		for _, n := range boundaryValues() {
			if n <= 0xffffffff {
				checkRoundTrip(c, 32, n)
				rt++
			}
			checkRoundTrip(c, 64, n)
			rt++
		}
		c.Sample(map[string]any{"kind": "roundtrip", "width": 64, "value": uint64(1) << 63, "packed_hex": fmt.Sprintf("%x", varint.Pack64(1<<63))})
		evals += rt
		c.Extra("roundtrip_values", rt)

		// 2. all byte strings <= 3 for every unpacker (+ GetNextBlock)
		var bs int64
		outc := make([]map[[2]string]int64, 256)
		c.ParallelFor(256, func(b0 int) {
			m := map[[2]string]int64{}
			var k, nt int64
			buf := make([]byte, 3)
			run := func(b []byte) {
				for _, u := range unpackers {
					m[[2]string{u.name, checkUnpack(c, u, b)}]++
				}
				m[[2]string{"GetNextBlock", checkBlock(c, b)}]++
				k++
				if len(b) >= 2 && b[0] >= 0x80 {
					nt++
				}
			}
			if b0 == 0 {
				run(nil)
			}
			buf[0] = byte(b0)
			run(buf[:1])
			for b1 := 0; b1 < 256; b1++ {
				buf[1] = byte(b1)
				run(buf[:2])
				for b2 := 0; b2 < 256; b2++ {
					buf[2] = byte(b2)
					run(buf[:3])
				}
			}
			outc[b0] = m
			atomic.AddInt64(&bs, k)
			c.NontrivialN(nt)
		})
		for _, m := range outc {
			for k, v := range m {
				c.OutcomeN(k[0]+":"+k[1], v)
			}
		}
		c.Extra("byte_strings_len_le3", bs)
		evals += bs * 5
		c.Sample(map[string]any{"kind": "bytes", "input_hex": "ff01", "reference": "value 255, consumed 2"})

		// 3. strings over the 5-symbol alphabet, length 4..10
		sym := []byte{0x00, 0x01, 0x7f, 0x80, 0xff}
		maxLen := vlib.Pick(c, 9, 10)
		var ss int64
		outc2 := make([]map[[2]string]int64, 25)
		c.ParallelFor(25, func(pre int) {
			m := map[[2]string]int64{}
			var k, nt int64
			for L := 4; L <= maxLen; L++ {
				buf := make([]byte, L)
				buf[0], buf[1] = sym[pre/5], sym[pre%5]
				idx := make([]int, L-2)
				for {
					for i, x := range idx {
						buf[2+i] = sym[x]
					}
					for _, u := range unpackers {
						m[[2]string{u.name, checkUnpack(c, u, buf)}]++
					}
					if L <= 7 {
						m[[2]string{"GetNextBlock", checkBlock(c, buf)}]++
					}
					k++
					if buf[0] >= 0x80 {
						nt++
					}
					i := 0
					for ; i < len(idx); i++ {
						idx[i]++
						if idx[i] < 5 {
							break
						}
						idx[i] = 0
					}
					if i == len(idx) {
						break
					}
				}
			}
			outc2[pre] = m
			atomic.AddInt64(&ss, k)
			c.NontrivialN(nt)
		})
		for _, m := range outc2 {
			for k, v := range m {
				c.OutcomeN(k[0]+":"+k[1], v)
			}
		}
		c.Extra("symbol_strings", ss)
		evals += ss * 4
		c.Sample(map[string]any{"kind": "bytes", "input_hex": "ffffffffffffffffff01", "reference": "value 2^64-1, consumed 10"})

		// 3b. long runs of continuation bytes (8..12 bytes over {80,ff}) followed by 0..2 further bytes: the width limit of
		// every unpacker, over-long (11+ byte) encodings, and the same through GetNextBlock
		tails := [][]byte{{}}
		tsym := []byte{0x00, 0x01, 0x02, 0x7f, 0x80, 0xff}
		for _, a := range tsym {
			tails = append(tails, []byte{a})
			for _, b := range tsym {
				tails = append(tails, []byte{a, b})
			}
		}
		var longRuns int64
		for k := 8; k <= 12; k++ {
			for mask := 0; mask < 1<<k; mask++ {
				run := make([]byte, k)
				for i := range run {
					run[i] = 0x80
					if mask&(1<<i) != 0 {
						run[i] = 0xff
					}
				}
				for _, t := range tails {
					in := append(append([]byte{}, run...), t...)
					for _, u := range unpackers {
						c.Outcome(u.name + ":long-run:" + checkUnpack(c, u, in))
					}
					c.Outcome("GetNextBlock:long-run:" + checkBlock(c, in))
					longRuns++
				}
			}
		}
		c.Extra("long_continuation_runs", longRuns)
		evals += longRuns * 5

		// 4. block extraction with boundary length prefixes
		var blocks int64
		for _, l := range boundaryValues() {
			for pl := 0; pl <= 12; pl++ {
				payload := bytes.Repeat([]byte{0xab}, pl)
				data := append(refPack(l), payload...)
				c.Outcome("GetNextBlock:" + checkBlock(c, data))
				blocks++
			}
		}
		for pl := 0; pl <= 300; pl++ {
			payload := make([]byte, pl)
			for i := range payload {
				payload[i] = byte(i)
			}
			var pre []byte
			p, stack := vlib.Catch(func() { pre = varint.PrependLength(payload) })
			if p != nil {
				c.Violate("prepend-never-panics", "PrependLength", vlib.PanicSite(stack), fmt.Sprint(p), witness{Func: "PrependLength", Value: uint64(pl)})
				continue
			}
			if !bytes.Equal(pre, append(refPack(uint64(pl)), payload...)) {
				c.Violate("prepend-length", "PrependLength", "wrong-bytes", fmt.Sprintf("PrependLength(len %d) = %x...", pl, pre[:min(len(pre), 4)]), witness{Func: "PrependLength", Value: uint64(pl)})
			}
			for _, tail := range [][]byte{nil, {0x01, 0x02}} {
				c.Outcome("GetNextBlock:" + checkBlock(c, append(append([]byte{}, pre...), tail...)))
				blocks++
			}
		}
		c.Extra("block_cases", blocks)
		c.Sample(map[string]any{"kind": "block", "input_hex": fmt.Sprintf("%x", append(refPack(1<<63), 0xab)), "reference": "error (claimed length 2^63 > 1 byte present)"})
		evals += blocks
		c.Add(evals, evals, evals)
	})
}

func replay(c *vlib.Ctx, w witness) {
	fmt.Printf("replaying %s input=%x value=%d\n", w.Func, w.Input, w.Value)
	for _, u := range unpackers {
		if u.name == w.Func {
			fmt.Println("outcome:", checkUnpack(c, u, w.Input))
			if w.Value != 0 {
				for _, wd := range []int{8, 16, 32, 64} {
					if w.Value>>uint(wd) == 0 || wd == 64 {
						checkRoundTrip(c, wd, w.Value)
					}
				}
			}
		}
	}
	switch w.Func {
	case "GetNextBlock":
		fmt.Println("outcome:", checkBlock(c, w.Input))
	case "Pack8":
		checkRoundTrip(c, 8, w.Value)
	case "Pack16":
		checkRoundTrip(c, 16, w.Value)
	case "Pack32":
		checkRoundTrip(c, 32, w.Value)
	case "Pack64", "EncodedSize":
		checkRoundTrip(c, 64, w.Value)
	}
	c.Add(1, 1, 1)
}
