#!/bin/bash
# usage: h/slog/build.sh <id> <output>  — engine-S harness over the instrumented log package
set -e
cd /verif
id="$1"; out="$2"
mkdir -p bin
[ -x bin/instr ] || (cd instr && go build -o /verif/bin/instr .)
rm -rf "build/$id.ov" && mkdir -p "build/$id.ov"
bin/instr -out "build/$id.ov" -full log -harness h/slog/overlay
go build -tags verif -overlay "build/$id.ov/overlay.json" -o "$out" "./h/$id"
