//go:build verif

package log

import (
	"context"
	"fmt"
	"strings"
	"sync"
	"time"

	"github.com/safing/portbase/zzverif/vsched"
)

// C20Params describes one closed driver of the logger.
type C20Params struct {
	// Producers: per producer the lines it logs, in order. Line spec: "<sev>:<text>", sev in t,d,i,w,e,c;
	// "T:<text>" is a context-tracer submission collecting "<text>-a" (info) and "<text>-b" (warning).
	Producers [][]string
	Sched     string // "free" (writer runs by itself) or "external" (EnableScheduling + TriggerWriter calls by another thread)
	Triggers  int    // number of TriggerWriter calls (external scheduling)
	Level     string // initial global level: t,d,i,w
	Change    string // "", or a level set concurrently by another thread; "pkg:<sev>" sets a package level for the producers' package
	Buf       int    // size of the log buffer (0 = the real 1024)
	Shutdown  int    // root calls Shutdown after it has seen this many log calls return (-1: after everything went idle)
	Second    bool   // a second thread calls Shutdown concurrently with the root
	PkgInit   string // "", or a package level for the producers' package set before Start (Change "pkgdrop": a later SetPkgLevels without that package, "pkgunset": UnSetPkgLevels - both fall back to the global level)
	PkgName   string // the package the PkgInit level is set for ("" = "log", the package of the in-package call sites; "c20" = the harness main package, see C20External)
	Slow      int    // the adapter takes this many virtual milliseconds per line
	Inline    bool   // Start runs inside the explored window and the root itself logs the lines of producer 0 before it calls Shutdown (no Quiesce after Start)
}

func (p C20Params) Name() string {
	var ps []string
	for _, l := range p.Producers {
		ps = append(ps, strings.Join(l, ","))
	}
	n := fmt.Sprintf("c20/%s/sched=%s%d/level=%s/change=%s/buf=%d/shutdown=%d/second=%v", strings.Join(ps, "|"), p.Sched, p.Triggers, p.Level, p.Change, p.Buf, p.Shutdown, p.Second)
	if p.PkgInit != "" {
		n += "/pkginit=" + p.PkgInit
	}
	if p.PkgName != "" {
		n += "/pkg=" + p.PkgName
	}
	if p.Slow > 0 {
		n += fmt.Sprintf("/slow=%dms", p.Slow)
	}
	if p.Inline {
		n += "/inline"
	}
	return n
}

func c20sev(s string) Severity {
	switch s {
	case "t":
		return TraceLevel
	case "d":
		return DebugLevel
	case "i":
		return InfoLevel
	case "w":
		return WarningLevel
	case "e":
		return ErrorLevel
	case "c":
		return CriticalLevel
	}
	panic("bad severity " + s)
}

// C20External makes one log call of the given kind from a call site outside package log (set by the harness main package,
// whose directory name "c20" is what the logger takes as the caller's package). Kinds: "Warningf" (plain function),
// "N.Warningf" (method on a nil tracer), "R.Warningf" (the only line of a real tracer, followed by Submit).
// It reports whether anything was submitted (false: no tracer is available at the level in force).
var C20External func(kind, text string) bool

func c20kindSev(kind string) Severity {
	k := strings.TrimSuffix(strings.TrimPrefix(strings.TrimPrefix(kind, "N."), "R."), "f")
	switch k {
	case "Trace":
		return TraceLevel
	case "Debug":
		return DebugLevel
	case "Info":
		return InfoLevel
	case "Warning":
		return WarningLevel
	case "Error":
		return ErrorLevel
	case "Critical":
		return CriticalLevel
	}
	panic("bad kind " + kind)
}

type c20call struct {
	producer, idx int
	site          int // call site of the log call (lines from different call sites are not identical, whatever their text)
	text          string
	sev           Severity
	tracer        bool
	startSeq      int
	retSeq        int
	lvlStart      [2]Severity // possible levels in force at call start (old, new during a change)
	lvlEnd        [2]Severity
}

type c20delivery struct {
	text   string
	sev    Severity
	dup    uint64
	seq    int
	tracer []string
}

type c20state struct {
	seq       int
	calls     []*c20call
	delivered []c20delivery
	level     [2]Severity // level in force: [0]==[1] unless a change is in progress
	returned  int
	shutCall  int
	shutRet   int
	issues    []vsched.Issue
	slow      time.Duration
}

var c20 *c20state

func c20fail(clause, disc, format string, a ...interface{}) {
	for _, is := range c20.issues {
		if is.Clause == clause && is.Disc == disc {
			return
		}
	}
	c20.issues = append(c20.issues, vsched.Issue{Clause: clause, Disc: disc, Detail: fmt.Sprintf(format, a...)})
}

type c20adapter struct{}

func (c20adapter) Write(msg Message, duplicates uint64) {
	vsched.Point("adapter-slow") // a slow output: anything may happen while a line is being written
	s := c20
	if s.slow > 0 {
		vsched.Sleep(s.slow)
	}
	s.seq++
	d := c20delivery{text: msg.Text(), sev: msg.Severity(), dup: duplicates, seq: s.seq}
	if ll, ok := msg.(*logLine); ok && ll.tracer != nil {
		for _, tl := range ll.tracer.logs {
			d.tracer = append(d.tracer, tl.msg)
		}
	}
	s.delivered = append(s.delivered, d)
	vsched.Emit(fmt.Sprintf("deliver:%s+%d", d.text, duplicates))
}

// c20emit logs one line from ONE call site per severity (identical consecutive lines can be merged only then).
func c20emit(sev Severity, text string) {
	switch sev {
	case TraceLevel:
		Trace(text)
	case DebugLevel:
		Debug(text)
	case InfoLevel:
		Info(text)
	case WarningLevel:
		Warning(text)
	case ErrorLevel:
		Error(text)
	case CriticalLevel:
		Critical(text)
	}
}

// c20emitOtherSite logs an info line from a second call site in this file (another source line).
func c20emitOtherSite(text string) { Info(text) }

// c20viaTracer is the ONE call site shared by plain lines (nil tracer) and the main lines of tracer submissions.
func c20viaTracer(tr *ContextTracer, text string) { tr.Warning(text) }

func c20enabled(sev Severity, lvl Severity) bool { return sev >= lvl }

// c20produce makes one log call for producer pi and records it.
func c20produce(s *c20state, pi, li int, spec string) {
	parts := strings.SplitN(spec, ":", 2)
	text := fmt.Sprintf("p%d-%s", pi, parts[1])
	call := &c20call{producer: pi, idx: li, text: text}
	vsched.Point("produce")
	s.seq++
	call.startSeq = s.seq
	call.lvlStart = s.level
	if parts[0] == "T" {
		call.tracer = true
		call.sev = WarningLevel
		_, tr := AddTracer(context.Background())
		if tr == nil {
			// tracing is only available at trace level: nothing is submitted
			call.sev = 0 // below every level: must not be emitted
		} else {
			tr.Info(text + "-a")
			c20viaTracer(tr, text)
			tr.Submit()
		}
	} else if strings.HasPrefix(parts[0], "X.") {
		// one of the parallel entry points, called from outside package log
		kind := strings.TrimPrefix(parts[0], "X.")
		call.sev = c20kindSev(kind)
		if !C20External(kind, text) {
			call.sev = 0 // nothing was submitted: must not be emitted
		}
	} else if parts[0] == "N" {
		// a plain warning logged through the tracer API without a tracer: same call site as the main line of a submission
		call.sev = WarningLevel
		c20viaTracer(nil, text)
	} else if parts[0] == "i2" {
		// an info line from another source line of the same file
		call.sev = InfoLevel
		call.site = 1
		c20emitOtherSite(text)
	} else {
		call.sev = c20sev(parts[0])
		c20emit(call.sev, text)
	}
	s.seq++
	call.retSeq = s.seq
	call.lvlEnd = s.level
	s.calls = append(s.calls, call)
	s.returned++
}

// VerifC20 builds the scenario.
func VerifC20(p C20Params) *vsched.Scenario {
	sc := &vsched.Scenario{Name: p.Name(), MaxSteps: 400000}
	sc.Reset = func() {
		VerifReset()
		c20 = &c20state{shutCall: -1, shutRet: -1, slow: time.Duration(p.Slow) * time.Millisecond}
	}
	sc.Body = func() {
		s := c20
		SetAdapter(c20adapter{})
		if p.Sched == "external" {
			EnableScheduling()
		}
		lvl := c20sev(p.Level)
		s.level = [2]Severity{lvl, lvl}
		SetLogLevel(lvl)
		if p.PkgInit != "" {
			pl := c20sev(p.PkgInit)
			pn := p.PkgName
			if pn == "" {
				pn = "log"
			}
			SetPkgLevels(map[string]Severity{pn: pl})
			s.level = [2]Severity{pl, pl}
		}
		total := 0
		for _, l := range p.Producers {
			total += len(l)
		}
		retCh := make(chan struct{}, total+1)
		produce := func(pi, li int, spec string) {
			c20produce(s, pi, li, spec)
			retCh <- struct{}{}
		}
		if p.Inline {
			// nobody uses the buffer before Start
			if p.Buf > 0 {
				logBuffer = make(chan *logLine, p.Buf)
			}
			vsched.Explore(true)
			if err := Start(); err != nil {
				c20fail("harness", "start", "Start failed: %v", err)
				return
			}
			for li, spec := range p.Producers[0] {
				produce(0, li, spec)
			}
			s.seq++
			s.shutCall = s.seq
			vsched.Ev("Shutdown-called")
			Shutdown()
			s.seq++
			s.shutRet = s.seq
			vsched.Ev("Shutdown-returned")
			vsched.Explore(false)
			vsched.Quiesce()
			c20judge(p, s)
			return
		}
		if err := Start(); err != nil {
			c20fail("harness", "start", "Start failed: %v", err)
			return
		}
		SetLogLevel(lvl)
		vsched.Quiesce()
		if p.Buf > 0 {
			// the writer is parked waiting for work: shrink the buffer so that overflow handling is reached with a few lines
			logBuffer = make(chan *logLine, p.Buf)
		}

		vsched.Explore(true)
		var wg sync.WaitGroup
		for pi, lines := range p.Producers {
			pi, lines := pi, lines
			wg.Add(1)
			go func() {
				defer wg.Done()
				for li, spec := range lines {
					produce(pi, li, spec)
				}
			}()
		}
		if p.Sched == "external" {
			wg.Add(1)
			go func() {
				defer wg.Done()
				for i := 0; i < p.Triggers; i++ {
					vsched.Point("trigger")
					TriggerWriter()
				}
			}()
		}
		if p.Change != "" {
			wg.Add(1)
			go func() {
				defer wg.Done()
				vsched.Point("change-level")
				if p.Change == "pkgdrop" || p.Change == "pkgunset" {
					// the package loses its own level: the global level is in force again
					s.level[1] = lvl
					if p.Change == "pkgdrop" {
						SetPkgLevels(map[string]Severity{"zzother": TraceLevel})
					} else {
						UnSetPkgLevels()
					}
					s.level[0] = lvl
				} else if strings.HasPrefix(p.Change, "pkg:") {
					nl := c20sev(strings.TrimPrefix(p.Change, "pkg:"))
					s.level[1] = nl
					SetPkgLevels(map[string]Severity{"log": nl})
					s.level[0] = nl
				} else {
					nl := c20sev(p.Change)
					s.level[1] = nl
					SetLogLevel(nl)
					s.level[0] = nl
				}
			}()
		}
		// root: shut down after the configured number of log calls returned
		if p.Shutdown >= 0 {
			for i := 0; i < p.Shutdown; i++ {
				<-retCh
			}
		} else {
			wg.Wait()
			vsched.Quiesce()
			vsched.Advance(50 * 1000 * 1000) // 50 ms: let back-off timers fire
		}
		secondDone := make(chan struct{})
		call2, ret2 := -1, -1
		if p.Second {
			go func() {
				defer close(secondDone)
				vsched.Point("second-shutdown")
				s.seq++
				call2 = s.seq
				Shutdown()
				s.seq++
				ret2 = s.seq
				vsched.Ev("second-Shutdown-returned")
			}()
		}
		s.seq++
		s.shutCall = s.seq
		vsched.Ev("Shutdown-called")
		Shutdown()
		s.seq++
		s.shutRet = s.seq
		vsched.Ev("Shutdown-returned")
		if p.Second {
			<-secondDone
			// every caller's return is judged: the request is the earlier call, the return the earlier return
			if call2 < s.shutCall {
				s.shutCall = call2
			}
			if ret2 < s.shutRet {
				s.shutRet = ret2
			}
		}
		vsched.Explore(false)
		// let still running log calls return (they may or may not be delivered), then judge
		vsched.Quiesce()
		c20judge(p, s)
	}
	sc.Check = func(r *vsched.Result) []vsched.Issue {
		var out []vsched.Issue
		if c20 != nil {
			out = append(out, c20.issues...)
		}
		if r.Panic != "" {
			out = append(out, vsched.Issue{Clause: "no-uncontained-panic", Disc: r.PanicThread, Detail: r.Panic})
		}
		if r.Deadlock {
			out = append(out, vsched.Issue{Clause: "no-deadlock", Disc: "deadlock", Detail: "blocked: " + strings.Join(r.Blocked, " | ")})
		}
		return out
	}
	return sc
}

func c20describe(s *c20state) string {
	var sb strings.Builder
	sb.WriteString("calls:")
	for _, c := range s.calls {
		fmt.Fprintf(&sb, " [%s sev=%d start=%d ret=%d lvl=%v/%v]", c.text, c.sev, c.startSeq, c.retSeq, c.lvlStart, c.lvlEnd)
	}
	fmt.Fprintf(&sb, " shutdown: called=%d returned=%d; delivered:", s.shutCall, s.shutRet)
	for _, d := range s.delivered {
		fmt.Fprintf(&sb, " (%s sev=%d dup=%d @%d %v)", d.text, d.sev, d.dup, d.seq, d.tracer)
	}
	return sb.String()
}

func c20judge(p C20Params, s *c20state) {
	// expand merged lines
	type item struct {
		text string
		seq  int
		sev  Severity
		del  int // index of the delivery this item was expanded from
	}
	sitesOf := map[int]map[int]bool{} // delivery index -> call sites of the calls it stands for
	perProducer := map[int][]item{}
	for di, d := range s.delivered {
		var pi int
		if _, err := fmt.Sscanf(d.text, "p%d-", &pi); err != nil {
			c20fail("only-logged-lines-are-emitted", "unknown-line", "a line that nobody logged was handed to the adapter: %q\n%s", d.text, c20describe(s))
			continue
		}
		for k := uint64(0); k <= d.dup; k++ {
			perProducer[pi] = append(perProducer[pi], item{d.text, d.seq, d.sev, di})
		}
	}
	for pi := range p.Producers {
		var calls []*c20call
		for _, c := range s.calls {
			if c.producer == pi {
				calls = append(calls, c)
			}
		}
		got := perProducer[pi]
		gi := 0
		for _, c := range calls {
			must, may := true, false
			for _, l := range []Severity{c.lvlStart[0], c.lvlStart[1], c.lvlEnd[0], c.lvlEnd[1]} {
				if c20enabled(c.sev, l) {
					may = true
				} else {
					must = false
				}
			}
			present := gi < len(got) && got[gi].text == c.text
			switch {
			case present && !may:
				c20fail("nothing-below-the-level-is-emitted", "below-level", "line %q (severity %d) was emitted although the level in force was %v\n%s", c.text, c.sev, c.lvlStart, c20describe(s))
				gi++
			case present:
				// delivered: in order, once, with the severity it was logged with
				if sitesOf[got[gi].del] == nil {
					sitesOf[got[gi].del] = map[int]bool{}
				}
				sitesOf[got[gi].del][c.site] = true
				if got[gi].sev != c.sev {
					c20fail("line-keeps-its-severity", "other-severity", "line %q was logged with severity %d and handed to the adapter with severity %d\n%s", c.text, c.sev, got[gi].sev, c20describe(s))
				}
				if c.retSeq < s.shutCall && must && got[gi].seq > s.shutRet {
					c20fail("shutdown-returns-after-everything-logged-before-was-written", "written-after-return", "line %q was logged before Shutdown was called but written after it returned\n%s", c.text, c20describe(s))
				}
				gi++
			case must && c.retSeq < s.shutCall:
				// logged (call returned) before shutdown was requested: must have been handed to the adapter by now
				// distinguish lost from reordered
				found := false
				for _, g := range got {
					if g.text == c.text {
						found = true
					}
				}
				if found {
					c20fail("per-goroutine-order-preserved", "reordered", "lines of producer %d reached the adapter out of order (expected %q next)\n%s", pi, c.text, c20describe(s))
				} else {
					c20fail("enabled-line-is-emitted-exactly-once", "lost", "line %q was logged at an enabled level before Shutdown was requested but never handed to the adapter\n%s", c.text, c20describe(s))
				}
			default:
				// may be absent: level change in flight, or logged concurrently with / after the shutdown request
			}
		}
		if gi < len(got) {
			c20fail("enabled-line-is-emitted-exactly-once", "duplicated-or-reordered", "producer %d: unexpected extra/reordered line %q handed to the adapter\n%s", pi, got[gi].text, c20describe(s))
		}
	}
	// only identical lines are merged: a line handed over with a repetition count stands for calls from one call site
	// (the adapter sees file and line number of the first one only)
	for di, sites := range sitesOf {
		if len(sites) > 1 {
			c20fail("only-identical-lines-are-merged", "different-call-sites", "line %q reached the adapter once with %d repetition(s), standing for calls from %d different source lines\n%s", s.delivered[di].text, s.delivered[di].dup, len(sites), c20describe(s))
		}
	}
	// tracer submissions carry all their collected lines, and are never merged with plain lines of the same text
	if p.Shutdown == -1 && p.Change == "" {
		withTracer, wantTracer := map[string]int{}, map[string]int{}
		for _, d := range s.delivered {
			if len(d.tracer) > 0 {
				withTracer[d.text] += int(d.dup) + 1
				if len(d.tracer) != 1 || d.tracer[0] != d.text+"-a" {
					c20fail("tracer-submission-carries-all-lines", "lines-missing", "tracer submission %q reached the adapter with collected lines %v\n%s", d.text, d.tracer, c20describe(s))
				}
			}
		}
		for _, c := range s.calls {
			if c.tracer && c.sev != 0 {
				wantTracer[c.text]++
			}
		}
		for t, n := range wantTracer {
			if withTracer[t] != n {
				c20fail("tracer-submission-carries-all-lines", "submission-merged-or-lost", "%d tracer submissions with main line %q were made, %d lines with collected trace lines reached the adapter\n%s", n, t, withTracer[t], c20describe(s))
			}
		}
	}
}
