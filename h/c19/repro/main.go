// Reproduction of the C19 findings against the real updater, without the harness:
//
//	cd /verif && GOFLAGS=-mod=mod GOPROXY=off go run ./h/c19/repro
//
// Uses only the public API. Every block prints what the unchanged code does.
package main

import (
	"fmt"
	"os"
	"path/filepath"

	"github.com/safing/portbase/updater"
	"github.com/safing/portbase/utils"
)

func newReg(devMode bool) (*updater.ResourceRegistry, string) {
	dir, err := os.MkdirTemp("", "c19-repro-")
	if err != nil {
		panic(err)
	}
	reg := &updater.ResourceRegistry{DevMode: devMode}
	if err := reg.Initialize(utils.NewDirStructure(dir, 0o755)); err != nil {
		panic(err)
	}
	return reg, dir
}

func addWithFile(reg *updater.ResourceRegistry, dir, id, version string) {
	p := filepath.Join(dir, filepath.FromSlash(updater.GetVersionedPath(id, version)))
	_ = os.MkdirAll(filepath.Dir(p), 0o755)
	if err := os.WriteFile(p, []byte(version), 0o644); err != nil {
		panic(err)
	}
	if err := reg.AddResource(id, version, nil, true, false, false); err != nil {
		panic(err)
	}
}

func show(reg *updater.ResourceRegistry, dir, id string) {
	r := reg.Export()[id]
	for _, rv := range r.Versions {
		_, err := os.Stat(filepath.Join(dir, filepath.FromSlash(updater.GetVersionedPath(id, rv.VersionNumber))))
		fmt.Printf("   listed %-6s available=%-5v file on disk=%v\n", rv.VersionNumber, rv.Available, err == nil)
	}
	names, _ := filepath.Glob(filepath.Join(dir, "pkg", "*"))
	for i := range names {
		names[i] = filepath.Base(names[i])
	}
	fmt.Printf("   selected=%v  directory: %v\n", r.SelectedVersion, names)
}

func main() {
	const id = "pkg/app.zip"

	fmt.Println("1) GetSelectedVersions with one resource that has a selected version:")
	func() {
		defer func() { fmt.Println("   recovered panic:", recover()) }()
		reg, dir := newReg(false)
		defer os.RemoveAll(dir)
		addWithFile(reg, dir, id, "1.0.0")
		reg.SelectVersions()
		fmt.Println("   returned", reg.GetSelectedVersions())
	}()

	fmt.Println("2) SelectVersions, then Purge(0) with six available versions (keeps the entries of the deleted files):")
	func() {
		reg, dir := newReg(false)
		defer os.RemoveAll(dir)
		for _, v := range []string{"1.0.0", "1.1.0", "1.2.0", "1.3.0", "1.4.0", "1.5.0"} {
			addWithFile(reg, dir, id, v)
		}
		reg.SelectVersions()
		reg.Purge(0)
		show(reg, dir, id)
		reg.SelectVersions()
		fmt.Printf("   after the next SelectVersions the selected version is %v\n", reg.Export()[id].SelectedVersion)
	}()

	fmt.Println("3) Purge(0) before any SelectVersions (version list still in insertion order, oldest first): the newest versions are deleted:")
	func() {
		reg, dir := newReg(false)
		defer os.RemoveAll(dir)
		for _, v := range []string{"1.0.0", "1.1.0", "1.2.0", "1.3.0", "1.4.0", "1.5.0"} {
			addWithFile(reg, dir, id, v)
		}
		reg.Purge(0)
		show(reg, dir, id)
	}()

	fmt.Println("4) AddResource(\"0.0.0\", available) then AddResource(\"0\", not available), dev mode: two entries for 0.0.0, the dev version is not selected:")
	func() {
		reg, dir := newReg(true)
		defer os.RemoveAll(dir)
		addWithFile(reg, dir, id, "1.0.0")
		addWithFile(reg, dir, id, "0.0.0")
		if err := reg.AddResource(id, "0", nil, false, false, false); err != nil {
			panic(err)
		}
		reg.SelectVersions()
		show(reg, dir, id)
	}()

	fmt.Println("5) dev mode, online, auto-download index; versions 0.0.0-beta, 0.0.0 (available), 1.0.0: the dev version is not selected:")
	func() {
		reg, dir := newReg(true)
		defer os.RemoveAll(dir)
		reg.Online = true
		idx := &updater.Index{Path: "stable.json", AutoDownload: true}
		addWithFile(reg, dir, id, "0.0.0")
		for _, v := range []string{"0.0.0-beta", "1.0.0"} {
			if err := reg.AddResource(id, v, idx, false, false, false); err != nil {
				panic(err)
			}
		}
		reg.SelectVersions()
		show(reg, dir, id)
	}()
}
