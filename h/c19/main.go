// C19: the updater selects the prescribed version and never purges what is needed.
// Engine Q, four bounded-exhaustive parts on the real updater code:
//
//	A  every version pool x per-version flag vector x registry flag combination: selectVersion
//	   against the reference priority cascade of the property statement;
//	B  breadth-first search over histories of AddVersion / Blacklist / GetFile / selectVersion /
//	   Purge(keep) / flag toggles on a real registry with a real storage directory, states
//	   de-duplicated on (flags, version list with flags in list order, selected, active, files);
//	C  every identifier x version of the documented file-name grammar: GetVersionedPath and
//	   GetIdentifierAndVersion against a reference composition, plus ScanStorage on real files;
//	D  GetSelectedVersions against the selected versions of every resource.
package main

import (
	"flag"
	"fmt"
	"os"
	"path/filepath"
	"sort"
	"strconv"
	"strings"
	"sync"
	"time"

	"github.com/safing/portbase/log"
	"github.com/safing/portbase/updater"
	"github.com/safing/portbase/utils"

	"verif/vlib"
)

const resID = "pkg/app.zip"

// ---------- reference: semantic versions ----------

type ver struct {
	n   [3]int
	pre string
}

// parseVer accepts N[.N[.N]][-suffix] with leading zeros (the spellings the updater is fed with).
func parseVer(s string) (ver, bool) {
	var v ver
	main := s
	if i := strings.IndexByte(s, '-'); i >= 0 {
		main, v.pre = s[:i], s[i+1:]
		if v.pre == "" {
			return v, false
		}
	}
	parts := strings.Split(main, ".")
	if len(parts) == 0 || len(parts) > 3 {
		return v, false
	}
	for i, p := range parts {
		x, err := strconv.Atoi(p)
		if err != nil || x < 0 {
			return v, false
		}
		v.n[i] = x
	}
	return v, true
}

func mustVer(s string) ver {
	v, ok := parseVer(s)
	if !ok {
		panic("harness: bad version " + s)
	}
	return v
}

// cmp: numeric triple first; a version without pre-release suffix is newer than the same triple with one;
// two suffixes compare as ASCII strings (semver.org rule for alphabetic identifiers).
func (a ver) cmp(b ver) int {
	for i := 0; i < 3; i++ {
		if a.n[i] != b.n[i] {
			if a.n[i] < b.n[i] {
				return -1
			}
			return 1
		}
	}
	switch {
	case a.pre == b.pre:
		return 0
	case a.pre == "":
		return 1
	case b.pre == "":
		return -1
	}
	return strings.Compare(a.pre, b.pre)
}

func (a ver) dev() bool { return a.n == [3]int{} && a.pre == "" }

func (a ver) String() string {
	s := fmt.Sprintf("%d.%d.%d", a.n[0], a.n[1], a.n[2])
	if a.pre != "" {
		s += "-" + a.pre
	}
	return s
}

// ---------- reference: the priority cascade of the statement ----------

type cfg struct {
	Online bool   `json:"online"`
	Dev    bool   `json:"dev_mode"`
	Pre    bool   `json:"use_pre_releases"`
	Index  string `json:"index"` // none | noauto | auto
}

func (c cfg) String() string {
	b := func(x bool) string {
		if x {
			return "1"
		}
		return "0"
	}
	return "online=" + b(c.Online) + ",dev=" + b(c.Dev) + ",pre=" + b(c.Pre) + ",index=" + c.Index
}

func parseCfg(s string) (cfg, bool) {
	var c cfg
	for _, kv := range strings.Split(s, ",") {
		p := strings.SplitN(kv, "=", 2)
		if len(p) != 2 {
			return c, false
		}
		switch p[0] {
		case "online":
			c.Online = p[1] == "1"
		case "dev":
			c.Dev = p[1] == "1"
		case "pre":
			c.Pre = p[1] == "1"
		case "index":
			c.Index = p[1]
		default:
			return c, false
		}
	}
	return c, c.Index == "none" || c.Index == "noauto" || c.Index == "auto"
}

func allCfgs() []cfg {
	var out []cfg
	for _, idx := range []string{"none", "noauto", "auto"} {
		for m := 0; m < 8; m++ {
			out = append(out, cfg{Online: m&1 != 0, Dev: m&2 != 0, Pre: m&4 != 0, Index: idx})
		}
	}
	return out
}

func (c cfg) index() *updater.Index {
	switch c.Index {
	case "noauto":
		return &updater.Index{Path: "stable.json", AutoDownload: false}
	case "auto":
		return &updater.Index{Path: "stable.json", AutoDownload: true}
	}
	return nil
}

// ent is one listed version with its flags.
type ent struct {
	Num string `json:"v"`
	A   bool   `json:"available,omitempty"`
	C   bool   `json:"current_release,omitempty"`
	P   bool   `json:"pre_release,omitempty"`
	B   bool   `json:"blacklisted,omitempty"`
	v   ver
}

func (e ent) String() string {
	s := e.Num + "["
	for _, f := range []struct {
		on bool
		c  string
	}{{e.A, "A"}, {e.C, "C"}, {e.P, "P"}, {e.B, "B"}} {
		if f.on {
			s += f.c
		}
	}
	return s + "]"
}

// selectable: not blacklisted and either locally available or allowed to be downloaded on request
// (registry online, resource part of an index, index may auto-download).
func selectable(e ent, cf cfg) bool {
	return !e.B && (e.A || (cf.Online && cf.Index == "auto"))
}

func newestOf(list []ent, keep func(ent) bool) []int {
	var best []int
	for i, e := range list {
		if !keep(e) {
			continue
		}
		switch {
		case len(best) == 0 || e.v.cmp(list[best[0]].v) > 0:
			best = []int{i}
		case e.v.cmp(list[best[0]].v) == 0:
			best = append(best, i)
		}
	}
	return best
}

// prescribed returns the step of the documented order that decides and the indexes of the entries it
// allows (more than one only if the list holds several entries of the same version).
func prescribed(list []ent, cf cfg) (step string, ok []int) {
	if len(list) == 0 {
		return "none", nil
	}
	if cf.Dev {
		for i, e := range list {
			if e.v.dev() && e.A {
				ok = append(ok, i)
			}
		}
		if len(ok) > 0 {
			return "dev", ok
		}
	}
	for i, e := range list {
		if e.C && selectable(e, cf) {
			ok = append(ok, i)
		}
	}
	if len(ok) > 0 {
		return "current", ok
	}
	if cf.Pre {
		if ok = newestOf(list, func(e ent) bool { return selectable(e, cf) }); len(ok) > 0 {
			return "newest-selectable", ok
		}
	}
	if ok = newestOf(list, func(e ent) bool { return !e.P && selectable(e, cf) }); len(ok) > 0 {
		return "newest-stable", ok
	}
	return "fallback-newest", newestOf(list, func(ent) bool { return true })
}

// structure tags of a list that go into discriminators (classes of inputs, never values)
func listTags(list []ent) string {
	dup, below := false, false
	for i, e := range list {
		if e.v.cmp(ver{}) < 0 {
			below = true
		}
		for _, f := range list[:i] {
			if f.v.cmp(e.v) == 0 {
				dup = true
			}
		}
	}
	s := ""
	if dup {
		s += "+duplicate-entries"
	}
	if below {
		s += "+version-below-dev"
	}
	return s
}

// judgeSelection compares the implementation's selected entry (index into list, -1 nil, -2 not listed)
// with the cascade. Returns clause and discriminator, "" if fine.
func judgeSelection(list []ent, cf cfg, got int) (step, clause, disc string) {
	step, ok := prescribed(list, cf)
	if step == "none" {
		return step, "", ""
	}
	for _, i := range ok {
		// the statement speaks about versions: another list entry of the prescribed version is the prescribed version
		if i == got || (got >= 0 && list[i].v.cmp(list[got].v) == 0) {
			return step, "", ""
		}
	}
	class := ""
	switch {
	case got == -1:
		class = "nothing"
	case got == -2:
		class = "unlisted-version"
	case list[got].B && step != "fallback-newest" && step != "dev":
		return step, "blacklisted-only-as-last-resort", "want-" + step + "-got-blacklisted" + listTags(list)
	default:
		class = "other-version"
	}
	return step, "selection-cascade", "want-" + step + "-got-" + class + listTags(list)
}

// ---------- reference: file names ----------

// refVersionedPath: the version, dots written as dashes and prefixed with "_v", goes in front of the first
// dot of the file name (or at its end).
func refVersionedPath(id, version string) string {
	dir, file := "", id
	if i := strings.LastIndex(id, "/"); i >= 0 {
		dir, file = id[:i+1], id[i+1:]
	}
	v := "_v" + strings.ReplaceAll(version, ".", "-")
	if j := strings.Index(file, "."); j >= 0 {
		return dir + file[:j] + v + file[j:]
	}
	return dir + file + v
}

// ---------- witnesses ----------

type witness struct {
	Part string `json:"part"` // select | history | filename | scan | selected-versions
	// select
	Versions []ent    `json:"versions,omitempty"` // insertion order
	CfgSeq   []string `json:"settings_sequence,omitempty"`
	Cfg      string   `json:"cfg,omitempty"`
	// history
	Seed    string   `json:"seed,omitempty"`
	Phase   string   `json:"phase,omitempty"`
	History []string `json:"history,omitempty"`
	// filename
	Identifier string `json:"identifier,omitempty"`
	Version    string `json:"version,omitempty"`
	// selected-versions
	Resources int `json:"resources,omitempty"`
}

// ---------- deterministic violation reporting ----------

// collector keeps, per signature, the violation with the smallest enumeration position, so that the
// witness written to the replay file does not depend on which worker got there first.
type vrec struct {
	pos                        [4]int
	clause, site, disc, detail string
	wit                        witness
	n                          int
}

type collector struct {
	mu sync.Mutex
	m  map[string]*vrec
}

var col = &collector{m: map[string]*vrec{}}

func posLess(a, b [4]int) bool {
	for i := range a {
		if a[i] != b[i] {
			return a[i] < b[i]
		}
	}
	return false
}

func (k *collector) add(pos [4]int, clause, site, disc string, detail func() string, wit witness) {
	sig := clause + "|" + site + "|" + disc
	k.mu.Lock()
	defer k.mu.Unlock()
	r := k.m[sig]
	if r == nil {
		k.m[sig] = &vrec{pos: pos, clause: clause, site: site, disc: disc, detail: detail(), wit: wit, n: 1}
		return
	}
	r.n++
	if posLess(pos, r.pos) {
		r.pos, r.detail, r.wit = pos, detail(), wit
	}
}

// flush hands the collected violations to vlib in enumeration order.
func (k *collector) flush(c *vlib.Ctx) {
	k.mu.Lock()
	defer k.mu.Unlock()
	var recs []*vrec
	for _, r := range k.m {
		recs = append(recs, r)
	}
	sort.Slice(recs, func(i, j int) bool { return posLess(recs[i].pos, recs[j].pos) })
	for _, r := range recs {
		for i := 0; i < r.n; i++ {
			c.Violate(r.clause, r.site, r.disc, r.detail, r.wit)
		}
	}
	k.m = map[string]*vrec{}
}

// ---------- worker context: one storage directory and registry factory per worker ----------

type wctx struct {
	dir  string
	reg  *updater.ResourceRegistry // one registry per worker directory; resources are reset for every history
	disk map[string]string         // what the harness left in the storage directory: path -> file | empty-dir | non-empty-dir
}

// reconcile makes the storage directory hold exactly want (path -> kind).
func (wc *wctx) reconcile(want map[string]string) error {
	if wc.disk == nil {
		wc.disk = map[string]string{}
	}
	for p, k := range wc.disk {
		if want[p] != k {
			var err error
			if k == "non-empty-dir" {
				err = os.RemoveAll(p)
			} else {
				err = os.Remove(p)
			}
			if err != nil {
				return err
			}
			delete(wc.disk, p)
		}
	}
	for p, k := range want {
		if wc.disk[p] == k {
			continue
		}
		var err error
		switch k {
		case "file":
			// one system call per file: hard link to a template file of this worker
			tmpl := filepath.Join(wc.dir, "template-file")
			err = os.Link(tmpl, p)
			if err != nil && os.IsNotExist(err) {
				if err = os.MkdirAll(filepath.Dir(p), 0o755); err == nil {
					if err = os.WriteFile(tmpl, []byte("x"), 0o644); err == nil {
						err = os.Link(tmpl, p)
					}
				}
			}
		case "empty-dir":
			err = os.MkdirAll(p, 0o755)
		case "non-empty-dir":
			if err = os.MkdirAll(p, 0o755); err == nil {
				err = os.WriteFile(filepath.Join(p, "content"), []byte("x"), 0o644)
			}
		}
		if err != nil {
			return err
		}
		wc.disk[p] = k
	}
	return nil
}

// observe lists the directories of the wanted paths once after the implementation ran, drops from the record
// what is no longer there and returns what is.
func (wc *wctx) observe(want map[string]string) map[string]bool {
	listed := map[string]map[string]bool{}
	present := make(map[string]bool, len(want))
	for p := range want {
		d := filepath.Dir(p)
		names, ok := listed[d]
		if !ok {
			names = map[string]bool{}
			if es, err := os.ReadDir(d); err == nil {
				for _, e := range es {
					names[e.Name()] = true
				}
			}
			listed[d] = names
		}
		if names[filepath.Base(p)] {
			present[p] = true
		} else {
			delete(wc.disk, p)
		}
	}
	return present
}

// registry returns the worker's registry with no resources and the given settings.
func (wc *wctx) registry(cf cfg) (*updater.ResourceRegistry, error) {
	if wc.reg == nil {
		reg, err := newRegistry(wc.dir, cf)
		if err != nil {
			return nil, err
		}
		wc.reg = reg
	}
	wc.reg.ResetResources()
	wc.reg.Online = cf.Online
	wc.reg.SetDevMode(cf.Dev)
	wc.reg.SetUsePreReleases(cf.Pre)
	return wc.reg, nil
}

func newRegistry(dir string, cf cfg) (*updater.ResourceRegistry, error) {
	reg := &updater.ResourceRegistry{Name: "verif", Online: cf.Online, DevMode: cf.Dev, UsePreReleases: cf.Pre}
	err := reg.Initialize(utils.NewDirStructure(dir, 0o755))
	return reg, err
}

type pool struct {
	ch chan *wctx
}

func newPool(base string, n int) (*pool, error) {
	p := &pool{ch: make(chan *wctx, n)}
	for i := 0; i < n; i++ {
		d := filepath.Join(base, fmt.Sprintf("w%02d", i))
		if err := os.MkdirAll(d, 0o755); err != nil {
			return nil, err
		}
		p.ch <- &wctx{dir: d}
	}
	return p, nil
}

// ---------- snapshot of the implementation's resource ----------

type snap struct {
	list     []ent
	sel, act int // index into list, -1 nil, -2 not listed
}

var verCache sync.Map // version string -> ver

func entOf(rv *updater.ResourceVersion) ent {
	var v ver
	if x, ok := verCache.Load(rv.VersionNumber); ok {
		v = x.(ver)
	} else {
		v, _ = parseVer(rv.VersionNumber)
		verCache.Store(rv.VersionNumber, v)
	}
	return ent{Num: rv.VersionNumber, A: rv.Available, C: rv.CurrentRelease, P: rv.PreRelease, B: rv.Blacklisted, v: v}
}

func snapshot(res *updater.Resource) snap {
	s := snap{sel: -1, act: -1}
	if res.SelectedVersion != nil {
		s.sel = -2
	}
	if res.ActiveVersion != nil {
		s.act = -2
	}
	for i, rv := range res.Versions {
		s.list = append(s.list, entOf(rv))
		if rv == res.SelectedVersion {
			s.sel = i
		}
		if rv == res.ActiveVersion {
			s.act = i
		}
	}
	return s
}

func (s snap) String() string {
	var sb strings.Builder
	for i, e := range s.list {
		if i > 0 {
			sb.WriteString(" ")
		}
		sb.WriteString(e.String())
	}
	name := func(i int) string {
		switch {
		case i == -1:
			return "none"
		case i == -2:
			return "unlisted"
		}
		return s.list[i].Num
	}
	return fmt.Sprintf("versions(list order)=[%s] selected=%s active=%s", sb.String(), name(s.sel), name(s.act))
}

// =====================================================================
// Part A: selection cascade over all pools, flag vectors and registry flags
// =====================================================================

type selJob struct {
	vers []string // ascending
	cur  int      // index of the current release, -1 none
	desc bool     // insertion order descending
}

func subsets(alpha []string, maxK int) [][]string {
	var out [][]string
	n := len(alpha)
	for m := 1; m < 1<<n; m++ {
		var s []string
		for i := 0; i < n; i++ {
			if m&(1<<i) != 0 {
				s = append(s, alpha[i])
			}
		}
		if len(s) <= maxK {
			out = append(out, s)
		}
	}
	sort.SliceStable(out, func(i, j int) bool { return len(out[i]) < len(out[j]) })
	return out
}

// runSelectPool builds one resource through the registry API (fresh resource, versions added in the given
// order, blacklist flags set) and then applies the registry settings one after the other, each followed by
// SelectVersions, comparing every selection with the cascade. Returns the deciding step per setting
// ("" after a violation).
func runSelectPool(c *vlib.Ctx, reg *updater.ResourceRegistry, order []ent, cfgs []cfg, pos [2]int, verbose bool) []string {
	steps := make([]string, len(cfgs))
	reg.ResetResources()
	w := witness{Part: "select", Versions: order}
	var model []ent
	// the index pointer is what AddResource stores in the resource; its AutoDownload flag is switched per setting
	idx := &updater.Index{Path: "stable.json"}
	for _, e := range order {
		if err := reg.AddResource(resID, e.Num, idx, e.A, e.C, e.P); err != nil {
			c.EngineError("select: AddResource(%s) failed: %v", e.Num, err)
			return steps
		}
		m := e
		m.v = mustVer(e.Num)
		m.P = e.P || m.v.pre != ""
		model = append(model, m)
	}
	res := updater.VerifResource(reg, resID)
	for _, rv := range res.Versions {
		for _, m := range model {
			if m.Num == rv.VersionNumber && m.B {
				rv.Blacklisted = true
			}
		}
	}
	for ci, cf := range cfgs {
		w.CfgSeq = append(w.CfgSeq, cf.String())
		reg.Online = cf.Online
		reg.SetUsePreReleases(cf.Pre)
		reg.SetDevMode(cf.Dev)
		if cf.Index == "none" {
			res.Index = nil
		} else {
			res.Index = idx
			idx.AutoDownload = cf.Index == "auto"
		}
		var sel *updater.ResourceVersion
		p, stack := vlib.Catch(func() {
			reg.SelectVersions()
			sel, _ = reg.GetVersion(resID)
		})
		if p != nil {
			w.CfgSeq = append([]string{}, w.CfgSeq...)
			col.add([4]int{1, pos[0], pos[1], ci}, "selection-cascade", "selectVersion", "panic:"+vlib.PanicSite(stack), func() string { return fmt.Sprintf("versions %v settings %v: panic %v", order, w.CfgSeq, p) }, w)
			return steps
		}
		sn := snapshot(res)
		if ci == 0 || verbose {
			// self-check: the resource lists exactly the versions and flags that were put in
			bad := len(sn.list) != len(model)
			for _, m := range model {
				found := false
				for _, e := range sn.list {
					if e.Num == m.Num && e.A == m.A && e.C == m.C && e.P == m.P && e.B == m.B {
						found = true
					}
				}
				bad = bad || !found
			}
			if bad {
				c.EngineError("select: added %v, resource lists %s", model, sn)
				return steps
			}
		}
		got := -1
		if sel != nil {
			got = -2
			for i, m := range model {
				if m.Num == sel.VersionNumber {
					got = i
				}
			}
		}
		step, clause, disc := judgeSelection(model, cf, got)
		if verbose {
			fmt.Printf("select: settings %s, inserted %v -> %s; cascade step %s\n", cf, order, sn, step)
		}
		if clause != "" {
			_, ok := prescribed(model, cf)
			w.CfgSeq = append([]string{}, w.CfgSeq...)
			col.add([4]int{1, pos[0], pos[1], ci}, clause, "selectVersion", disc, func() string {
				return fmt.Sprintf("registry %s, versions added %v: the documented order prescribes %s (step %s), selectVersion chose %s", cf, order, model[ok[0]].Num, step, selName(sel))
			}, w)
			return steps
		}
		steps[ci] = step
	}
	return steps
}

func selName(rv *updater.ResourceVersion) string {
	if rv == nil {
		return "nothing"
	}
	return rv.VersionNumber
}

func partSelect(c *vlib.Ctx, wp *pool) {
	type bound struct {
		alpha []string
		maxK  int
	}
	bounds := []bound{
		{[]string{"0.0.0", "1.0.0", "1.1.0", "1.2.0-beta", "2.0.0"}, 4},
		// pre-releases of the dev version sort behind 0.0.0
		{[]string{"0.0.0-alpha", "0.0.0-beta", "0.0.0", "1.0.0", "1.2.0-beta"}, 3},
	}
	if !c.Quick() {
		bounds = []bound{
			{[]string{"0.0.0", "1.0.0", "1.1.0", "1.2.0-beta", "2.0.0"}, 5},
			{[]string{"0.0.0-beta", "0.0.0", "1.0.0", "1.2.0-beta", "1.2.0-staging", "1.2.0", "2.0.0"}, 4},
			{[]string{"0.0.0-alpha", "0.0.0-beta", "0.0.0-staging", "0.0.0", "1.0.0", "1.2.0-beta"}, 4},
		}
	}
	cfgs := allCfgs()
	seenJob := map[string]bool{}
	var jobs []selJob
	for _, b := range bounds {
		for _, s := range subsets(b.alpha, b.maxK) {
			for cur := -1; cur < len(s); cur++ {
				for _, desc := range []bool{false, true} {
					if desc && len(s) == 1 {
						continue
					}
					k := fmt.Sprint(s, cur, desc)
					if !seenJob[k] {
						seenJob[k] = true
						jobs = append(jobs, selJob{s, cur, desc})
					}
				}
			}
		}
	}
	var mu sync.Mutex
	outc := map[string]int64{}
	var cases, nontrivial, poolsN int64
	c.ParallelFor(len(jobs), func(ji int) {
		if c.Expired() {
			return
		}
		j := jobs[ji]
		wc := <-wp.ch
		defer func() { wp.ch <- wc }()
		reg, err := wc.registry(cfg{})
		if err != nil {
			c.EngineError("select: registry: %v", err)
			return
		}
		k := len(j.vers)
		// per version flag bits: A, B, explicit P (only for versions without suffix)
		bits := make([]int, k)
		total := 1
		for i, v := range j.vers {
			bits[i] = 3
			if mustVer(v).pre != "" {
				bits[i] = 2
			}
			total <<= bits[i]
		}
		local := map[string]int64{}
		var n, nt int64
		for m := 0; m < total; m++ {
			asc := make([]ent, k)
			x := m
			for i, v := range j.vers {
				f := x & (1<<bits[i] - 1)
				x >>= bits[i]
				asc[i] = ent{Num: v, A: f&1 != 0, B: f&2 != 0, P: f&4 != 0, C: i == j.cur}
			}
			order := asc
			if j.desc {
				order = make([]ent, k)
				for i := range asc {
					order[k-1-i] = asc[i]
				}
			}
			// rotate the settings so that every one of them is the first on a fresh resource for some pools
			rot := make([]cfg, len(cfgs))
			for i := range cfgs {
				rot[i] = cfgs[(i+m+ji)%len(cfgs)]
			}
			ml := make([]ent, k)
			for i, e := range asc {
				e.v = mustVer(e.Num)
				e.P = e.P || e.v.pre != ""
				ml[i] = e
			}
			for ci, step := range runSelectPool(c, reg, order, rot, [2]int{ji, m}, false) {
				n++
				local[step]++
				if step != "" && step != "none" {
					// non-trivial: the prescribed version is not simply the newest listed one
					if _, ok := prescribed(ml, rot[ci]); ok[0] != k-1 {
						nt++
					}
				}
			}
		}
		mu.Lock()
		cases += n
		nontrivial += nt
		poolsN += int64(total)
		for s, v := range local {
			outc["select:"+s] += v
		}
		if ji == len(jobs)/3 || ji == len(jobs)/2 || ji == len(jobs)-1 {
			cur := "none"
			if j.cur >= 0 {
				cur = j.vers[j.cur]
			}
			c.Sample(map[string]any{"part": "select", "versions_ascending": j.vers, "current_release": cur, "insertion_descending": j.desc,
				"enumerated": fmt.Sprintf("%d flag vectors (available, blacklisted, explicit pre-release) x %d registry flag combinations", total, len(cfgs))})
		}
		mu.Unlock()
	})
	for s, v := range outc {
		if s == "select:" {
			s = "select:violation"
		}
		c.OutcomeN(s, v)
	}
	c.Add(poolsN, cases, cases)
	c.NontrivialN(nontrivial)
	c.Extra("select_cases", cases)
	c.Extra("select_pools_with_flags_and_order", poolsN)
	c.Extra("select_nontrivial", nontrivial)
	fmt.Printf("part A (selection cascade): %d pools (versions x flag vectors x current release x insertion order), %d cases, %d with a prescribed version other than the newest\n", poolsN, cases, nontrivial)
}

// =====================================================================
// Part B: histories
// =====================================================================

type seedDef struct {
	name string
	vers []ent // insertion order
}

func e(num, flags string) ent {
	return ent{Num: num, A: strings.Contains(flags, "A"), C: strings.Contains(flags, "C"), P: strings.Contains(flags, "P")}
}

var seedPools = []seedDef{
	{"single", []ent{e("1.0.0", "A")}},
	{"pair", []ent{e("1.0.0", "A"), e("2.0.0", "A")}},
	{"dev-and-one-release", []ent{e("0.0.0", "A"), e("1.0.0", "A")}},
	{"dev-not-on-disk-and-two-releases", []ent{e("0.0.0", ""), e("1.0.0", "A"), e("2.0.0", "A")}},
	{"mixed5-current-not-downloaded", []ent{e("0.0.0", "A"), e("1.0.0", "A"), e("1.1.0", "A"), e("1.2.0-beta", "A"), e("2.0.0", "C")}},
	{"six-available", []ent{e("1.0.0", "A"), e("1.1.0", "A"), e("1.2.0-beta", "A"), e("2.0.0", "A"), e("2.1.0", "A"), e("2.2.0-beta", "A")}},
	{"six-available-inserted-newest-first", []ent{e("2.2.0-beta", "A"), e("2.1.0", "A"), e("2.0.0", "A"), e("1.2.0-beta", "A"), e("1.1.0", "A"), e("1.0.0", "A")}},
	{"rollback6-current-is-oldest", []ent{e("1.0.0", "AC"), e("1.1.0", "A"), e("2.0.0", "A"), e("2.1.0", "A"), e("2.2.0", "A"), e("3.0.0", "A")}},
	{"eight-stable", []ent{e("1.0.0", "A"), e("1.1.0", "A"), e("1.2.0", "A"), e("1.3.0", "A"), e("1.4.0", "A"), e("1.5.0", "A"), e("1.6.0", "A"), e("1.7.0", "A")}},
	{"dev-and-gaps7", []ent{e("0.0.0", "A"), e("1.0.0", "A"), e("1.1.0", ""), e("1.3.0", "A"), e("2.0.0", "A"), e("2.1.0-beta", "A"), e("2.1.0", "C")}},
}

var phases = map[string][]string{
	"raw":      nil,
	"selected": {"selectVersion"},
	"active":   {"selectVersion", "GetFile"},
}

type world struct {
	c      *vlib.Ctx
	wc     *wctx
	dir    string
	reg    *updater.ResourceRegistry
	res    *updater.Resource
	idx    *updater.Index
	cf     cfg
	flags  map[string]*ent // reference record of the flags of every announced version (normalized number -> flags)
	files  map[string]bool // normalized version -> main file and signature are on disk
	handed string          // version handed out last by the registry's GetFile ("" none)
	purged int
	// reporting
	wit     witness
	pos     [4]int
	bad     bool
	verbose bool
}

func (w *world) violate(clause, site, disc, detail string) {
	w.bad = true
	wit := w.wit
	wit.History = append([]string{}, wit.History...)
	col.add(w.pos, clause, site, disc, func() string {
		return fmt.Sprintf("seed %s (%s, %s) history %v: %s", wit.Seed, wit.Phase, wit.Cfg, wit.History, detail)
	}, wit)
}

// announce records an AddVersion in the reference record, as the unchanged AddVersion documents the flags:
// Available and PreRelease are only ever raised (a version with a pre-release suffix always carries PreRelease),
// a new current release takes the CurrentRelease flag away from every other version, announcing without it
// leaves it where it is. Versions are identified by their normalized number.
func (w *world) announce(v string, a, cur, p bool) {
	nv := mustVer(v)
	if cur {
		for _, f := range w.flags {
			f.C = false
		}
	}
	f := w.flags[nv.String()]
	if f == nil {
		f = &ent{Num: nv.String(), v: nv}
		w.flags[f.Num] = f
	}
	f.A = f.A || a
	f.C = f.C || cur
	f.P = f.P || p || nv.pre != ""
}

// checkFlags compares the flags the resource lists with the reference record. Versions the implementation no
// longer lists after a purge are dropped from the record (which entries a purge drops is its decision).
// Skipped while the list holds two entries of one version (those cases are judged on the listed flags).
func (w *world) checkFlags(site string, afterPurge bool) {
	sn := snapshot(w.res)
	if strings.Contains(listTags(sn.list), "duplicate-entries") {
		return
	}
	listed := map[string]ent{}
	for _, x := range sn.list {
		listed[x.Num] = x
	}
	var nums []string
	for n := range w.flags {
		nums = append(nums, n)
	}
	sort.Strings(nums)
	for _, n := range nums {
		f := w.flags[n]
		x, ok := listed[n]
		if !ok {
			if afterPurge {
				delete(w.flags, n)
				continue
			}
			w.violate("version-flags-kept", site, "announced-version-not-listed", fmt.Sprintf("version %s was announced, the resource does not list it: %s", n, sn))
			return
		}
		for _, d := range []struct {
			name      string
			want, got bool
		}{{"available", f.A, x.A}, {"current-release", f.C, x.C}, {"pre-release", f.P, x.P}, {"blacklisted", f.B, x.B}} {
			if d.want != d.got {
				word := "-flag-lost"
				if d.got {
					word = "-flag-appeared"
				}
				w.violate("version-flags-kept", site, d.name+word, fmt.Sprintf("after %s the resource lists %s, the announcements so far give it %s (Available and PreRelease are only ever raised, CurrentRelease moves only to a newly announced current release, Blacklisted is set by Blacklist only); list: %s", site, x, *f, sn))
				return
			}
		}
	}
	for _, x := range sn.list {
		if w.flags[x.Num] == nil {
			w.violate("version-flags-kept", site, "unannounced-version-listed", fmt.Sprintf("the resource lists %s, which was never announced: %s", x, sn))
			return
		}
	}
}

type opDef struct {
	name string
	kind string
	run  func(w *world) string // returns the outcome class
}

func (w *world) storage(num string) string {
	return filepath.Join(w.dir, filepath.FromSlash(refVersionedPath(resID, num)))
}

func exists(p string) bool {
	_, err := os.Stat(p)
	return err == nil
}

func (w *world) checkSelection(site string) string {
	sn := snapshot(w.res)
	step, clause, disc := judgeSelection(sn.list, w.cf, sn.sel)
	if clause != "" {
		_, ok := prescribed(sn.list, w.cf)
		w.violate(clause, "selectVersion", disc, fmt.Sprintf("after %s: %s; the documented order prescribes %s (step %s)", site, sn, sn.list[ok[0]].Num, step))
	}
	return step
}

func opAdd(v string, a, cur, p bool) opDef {
	name := fmt.Sprintf("AddVersion(%s,available=%v,current=%v,pre=%v)", v, a, cur, p)
	return opDef{name, "AddVersion", func(w *world) string {
		nv := mustVer(v)
		before := snapshot(w.res)
		if err := w.reg.AddResource(resID, v, w.idx, a, cur, p); err != nil {
			w.c.EngineError("AddResource(%s) returned %v", v, err)
			w.bad = true
			return "AddVersion:error"
		}
		if a {
			w.files[nv.String()] = true // the file of an available version is on disk
		}
		w.announce(v, a, cur, p)
		n := 0
		for _, x := range snapshot(w.res).list {
			if x.v.cmp(nv) == 0 {
				n++
			}
		}
		switch {
		case n > 1:
			return "AddVersion:second-entry-for-same-version"
		case len(before.list) == len(w.res.Versions):
			return "AddVersion:merged"
		}
		return "AddVersion:new"
	}}
}

// symbolic blacklist targets are resolved against the resource's current state
func blacklistTarget(sym string, sn snap) string {
	order := make([]int, len(sn.list))
	for i := range order {
		order[i] = i
	}
	sort.SliceStable(order, func(a, b int) bool { return sn.list[order[a]].v.cmp(sn.list[order[b]].v) > 0 })
	switch sym {
	case "selected":
		if sn.sel >= 0 {
			return sn.list[sn.sel].Num
		}
	case "active":
		if sn.act >= 0 {
			return sn.list[sn.act].Num
		}
	case "newest":
		if len(order) > 0 {
			return sn.list[order[0]].Num
		}
	case "second-newest":
		if len(order) > 1 {
			return sn.list[order[1]].Num
		}
	case "oldest-release":
		for i := len(order) - 1; i >= 0; i-- {
			if !sn.list[order[i]].v.dev() {
				return sn.list[order[i]].Num
			}
		}
	case "dev":
		return "0.0.0"
	case "unknown":
		return "9.9.9"
	}
	return ""
}

func opBlacklist(sym string) opDef {
	return opDef{"Blacklist(" + sym + ")", "Blacklist", func(w *world) string {
		before := snapshot(w.res)
		t := blacklistTarget(sym, before)
		if t == "" {
			return "Blacklist:no-such-target"
		}
		listed, already, targetDev := false, false, false
		nb, nbRelease := 0, 0
		for _, x := range before.list {
			if x.Num == t {
				listed = true
				already = already || x.B
				targetDev = x.v.dev()
			}
			if !x.B {
				nb++
				if !x.v.dev() {
					nbRelease++
				}
			}
		}
		err := w.res.Blacklist(t)
		after := snapshot(w.res)
		nbAfter := 0
		for _, x := range after.list {
			if !x.B {
				nbAfter++
			}
		}
		if w.verbose {
			fmt.Printf("    Blacklist(%s) -> %v\n", t, err)
		}
		if nb >= 1 && nbAfter == 0 {
			w.violate("blacklist-last-valid", "Blacklist", "accepted-for-last-non-blacklisted", fmt.Sprintf("Blacklist(%s) returned %v and left no version that is not blacklisted: %s", t, err, after))
			return "Blacklist:violation"
		}
		// Outside dev mode a dev build 0.0.0 does not count as a remaining valid version ("ignore dev versions"
		// in Blacklist): the last release version that is not blacklisted cannot be blacklisted.
		if err == nil && listed && !already && !targetDev && !w.cf.Dev && nbRelease == 1 {
			w.violate("blacklist-last-valid", "Blacklist", "accepted-for-last-release-outside-dev-mode", fmt.Sprintf("dev mode off: Blacklist(%s) returned nil although it was the only release version (other than the dev build 0.0.0) that was not blacklisted; before: %s; after: %s", t, before, after))
			return "Blacklist:violation"
		}
		switch {
		case !listed:
			if err == nil {
				w.violate("blacklist-last-valid", "Blacklist", "accepted-for-unlisted-version", fmt.Sprintf("Blacklist(%s) of a version the resource does not list returned nil: %s", t, after))
				return "Blacklist:violation"
			}
			return "Blacklist:refused-unlisted"
		case err != nil:
			for _, x := range after.list {
				if x.Num == t && x.B && !already {
					w.violate("blacklist-last-valid", "Blacklist", "refused-but-flag-set", fmt.Sprintf("Blacklist(%s) returned %v but the version is now blacklisted", t, err))
					return "Blacklist:violation"
				}
			}
			if !already && nbRelease >= 2 {
				w.violate("blacklist-accepted", "Blacklist", "refused-although-others-remain", fmt.Sprintf("Blacklist(%s) returned %v although %d other release versions are not blacklisted: %s", t, err, nbRelease-1, before))
				return "Blacklist:violation"
			}
			if already {
				return "Blacklist:refused-again"
			}
			return "Blacklist:refused-last"
		}
		// accepted: the version is blacklisted and a new selection was made
		if f := w.flags[t]; f != nil {
			f.B = true
		}
		set := false
		for _, x := range after.list {
			set = set || (x.Num == t && x.B)
		}
		if !set {
			w.violate("blacklist-accepted", "Blacklist", "accepted-but-flag-not-set", fmt.Sprintf("Blacklist(%s) returned nil, the version is not blacklisted: %s", t, after))
			return "Blacklist:violation"
		}
		step := w.checkSelection("Blacklist")
		if already {
			return "Blacklist:accepted-again"
		}
		if before.sel >= 0 && before.list[before.sel].Num == t {
			return "Blacklist:accepted-selected-version:reselect-" + step
		}
		return "Blacklist:accepted"
	}}
}

var opSelect = opDef{"selectVersion", "selectVersion", func(w *world) string {
	w.reg.SelectVersions()
	return "selectVersion:" + w.checkSelection("selectVersion")
}}

var opGetFile = opDef{"GetFile", "GetFile", func(w *world) string {
	before := snapshot(w.res)
	f := w.res.GetFile()
	after := snapshot(w.res)
	rv := updater.VerifFileVersion(f)
	if before.sel == -1 {
		// nothing was selected: GetFile selects
		w.checkSelection("GetFile")
		if w.bad {
			return "GetFile:violation"
		}
	} else if after.sel != before.sel {
		w.violate("getfile-hands-out-selected", "GetFile", "selection-changed", fmt.Sprintf("GetFile changed the selected version: before %s, after %s", before, after))
		return "GetFile:violation"
	}
	if rv == nil || rv != w.res.SelectedVersion {
		w.violate("getfile-hands-out-selected", "GetFile", "other-version", fmt.Sprintf("GetFile returned version %s, selected is %s", selName(rv), selName(w.res.SelectedVersion)))
		return "GetFile:violation"
	}
	wantPath := w.storage(rv.VersionNumber)
	if f.Version() != rv.VersionNumber || f.Path() != wantPath {
		w.violate("getfile-hands-out-selected", "GetFile", "wrong-version-or-path", fmt.Sprintf("File.Version()=%q Path()=%q, selected %s, expected path %q", f.Version(), f.Path(), rv.VersionNumber, wantPath))
		return "GetFile:violation"
	}
	if !rv.Available && w.reg.Online {
		// the registry would now try to download (network, back-off sleeps): not part of the enumeration
		return "GetFile:selected-not-on-disk-download-not-run"
	}
	f2, err := w.reg.GetFile(resID)
	if !rv.Available {
		if err == nil {
			w.violate("getfile-hands-out-selected", "GetFile", "ok-instead-of-not-available", fmt.Sprintf("registry offline, selected %s not available locally, GetFile returned a file", rv.VersionNumber))
			return "GetFile:violation"
		}
		return "GetFile:not-available-locally"
	}
	if err != nil || f2 == nil || updater.VerifFileVersion(f2) != rv {
		w.violate("getfile-hands-out-selected", "GetFile", "error-or-other-version", fmt.Sprintf("registry GetFile: err=%v, selected %s", err, rv.VersionNumber))
		return "GetFile:violation"
	}
	w.handed = rv.VersionNumber
	if w.res.ActiveVersion != rv {
		w.violate("getfile-hands-out-selected", "GetFile", "active-not-recorded", fmt.Sprintf("GetFile handed out %s, ActiveVersion is %s", rv.VersionNumber, selName(w.res.ActiveVersion)))
		return "GetFile:violation"
	}
	if before.act >= 0 && before.list[before.act].Num != rv.VersionNumber {
		return "GetFile:handed-out-new-active"
	}
	return "GetFile:handed-out"
}}

func opPurge(keep int) opDef { return opPurgeObstructed(keep, "", 0) }

var obstaclePositions = []string{"oldest", "second-oldest", "third-oldest"}

// opPurgeObstructed: Purge(keep) on a storage directory in which the file of the pos-th oldest version that is
// on disk has been replaced by a directory (kind "non-empty-dir": os.Remove fails on it; "empty-dir": os.Remove
// deletes it like a file). kind "" = no obstacle. The obstacle lives for this one Purge.
func opPurgeObstructed(keep int, kind string, pos int) opDef {
	name := fmt.Sprintf("Purge(%d)", keep)
	if kind != "" {
		name = fmt.Sprintf("Purge(%d,%s@%s)", keep, kind, obstaclePositions[pos])
	}
	return opDef{name, "Purge", func(w *world) string {
		before := snapshot(w.res)
		// materialise the files of every version that is on disk
		var nums []string
		for n, ok := range w.files {
			if ok {
				nums = append(nums, n)
			}
		}
		sort.Strings(nums)
		obstacle := ""
		if kind != "" && (pos >= len(nums) || len(before.list) < 4) {
			// no such file, or a list too short for any purge (a needed version plus two further ones always stay):
			// the plain Purge operation covers this state
			return "Purge:obstacle-not-applicable"
		}
		if kind != "" {
			byAge := append([]string{}, nums...)
			sort.SliceStable(byAge, func(a, b int) bool { return mustVer(byAge[a]).cmp(mustVer(byAge[b])) < 0 })
			obstacle = byAge[pos]
		}
		// bring the worker's storage directory to exactly this state (only the differences to what the previous
		// history left there are written or removed)
		onDisk := map[string]string{}
		for _, n := range nums {
			p := w.storage(n)
			onDisk[p] = "file"
			if n == obstacle {
				onDisk[p] = kind
			}
			onDisk[p+".sig"] = "file"
		}
		if err := w.wc.reconcile(onDisk); err != nil {
			w.c.EngineError("storage directory: %v", err)
			w.bad = true
			return "Purge:engine-error"
		}
		anyBlack := false
		for _, x := range before.list {
			anyBlack = anyBlack || x.B
		}
		w.reg.Purge(keep)
		after := snapshot(w.res)
		// look at every path once
		present := w.wc.observe(onDisk)
		intact := map[string]bool{}
		deleted := 0
		for _, n := range nums {
			intact[n] = present[w.storage(n)] && present[w.storage(n)+".sig"]
			if !intact[n] {
				deleted++
			}
			w.files[n] = present[w.storage(n)]
		}
		w.purged += deleted
		if w.verbose {
			fmt.Printf("    %s: files before %v (obstacle at %q), intact after %v\n", name, nums, obstacle, intact)
		}
		// (a) needed versions
		type need struct{ what, num string }
		var needed []need
		if w.handed != "" {
			needed = append(needed, need{"active", w.handed})
		}
		if before.sel >= 0 {
			needed = append(needed, need{"selected", before.list[before.sel].Num})
		}
		if ns := newestOf(before.list, func(x ent) bool { return !x.P && !x.v.dev() }); len(ns) > 0 {
			needed = append(needed, need{"newest-stable", before.list[ns[0]].Num})
		}
		isNeeded := map[string]bool{}
		reported := false
		for _, nd := range needed {
			isNeeded[nd.num] = true
			if !contains(nums, nd.num) {
				continue // had no file before
			}
			if !intact[nd.num] && !reported {
				reported = true
				w.violate("purge-keeps-needed", "Purge", nd.what+"-version-file-removed"+listTags(before.list), fmt.Sprintf("Purge(%d) removed the file of the %s version %s; before: %s; files before %v", keep, nd.what, nd.num, before, nums))
			}
		}
		// (b) further versions: at least keep of them (or all) keep their files
		further, kept := 0, 0
		seen := map[string]bool{}
		for _, x := range before.list {
			if isNeeded[x.Num] || seen[x.Num] {
				continue
			}
			seen[x.Num] = true
			further++
			if !contains(nums, x.Num) || intact[x.Num] {
				kept++
			}
		}
		want := keep
		if want > further {
			want = further
		}
		if kept < want {
			w.violate("purge-keeps-requested-number", "Purge", "fewer-further-versions-kept"+listTags(before.list), fmt.Sprintf("Purge(%d) left %d of %d further versions with their files; before: %s; files before %v, intact after %v", keep, kept, further, before, nums, intact))
		}
		// (c) listed as available only if the file exists
		for _, x := range after.list {
			if x.A && !present[w.storage(x.Num)] { // a path that was not on disk before the purge is not there now either
				w.violate("lists-only-existing-files", "Purge", "available-without-file", fmt.Sprintf("after %s (obstacle at version %q) the resource lists %s as available, its file %s is gone; before: %s; after: %s", name, obstacle, x.Num, refVersionedPath(resID, x.Num), before, after))
				break
			}
		}
		if w.bad {
			return "Purge:violation"
		}
		switch {
		case deleted > 0 && obstacle != "" && present[w.storage(obstacle)] && !present[w.storage(obstacle)+".sig"]:
			return fmt.Sprintf("Purge:removed-files-but-not-the-obstacle:listed-%d-of-%d", len(after.list), len(before.list))
		case deleted > 0:
			return fmt.Sprintf("Purge:removed-files:listed-%d-of-%d", len(after.list), len(before.list))
		case anyBlack:
			return "Purge:paused-blacklisted"
		}
		return "Purge:nothing-to-remove"
	}}
}

func contains(l []string, s string) bool {
	for _, x := range l {
		if x == s {
			return true
		}
	}
	return false
}

func opToggle(what string) opDef {
	return opDef{"Toggle(" + what + ")", "Toggle", func(w *world) string {
		switch what {
		case "dev":
			w.cf.Dev = !w.cf.Dev
			w.reg.SetDevMode(w.cf.Dev)
		case "pre":
			w.cf.Pre = !w.cf.Pre
			w.reg.SetUsePreReleases(w.cf.Pre)
		case "online":
			w.cf.Online = !w.cf.Online
			w.reg.Online = w.cf.Online
		}
		return "Toggle"
	}}
}

// buildOps returns the full operation alphabet; the first return value of narrowOps selects the
// narrow (quick) alphabet out of it.
func buildOps() []opDef {
	ops := []opDef{opSelect, opGetFile}
	for _, k := range []int{0, 1, 2, 3, 5} {
		ops = append(ops, opPurge(k))
	}
	for _, s := range []string{"selected", "newest", "second-newest", "oldest-release", "active", "dev", "unknown"} {
		ops = append(ops, opBlacklist(s))
	}
	for _, t := range []string{"dev", "pre", "online"} {
		ops = append(ops, opToggle(t))
	}
	for _, v := range []string{"9.0.0", "1.1.0", "1.2.0-beta", "0", "0.0.0", "9.1.0-beta", "01.1.0", "0.5.0"} {
		for _, f := range []string{"A", "", "C", "AC", "AP", "CP", "P", "ACP"} {
			ops = append(ops, opAdd(v, strings.Contains(f, "A"), strings.Contains(f, "C"), strings.Contains(f, "P")))
		}
	}
	for _, kind := range []string{"non-empty-dir", "empty-dir"} {
		for _, k := range []int{0, 3} {
			for pos := range obstaclePositions {
				ops = append(ops, opPurgeObstructed(k, kind, pos))
			}
		}
	}
	return ops
}

// narrowOps: Purge(0..3), 4 versions x 6 flag combinations for AddVersion, everything else.
func narrowOps(ops []opDef) []int {
	var out []int
	for i, o := range ops {
		switch o.kind {
		case "Purge":
			if o.name == "Purge(5)" || (strings.Contains(o.name, "@") && !strings.HasPrefix(o.name, "Purge(0,non-empty-dir@")) {
				continue
			}
		case "AddVersion":
			keep := false
			for _, v := range []string{"9.0.0", "1.1.0", "1.2.0-beta", "0"} {
				if strings.HasPrefix(o.name, "AddVersion("+v+",") {
					keep = true
				}
			}
			if !keep || strings.HasSuffix(o.name, "available=false,current=false,pre=true)") || strings.HasSuffix(o.name, "available=true,current=true,pre=true)") {
				continue
			}
		}
		out = append(out, i)
	}
	return out
}

func allOpIdx(ops []opDef) []int {
	out := make([]int, len(ops))
	for i := range ops {
		out[i] = i
	}
	return out
}

type seedInst struct {
	pool  int
	phase string
	cf    cfg
}

// runHistory replays prefix(phase)+hist on a fresh registry. Returns the canonical key ("" after a violation).
func runHistory(c *vlib.Ctx, wc *wctx, ops []opDef, byName map[string]int, sd seedInst, hist []uint8, pos [4]int, verbose bool) (key, outcome string, nontrivial bool) {
	reg, err := wc.registry(sd.cf)
	if err != nil {
		c.EngineError("registry: %v", err)
		return "", "engine-error", false
	}
	w := &world{pos: pos, c: c, wc: wc, dir: wc.dir, reg: reg, idx: sd.cf.index(), cf: sd.cf, flags: map[string]*ent{}, files: map[string]bool{}, verbose: verbose,
		wit: witness{Part: "history", Seed: seedPools[sd.pool].name, Phase: sd.phase, Cfg: sd.cf.String()}}
	for _, x := range seedPools[sd.pool].vers {
		if err := reg.AddResource(resID, x.Num, w.idx, x.A, x.C, x.P); err != nil {
			c.EngineError("seed AddResource: %v", err)
			return "", "engine-error", false
		}
		if x.A {
			w.files[x.Num] = true
		}
		w.announce(x.Num, x.A, x.C, x.P)
	}
	w.res = updater.VerifResource(reg, resID)
	w.checkFlags("seed", false)
	if w.bad {
		return "", "violation", false
	}
	steps := make([]int, 0, len(hist)+2)
	for _, n := range phases[sd.phase] {
		steps = append(steps, byName[n])
	}
	nPre := len(steps)
	for _, h := range hist {
		steps = append(steps, int(h))
	}
	for si, oi := range steps {
		o := ops[oi]
		if si >= nPre {
			w.wit.History = append(w.wit.History, o.name)
		}
		p, stack := vlib.Catch(func() { outcome = o.run(w) })
		if p != nil {
			clause := map[string]string{"selectVersion": "selection-cascade", "Blacklist": "blacklist-last-valid", "GetFile": "getfile-hands-out-selected", "Purge": "purge-keeps-needed"}[o.kind]
			if clause == "" {
				clause = "selection-cascade"
			}
			w.violate(clause, o.kind, "panic:"+vlib.PanicSite(stack), fmt.Sprintf("panic %v", p))
		}
		if !w.bad {
			w.checkFlags(o.kind, o.kind == "Purge")
			if w.bad {
				outcome = o.kind + ":violation"
			}
		}
		if verbose {
			fmt.Printf("  %-55s -> %-40s %s | registry %s | files %v\n", o.name, outcome, snapshot(w.res), w.cf, fileList(w.files))
		}
		if w.bad {
			return "", outcome, false
		}
	}
	sn := snapshot(w.res)
	var sb strings.Builder
	sb.WriteString(w.cf.String())
	for _, x := range sn.list {
		sb.WriteString("|" + x.String())
	}
	fmt.Fprintf(&sb, "|s%d|a%d|h%s|f%v", sn.sel, sn.act, w.handed, fileList(w.files))
	anyB := false
	for _, x := range sn.list {
		anyB = anyB || x.B
	}
	nontrivial = w.purged > 0 || anyB || (sn.sel >= 0 && sn.act >= 0 && sn.sel != sn.act)
	return sb.String(), outcome, nontrivial
}

func fileList(m map[string]bool) []string {
	var l []string
	for n, ok := range m {
		if ok {
			l = append(l, n)
		}
	}
	sort.Strings(l)
	return l
}

var narrowCfgs = []cfg{
	{Online: false, Dev: false, Pre: false, Index: "none"},
	{Online: true, Dev: false, Pre: false, Index: "auto"},
	{Online: true, Dev: true, Pre: true, Index: "noauto"},
}

var wideCfgs = []cfg{
	{Online: false, Dev: false, Pre: false, Index: "none"},
	{Online: true, Dev: false, Pre: false, Index: "auto"},
	{Online: true, Dev: true, Pre: true, Index: "noauto"},
	{Online: false, Dev: false, Pre: true, Index: "auto"},
	{Online: true, Dev: true, Pre: false, Index: "none"},
	{Online: false, Dev: true, Pre: true, Index: "auto"},
}

func partHistories(c *vlib.Ctx, wp *pool, label string, ops []opDef, alphabet []int, cfgs []cfg, maxDepth int, byName map[string]int, budget time.Duration) {
	var seeds []seedInst
	for pi := range seedPools {
		for _, ph := range []string{"raw", "active"} {
			for _, cf := range cfgs {
				seeds = append(seeds, seedInst{pi, ph, cf})
			}
		}
	}
	type node struct {
		seed int
		hist []uint8
	}
	stopAt := time.Now().Add(budget)
	seen := map[string]struct{}{}
	var frontier []node
	var transitions, nontriv int64
	{
		wc := <-wp.ch
		for si, sd := range seeds {
			k, _, _ := runHistory(c, wc, ops, byName, sd, nil, [4]int{2, 0, si, 0}, false)
			if k == "" {
				continue
			}
			if _, ok := seen[k]; !ok {
				seen[k] = struct{}{}
				frontier = append(frontier, node{si, nil})
			}
		}
		wp.ch <- wc
	}
	depthDone := 0
	for depth := 1; depth <= maxDepth && len(frontier) > 0; depth++ {
		type succ struct {
			key, outcome string
			hist         []uint8
			nt           bool
		}
		last := depth == maxDepth
		results := make([][]succ, len(frontier))
		var mu sync.Mutex
		lastOut := map[string]int64{}
		var done int64
		c.ParallelFor(len(frontier), func(fi int) {
			if time.Now().After(stopAt) {
				return
			}
			wc := <-wp.ch
			defer func() { wp.ch <- wc }()
			nd := frontier[fi]
			h := append(append(make([]uint8, 0, len(nd.hist)+1), nd.hist...), 0)
			local := map[string]int64{}
			var out []succ
			for ai, oi := range alphabet {
				h[len(h)-1] = uint8(oi)
				k, outc, nt := runHistory(c, wc, ops, byName, seeds[nd.seed], h, [4]int{2, depth, fi, ai}, false)
				if last {
					local[outc]++
					continue
				}
				out = append(out, succ{k, outc, append([]uint8{}, h...), nt})
			}
			mu.Lock()
			done++
			for k, v := range local {
				lastOut[k] += v
			}
			mu.Unlock()
			results[fi] = out
		})
		if last {
			var n int64
			for k, v := range lastOut {
				c.OutcomeN(k, v)
				n += v
			}
			transitions += n
			fmt.Printf("part B %s depth %d (check only): frontier %d, histories %d\n", label, depth, len(frontier), n)
			if done == int64(len(frontier)) {
				depthDone = depth
			} else {
				c.NotExhaustive(fmt.Sprintf("histories "+label+": internal budget reached at depth %d (%d of %d frontier states expanded)", depth, done, len(frontier)))
			}
			break
		}
		var next []node
		for fi, rs := range results {
			for _, s := range rs {
				transitions++
				c.Outcome(s.outcome)
				if s.key == "" {
					continue
				}
				if _, ok := seen[s.key]; ok {
					continue
				}
				seen[s.key] = struct{}{}
				next = append(next, node{frontier[fi].seed, s.hist})
				if s.nt {
					nontriv++
				}
				if len(seen)%1500 == 7 {
					sd := seeds[frontier[fi].seed]
					var names []string
					for _, i := range s.hist {
						names = append(names, ops[i].name)
					}
					c.Sample(map[string]any{"part": "history-" + label, "seed": seedPools[sd.pool].name, "phase": sd.phase, "cfg": sd.cf.String(), "history": names, "state_key": s.key})
				}
			}
		}
		if done != int64(len(frontier)) {
			c.NotExhaustive(fmt.Sprintf("histories "+label+": internal budget reached at depth %d (%d of %d frontier states expanded)", depth, done, len(frontier)))
			break
		}
		fmt.Printf("part B %s depth %d: frontier %d -> new states %d (total %d), histories so far %d\n", label, depth, len(frontier), len(next), len(seen), transitions)
		frontier = next
		depthDone = depth
	}
	c.Add(int64(len(seen)), transitions, transitions)
	c.NontrivialN(nontriv)
	c.Extra("history_"+label+"_seeds", len(seeds))
	c.Extra("history_"+label+"_alphabet", len(alphabet))
	c.Extra("history_"+label+"_depth_completed", depthDone)
	c.Extra("history_"+label+"_states", len(seen))
	c.Extra("history_"+label+"_histories", transitions)
	c.Extra("history_"+label+"_nontrivial_states", nontriv)
}

// =====================================================================
// Part C: file names
// =====================================================================

func checkName(c *vlib.Ctx, id, version string, pos [2]int, verbose bool) string {
	w := witness{Part: "filename", Identifier: id, Version: version}
	want := refVersionedPath(id, version)
	var name, id2, v2 string
	var ok bool
	p, stack := vlib.Catch(func() {
		name = updater.GetVersionedPath(id, version)
		id2, v2, ok = updater.GetIdentifierAndVersion(want)
	})
	if verbose {
		fmt.Printf("filename: GetVersionedPath(%q,%q)=%q (format prescribes %q); GetIdentifierAndVersion(%q)=(%q,%q,%v)\n", id, version, name, want, want, id2, v2, ok)
	}
	switch {
	case p != nil:
		col.add([4]int{0, pos[0], pos[1], 0}, "filename-roundtrip", "filename", "panic:"+vlib.PanicSite(stack), func() string { return fmt.Sprintf("identifier %q version %q: panic %v", id, version, p) }, w)
	case name != want:
		col.add([4]int{0, pos[0], pos[1], 0}, "filename-roundtrip", "GetVersionedPath", "wrong-name", func() string {
			return fmt.Sprintf("GetVersionedPath(%q,%q)=%q, the documented format gives %q", id, version, name, want)
		}, w)
	case !ok:
		col.add([4]int{0, pos[0], pos[1], 0}, "filename-roundtrip", "GetIdentifierAndVersion", "not-recognised", func() string {
			return fmt.Sprintf("GetIdentifierAndVersion(%q) not ok; it is the name of (%q,%q)", want, id, version)
		}, w)
	case id2 != id:
		col.add([4]int{0, pos[0], pos[1], 0}, "filename-roundtrip", "GetIdentifierAndVersion", "wrong-identifier", func() string {
			return fmt.Sprintf("GetIdentifierAndVersion(%q)=(%q,%q), made from (%q,%q)", want, id2, v2, id, version)
		}, w)
	case v2 != version:
		col.add([4]int{0, pos[0], pos[1], 0}, "filename-roundtrip", "GetIdentifierAndVersion", "wrong-version", func() string {
			return fmt.Sprintf("GetIdentifierAndVersion(%q)=(%q,%q), made from (%q,%q)", want, id2, v2, id, version)
		}, w)
	default:
		return "filename:roundtrip-ok"
	}
	return "filename:violation"
}

func nameAlphabet(c *vlib.Ctx) (ids []string, versions []string) {
	dirSeg := vlib.Pick(c, []string{"a", "linux_amd64", "rel_v1-0-0"}, []string{"a", "linux_amd64", "rel_v1-0-0", "my-app", "x.y"})
	dirs := []string{""}
	for _, d := range dirSeg {
		dirs = append(dirs, d+"/")
	}
	for _, d := range dirSeg {
		for _, d2 := range dirSeg {
			dirs = append(dirs, d+"/"+d2+"/")
		}
	}
	bases := []string{"f", "app", "my_app", "app-v2", "lib_v2", "file_v1-2", "data-1-2-3", "v", ""}
	extSeg := []string{"exe", "zip", "tar", "gz", "v2", "json"}
	exts := []string{""}
	for _, x := range extSeg {
		exts = append(exts, "."+x)
	}
	for _, x := range extSeg {
		for _, y := range extSeg {
			exts = append(exts, "."+x+"."+y)
		}
	}
	for _, d := range dirs {
		for _, b := range bases {
			for _, x := range exts {
				if b == "" && x == "" {
					continue // no file name at all
				}
				ids = append(ids, d+b+x)
			}
		}
	}
	nums := []string{"0", "1", "12", "007"}
	for _, a := range nums {
		for _, b := range nums {
			for _, cc := range nums {
				for _, s := range []string{"", "-beta", "-b", "-staging", "-rc"} {
					versions = append(versions, a+"."+b+"."+cc+s)
				}
			}
		}
	}
	return ids, versions
}

func partNames(c *vlib.Ctx) {
	ids, versions := nameAlphabet(c)
	var mu sync.Mutex
	var okN, badN int64
	c.ParallelFor(len(ids), func(i int) {
		var o, b int64
		for vi, v := range versions {
			if checkName(c, ids[i], v, [2]int{i, vi}, false) == "filename:roundtrip-ok" {
				o++
			} else {
				b++
			}
		}
		mu.Lock()
		okN += o
		badN += b
		mu.Unlock()
	})
	c.OutcomeN("filename:roundtrip-ok", okN)
	if badN > 0 {
		c.OutcomeN("filename:violation", badN)
	}
	n := int64(len(ids)) * int64(len(versions))
	c.Add(n, 2*n, n)
	// non-trivial: identifier with directory and extension (the version goes inside the name) and a pre-release suffix
	var nt int64
	for _, id := range ids {
		if strings.Contains(id, "/") && strings.Contains(id[strings.LastIndex(id, "/"):], ".") {
			nt++
		}
	}
	c.NontrivialN(nt * int64(len(versions)) * 4 / 5)
	c.Extra("filename_identifiers", len(ids))
	c.Extra("filename_versions", len(versions))
	c.Sample(map[string]any{"part": "filename", "identifier": ids[len(ids)/2], "version": versions[len(versions)/3], "name": refVersionedPath(ids[len(ids)/2], versions[len(versions)/3])})
	fmt.Printf("part C (file names): %d identifiers x %d versions\n", len(ids), len(versions))
}

// partScan: the same conversion through the registry: files on disk -> ScanStorage -> resources.
func partScan(c *vlib.Ctx, base string, only *witness) {
	ids, _ := nameAlphabet(c)
	vers := []string{"1.2.3", "1.2.3-beta", "0.0.0"}
	dir := filepath.Join(base, "scan")
	if err := os.MkdirAll(dir, 0o755); err != nil {
		c.EngineError("scan: %v", err)
		return
	}
	reg, err := newRegistry(dir, cfg{})
	if err != nil {
		c.EngineError("scan: %v", err)
		return
	}
	var used []string
	for _, id := range ids {
		// ScanStorage treats directories that carry a version marker as unpacked resources and skips them;
		// keep to two extensions out of the alphabet to bound the number of files
		if strings.Contains(id, "rel_v1-0-0/") || strings.Contains(id, ".v2") || strings.Contains(id, ".json") || strings.Contains(id, ".exe.") || strings.Contains(id, ".zip.") || strings.Contains(id, ".gz.") {
			continue
		}
		if only != nil && id != only.Identifier {
			continue
		}
		used = append(used, id)
		for _, v := range vers {
			p := filepath.Join(dir, filepath.FromSlash(refVersionedPath(id, v)))
			_ = os.MkdirAll(filepath.Dir(p), 0o755)
			if err := os.WriteFile(p, []byte("x"), 0o644); err != nil {
				c.EngineError("scan: %v", err)
				return
			}
		}
	}
	var scanErr error
	var exp map[string]*updater.Resource
	p, stack := vlib.Catch(func() {
		scanErr = reg.ScanStorage("")
		exp = reg.Export()
	})
	if p != nil {
		c.Violate("filename-roundtrip", "ScanStorage", "panic:"+vlib.PanicSite(stack), fmt.Sprintf("panic %v", p), witness{Part: "scan"})
		return
	}
	if scanErr != nil {
		c.EngineError("scan: ScanStorage: %v", scanErr)
		return
	}
	var okN int64
	for _, id := range used {
		r := exp[id]
		var got []string
		if r != nil {
			for _, rv := range r.Versions {
				if rv.Available {
					got = append(got, rv.VersionNumber)
				}
			}
		}
		sort.Strings(got)
		want := append([]string{}, vers...)
		sort.Strings(want)
		if fmt.Sprint(got) != fmt.Sprint(want) {
			c.Violate("filename-roundtrip", "ScanStorage", "resource-or-version-not-recovered",
				fmt.Sprintf("files of %q in versions %v were put into the storage directory; ScanStorage registered versions %v under that identifier", id, want, got), witness{Part: "scan", Identifier: id})
			continue
		}
		okN++
	}
	if only != nil {
		fmt.Printf("scan: identifier %q -> registered %v\n", only.Identifier, exp[only.Identifier] != nil)
	}
	c.OutcomeN("scan:recovered", okN)
	c.Add(int64(len(used)), int64(len(used)*len(vers)), int64(len(used)))
	c.Extra("scan_identifiers", len(used))
	if len(exp) != len(used) {
		c.Violate("filename-roundtrip", "ScanStorage", "extra-resources", fmt.Sprintf("%d identifiers on disk, %d resources registered", len(used), len(exp)), witness{Part: "scan"})
	}
}

// =====================================================================
// Part D: GetSelectedVersions
// =====================================================================

func runSelectedVersions(c *vlib.Ctx, dir string, nRes int, cf cfg, verbose bool) string {
	reg, err := newRegistry(dir, cf)
	if err != nil {
		c.EngineError("registry: %v", err)
		return ""
	}
	want := map[string]string{}
	for r := 0; r < nRes; r++ {
		id := fmt.Sprintf("pkg/res%d.zip", r)
		list := []ent{e("0.0.0", "A"), e("1.0.0", "A"), e("1.2.0-beta", "A"), e("2.0.0", "")}
		for _, x := range list[:2+r%3] {
			_ = reg.AddResource(id, x.Num, cf.index(), x.A, x.C, x.P)
		}
	}
	reg.SelectVersions()
	for id, r := range reg.Export() {
		if r.SelectedVersion != nil {
			want[id] = r.SelectedVersion.VersionNumber
		}
	}
	w := witness{Part: "selected-versions", Resources: nRes, Cfg: cf.String()}
	var got map[string]string
	p, stack := vlib.Catch(func() { got = reg.GetSelectedVersions() })
	if verbose {
		fmt.Printf("selected-versions: %d resources, cfg %s: selected %v, GetSelectedVersions -> %v (panic: %v)\n", nRes, cf, want, got, p)
	}
	if p != nil {
		c.Violate("selected-versions-reported", "GetSelectedVersions", "panic:"+vlib.PanicSite(stack),
			fmt.Sprintf("%d resources, every one with a selected version %v: GetSelectedVersions panics: %v", nRes, want, p), w)
		return "selected-versions:violation"
	}
	if len(got) != len(want) {
		c.Violate("selected-versions-reported", "GetSelectedVersions", "wrong-map", fmt.Sprintf("selected %v, reported %v", want, got), w)
		return "selected-versions:violation"
	}
	for k, v := range want {
		if got[k] != v {
			c.Violate("selected-versions-reported", "GetSelectedVersions", "wrong-map", fmt.Sprintf("selected %v, reported %v", want, got), w)
			return "selected-versions:violation"
		}
	}
	return fmt.Sprintf("selected-versions:%d-reported", nRes)
}

func partSelectedVersions(c *vlib.Ctx, base string) {
	dir := filepath.Join(base, "selver")
	_ = os.MkdirAll(dir, 0o755)
	var n int64
	for nRes := 0; nRes <= 3; nRes++ {
		for _, cf := range allCfgs() {
			c.Outcome(runSelectedVersions(c, dir, nRes, cf, false))
			n++
		}
	}
	c.Add(n, n, n)
	c.NontrivialN(n * 3 / 4)
	c.Extra("selected_versions_cases", n)
}

// =====================================================================

func main() {
	vlib.Main("C19", "model_checking", func(c *vlib.Ctx) {
		defer col.flush(c)
		log.SetLogLevel(log.CriticalLevel)
		base := ""
		if st, err := os.Stat("/dev/shm"); err == nil && st.IsDir() {
			base = "/dev/shm"
		}
		tmp, err := os.MkdirTemp(base, "verif-c19-")
		if err != nil {
			c.EngineError("temp dir: %v", err)
			return
		}
		defer os.RemoveAll(tmp)
		wp, err := newPool(tmp, c.Workers+1)
		if err != nil {
			c.EngineError("temp dir: %v", err)
			return
		}
		ops := buildOps()
		byName := map[string]int{}
		for i, o := range ops {
			byName[o.name] = i
		}
		c.Rule(fmt.Sprintf("A: every set of <=4 versions of {0.0.0,1.0.0,1.1.0,1.2.0-beta,2.0.0} and every set of <=3 versions of {0.0.0-alpha,0.0.0-beta,0.0.0,1.0.0,1.2.0-beta} (pre-releases of the dev version, which sort behind it) (thorough: <=5 of the first alphabet, <=4 of a 7-version alphabet with 0.0.0-beta and two suffixes of one triple, <=4 of {0.0.0-alpha,0.0.0-beta,0.0.0-staging,0.0.0,1.0.0,1.2.0-beta}) x every (available, blacklisted, explicit pre-release) vector x every choice of <=1 current release x 2 insertion orders x all 24 registry settings (online, dev mode, use pre-releases, index none/no-auto-download/auto-download), each pool built through AddResource on a fresh resource, then the 24 settings applied one after the other (rotating start) with SelectVersions after each; "+
			"B: BFS over operation histories, quick: depth 3 over %d operations (selectVersion, GetFile, Purge(0..3), Purge(0) with the file of the oldest/second-oldest/third-oldest version on disk replaced by a non-empty directory, Blacklist of 7 state-relative targets, toggles of dev mode/pre-releases/online, AddVersion of 4 new/existing/alias-spelled versions x 6 flag combinations), thorough: the same to depth 4 and all %d operations (Purge(5), Purge(0|3) with a non-empty or empty directory at each of the three positions, 8 versions x 8 flag combinations) to depth 3, from %d pools of 1-8 versions x {nothing selected, selected and handed out} x 3 (wide: 6) registry settings, every history replayed on fresh resource objects (registry emptied, settings reset) over a real storage directory (files written before and listed after every Purge), states de-duplicated on (settings, version list in list order with flags, selected, active, files); "+
			"C: every identifier (<=2 directories, 9 base names, <=2 extensions) x version ({0,1,12,007}^3, 5 suffixes) of the file-name format; ScanStorage on real files; D: GetSelectedVersions for 0-3 resources x 24 settings. "+
			"non-trivial = A: cases whose prescribed version is not the newest listed; B: distinct states with a purged file, a blacklisted version or active != selected; C: identifiers with directory and extension x versions with a suffix; D: cases with at least one resource", len(narrowOps(ops)), len(ops), len(seedPools)))
		c.Assume("selection is compared where the code computes it (selectVersion/SelectVersions, a successful Blacklist, a GetFile with nothing selected); AddResource is documented as 'does not select new version', so a stale SelectedVersion between AddVersion and the next selection is not a violation")
		c.Assume("'files of at least the requested number of further versions are still on disk' is read as: at least keep (or all) of the listed versions that are not active/selected/newest stable lose no file; a listed version that had no file counts as kept")
		c.Assume("a version whose file path holds a directory (obstacle that Purge cannot or need not remove) counts as having its file: it may stay listed as available or be dropped; only a listed-available version with nothing at its path violates 'lists only existing files'")
		c.Assume("version flags across repeated announcements are those the unchanged AddVersion documents: Available and PreRelease are only ever raised (announcing an existing version again with available=false or preRelease=false lowers nothing; a pre-release suffix always implies PreRelease), announcing a current release clears CurrentRelease on every other version and announcing without it leaves the flag where it is, Blacklisted is set by a successful Blacklist only; after every operation the listed flags are compared with this record (clause version-flags-kept), so that 'stable', 'selectable' and 'current release' in the selection order refer to what was announced")
		c.Assume("newest stable version = newest listed version without the pre-release flag other than the dev version 0.0.0; active version = the version the registry's GetFile handed out last")
		c.Assume("Blacklist: refusing is required when no other non-blacklisted version (of any kind) would remain and, with dev mode off, when the target is the only release version (not the dev build 0.0.0) that is not blacklisted (Blacklist documents 'ignore dev versions' for its count of valid versions); accepting is required when at least two release versions are not blacklisted; with dev mode on and only the dev build remaining, and for blacklisting the dev build itself when at most one release is left, both are accepted; re-blacklisting may be refused or accepted")
		c.Assume("identifiers of the file-name enumeration do not themselves contain a version marker _v<n>-<n>-<n> in the file name; version strings are those of the documented pattern [0-9]+.[0-9]+.[0-9]+(-[a-z]+)?")
		c.Assume("GetFile with a selected version that is not on disk while the registry is online would download (network, back-off sleeps): only the selection and the returned File are checked in that case; resources with an empty version list (only reachable by adding an unparsable version) are outside the statement")

		if c.Replay != "" {
			var w witness
			if _, err := c.LoadReplay(&w); err != nil {
				c.EngineError("replay: %v", err)
				return
			}
			wc := <-wp.ch
			switch w.Part {
			case "select":
				var cfgs []cfg
				for _, x := range w.CfgSeq {
					cf, ok := parseCfg(x)
					if !ok {
						c.EngineError("replay: bad settings %q", x)
						return
					}
					cfgs = append(cfgs, cf)
				}
				if len(cfgs) == 0 {
					c.EngineError("replay: witness holds no settings sequence")
					return
				}
				reg, err := newRegistry(wc.dir, cfg{})
				if err != nil {
					c.EngineError("registry: %v", err)
					return
				}
				steps := runSelectPool(c, reg, w.Versions, cfgs, [2]int{}, true)
				fmt.Printf("replayed select case -> steps %q violation=%v\n", steps, steps[len(steps)-1] == "")
				c.Add(1, int64(len(cfgs)), 1)
			case "history":
				cf, ok := parseCfg(w.Cfg)
				pi := -1
				for i, p := range seedPools {
					if p.name == w.Seed {
						pi = i
					}
				}
				if _, okp := phases[w.Phase]; !ok || pi < 0 || !okp {
					c.EngineError("replay: unknown seed/phase/cfg %q %q %q", w.Seed, w.Phase, w.Cfg)
					return
				}
				var hist []uint8
				for _, n := range w.History {
					i, ok := byName[n]
					if !ok {
						c.EngineError("replay: unknown operation %q (alphabet of tier %s)", n, c.Tier)
						return
					}
					hist = append(hist, uint8(i))
				}
				fmt.Printf("replaying seed %s (%s, %s)\n", w.Seed, w.Phase, w.Cfg)
				k, out, _ := runHistory(c, wc, ops, byName, seedInst{pi, w.Phase, cf}, hist, [4]int{}, true)
				fmt.Printf("replayed history %v -> outcome %s key=%q violation=%v\n", w.History, out, k, k == "")
				c.Add(1, int64(len(hist)), 1)
			case "filename":
				fmt.Printf("replayed file name -> %s\n", checkName(c, w.Identifier, w.Version, [2]int{}, true))
				c.Add(1, 2, 1)
			case "scan":
				if w.Identifier == "" {
					partScan(c, tmp, nil)
				} else {
					partScan(c, tmp, &w)
				}
			case "selected-versions":
				cf, _ := parseCfg(w.Cfg)
				fmt.Printf("replayed -> %s\n", runSelectedVersions(c, wc.dir, w.Resources, cf, true))
				c.Add(1, 1, 1)
			default:
				c.EngineError("replay: unknown part %q", w.Part)
			}
			return
		}

		total := vlib.Pick(c, 170*time.Second, 28*time.Minute)
		if f := flag.Lookup("budget"); f != nil {
			// an explicit --budget replaces the tier's internal budget (e.g. to finish on an overloaded machine)
			if d, err := time.ParseDuration(f.Value.String()); err == nil && d > 0 {
				total = d
			}
		}
		c.SetBudget(total)
		t0 := time.Now()
		partNames(c)
		fmt.Printf("  (%.1fs)\n", time.Since(t0).Seconds())
		partScan(c, tmp, nil)
		partSelectedVersions(c, tmp)
		fmt.Printf("parts C (with ScanStorage) and D done (%.1fs)\n", time.Since(t0).Seconds())
		partSelect(c, wp)
		fmt.Printf("parts A, C, D took %.1fs\n", time.Since(t0).Seconds())
		if c.Quick() {
			partHistories(c, wp, "narrow", ops, narrowOps(ops), narrowCfgs, 3, byName, total-time.Since(t0))
		} else {
			// wider (all operations, more registry settings) at depth 3, then deeper with the narrow alphabet;
			// the deep run is the larger one and gets everything the wide run leaves of the budget
			partHistories(c, wp, "wide", ops, allOpIdx(ops), wideCfgs, 3, byName, (total-time.Since(t0))/2)
			partHistories(c, wp, "narrow", ops, narrowOps(ops), narrowCfgs, 4, byName, total-time.Since(t0))
		}
	})
}
