//go:build verif

package updater

// VerifResource returns the registry's real resource object (Export only hands out copies).
func VerifResource(reg *ResourceRegistry, identifier string) *Resource {
	reg.RLock()
	defer reg.RUnlock()
	return reg.resources[identifier]
}

// VerifFileVersion returns the resource version a File was created for.
func VerifFileVersion(f *File) *ResourceVersion { return f.version }
