#!/bin/bash
set -e
cd /verif
./mkoverlay.sh c19
go build -tags verif -overlay build/c19.overlay.json -o "$1" ./h/c19
