#!/bin/bash
exec /verif/h/smod/build.sh c15 "$1"
