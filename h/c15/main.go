// C15: microtasks respect the concurrency limit, run once, and are fully accounted (engine S).
package main

import (
	"github.com/safing/portbase/modules"

	"verif/slib"
	"verif/vlib"
)

// multisets enumerates all multisets of size n over kinds.
func multisets(kinds []string, n int) [][]string {
	var out [][]string
	var rec func(start int, cur []string)
	rec = func(start int, cur []string) {
		if len(cur) == n {
			out = append(out, append([]string{}, cur...))
			return
		}
		for i := start; i < len(kinds); i++ {
			rec(i, append(cur, kinds[i]))
		}
	}
	rec(0, nil)
	return out
}

func scenarios(c *vlib.Ctx) []*slib.Scn {
	var out []*slib.Scn
	add := func(p modules.C15Params, bound int) {
		out = append(out, &slib.Scn{Scenario: modules.VerifC15(p), Family: "c15", Bound: bound})
		sc := modules.VerifC15(p)
		sc.Name += "/sched=high"
		sc.HighFirst = true
		out = append(out, &slib.Scn{Scenario: sc, Family: "c15", Bound: bound})
	}
	base := []string{"m-run-ok", "m-start-ok", "m-signal-ok", "l-run-ok", "l-start-ok", "l-signal-ok"}
	bound := vlib.Pick(c, 2, 3)
	for _, limit := range []int{2, 3} {
		for n := limit + 1; n <= limit+vlib.Pick(c, 1, 2); n++ {
			if limit == 3 && c.Quick() {
				// limit 3 in quick: same-kind sets only
				for _, k := range base {
					t := make([]string, n)
					for i := range t {
						t[i] = k
					}
					add(modules.C15Params{Limit: limit, Tasks: t}, bound)
				}
				continue
			}
			for _, ms := range multisets(base, n) {
				add(modules.C15Params{Limit: limit, Tasks: ms}, bound)
			}
		}
	}
	// bodies that keep their slot until released one by one: the limit must hold at every moment of the drain
	for _, ms := range multisets(base, 4) {
		if c.Quick() && ms[0] != ms[1] && ms[2] != ms[3] {
			continue
		}
		add(modules.C15Params{Limit: 2, Tasks: ms, Hold: true}, vlib.Pick(c, 1, 2))
	}
	// outcomes: errors and panics, with and without a high priority task
	for _, o := range []string{"err", "panic"} {
		for _, v := range []string{"run", "start", "signal"} {
			add(modules.C15Params{Limit: 2, Tasks: []string{"m-" + v + "-" + o, "m-run-ok", "l-run-ok"}}, bound)
			add(modules.C15Params{Limit: 2, Tasks: []string{"l-" + v + "-" + o, "m-start-ok", "m-signal-ok"}}, bound)
			add(modules.C15Params{Limit: 2, Tasks: []string{"h-" + v + "-" + o, "m-run-ok", "m-run-ok", "l-run-ok"}}, bound)
		}
	}
	for _, v := range []string{"run", "start", "signal"} {
		add(modules.C15Params{Limit: 2, Tasks: []string{"h-" + v + "-ok", "m-run-ok", "m-start-ok", "l-signal-ok"}}, bound)
	}
	// microtasks that log more lines than the log buffer holds while they occupy every slot (the log writer gets its
	// time slots from the microtask scheduler)
	add(modules.C15Params{Limit: 2, Tasks: []string{"m-run-chatty", "m-run-chatty"}}, 0)
	add(modules.C15Params{Limit: 2, Tasks: []string{"m-run-chatty", "l-start-chatty", "m-run-ok"}}, 0)
	// ... while the other slot stays occupied: the writer gets no time slot and has to be forced to empty the buffer
	add(modules.C15Params{Limit: 2, Tasks: []string{"m-run-chatty", "m-run-ok"}, Hold: true}, 0)
	add(modules.C15Params{Limit: 2, Tasks: []string{"l-run-chatty", "m-signal-ok"}, Hold: true}, 0)
	// panicking microtasks while the error reporting channel is full and unread
	for _, pr := range []string{"h", "m", "l"} {
		add(modules.C15Params{Limit: 2, Tasks: []string{pr + "-run-panic", "m-run-ok", pr + "-start-panic"}, FullCh: true}, vlib.Pick(c, 1, 2))
	}
	// a function that returns context.Canceled (plain or wrapped): the blocking variants hand it to their caller like any other error
	for _, o := range []string{"canceled", "wrapcanceled"} {
		for _, pr := range []string{"h", "m", "l"} {
			add(modules.C15Params{Limit: 2, Tasks: []string{pr + "-run-" + o, "m-run-ok"}}, vlib.Pick(c, 1, 2))
		}
	}
	// clearance queues that hold one or two waiting requests only: further submitters find the queue full and wait for room
	for _, ts := range [][]string{
		{"m-run-ok", "m-run-ok", "m-run-ok", "m-run-ok", "m-run-ok"},
		{"m-run-ok", "m-start-ok", "m-signal-ok", "m-run-ok", "m-start-ok"},
		{"l-run-ok", "l-run-ok", "l-start-ok", "l-signal-ok", "l-run-ok"},
		{"m-run-ok", "l-run-ok", "m-run-ok", "l-run-ok", "m-run-ok", "l-run-ok"},
	} {
		add(modules.C15Params{Limit: 2, Tasks: ts, QueueCap: 1}, vlib.Pick(c, 1, 2))
		add(modules.C15Params{Limit: 2, Tasks: ts, QueueCap: 2}, vlib.Pick(c, 1, 2))
		// the same with bodies that keep their slot until the root releases them one by one
		add(modules.C15Params{Limit: 2, Tasks: ts, QueueCap: 1, Hold: true}, vlib.Pick(c, 1, 2))
	}
	// the module is stopped while microtasks are running: the stop completes as soon as they finished
	for _, ts := range [][]string{{"m-run-ok"}, {"m-signal-ok"}, {"l-start-ok"}, {"h-run-ok"}, {"m-run-ok", "l-run-ok"}, {"m-start-ok", "m-signal-ok", "l-run-ok"}} {
		add(modules.C15Params{Limit: 2, Tasks: ts, StopDuring: true}, bound)
	}
	// maximum delays expire: waiting tasks start without clearance; afterwards the accounting must balance again
	for _, ts := range [][]string{
		{"m-run-ok", "m-run-ok", "l-run-ok", "l-run-ok"},
		{"m-run-ok", "m-start-ok", "l-start-ok", "l-run-ok", "l-signal-ok"},
		{"m-run-ok", "m-run-ok", "m-run-ok", "l-run-ok", "l-start-ok"},
	} {
		add(modules.C15Params{Limit: 2, Tasks: ts, Expiry: true}, vlib.Pick(c, 1, 2))
	}
	return out
}

func main() {
	vlib.Main("C15", "model_checking", func(c *vlib.Ctx) {
		c.Rule("stateless exploration of all interleavings within a deviation bound of the real modules package (source-instrumented): limit in {2,3}, limit+1.. microtasks submitted from as many threads, every multiset of {medium, low} x {Run, Start, Signal} variants, error/panic/context.Canceled outcomes, optional high-priority task, clearance queues shrunk to 1-2 entries (full-queue paths), stop during the run, maximum-delay expiry; both default schedulers; " +
			"distinct_nontrivial = distinct observation traces (begin/end order of the microtask bodies) per scenario")
		c.Assume("sequential consistency; data-race freedom outside the instrumented synchronisation operations; the virtual clock is frozen unless no thread can run, so 'no maximum delay has expired' holds whenever the clock reads 0")
		slib.Run(c, scenarios(c), slib.Opts{})
	})
}
