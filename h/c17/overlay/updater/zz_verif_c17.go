//go:build verif

package updater

import (
	"context"
	"net/http"
)

// VerifFirstVersion returns the first registered version of a resource.
func VerifFirstVersion(reg *ResourceRegistry, identifier string) *ResourceVersion {
	reg.RLock()
	defer reg.RUnlock()
	res := reg.resources[identifier]
	if res == nil || len(res.Versions) == 0 {
		return nil
	}
	return res.Versions[0]
}

// VerifFetchFile calls the private fetchFile once (first try, no backoff).
func VerifFetchFile(reg *ResourceRegistry, rv *ResourceVersion, client *http.Client) error {
	return reg.fetchFile(context.Background(), client, rv, 0)
}

// VerifStoragePath returns where the version is stored.
func VerifStoragePath(rv *ResourceVersion) string { return rv.storagePath() }
