package main

// File-system snapshots and the oracles of C17:
//   dest-old-or-new      the destination shows the complete previous state or the complete new content
//   only-temp-strays     everything else that changed is a temporary entry in a temporary location
//   fsync-before-rename  (trace) the temp file is synced after its last write and before the publishing rename
//   no-inplace-write     (trace) the destination path/inode is never opened for writing, written, truncated or unlinked

import (
	"bytes"
	"crypto/sha256"
	"encoding/hex"
	"fmt"
	"io/fs"
	"os"
	"path/filepath"
	"sort"
	"strings"
)

// Entry is one file-system object of a snapshot.
type Entry struct {
	Kind string // file | dir | symlink | other
	Mode os.FileMode
	Data []byte
	Link string
}

func (e *Entry) sum() string {
	h := sha256.Sum256(e.Data)
	return hex.EncodeToString(h[:6])
}

func (e *Entry) String() string {
	if e == nil {
		return "absent"
	}
	switch e.Kind {
	case "file":
		return fmt.Sprintf("file(%d bytes, mode %04o)", len(e.Data), e.Mode.Perm())
	case "symlink":
		return "symlink(" + e.Link + ")"
	}
	return e.Kind
}

func snapshot(roots ...string) (map[string]*Entry, error) {
	out := map[string]*Entry{}
	for _, root := range roots {
		if root == "" {
			continue
		}
		err := filepath.WalkDir(root, func(p string, d fs.DirEntry, err error) error {
			if err != nil {
				return err
			}
			if p == root {
				return nil
			}
			info, err := os.Lstat(p)
			if err != nil {
				return err
			}
			e := &Entry{Mode: info.Mode()}
			switch {
			case info.Mode().IsRegular():
				e.Kind = "file"
				// this read is what any reader of the path sees at this instant
				if e.Data, err = os.ReadFile(p); err != nil {
					return err
				}
			case info.IsDir():
				e.Kind = "dir"
			case info.Mode()&os.ModeSymlink != 0:
				e.Kind = "symlink"
				if e.Link, err = os.Readlink(p); err != nil {
					return err
				}
			default:
				e.Kind = "other"
			}
			out[p] = e
			return nil
		})
		if err != nil {
			return nil, err
		}
	}
	return out, nil
}

func under(p, dir string) bool { return strings.HasPrefix(p, dir+string(filepath.Separator)) }

func sameEntry(a, b *Entry, withDirMode bool) bool {
	if a == nil || b == nil {
		return a == b
	}
	if a.Kind != b.Kind {
		return false
	}
	switch a.Kind {
	case "file":
		return a.Mode == b.Mode && bytes.Equal(a.Data, b.Data)
	case "symlink":
		return a.Link == b.Link
	case "dir":
		return !withDirMode || a.Mode == b.Mode
	}
	return true
}

// Problem is one oracle failure.
type Problem struct {
	Clause string
	Disc   string
	Detail string
}

// Verdict is the evaluation of one observed state.
type Verdict struct {
	Dest     string // old | new | old=new | bad
	Strays   int
	Probes   int    // of Strays: empty probe files next to the destination
	ModeNote string // new content with a mode that is not the final one
	Problems []Problem
	State    string // canonical description of the observed state (for evidence)
}

func (v *Verdict) class() string {
	s := "dest=" + v.Dest
	if v.Strays > v.Probes {
		s += "+temp-strays"
	}
	if v.Probes > 0 {
		s += "+empty-probe-file-next-to-dest"
	}
	if v.ModeNote != "" {
		s += "+" + v.ModeNote
	}
	for _, p := range v.Problems {
		s += "!" + p.Clause + ":" + p.Disc
	}
	return s
}

// evaluate compares the state after a run with the state before it.
func evaluate(before, after map[string]*Entry, ex *Expect, sideOutputs []string) *Verdict {
	v := &Verdict{}
	dest := ex.Dest
	ob, oa := before[dest], after[dest]

	// --- destination: old state?
	isOld := sameEntry(ob, oa, true)
	if isOld && ob != nil && ob.Kind == "dir" {
		for p, e := range before {
			if under(p, dest) && !sameEntry(e, after[p], true) {
				isOld = false
			}
		}
		for p := range after {
			if under(p, dest) && before[p] == nil {
				isOld = false
			}
		}
	}
	// --- destination: new content?
	isNew := false
	bad := ""
	switch ex.NewKind {
	case "absent":
		isNew = oa == nil
		if !isNew {
			bad = "changed-instead-of-removed"
		}
	case "symlink":
		isNew = oa != nil && oa.Kind == "symlink" && oa.Link == ex.NewLink
		switch {
		case isNew:
		case oa == nil:
			bad = "dest-missing"
		case oa.Kind != "symlink":
			bad = "wrong-kind"
		default:
			bad = "other-target"
		}
	case "file":
		isNew = oa != nil && oa.Kind == "file" && bytes.Equal(oa.Data, ex.NewBytes)
		switch {
		case isNew:
		case oa == nil:
			bad = "dest-missing"
		case oa.Kind != "file":
			bad = "wrong-kind"
		case len(oa.Data) == 0:
			bad = "empty-file"
		case len(oa.Data) < len(ex.NewBytes) && bytes.Equal(oa.Data, ex.NewBytes[:len(oa.Data)]):
			bad = "partial-new-content"
		default:
			bad = "other-content"
		}
	case "dir":
		if oa == nil {
			bad = "dest-missing"
			break
		}
		if oa.Kind != "dir" {
			bad = "wrong-kind"
			break
		}
		isNew = true
		seen := 0
		for p, e := range after {
			if !under(p, dest) {
				continue
			}
			rel, _ := filepath.Rel(dest, p)
			want, ok := ex.NewTree[filepath.ToSlash(rel)]
			switch {
			case !ok:
				isNew = false
			case want == nil && e.Kind != "dir":
				isNew = false
			case want != nil && (e.Kind != "file" || !bytes.Equal(e.Data, want)):
				isNew = false
			default:
				seen++
			}
		}
		if seen != len(ex.NewTree) {
			isNew = false
		}
		if !isNew {
			bad = "partial-tree"
		}
	}
	switch {
	case isOld && isNew:
		v.Dest = "old=new"
	case isOld:
		v.Dest = "old"
	case isNew:
		v.Dest = "new"
	default:
		v.Dest = "bad"
		if ob != nil && oa == nil {
			bad = "dest-missing"
		}
		v.Problems = append(v.Problems, Problem{"dest-old-or-new", bad,
			fmt.Sprintf("destination %s: before=%s after=%s, expected new=%s", filepath.Base(dest), ob, oa, describeNew(ex))})
	}

	// --- everything else
	side := map[string]bool{}
	for _, s := range sideOutputs {
		side[s] = true
	}
	var paths []string
	seenP := map[string]bool{}
	for p := range before {
		if !seenP[p] {
			seenP[p] = true
			paths = append(paths, p)
		}
	}
	for p := range after {
		if !seenP[p] {
			seenP[p] = true
			paths = append(paths, p)
		}
	}
	sort.Strings(paths)
	var strayNames []string
	for _, p := range paths {
		if p == dest || under(p, dest) {
			continue
		}
		b, a := before[p], after[p]
		if sameEntry(b, a, false) {
			continue
		}
		okTemp, probe := false, false
		if b == nil {
			okTemp, probe = allowedTemp(p, a, ex)
		}
		switch {
		case okTemp:
			v.Strays++
			if probe {
				v.Probes++
			}
			strayNames = append(strayNames, p)
		case b == nil && tempNamed(p, ex):
			v.Problems = append(v.Problems, Problem{"only-temp-strays", "temp-file-outside-temp-location",
				fmt.Sprintf("%s was left behind: %s (destination shows the %s state); it is named like a temporary file but lies outside the temporary location of this configuration (%s), where only an empty probe file may stay", p, a, v.Dest, strings.Join(ex.TempLocs, ", "))})
		case b == nil && a.Kind == "dir" && under(dest, p):
			// a parent directory of the destination was created
		case b == nil && side[p] && isNew:
			// a companion file of the complete new state (signature file)
		case b == nil:
			v.Problems = append(v.Problems, Problem{"only-temp-strays", "nontemp-entry-left",
				fmt.Sprintf("%s was left behind: %s (destination shows the %s state); it is not a temporary file in a temporary location", p, a, v.Dest)})
		case a == nil:
			v.Problems = append(v.Problems, Problem{"only-temp-strays", "other-entry-removed", fmt.Sprintf("%s (%s) was removed", p, b)})
		default:
			v.Problems = append(v.Problems, Problem{"only-temp-strays", "other-entry-modified", fmt.Sprintf("%s changed from %s to %s", p, b, a)})
		}
	}
	v.State = fmt.Sprintf("dest:%s strays:%d", oa, v.Strays)
	return v
}

func describeNew(ex *Expect) string {
	switch ex.NewKind {
	case "file":
		return fmt.Sprintf("file(%d bytes)", len(ex.NewBytes))
	case "symlink":
		return "symlink(" + ex.NewLink + ")"
	case "dir":
		return fmt.Sprintf("directory with %d entries", len(ex.NewTree))
	}
	return ex.NewKind
}

// allowedTemp: a created entry that counts as "stray temporary file in the
// temporary location": below the registry's tmp dir, or (below) an entry named
// ".<base of destination><random>" directly inside a temp location, or an EMPTY
// regular file of that name directly inside a probe location (see Expect.ProbeLocs).
// The second result says that it was accepted as a probe file.
func allowedTemp(p string, e *Entry, ex *Expect) (ok, probe bool) {
	for _, t := range ex.TempTrees {
		if under(p, t) {
			return true, false
		}
	}
	prefix := "." + filepath.Base(ex.Dest)
	for _, d := range ex.TempLocs {
		if d == "" || !under(p, d) {
			continue
		}
		rel, _ := filepath.Rel(d, p)
		first := strings.Split(rel, string(filepath.Separator))[0]
		if strings.HasPrefix(first, prefix) && len(first) > len(prefix) {
			return true, false
		}
	}
	for _, d := range ex.ProbeLocs {
		name := filepath.Base(p)
		if filepath.Dir(p) == d && strings.HasPrefix(name, prefix) && len(name) > len(prefix) &&
			e != nil && e.Kind == "file" && len(e.Data) == 0 {
			return true, true
		}
	}
	return false, false
}

// tempNamed: the entry has the name of a temporary file of this destination.
func tempNamed(p string, ex *Expect) bool {
	prefix := "." + filepath.Base(ex.Dest)
	name := filepath.Base(p)
	return strings.HasPrefix(name, prefix) && len(name) > len(prefix)
}

func isContentWrite(name string) bool {
	switch name {
	case "write", "pwrite64", "writev", "pwritev", "pwritev2", "copy_file_range", "sendfile", "splice", "ftruncate", "fallocate":
		return true
	}
	return false
}

// traceObligations checks the system-call sequence of a complete run.
func traceObligations(ot *OpTrace, ex *Expect, opOK bool) []Problem {
	var out []Problem
	if ex.NewKind != "file" {
		return nil
	}
	dest := ex.Dest
	// no-inplace-write
	for _, c := range ot.Calls {
		switch {
		case (c.Name == "openat" || c.Name == "open" || c.Name == "creat") && c.Path == dest &&
			(strings.Contains(c.Flags, "O_WRONLY") || strings.Contains(c.Flags, "O_RDWR") || strings.Contains(c.Flags, "O_TRUNC")):
			out = append(out, Problem{"no-inplace-write", "dest-opened-for-writing", fmt.Sprintf("line %d: %s(%s, %s)", c.Line, c.Name, "<dest>", c.Flags)})
		case isContentWrite(c.Name) && c.Path == dest:
			out = append(out, Problem{"no-inplace-write", "dest-written", fmt.Sprintf("line %d: %s on the destination file", c.Line, c.Name)})
		case (c.Name == "unlink" || c.Name == "unlinkat" || c.Name == "rmdir") && c.Path == dest && !c.failed():
			// after it the destination path shows neither the previous state nor the new content
			out = append(out, Problem{"no-inplace-write", "dest-unlinked", fmt.Sprintf("line %d: %s(<dest>) removes the destination before the new content is renamed into place", c.Line, c.Name)})
		case c.Name == "truncate" && c.Path == dest:
			out = append(out, Problem{"no-inplace-write", "dest-truncated", fmt.Sprintf("line %d: truncate(<dest>)", c.Line)})
		}
	}
	if !ex.SingleFile {
		return out
	}
	// fsync-before-rename
	published := false
	for i, c := range ot.Calls {
		if !(c.Name == "rename" || c.Name == "renameat" || c.Name == "renameat2") || c.Path2 != dest || c.failed() {
			continue
		}
		published = true
		tmp := c.Path
		lastWrite, lastSync := -1, -1
		for j := 0; j < i; j++ {
			d := ot.Calls[j]
			if d.Path != tmp {
				continue
			}
			if isContentWrite(d.Name) && !d.failed() {
				lastWrite = j
			}
			if (d.Name == "fsync" || d.Name == "fdatasync") && !d.failed() {
				lastSync = j
			}
		}
		switch {
		case lastWrite >= 0 && lastSync < 0:
			out = append(out, Problem{"fsync-before-rename", "no-fsync", fmt.Sprintf("temp file %s is written (line %d) and renamed onto the destination (line %d) without fsync", filepath.Base(tmp), ot.Calls[lastWrite].Line, c.Line)})
		case lastWrite >= 0 && lastSync < lastWrite:
			out = append(out, Problem{"fsync-before-rename", "write-after-fsync", fmt.Sprintf("temp file %s is written (line %d) after its last fsync (line %d) and then renamed (line %d)", filepath.Base(tmp), ot.Calls[lastWrite].Line, ot.Calls[lastSync].Line, c.Line)})
		}
	}
	if !published && ot.Ended && opOK {
		out = append(out, Problem{"fsync-before-rename", "not-published-by-rename", "the complete operation contains no rename onto the destination"})
	}
	return out
}
