#!/bin/bash
# Demonstrates detection: applies each deliberate defect (demo/mutants/*.diff) to a scratch copy of the
# /repo file under /tmp, builds the C17 harness against it through a scratch overlay and runs the quick
# check. Every mutant must give exit code 1 (VIOLATION). Nothing under /repo is touched.
# usage: run_demos.sh [runs-per-mutant]
runs=${1:-1}
cd /verif || exit 2
work=$(mktemp -d /tmp/c17-demo-XXXXXX)
trap 'rm -rf "$work"' EXIT
base=$(./check.sh C17 --tier quick 2>&1 | grep '  signature:' | sed 's/  signature: //' | sort -u)
echo "BASELINE (unchanged tree) signatures: $(echo $base | tr '\n' ';')"
fail=0
for d in h/c17/demo/mutants/*.diff; do
  name=$(basename "$d" .diff)
  rel=$(head -1 "$d" | sed -e 's/^--- \/repo\///' -e 's/\t.*//')
  mkdir -p "$work/$name"
  cp "/repo/$rel" "$work/$name/$(basename "$rel")"
  patch -s "$work/$name/$(basename "$rel")" < "$d" || { echo "DEMO $name: patch does not apply"; fail=1; continue; }
  h/c17/demo/build_with.sh "$work/$name/c17" "$rel" "$work/$name/$(basename "$rel")" || { echo "DEMO $name: build failed"; fail=1; continue; }
  for i in $(seq "$runs"); do
    out=$("$work/$name/c17" --tier quick -budget 6m 2>&1); rc=$?
    sigs=$(echo "$out" | grep '  signature:' | sed 's/  signature: //' | sort -u | grep -vxF "$base" | tr '\n' ';')
    echo "DEMO $name run $i: exit=$rc new signatures: $sigs"
    [ "$rc" = 1 ] && [ -n "$sigs" ] || fail=1
  done
done
# restore the evidence file of the unchanged tree
./check.sh C17 --tier quick > /dev/null 2>&1
exit $fail
