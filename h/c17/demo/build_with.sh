#!/bin/bash
# usage: build_with.sh <out-binary> <repo-relative-file> <replacement-file> [<rel> <replacement> ...]
# Builds the C17 harness with some /repo files replaced through a scratch overlay
# (for trying a candidate fix or a deliberate defect). Nothing under /repo or /verif/build is changed.
set -e
export GOFLAGS=-mod=mod GOPROXY=off GOSUMDB=off GOTOOLCHAIN=local
out="$1"; shift
cd /verif
./mkoverlay.sh c17
tmpjson=$(mktemp /tmp/c17-overlay-XXXXXX.json)
python3 - "$tmpjson" "$@" <<'PY'
import json,sys
o=json.load(open('/verif/build/c17.overlay.json'))
a=sys.argv[2:]
for i in range(0,len(a),2):
    o["Replace"]["/repo/"+a[i]]=a[i+1]
json.dump(o,open(sys.argv[1],'w'))
PY
go build -tags verif -overlay "$tmpjson" -o "$out" ./h/c17
rm -f "$tmpjson"
