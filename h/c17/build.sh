#!/bin/bash
set -e
cd /verif
./mkoverlay.sh c17
go build -tags verif -overlay build/c17.overlay.json -o "$1" ./h/c17
