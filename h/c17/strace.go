package main

// strace log parsing: the system calls of the operation's thread between the
// two markers, with file descriptors resolved to paths.

import (
	"fmt"
	"os"
	"path/filepath"
	"regexp"
	"strconv"
	"strings"
)

// traceSet: every call that can change the file system, plus close (ordering
// obligation) and faccessat (markers). Not every name exists on every kernel
// ABI; strace rejects unknown names, so the list is probed once (see straceSet).
var mutatingNames = []string{
	"openat", "open", "creat", "write", "pwrite64", "writev", "pwritev", "pwritev2",
	"copy_file_range", "sendfile", "splice", "fallocate", "ftruncate", "truncate",
	"fsync", "fdatasync", "sync_file_range",
	"rename", "renameat", "renameat2", "unlink", "unlinkat", "rmdir", "mkdir", "mkdirat",
	"symlink", "symlinkat", "link", "linkat", "chmod", "fchmod", "fchmodat", "chown", "fchown", "fchownat", "lchown",
	"utimensat", "mknod", "mknodat", "setxattr", "fsetxattr", "lsetxattr",
}

var extraNames = []string{"close", "faccessat", "faccessat2", "access", "dup", "dup2", "dup3"}

// Call is one parsed system call.
type Call struct {
	Pid     int
	Name    string
	Args    []string
	Ret     string // "?" when killed / never finished
	Killed  bool
	Inj     bool // "(INJECTED)" mark of strace's fault injection
	Line    int
	EndLine int // line on which the call finished (differs from Line for unfinished/resumed calls)

	// resolved
	Path   string // main path operand (absolute), or path of the fd operand
	Path2  string // second path (rename/link destination, copy_file_range out file)
	Flags  string // openat flags
	FdKind string // for fd calls: "file" (resolved) or "unknown" (socket, pipe, std stream)
}

func (c *Call) retInt() (int, bool) {
	f := strings.Fields(c.Ret)
	if len(f) == 0 {
		return 0, false
	}
	n, err := strconv.Atoi(f[0])
	return n, err == nil
}

func (c *Call) failed() bool {
	n, ok := c.retInt()
	return ok && n < 0
}

var retRe = regexp.MustCompile(`\)\s+= `)

var lineRe = regexp.MustCompile(`^(\d+)\s+(.*)$`)

// parseStrace parses a log written by `strace -f -o file`.
func parseStrace(path string) ([]*Call, error) {
	raw, err := os.ReadFile(path)
	if err != nil {
		return nil, err
	}
	var calls []*Call
	pending := map[int]*Call{} // unfinished call per pid
	pendingArgs := map[int]string{}
	for ln, line := range strings.Split(string(raw), "\n") {
		m := lineRe.FindStringSubmatch(line)
		if m == nil {
			continue
		}
		pid, _ := strconv.Atoi(m[1])
		rest := m[2]
		if strings.HasPrefix(rest, "+++") || strings.HasPrefix(rest, "---") {
			continue
		}
		if strings.HasPrefix(rest, "<... ") {
			i := strings.Index(rest, " resumed>")
			if i < 0 {
				continue
			}
			c := pending[pid]
			if c == nil {
				continue
			}
			tail := rest[i+len(" resumed>"):]
			finishCall(c, pendingArgs[pid]+tail)
			c.EndLine = ln + 1
			delete(pending, pid)
			delete(pendingArgs, pid)
			continue
		}
		i := strings.Index(rest, "(")
		if i <= 0 {
			continue
		}
		c := &Call{Pid: pid, Name: rest[:i], Line: ln + 1, EndLine: ln + 1}
		body := rest[i+1:]
		calls = append(calls, c)
		if strings.HasSuffix(body, "<unfinished ...>") {
			pending[pid] = c
			pendingArgs[pid] = strings.TrimSuffix(body, "<unfinished ...>")
			c.Ret, c.Killed = "?", true // until resumed
			c.Args = splitArgs(pendingArgs[pid])
			continue
		}
		finishCall(c, body)
	}
	return calls, nil
}

func finishCall(c *Call, body string) {
	locs := retRe.FindAllStringIndex(body, -1)
	if len(locs) == 0 {
		c.Args = splitArgs(body)
		c.Ret, c.Killed = "?", true
		return
	}
	loc := locs[len(locs)-1]
	c.Args = splitArgs(body[:loc[0]])
	c.Ret = strings.TrimSpace(body[loc[1]:])
	c.Killed = strings.HasPrefix(c.Ret, "?")
	c.Inj = strings.Contains(c.Ret, "(INJECTED)")
}

// splitArgs splits at top-level ", " (outside quotes, brackets, braces).
func splitArgs(s string) []string {
	var out []string
	depth, inq, esc := 0, false, false
	start := 0
	for i := 0; i < len(s); i++ {
		ch := s[i]
		switch {
		case esc:
			esc = false
		case inq && ch == '\\':
			esc = true
		case ch == '"':
			inq = !inq
		case inq:
		case ch == '[' || ch == '{' || ch == '(':
			depth++
		case ch == ']' || ch == '}' || ch == ')':
			depth--
		case ch == ',' && depth == 0:
			out = append(out, strings.TrimSpace(s[start:i]))
			start = i + 1
		}
	}
	if t := strings.TrimSpace(s[start:]); t != "" {
		out = append(out, t)
	}
	return out
}

func unquote(s string) (string, bool) {
	s = strings.TrimSuffix(s, "...")
	if len(s) >= 2 && s[0] == '"' && s[len(s)-1] == '"' {
		if u, err := strconv.Unquote(s); err == nil {
			return u, true
		}
		return s[1 : len(s)-1], true
	}
	return "", false
}

// OpTrace is the operation's thread between the markers.
type OpTrace struct {
	Tid     int
	Calls   []*Call        // calls of the operation's thread after the begin marker (markers excluded)
	Before  map[string]int // per name: calls of that thread before the begin marker
	Begun   bool
	Ended   bool
	OtherMx map[string]int // per name: the highest per-thread count over all other threads
}

func arg(c *Call, i int) string {
	if i < len(c.Args) {
		return c.Args[i]
	}
	return ""
}

// analyse resolves descriptors and extracts the operation's thread. cwd is
// used for relative paths. The operation's thread is the one that issues the
// begin marker.
func analyse(calls []*Call, cwd string) *OpTrace {
	ot := &OpTrace{Before: map[string]int{}, OtherMx: map[string]int{}}
	for _, c := range calls {
		if c.Name == "faccessat" || c.Name == "faccessat2" || c.Name == "access" {
			for _, a := range c.Args {
				if p, ok := unquote(a); ok && p == markBegin {
					ot.Tid = c.Pid
				}
			}
		}
	}
	fds := map[int]string{}
	perThread := map[int]map[string]int{}
	abs := func(dfd, p string) string {
		if filepath.IsAbs(p) {
			return filepath.Clean(p)
		}
		if dfd == "AT_FDCWD" || dfd == "" {
			return filepath.Join(cwd, p)
		}
		if n, err := strconv.Atoi(dfd); err == nil {
			if base, ok := fds[n]; ok {
				return filepath.Join(base, p)
			}
		}
		return "?/" + p
	}
	fdPath := func(c *Call, a string) string {
		n, err := strconv.Atoi(a)
		if err != nil {
			c.FdKind = "unknown"
			return ""
		}
		if p, ok := fds[n]; ok {
			c.FdKind = "file"
			return p
		}
		c.FdKind = "unknown"
		return fmt.Sprintf("fd:%d", n)
	}
	for _, c := range calls {
		q := func(i int) string { p, _ := unquote(arg(c, i)); return p }
		switch c.Name {
		case "openat":
			c.Path = abs(arg(c, 0), q(1))
			c.Flags = arg(c, 2)
			if n, ok := c.retInt(); ok && n >= 0 {
				fds[n] = c.Path
			}
		case "open", "creat":
			c.Path = abs("", q(0))
			c.Flags = arg(c, 1)
			if c.Name == "creat" {
				c.Flags = "O_WRONLY|O_CREAT|O_TRUNC"
			}
			if n, ok := c.retInt(); ok && n >= 0 {
				fds[n] = c.Path
			}
		case "close":
			c.Path = fdPath(c, arg(c, 0))
			if n, err := strconv.Atoi(arg(c, 0)); err == nil && !c.failed() && !c.Killed {
				delete(fds, n)
			}
		case "dup", "dup2", "dup3", "fcntl":
			// descriptor duplication: keep the path for the new descriptor
			if c.Name == "fcntl" && !strings.HasPrefix(arg(c, 1), "F_DUPFD") {
				break
			}
			if o, err := strconv.Atoi(arg(c, 0)); err == nil {
				if p, ok := fds[o]; ok {
					if n, ok2 := c.retInt(); ok2 && n >= 0 {
						fds[n] = p
					}
				}
			}
		case "write", "pwrite64", "writev", "pwritev", "pwritev2", "ftruncate", "fsync", "fdatasync", "sync_file_range",
			"fchmod", "fchown", "fallocate", "fsetxattr":
			c.Path = fdPath(c, arg(c, 0))
		case "copy_file_range": // (fd_in, off_in, fd_out, off_out, len, flags)
			c.Path2 = fdPath(c, arg(c, 0))
			c.Path = fdPath(c, arg(c, 2))
		case "sendfile": // (out_fd, in_fd, offset, count)
			c.Path2 = fdPath(c, arg(c, 1))
			c.Path = fdPath(c, arg(c, 0))
		case "splice": // (fd_in, off_in, fd_out, off_out, len, flags)
			c.Path2 = fdPath(c, arg(c, 0))
			c.Path = fdPath(c, arg(c, 2))
		case "rename":
			c.Path, c.Path2 = abs("", q(0)), abs("", q(1))
		case "renameat", "renameat2":
			c.Path, c.Path2 = abs(arg(c, 0), q(1)), abs(arg(c, 2), q(3))
			if !c.failed() && !c.Killed {
				// descriptors of the renamed file now refer to the new path
				for n, p := range fds {
					if p == c.Path {
						fds[n] = c.Path2
					}
				}
			}
		case "link":
			c.Path, c.Path2 = abs("", q(0)), abs("", q(1))
		case "linkat":
			c.Path, c.Path2 = abs(arg(c, 0), q(1)), abs(arg(c, 2), q(3))
		case "symlink":
			c.Path2, c.Path = q(0), abs("", q(1))
		case "symlinkat":
			c.Path2, c.Path = q(0), abs(arg(c, 1), q(2))
		case "unlink", "rmdir", "mkdir", "chmod", "chown", "lchown", "truncate", "mknod", "setxattr", "lsetxattr":
			c.Path = abs("", q(0))
		case "unlinkat", "mkdirat", "fchmodat", "fchownat", "utimensat", "mknodat":
			c.Path = abs(arg(c, 0), q(1))
		}
		// per-thread counters and the operation's slice
		isMarker := func(m string) bool {
			if c.Name != "faccessat" && c.Name != "faccessat2" && c.Name != "access" {
				return false
			}
			for _, a := range c.Args {
				if p, ok := unquote(a); ok && p == m {
					return true
				}
			}
			return false
		}
		if c.Pid != ot.Tid {
			m := perThread[c.Pid]
			if m == nil {
				m = map[string]int{}
				perThread[c.Pid] = m
			}
			m[c.Name]++
			if m[c.Name] > ot.OtherMx[c.Name] {
				ot.OtherMx[c.Name] = m[c.Name]
			}
			continue
		}
		switch {
		case isMarker(markBegin):
			ot.Begun = true
		case isMarker(markEnd):
			ot.Ended = true
		case !ot.Begun:
			ot.Before[c.Name]++
		case !ot.Ended:
			ot.Calls = append(ot.Calls, c)
		}
	}
	return ot
}

// mutating says whether killing the process before this call is a crash point
// of the property: a call that changes the file system below one of the roots.
func mutating(c *Call, roots []string) bool {
	under := func(p string) bool {
		for _, r := range roots {
			if r != "" && (p == r || strings.HasPrefix(p, r+"/")) {
				return true
			}
		}
		return false
	}
	switch c.Name {
	case "close", "faccessat", "faccessat2", "access", "dup", "dup2", "dup3", "fcntl":
		return false
	case "openat", "open", "creat":
		return under(c.Path) && (strings.Contains(c.Flags, "O_CREAT") || strings.Contains(c.Flags, "O_TRUNC"))
	}
	return under(c.Path) || (c.Path2 != "" && under(c.Path2) && (c.Name == "rename" || c.Name == "renameat" || c.Name == "renameat2" || c.Name == "link" || c.Name == "linkat"))
}

var digitsRe = regexp.MustCompile(`\d{4,}`)

// normalise makes a call comparable between two runs: scratch roots replaced,
// random temp-file suffixes replaced, sizes dropped.
func normalise(c *Call, sp *Spec) string {
	r := func(p string) string {
		p = strings.ReplaceAll(p, sp.Root, "$R")
		if sp.Other != "" {
			p = strings.ReplaceAll(p, sp.Other, "$O")
		}
		return digitsRe.ReplaceAllString(p, "#")
	}
	s := c.Name + "(" + r(c.Path)
	if c.Path2 != "" {
		s += " , " + r(c.Path2)
	}
	if c.Flags != "" {
		s += " , " + c.Flags
	}
	return s + ")"
}
