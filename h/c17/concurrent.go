package main

// Two overlapping calls of the same operation on the same objects inside ONE
// process (they share the in-process locks, which two processes would not):
// call A runs on the operation's thread under strace; strace delays that thread
// when its n-th file-system-mutating call has returned (inject delay_exit, which
// holds only that thread); the runner sees the "(DELAYED)" line and releases
// call B (a second goroutine on its own thread, waiting on a FIFO). Enumerated:
// B started immediately after the begin marker and after each mutating call of
// A. Whether B then runs inside the window or has to wait for A (a lock) is the
// implementation's business and is recorded. Oracle: when both calls returned
// (and when B returned, if A was still delayed) the destination is absent/old or
// the complete tree, and if a call returned nil the destination is published.

import (
	"bytes"
	"encoding/json"
	"fmt"
	"os"
	"os/exec"
	"path/filepath"
	"regexp"
	"strconv"
	"strings"
	"sync/atomic"
	"syscall"
	"time"

	"verif/vlib"
)

const concurrentDelay = 400 * time.Millisecond

var (
	bBeginRe = regexp.MustCompile(`(?m)^(\d+)\s+faccessat\([^\n]*"` + regexp.QuoteMeta(markBBegin) + `"`)
	bEndRe   = regexp.MustCompile(`(?m)^(\d+)\s+faccessat\([^\n]*"` + regexp.QuoteMeta(markBEnd) + `"`)
)

func (sc Scenario) concurrent() bool { return sc.has("concurrent") }

func lineOf(raw []byte, off int) int { return bytes.Count(raw[:off], []byte("\n")) + 1 }

func (e *env) runConcurrentPoint(fp FaultPoint, verbose bool) string {
	c := e.c
	sc := fp.Sc
	n := atomic.AddInt64(&e.seq, 1)
	root := filepath.Join(e.master, fmt.Sprintf("r%d", n))
	fifo := filepath.Join(e.master, fmt.Sprintf("fifo%d", n))
	specFile := filepath.Join(e.master, fmt.Sprintf("spec%d.json", n))
	logFile := filepath.Join(e.master, fmt.Sprintf("trace%d.log", n))
	defer func() {
		_ = os.RemoveAll(root)
		for _, f := range []string{fifo, specFile, logFile} {
			_ = os.Remove(f)
		}
	}()
	fail := func(format string, a ...any) string {
		c.EngineError("%s %s: %s", sc.Name(), fp.Fault, fmt.Sprintf(format, a...))
		return ""
	}
	if err := os.Mkdir(root, 0o755); err != nil {
		return fail("%v", err)
	}
	if err := syscall.Mkfifo(fifo, 0o600); err != nil {
		return fail("mkfifo: %v", err)
	}
	sp := &Spec{Sc: sc, Root: root, Fifo: fifo}
	var ex *Expect
	if pv, _ := vlib.Catch(func() { ex = prepare(sp) }); pv != nil {
		return fail("prepare: %v", pv)
	}
	before, err := snapshot(root)
	if err != nil {
		return fail("%v", err)
	}
	b, _ := json.Marshal(sp)
	if err := os.WriteFile(specFile, b, 0o644); err != nil {
		return fail("%v", err)
	}
	l := layout(sp)
	cmd := exec.Command("strace", "-f", "-s", "0", "-o", logFile, "-e", "trace="+e.traceArg,
		"-e", fmt.Sprintf("inject=%s:delay_exit=%d:when=%d", fp.Fault.Name, concurrentDelay.Microseconds(), fp.When),
		e.self, "-c17-driver", specFile)
	cmd.Dir = root
	cmd.Env = append(os.Environ(), "TMPDIR="+l.SysTmp, "GOMAXPROCS=2", "GODEBUG=asyncpreemptoff=1")
	var out bytes.Buffer
	cmd.Stdout, cmd.Stderr = &out, &out
	if err := cmd.Start(); err != nil {
		return fail("%v", err)
	}
	done := make(chan error, 1)
	go func() { done <- cmd.Wait() }()
	exited := false
	abort := func(why string) string {
		if !exited {
			_ = cmd.Process.Kill()
			if raw, err := os.ReadFile(logFile); err == nil {
				if m := beginLineRe.FindSubmatch(raw); m != nil {
					if pid, err := strconv.Atoi(string(m[1])); err == nil {
						_ = syscall.Kill(pid, syscall.SIGKILL)
					}
				}
			}
			// unblock a driver that still waits for the FIFO
			if f, err := os.OpenFile(fifo, os.O_WRONLY|syscall.O_NONBLOCK, 0); err == nil {
				_ = f.Close()
			}
			<-done
		}
		return fail("%s\n%s", why, out.String())
	}
	wait := func(d time.Duration) bool { // true when strace has exited
		select {
		case <-done:
			exited = true
			return true
		case <-time.After(d):
			return false
		}
	}
	deadline := time.Now().Add(overlapTimeout)

	// 1. wait until A's thread is delayed after the intended call
	tid := 0
	var delayedRe *regexp.Regexp
	delayedOff := -1
	for delayedOff < 0 {
		raw, _ := os.ReadFile(logFile)
		if tid == 0 {
			if m := beginLineRe.FindSubmatch(raw); m != nil {
				tid, _ = strconv.Atoi(string(m[1]))
				delayedRe = regexp.MustCompile(fmt.Sprintf(`(?m)^%d\s+[^\n]*\(DELAYED\)`, tid))
			}
		}
		if delayedRe != nil {
			if loc := delayedRe.FindIndex(raw); loc != nil {
				delayedOff = loc[0]
				break
			}
		}
		if wait(time.Millisecond) {
			return abort("call A finished without being delayed")
		}
		if time.Now().After(deadline) {
			return abort("call A was not delayed in time")
		}
	}
	// 2. release call B
	for {
		f, err := os.OpenFile(fifo, os.O_WRONLY|syscall.O_NONBLOCK, 0)
		if err == nil {
			_ = f.Close()
			break
		}
		if wait(time.Millisecond) {
			return abort("driver exited before call B could be released")
		}
		if time.Now().After(deadline) {
			return abort("call B did not open the FIFO in time")
		}
	}
	// 3. when B has returned while A is still delayed: snapshot of that moment
	var mid map[string]*Entry
	for !exited {
		raw, _ := os.ReadFile(logFile)
		if bEndRe.Match(raw) {
			m, err := snapshot(root)
			raw2, _ := os.ReadFile(logFile)
			// valid only if A's thread has not moved on meanwhile: its delayed call is still its last line
			later := regexp.MustCompile(fmt.Sprintf(`(?m)^%d\s+\w+\(`, tid)).FindAllIndex(raw2, -1)
			if err == nil && len(later) > 0 && later[len(later)-1][0] == delayedOff {
				mid = m
			}
			break
		}
		if wait(2 * time.Millisecond) {
			break
		}
		if time.Now().After(deadline) {
			return abort("neither call finished in time")
		}
	}
	// 4. both calls return
	if !exited {
		select {
		case <-done:
			exited = true
		case <-time.After(overlapTimeout):
			return abort("driver did not finish")
		}
	}
	after, err := snapshot(root)
	if err != nil {
		return fail("%v", err)
	}
	resA, resB := "", ""
	for _, line := range strings.Split(out.String(), "\n") {
		if strings.HasPrefix(line, "RESULT ") {
			resA = strings.TrimPrefix(line, "RESULT ")
		}
		if strings.HasPrefix(line, "RESULTB ") {
			resB = strings.TrimPrefix(line, "RESULTB ")
		}
	}
	if resA == "" || resB == "" {
		return fail("no result of both calls\n%s", out.String())
	}
	// validation: A was delayed after the intended call
	calls, err := parseStrace(logFile)
	if err != nil {
		return fail("%v", err)
	}
	op := analyse(calls, root)
	raw, _ := os.ReadFile(logFile)
	delayedLine := lineOf(raw, delayedOff)
	var target *Call
	count := 0
	for _, call := range op.Calls {
		if call.Name == fp.Fault.Name {
			count++
			if count == fp.Fault.K {
				target = call
			}
		}
	}
	switch {
	case fp.Fault.K == 0:
		if len(op.Calls) > 0 && op.Calls[0].Line < delayedLine {
			return fail("call A was delayed after %s instead of after the begin marker", op.Calls[0].Name)
		}
	case target == nil || target.EndLine != delayedLine:
		return fail("call A was delayed at another call (line %d)", delayedLine)
	case normalise(target, sp) != fp.Norm:
		return fail("the delayed call differs from the trace run: %s vs %s", normalise(target, sp), fp.Norm)
	}
	// where did B run? next call of A's thread after the delayed one
	nextA := len(raw)
	for _, loc := range regexp.MustCompile(fmt.Sprintf(`(?m)^%d\s+\w+\(`, tid)).FindAllIndex(raw, -1) {
		if loc[0] > delayedOff {
			nextA = loc[0]
			break
		}
	}
	timing := "B-started-late"
	if bb := bBeginRe.FindIndex(raw); bb != nil && bb[0] > delayedOff && bb[0] < nextA {
		timing = "B-overlapped-A"
		if be := bEndRe.FindIndex(raw); be != nil && be[0] < nextA {
			timing = "B-ran-completely-while-A-was-delayed"
		} else {
			// no file-system call of B before A's end marker: B waited (lock)
			bt, _ := strconv.Atoi(string(bBeginRe.FindSubmatch(raw)[1]))
			endLine := 0
			for _, call := range calls {
				if call.Pid == op.Tid && (call.Name == "faccessat") {
					for _, a := range call.Args {
						if p, ok := unquote(a); ok && p == markEnd {
							endLine = call.Line
						}
					}
				}
			}
			bBeginLine := lineOf(raw, bb[0])
			waited := true
			for _, call := range calls {
				if call.Pid == bt && call.Line > bBeginLine && call.Line < endLine && mutating(call, []string{root}) {
					waited = false
				}
			}
			if waited {
				timing = "B-waited-until-A-returned"
			}
		}
	}

	ok := func(r string) bool { return r == "ok" }
	report := func(moment string, v *Verdict, anyOK bool) {
		var extra []Problem
		if anyOK && v.Dest == "old" && ex.NewKind != "absent" {
			extra = append(extra, Problem{"dest-old-or-new", "success-without-new-content", "a call returned nil but the destination is not published"})
		}
		for i := range v.Problems {
			v.Problems[i].Detail = moment + ": " + v.Problems[i].Detail
		}
		for i := range extra {
			extra[i].Detail = moment + ": " + extra[i].Detail
		}
		e.report(sc, fp.Fault, fp.Norm, v, extra, &RunResult{Spec: sp, Result: "A: " + resA + "; B: " + resB + " (" + timing + ")"})
		v.Problems = append(v.Problems, extra...)
	}
	vf := evaluate(before, after, ex, nil)
	report("after both calls returned", vf, ok(resA) || ok(resB))
	// (how B ran relative to A's delay and whether the intermediate snapshot was
	// possible depend on timing: counted separately, not part of the outcome class)
	cls := fmt.Sprintf("concurrent:final[%s]", vf.class())
	state := vf.State
	c.ExtraAdd("concurrent_calls:"+timing, 1)
	if mid != nil {
		vm := evaluate(before, mid, ex, nil)
		report("when call B had returned and A was still delayed", vm, ok(resB))
		c.ExtraAdd("concurrent_calls:intermediate-state-inspected", 1)
	}
	res := func(r string) string {
		if r == "ok" {
			return "ok"
		}
		return "error"
	}
	cls += fmt.Sprintf(" A=%s B=%s", res(resA), res(resB))
	c.Add(0, 0, 1)
	c.Outcome(cls)
	c.Nontrivial(sc.Name() + "|" + fp.Fault.String())
	if verbose {
		fmt.Printf("  %-28s %-70s -> %s\n", fp.Fault, fp.Norm, cls)
	}
	if sc.New == "small" && (strings.HasPrefix(fp.Fault.Name, "rename") || fp.Fault.K == 1 && fp.Fault.Name == "mkdirat") {
		c.Sample(map[string]any{"scenario": sc.Name(), "fault": "call A delayed after " + fp.Norm + ", call B released", "observed": state, "verdict": cls})
	}
	return cls + "|" + state
}
