package main

// Scenario definitions, the on-disk layout of one run, the preparation of the
// initial state (done by the runner) and the driver mode (re-exec of this
// binary under strace) that performs exactly ONE operation of the real portbase
// code between two marker system calls.

import (
	"archive/zip"
	"bytes"
	"compress/flate"
	"compress/gzip"
	"encoding/json"
	"fmt"
	"hash/crc32"
	"io"
	"net/http"
	"os"
	"path/filepath"
	"runtime"
	"strconv"
	"strings"
	"syscall"

	"github.com/safing/jess"
	"github.com/safing/portbase/database/record"
	"github.com/safing/portbase/database/storage/fstree"
	"github.com/safing/portbase/formats/dsd"
	"github.com/safing/portbase/updater"
	"github.com/safing/portbase/utils"
	"github.com/safing/portbase/utils/renameio"
)

const (
	markBegin  = "/VERIF_MARK_BEGIN"
	markEnd    = "/VERIF_MARK_END"
	markBBegin = "/VERIF_MARK_B_BEGIN"
	markBEnd   = "/VERIF_MARK_B_END"
	// padCalls dummy calls are issued by the operation's thread before the begin
	// marker so that its per-thread strace counter of `write` is always ahead
	// of every other thread of the process (the http transport writes the
	// request from another thread); `when=` counts per thread and per name.
	padCalls = 24

	opWriteFile  = "renameio.WriteFile"
	opSymlink    = "renameio.Symlink"
	opCreate     = "utils.CreateAtomic"
	opCopy       = "utils.CopyFileAtomic"
	opReplace    = "utils.ReplaceFileAtomic"
	opPut        = "fstree.Put"
	opDelete     = "fstree.Delete"
	opFetch      = "updater.fetchFile"
	opUnpackZip  = "updater.UnpackArchive"
	opUnpackFile = "updater.File.Unpack"
)

// Scenario is one (operation, destination state, new content, temp location, variant).
type Scenario struct {
	Op  string `json:"op"`
	Old string `json:"old"` // absent | empty | small | mode | symlink | file | present
	New string `json:"new"` // empty | small | medium | large
	Tmp string `json:"tmp"` // same | other | missing | explicit | registry
	Var string `json:"var"` // operation specific, comma separated words
}

// Name is the canonical scenario id.
func (s Scenario) Name() string {
	return fmt.Sprintf("%s/old=%s/new=%s/tmp=%s/var=%s", s.Op, s.Old, s.New, s.Tmp, s.Var)
}

// srvMode is the behaviour of the download server ("" = well-behaved httptest server).
func (s Scenario) srvMode() string {
	for _, w := range strings.Split(s.Var, ",") {
		if strings.HasPrefix(w, "srv=") {
			return strings.TrimPrefix(w, "srv=")
		}
	}
	return ""
}

func (s Scenario) word(prefix string) string {
	for _, w := range strings.Split(s.Var, ",") {
		if strings.HasPrefix(w, prefix) {
			return strings.TrimPrefix(w, prefix)
		}
	}
	return ""
}

// overlap: "same" (both writers have the same destination) or "other" (two
// destinations with the same base name in different directories), "" otherwise.
func (s Scenario) overlap() string { return s.word("overlap=") }

// damage is the damage done to the archive ("" = intact archive).
func (s Scenario) damage() string { return s.word("dmg=") }

// mayFail: the input is such that the operation may (or must) return an error.
// (explicit-other: the configured temp dir is on another file system, the rename fails with EXDEV)
func (s Scenario) mayFail() bool {
	return s.srvMode() != "" || s.damage() != "" || s.Tmp == "explicit-other"
}

// explicitTmp: a temp dir is configured explicitly (AtomicFileOptions.TempDir).
func (s Scenario) explicitTmp() bool { return strings.HasPrefix(s.Tmp, "explicit") }

func (s Scenario) has(word string) bool {
	for _, w := range strings.Split(s.Var, ",") {
		if w == word {
			return true
		}
	}
	return false
}

// Spec is what the driver process gets.
type Spec struct {
	Sc     Scenario `json:"sc"`
	Root   string   `json:"root"`   // fresh scratch directory of this run
	Other  string   `json:"other"`  // fresh directory on another mount point (tmp=other), or ""
	URL    string   `json:"url"`    // httptest server of the runner
	RawURL string   `json:"rawurl"` // raw TCP server of the runner that can misbehave (var word srv=<mode>)
	Signet string   `json:"signet"` // base58 recipient signet for signature verification
	Fifo   string   `json:"fifo"`   // concurrent-calls scenarios: the second call starts when the runner opens this FIFO
	Writer string   `json:"writer"` // overlapping-writer scenarios: "A" (stopped and continued) or "B" (runs in between)
}

// Layout are the paths of one run (pure function of the spec).
type Layout struct {
	Dst      string // destination directory / database directory / updater storage directory
	Dest     string // the destination path whose atomicity is checked
	SysTmp   string // value of TMPDIR
	Explicit string // explicitly configured temp dir (tmp=explicit)
	Src      string // source file of copy/replace
	RegTmp   string // the updater registry's tmp dir
	Archive  string // archive to unpack
	Ident    string // updater resource identifier
	Key      string // fstree key
}

const updVersion = "1.0.0"

func layout(sp *Spec) Layout {
	l := Layout{Dst: filepath.Join(sp.Root, "dst"), Explicit: filepath.Join(sp.Root, "tmpx"), Src: filepath.Join(sp.Root, "src", "source.bin")}
	switch sp.Sc.Tmp {
	case "other":
		l.SysTmp = sp.Other
	case "missing":
		l.SysTmp = filepath.Join(sp.Root, "no-such-tmp")
	default:
		l.SysTmp = filepath.Join(sp.Root, "systmp")
	}
	if sp.Sc.Tmp == "explicit-other" {
		l.Explicit = sp.Other
	}
	if ov := sp.Sc.overlap(); ov != "" {
		sub := "a"
		if sp.Writer == "B" && ov == "other" {
			sub = "b"
		}
		l.Key = sub + "/x"
		l.Dest = filepath.Join(l.Dst, sub, "x")
		return l
	}
	switch sp.Sc.Op {
	case opWriteFile, opCreate, opCopy, opReplace:
		l.Dest = filepath.Join(l.Dst, "file.dat")
	case opSymlink:
		l.Dest = filepath.Join(l.Dst, "link")
	case opPut, opDelete:
		l.Key = "k"
		if sp.Sc.has("newdir1") {
			l.Key = "sub/k"
		}
		if sp.Sc.has("newdir2") {
			l.Key = "sub/deeper/k"
		}
		l.Dest = filepath.Join(l.Dst, filepath.FromSlash(l.Key))
	case opFetch:
		l.Ident = "all/res-" + sp.Sc.New + ".bin"
		l.Dest = filepath.Join(l.Dst, filepath.FromSlash(updater.GetVersionedPath(l.Ident, updVersion)))
		l.RegTmp = filepath.Join(l.Dst, "tmp")
	case opUnpackZip:
		l.Ident = "all/pack-" + sp.Sc.New + ".zip"
		l.Archive = filepath.Join(l.Dst, filepath.FromSlash(updater.GetVersionedPath(l.Ident, updVersion)))
		l.Dest = strings.TrimSuffix(l.Archive, ".zip")
		l.RegTmp = filepath.Join(l.Dst, "tmp")
	case opUnpackFile:
		l.Ident = "all/data-" + sp.Sc.New + ".gz"
		l.Archive = filepath.Join(l.Dst, filepath.FromSlash(updater.GetVersionedPath(l.Ident, updVersion)))
		l.Dest = strings.TrimSuffix(l.Archive, ".gz")
		l.RegTmp = filepath.Join(l.Dst, "tmp")
	}
	return l
}

func sizeOf(name string) int {
	switch name {
	case "empty":
		return 0
	case "small":
		return 11
	case "medium":
		return 100*1024 + 7
	case "large":
		return 3*1024*1024 + 13
	case "twomib":
		return 2*1024*1024 + 5
	}
	panic("unknown size " + name)
}

// content is a deterministic byte pattern; different tags never share a prefix.
func content(tag string, size string) []byte {
	n := sizeOf(size)
	var b bytes.Buffer
	for i := 0; b.Len() < n; i++ {
		fmt.Fprintf(&b, "%s %09d\n", tag, i)
	}
	return b.Bytes()[:n]
}

func oldContent(old string) ([]byte, os.FileMode) {
	switch old {
	case "empty":
		return []byte{}, 0o644
	case "small":
		return content("OLD", "small")[:9], 0o644
	case "mode":
		return content("OLD", "small")[:9], 0o640
	case "readonly": // present, write-protected
		return content("OLD", "small")[:9], 0o444
	case "ro0400":
		return content("OLD", "small")[:9], 0o400
	case "ro0555":
		return content("OLD", "small")[:9], 0o555
	}
	return nil, 0
}

func makeRecord(key, tag, size string) record.Record {
	meta := &record.Meta{Created: 1700000000, Modified: 1700000001}
	w, err := record.NewWrapper("c17:"+key, meta, dsd.RAW, content(tag, size))
	if err != nil {
		panic(err)
	}
	return w
}

// zipEntries is the 3-entry archive (a file, a directory, a file inside it).
func zipEntries(size string) []struct {
	Name string
	Data []byte
} {
	return []struct {
		Name string
		Data []byte
	}{
		{"a.txt", content("NEWA", size)},
		{"sub/", nil},
		{"sub/b.txt", content("NEWB", "small")},
	}
}

// cutPoint: where the data of a damaged archive ends (suffix of the damage word).
func cutPoint(dmg string, n int) int {
	k := n / 2
	switch {
	case strings.HasSuffix(dmg, "-cut-0"):
		k = 0
	case strings.HasSuffix(dmg, "-cut-1"):
		k = 1
	case strings.HasSuffix(dmg, "-cut-5"):
		k = 5
	case strings.HasSuffix(dmg, "-cut-allbut1"):
		k = n - 1
	case strings.HasSuffix(dmg, "-cut-allbut8"):
		k = n - 8
	}
	if k < 0 {
		k = 0
	}
	if k > n {
		k = n
	}
	return k
}

// makeZip builds the 3-entry archive. With dmg "deflate-cut-*" or
// "stored-cut-*" the directory is intact and announces the full entry, but the
// data of the first entry ends early (truncated deflate stream / stored data
// shorter than announced).
func makeZip(size, dmg string) []byte {
	var b bytes.Buffer
	zw := zip.NewWriter(&b)
	for i, e := range zipEntries(size) {
		h := &zip.FileHeader{Name: e.Name, Method: zip.Deflate}
		if strings.HasSuffix(e.Name, "/") {
			h.SetMode(os.ModeDir | 0o755)
		} else {
			h.SetMode(0o644)
		}
		if i == 0 && dmg != "" {
			raw := e.Data
			if strings.HasPrefix(dmg, "deflate-") {
				var cb bytes.Buffer
				fw, _ := flate.NewWriter(&cb, flate.DefaultCompression)
				_, _ = fw.Write(e.Data)
				_ = fw.Close()
				raw = cb.Bytes()
			} else {
				h.Method = zip.Store
			}
			raw = raw[:cutPoint(dmg, len(raw))]
			h.CRC32 = crc32.ChecksumIEEE(e.Data)
			h.UncompressedSize64 = uint64(len(e.Data))
			h.CompressedSize64 = uint64(len(raw))
			w, err := zw.CreateRaw(h)
			if err != nil {
				panic(err)
			}
			_, _ = w.Write(raw)
			continue
		}
		w, err := zw.CreateHeader(h)
		if err != nil {
			panic(err)
		}
		if e.Data != nil {
			_, _ = w.Write(e.Data)
		}
	}
	_ = zw.Close()
	return b.Bytes()
}

// gzipMembers: the contents of the members of the gzip resource. gzm=2 / gzm=3
// make a multi-member file (cat a.gz b.gz ...): member 1 has the scenario's
// size, member 2 is 2 MiB for large content (else small), member 3 is small.
func gzipMembers(sc Scenario) [][]byte {
	out := [][]byte{content("NEW", sc.New)}
	n, _ := strconv.Atoi(sc.word("gzm="))
	if n >= 2 {
		second := "small"
		if sc.New == "large" {
			second = "twomib"
		}
		out = append(out, content("NEWM2", second))
	}
	if n >= 3 {
		out = append(out, content("NEWM3", "small"))
	}
	return out
}

// gzipContent is what the unpacked file must hold: all members concatenated.
func gzipContent(sc Scenario) []byte {
	return bytes.Join(gzipMembers(sc), nil)
}

// makeGzip compresses the new content; with dmg "gz-cut-*" the file ends early.
func makeGzip(sc Scenario) []byte {
	var b bytes.Buffer
	for _, m := range gzipMembers(sc) {
		zw := gzip.NewWriter(&b)
		_, _ = zw.Write(m)
		_ = zw.Close()
	}
	out := b.Bytes()
	if dmg := sc.damage(); dmg != "" {
		out = out[:cutPoint(dmg, len(out))]
	}
	return out
}

// writerContent: what this writer writes (overlapping writers write different
// contents of different lengths).
func writerContent(sp *Spec) (tag, size string) {
	if sp.Writer == "B" {
		return "NEWB", sizeB(sp.Sc)
	}
	return "NEW", sp.Sc.New
}

func sizeB(sc Scenario) string {
	if sc.New == "small" {
		return "medium"
	}
	return "small"
}

// newBytesOf is the complete content the writer publishes.
func newBytesOf(sp *Spec) []byte {
	tag, size := writerContent(sp)
	if sp.Sc.Op == opPut {
		b, err := makeRecord(layout(sp).Key, tag, size).MarshalRecord(nil)
		if err != nil {
			panic(err)
		}
		return b
	}
	return content(tag, size)
}

// tempLocations decides what "the temporary location" is in a configuration:
//   - a temp dir was configured explicitly: that directory, nothing else;
//   - $TMPDIR is usable (exists, same mount point as the destination): $TMPDIR;
//     next to the destination only renameio's empty probe file may stay;
//   - $TMPDIR is missing or on another mount point: renameio falls back to the
//     destination's directory (and its probe file may stay in $TMPDIR).
func tempLocations(sc Scenario, l Layout, destDirs []string) (locs, probes []string) {
	switch {
	case sc.explicitTmp():
		return []string{l.Explicit}, nil
	case sc.Tmp == "other" || sc.Tmp == "missing":
		return append(append([]string{}, destDirs...), l.SysTmp), nil
	}
	return []string{l.SysTmp}, destDirs
}

// prepareOverlap creates the initial state of an overlapping-writers run and
// returns the expectations of writer A and writer B.
func prepareOverlap(spA, spB *Spec) (exA, exB *Expect) {
	la, lb := layout(spA), layout(spB)
	mustMkdir(la.Dst, 0o755)
	mustMkdir(filepath.Join(la.Dst, "a"), 0o755)
	mustMkdir(filepath.Join(la.Dst, "b"), 0o755)
	if spA.Sc.Tmp != "missing" {
		mustMkdir(la.SysTmp, 0o755)
	}
	mustMkdir(la.Explicit, 0o755)
	locs, probes := tempLocations(spA.Sc, la, []string{filepath.Join(la.Dst, "a"), filepath.Join(la.Dst, "b")})
	if data, mode := oldContent(spA.Sc.Old); data != nil {
		mustWrite(filepath.Join(la.Dst, "a", "x"), data, mode)
		mustWrite(filepath.Join(la.Dst, "b", "x"), data, mode)
	}
	exA = &Expect{Dest: la.Dest, NewKind: "file", SingleFile: true, NewBytes: newBytesOf(spA), TempLocs: locs, ProbeLocs: probes}
	exB = &Expect{Dest: lb.Dest, NewKind: "file", SingleFile: true, NewBytes: newBytesOf(spB), TempLocs: locs, ProbeLocs: probes}
	return exA, exB
}

// Expect is the oracle's view of a scenario.
type Expect struct {
	Dest     string
	NewKind  string // file | symlink | dir | absent
	NewBytes []byte
	NewLink  string
	NewTree  map[string][]byte // rel path -> content (nil = directory), for NewKind dir
	// TempLocs are the directories in which stray temporary files may stay.
	TempLocs []string
	// TempTrees are directories below which everything is temporary (registry tmp dir).
	TempTrees []string
	// ProbeLocs are directories that are NOT the temporary location of this
	// configuration, in which only an EMPTY probe file of renameio's temp-dir
	// check (.<base><random>, created next to the destination to test whether
	// $TMPDIR is on the same mount point) may stay.
	ProbeLocs []string
	// SingleFile: the trace obligations fsync/close-before-rename apply.
	SingleFile bool
	// ExpectErr: the complete operation is expected to fail (none so far).
	ExpectErr bool
}

func mustWrite(path string, data []byte, mode os.FileMode) {
	if err := os.MkdirAll(filepath.Dir(path), 0o755); err != nil {
		panic(err)
	}
	if err := os.WriteFile(path, data, mode); err != nil {
		panic(err)
	}
	if err := os.Chmod(path, mode); err != nil {
		panic(err)
	}
}

func mustMkdir(path string, mode os.FileMode) {
	if err := os.MkdirAll(path, 0o755); err != nil {
		panic(err)
	}
	if err := os.Chmod(path, mode); err != nil {
		panic(err)
	}
}

// prepare creates the initial state of a run below sp.Root (and sp.Other) and
// returns what the oracle expects. Runs in the runner process, never under strace.
func prepare(sp *Spec) *Expect {
	if sp.Sc.overlap() != "" { // trace run of writer A alone
		spB := *sp
		spB.Writer = "B"
		exA, _ := prepareOverlap(sp, &spB)
		return exA
	}
	l := layout(sp)
	sc := sp.Sc
	mustMkdir(l.Dst, 0o755)
	if sc.Tmp != "missing" && sc.Tmp != "other" {
		mustMkdir(l.SysTmp, 0o755)
	}
	ex := &Expect{Dest: l.Dest, NewKind: "file", SingleFile: true}
	if sc.explicitTmp() {
		mustMkdir(l.Explicit, 0o755)
	}
	ex.TempLocs, ex.ProbeLocs = tempLocations(sc, l, []string{filepath.Dir(l.Dest)})
	putOld := func() {
		if data, mode := oldContent(sc.Old); data != nil {
			mustWrite(l.Dest, data, mode)
		}
	}
	switch sc.Op {
	case opWriteFile, opCreate:
		putOld()
		ex.NewBytes = content("NEW", sc.New)
	case opCopy, opReplace:
		putOld()
		ex.NewBytes = content("NEW", sc.New)
		mustWrite(l.Src, ex.NewBytes, 0o644)
	case opSymlink:
		ex.NewKind, ex.NewLink, ex.SingleFile = "symlink", "target-new", false
		// renameio.Symlink always stages in a temp dir next to the new name
		ex.TempLocs, ex.ProbeLocs = []string{filepath.Dir(l.Dest), l.SysTmp}, nil
		switch sc.Old {
		case "symlink":
			if err := os.Symlink("target-old", l.Dest); err != nil {
				panic(err)
			}
		case "file":
			mustWrite(l.Dest, content("OLD", "small"), 0o644)
		}
	case opPut:
		if !sc.has("newdir1") && !sc.has("newdir2") {
			// the previous state is a valid stored record (or an empty file for old=empty)
			if _, mode := oldContent(sc.Old); mode != 0 {
				data := []byte{}
				if sc.Old != "empty" {
					var err error
					if data, err = makeRecord(l.Key, "OLD", "small").MarshalRecord(nil); err != nil {
						panic(err)
					}
				}
				mustWrite(l.Dest, data, mode)
			}
		}
		b, err := makeRecord(l.Key, "NEW", sc.New).MarshalRecord(nil)
		if err != nil {
			panic(err)
		}
		ex.NewBytes = b
	case opDelete:
		putOld()
		ex.NewKind, ex.SingleFile = "absent", false
	case opFetch:
		mustMkdir(l.RegTmp, 0o700)
		if !sc.has("nodir") {
			mustMkdir(filepath.Dir(l.Dest), 0o755)
			putOld()
		}
		ex.NewBytes = content("NEW", sc.New)
		// the signature file is published with renameio.WriteFile, which stages its temporary file in $TMPDIR or next to the destination
		ex.TempLocs, ex.ProbeLocs = []string{l.SysTmp}, []string{filepath.Dir(l.Dest)}
		ex.TempTrees = []string{l.RegTmp}
	case opUnpackZip:
		mustMkdir(l.RegTmp, 0o700)
		mustWrite(l.Archive, makeZip(sc.New, sc.damage()), 0o644)
		ex.NewKind, ex.SingleFile = "dir", false
		ex.NewTree = map[string][]byte{}
		for _, e := range zipEntries(sc.New) {
			ex.NewTree[strings.TrimSuffix(e.Name, "/")] = e.Data
		}
		if sc.Old == "present" { // already unpacked: the operation must leave it alone
			for rel, data := range ex.NewTree {
				if data == nil {
					mustMkdir(filepath.Join(l.Dest, rel), 0o755)
				}
			}
			for rel, data := range ex.NewTree {
				if data != nil {
					mustWrite(filepath.Join(l.Dest, rel), data, 0o644)
				}
			}
		}
		ex.TempLocs, ex.ProbeLocs = nil, nil
		ex.TempTrees = []string{l.RegTmp}
	case opUnpackFile:
		mustMkdir(l.RegTmp, 0o700)
		mustWrite(l.Archive, makeGzip(sc), 0o644)
		ex.NewBytes = gzipContent(sc)
		ex.TempLocs, ex.ProbeLocs = nil, nil
		ex.TempTrees = []string{l.RegTmp}
	default:
		panic("unknown op " + sc.Op)
	}
	return ex
}

type fullBodyTransport struct{ rt http.RoundTripper }

func (t fullBodyTransport) RoundTrip(req *http.Request) (*http.Response, error) {
	resp, err := t.rt.RoundTrip(req)
	if err == nil {
		resp.Body = &fullBody{resp.Body}
	}
	return resp, err
}

type fullBody struct{ io.ReadCloser }

// Read fills p completely unless the body ends or fails; the error of the
// body (io.EOF, io.ErrUnexpectedEOF of a cut response, ...) is passed on unchanged.
func (b *fullBody) Read(p []byte) (n int, err error) {
	for n < len(p) && err == nil {
		var m int
		m, err = b.ReadCloser.Read(p[n:])
		n += m
	}
	return n, err
}

func mark(path string) { _ = syscall.Access(path, 0) }

// driverMain performs one operation between the two markers. Exit code 0 and a
// RESULT line on stdout when the operation ran to its end (with or without error).
func driverMain(specFile string) int {
	raw, err := os.ReadFile(specFile)
	if err != nil {
		fmt.Println("DRIVER-ERROR cannot read spec:", err)
		return 3
	}
	var sp Spec
	if err := json.Unmarshal(raw, &sp); err != nil {
		fmt.Println("DRIVER-ERROR bad spec:", err)
		return 3
	}
	l := layout(&sp)
	sc := sp.Sc

	// everything that is not the operation itself happens before the begin marker
	var op func() error
	tag, size := writerContent(&sp)
	switch sc.Op {
	case opWriteFile:
		data := content(tag, size)
		op = func() error { return renameio.WriteFile(l.Dest, data, 0o644) }
	case opSymlink:
		op = func() error { return renameio.Symlink("target-new", l.Dest) }
	case opCreate, opCopy, opReplace:
		var opts *utils.AtomicFileOptions
		if sc.explicitTmp() || sc.has("mode0640") {
			opts = &utils.AtomicFileOptions{}
			if sc.explicitTmp() {
				opts.TempDir = l.Explicit
			}
			if sc.has("mode0640") {
				opts.Mode = 0o640
			}
		}
		switch sc.Op {
		case opCreate:
			data := content(tag, size)
			op = func() error { return utils.CreateAtomic(l.Dest, bytes.NewReader(data), opts) }
		case opCopy:
			op = func() error { return utils.CopyFileAtomic(l.Dest, l.Src, opts) }
		case opReplace:
			op = func() error { return utils.ReplaceFileAtomic(l.Dest, l.Src, opts) }
		}
	case opPut, opDelete:
		db, err := fstree.NewFSTree("c17", l.Dst)
		if err != nil {
			fmt.Println("DRIVER-ERROR fstree:", err)
			return 3
		}
		if sc.Op == opPut {
			r := makeRecord(l.Key, tag, size)
			op = func() error { _, err := db.Put(r); return err }
		} else {
			op = func() error { return db.Delete(l.Key) }
		}
	case opFetch, opUnpackZip, opUnpackFile:
		reg := &updater.ResourceRegistry{Name: "c17", UpdateURLs: []string{sp.URL}, Online: true}
		if m := sc.srvMode(); m != "" {
			reg.UpdateURLs = []string{sp.RawURL + "/mode/" + m}
		}
		if sc.has("signed") {
			rcpt, err := jess.SignetFromBase58(sp.Signet)
			if err != nil {
				fmt.Println("DRIVER-ERROR signet:", err)
				return 3
			}
			ts := jess.NewMemTrustStore()
			if err := ts.StoreSignet(rcpt); err != nil {
				fmt.Println("DRIVER-ERROR signet store:", err)
				return 3
			}
			reg.Verification = map[string]*updater.VerificationOptions{
				"": {TrustStore: ts, DownloadPolicy: updater.SignaturePolicyRequire, DiskLoadPolicy: updater.SignaturePolicyRequire},
			}
		}
		if sc.Op == opUnpackZip {
			reg.AutoUnpack = []string{l.Ident}
		}
		if err := reg.Initialize(utils.NewDirStructure(l.Dst, 0o755)); err != nil {
			fmt.Println("DRIVER-ERROR registry:", err)
			return 3
		}
		available := sc.Op != opFetch
		if err := reg.AddResource(l.Ident, updVersion, &updater.Index{AutoDownload: true}, available, true, false); err != nil {
			fmt.Println("DRIVER-ERROR add resource:", err)
			return 3
		}
		reg.SelectVersions()
		switch sc.Op {
		case opFetch:
			rv := updater.VerifFirstVersion(reg, l.Ident)
			if rv == nil || updater.VerifStoragePath(rv) != l.Dest {
				fmt.Println("DRIVER-ERROR storage path mismatch")
				return 3
			}
			// the body is handed to fetchFile in full 32 KiB pieces, so that the number
			// of write calls does not depend on how the data arrives from the socket
			client := &http.Client{Transport: fullBodyTransport{http.DefaultTransport}}
			op = func() error { return updater.VerifFetchFile(reg, rv, client) }
		case opUnpackZip:
			op = func() error { return reg.UnpackResources() }
		case opUnpackFile:
			f, err := reg.GetFile(l.Ident)
			if err != nil {
				fmt.Println("DRIVER-ERROR get file:", err)
				return 3
			}
			op = func() error {
				p, err := f.Unpack(".gz", updater.UnpackGZIP)
				if err == nil && p != l.Dest {
					return fmt.Errorf("unexpected unpack path %s", p)
				}
				return err
			}
		}
	default:
		fmt.Println("DRIVER-ERROR unknown op", sc.Op)
		return 3
	}

	// advance this thread's per-name strace counters (see padCalls)
	if null, err := os.OpenFile("/dev/null", os.O_WRONLY, 0); err == nil {
		for i := 0; i < padCalls; i++ {
			_, _ = null.Write([]byte{0})
		}
		_ = null.Close()
	}

	// concurrent-calls scenarios: a second call of the same operation on the same
	// objects runs on its own thread of this process; it starts when the runner
	// opens the FIFO (which it does when it sees call A delayed by strace).
	var resB chan error
	if sp.Fifo != "" {
		resB = make(chan error, 1)
		go func() {
			runtime.LockOSThread()
			f, err := os.OpenFile(sp.Fifo, os.O_RDONLY, 0)
			if err != nil {
				resB <- fmt.Errorf("DRIVER fifo: %w", err)
				return
			}
			_ = f.Close()
			mark(markBBegin)
			err = op()
			mark(markBEnd)
			resB <- err
		}()
	}

	mark(markBegin)
	err = op()
	mark(markEnd)
	if err != nil {
		fmt.Printf("RESULT err %s\n", strings.ReplaceAll(err.Error(), "\n", " "))
	} else {
		fmt.Println("RESULT ok")
	}
	if resB != nil {
		if errB := <-resB; errB != nil {
			fmt.Printf("RESULTB err %s\n", strings.ReplaceAll(errB.Error(), "\n", " "))
		} else {
			fmt.Println("RESULTB ok")
		}
	}
	return 0
}
