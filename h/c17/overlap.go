package main

// Overlapping writers (engine K style): writer A runs under strace and is
// stopped (SIGSTOP injected by strace; the group stop takes effect when the
// call returns) immediately after the begin marker and after each of its
// file-system-mutating calls in turn; a second writer process B then runs to
// completion; then A is continued (SIGCONT) to completion. This enumerates
// every interleaving "B completely between two system calls of A" (bound: two
// writers, B atomic with respect to A). The oracle is evaluated at the moment B
// finished and after both finished: each destination shows its previous state
// or the complete content of ONE writer that targets it, and only temporary
// entries remain besides.

import (
	"bytes"
	"encoding/json"
	"fmt"
	"os"
	"os/exec"
	"path/filepath"
	"regexp"
	"sort"
	"strconv"
	"strings"
	"sync/atomic"
	"syscall"
	"time"

	"verif/vlib"
)

var (
	beginLineRe = regexp.MustCompile(`(?m)^(\d+)\s+faccessat\([^\n]*"` + regexp.QuoteMeta(markBegin) + `"`)
)

const overlapTimeout = 60 * time.Second

type overlapRun struct {
	spA, spB     *Spec
	exA, exB     *Expect
	before       map[string]*Entry
	mid, after   map[string]*Entry
	resA, resB   string
	calls        []*Call
	op           *OpTrace
	stopLine     int // line of the log at which A's thread reported the stop
	logTail      string
	dirs, files  []string
	outA         string
	neverStopped bool
}

func (o *overlapRun) cleanup() {
	for _, d := range o.dirs {
		_ = os.RemoveAll(d)
	}
	for _, f := range o.files {
		_ = os.Remove(f)
	}
}

func resultOf(out string) string {
	res := ""
	for _, line := range strings.Split(out, "\n") {
		if strings.HasPrefix(line, "RESULT ") {
			res = strings.TrimPrefix(line, "RESULT ")
		}
	}
	return res
}

// runOverlapOnce performs one A-stopped / B-runs / A-continued run.
func (e *env) runOverlapOnce(fp FaultPoint) (o *overlapRun, err error) {
	n := atomic.AddInt64(&e.seq, 1)
	root := filepath.Join(e.master, fmt.Sprintf("r%d", n))
	if err := os.Mkdir(root, 0o755); err != nil {
		return nil, err
	}
	o = &overlapRun{dirs: []string{root}}
	o.spA = &Spec{Sc: fp.Sc, Root: root, Writer: "A"}
	o.spB = &Spec{Sc: fp.Sc, Root: root, Writer: "B"}
	if pv, _ := vlib.Catch(func() { o.exA, o.exB = prepareOverlap(o.spA, o.spB) }); pv != nil {
		return o, fmt.Errorf("prepare: %v", pv)
	}
	if o.before, err = snapshot(root); err != nil {
		return o, err
	}
	specA := filepath.Join(e.master, fmt.Sprintf("spec%dA.json", n))
	specB := filepath.Join(e.master, fmt.Sprintf("spec%dB.json", n))
	logFile := filepath.Join(e.master, fmt.Sprintf("trace%d.log", n))
	o.files = []string{specA, specB, logFile}
	for f, sp := range map[string]*Spec{specA: o.spA, specB: o.spB} {
		b, _ := json.Marshal(sp)
		if err := os.WriteFile(f, b, 0o644); err != nil {
			return o, err
		}
	}
	l := layout(o.spA)
	envv := append(os.Environ(), "TMPDIR="+l.SysTmp, "GOMAXPROCS=1", "GODEBUG=asyncpreemptoff=1")

	// writer A under strace, stopped after the when-th call of the name
	cmd := exec.Command("strace", "-f", "-s", "0", "-o", logFile, "-e", "trace="+e.traceArg,
		"-e", fmt.Sprintf("inject=%s:signal=SIGSTOP:when=%d", fp.Fault.Name, fp.When),
		e.self, "-c17-driver", specA)
	cmd.Dir, cmd.Env = root, envv
	var outA bytes.Buffer
	cmd.Stdout, cmd.Stderr = &outA, &outA
	if err := cmd.Start(); err != nil {
		return o, err
	}
	done := make(chan error, 1)
	go func() { done <- cmd.Wait() }()
	abort := func(why string) (*overlapRun, error) {
		_ = cmd.Process.Kill()
		if raw, err := os.ReadFile(logFile); err == nil {
			if m := beginLineRe.FindSubmatch(raw); m != nil {
				if pid, err := strconv.Atoi(string(m[1])); err == nil {
					_ = syscall.Kill(pid, syscall.SIGKILL)
				}
			}
		}
		<-done
		return o, fmt.Errorf("%s\n%s", why, outA.String())
	}

	// wait until A's thread reports the stop in the trace (condition wait on the log, no timing assumption)
	tid := 0
	var stopRe *regexp.Regexp
	deadline := time.Now().Add(overlapTimeout)
	finished := false
	for !finished {
		raw, _ := os.ReadFile(logFile)
		if tid == 0 {
			if m := beginLineRe.FindSubmatch(raw); m != nil {
				tid, _ = strconv.Atoi(string(m[1]))
			}
		}
		if tid != 0 {
			if stopRe == nil {
				stopRe = regexp.MustCompile(fmt.Sprintf(`(?m)^%d\s+--- stopped by SIGSTOP ---`, tid))
			}
			if stopRe.Match(raw) {
				break
			}
		}
		select {
		case <-done:
			finished = true
		case <-time.After(2 * time.Millisecond):
		}
		if time.Now().After(deadline) {
			return abort("writer A did not report a stop in time")
		}
	}
	if finished { // the call was never reached: A ran to its end
		o.neverStopped = true
		o.outA = outA.String()
		return o, nil
	}

	// writer B runs to completion while A is stopped
	cmdB := exec.Command(e.self, "-c17-driver", specB)
	cmdB.Dir, cmdB.Env = root, envv
	outB, errB := cmdB.CombinedOutput()
	o.resB = resultOf(string(outB))
	if errB != nil || o.resB == "" {
		return abort(fmt.Sprintf("writer B did not complete: %v\n%s", errB, outB))
	}
	if o.mid, err = snapshot(root); err != nil {
		return abort(err.Error())
	}

	// continue A
	if err := syscall.Kill(tid, syscall.SIGCONT); err != nil {
		return abort("SIGCONT: " + err.Error())
	}
	select {
	case <-done:
	case <-time.After(overlapTimeout):
		return abort("writer A did not finish after SIGCONT")
	}
	o.outA = outA.String()
	o.resA = resultOf(o.outA)
	if o.after, err = snapshot(root); err != nil {
		return o, err
	}
	if o.calls, err = parseStrace(logFile); err != nil {
		return o, err
	}
	o.op = analyse(o.calls, root)
	if raw, err := os.ReadFile(logFile); err == nil {
		lines := strings.Split(string(raw), "\n")
		for i, ln := range lines {
			f := strings.Fields(ln)
			if len(f) >= 5 && f[0] == strconv.Itoa(tid) && strings.Contains(ln, "--- stopped by SIGSTOP ---") && o.stopLine == 0 {
				o.stopLine = i + 1
			}
		}
		if len(lines) > 14 {
			lines = lines[len(lines)-14:]
		}
		o.logTail = strings.Join(lines, "\n")
	}
	return o, nil
}

// validateOverlap: A was stopped right after the intended call ("" = valid).
func validateOverlap(fp FaultPoint, o *overlapRun) string {
	if o.neverStopped {
		return "writer A was never stopped"
	}
	if !o.op.Begun || !o.op.Ended || o.resA == "" {
		return "writer A did not complete"
	}
	if o.stopLine == 0 {
		return "no stop line of writer A's thread in the trace"
	}
	// the last call of A's thread that was entered before the stop line
	var last *Call
	count := 0
	for _, call := range o.op.Calls {
		if call.Line < o.stopLine {
			last = call
			if call.Name == fp.Fault.Name {
				count++
			}
		}
	}
	if fp.Fault.K == 0 { // stopped after the begin marker: no call of the operation before the stop
		if last != nil {
			return fmt.Sprintf("stopped after %s instead of after the begin marker", last.Name)
		}
		return ""
	}
	if last == nil || last.Name != fp.Fault.Name || count != fp.Fault.K {
		return "stopped after another call"
	}
	if got := normalise(last, o.spA); got != fp.Norm {
		return fmt.Sprintf("the call differs from the trace run: %s vs %s", got, fp.Norm)
	}
	return ""
}

// evaluateOverlap is the oracle for two writers. okA/okB: the writer has
// finished and returned nil (nil pointer = not finished yet).
func evaluateOverlap(before, after map[string]*Entry, o *overlapRun, aDone, bDone bool) *Verdict {
	v := &Verdict{}
	type writer struct {
		name string
		ex   *Expect
		done bool
		ok   bool
	}
	ws := []writer{{"A", o.exA, aDone, o.resA == "ok"}, {"B", o.exB, bDone, o.resB == "ok"}}
	dests := []string{o.exA.Dest}
	if o.exB.Dest != o.exA.Dest {
		dests = append(dests, o.exB.Dest)
	}
	var parts []string
	for _, d := range dests {
		ob, oa := before[d], after[d]
		isOld := sameEntry(ob, oa, true)
		which := ""
		allOK := true
		for _, w := range ws {
			if w.ex.Dest != d {
				continue
			}
			if !(w.done && w.ok) {
				allOK = false
			}
			if oa != nil && oa.Kind == "file" && bytes.Equal(oa.Data, w.ex.NewBytes) {
				which = w.name
			}
		}
		rel, _ := filepath.Rel(filepath.Dir(filepath.Dir(d)), d)
		switch {
		case which != "":
			parts = append(parts, rel+"=new("+which+")")
		case isOld:
			parts = append(parts, rel+"=old")
			if allOK {
				v.Problems = append(v.Problems, Problem{"dest-old-or-new", "success-without-new-content",
					fmt.Sprintf("every writer of %s returned nil but it still shows the previous state", rel)})
			}
		default:
			disc := "mixed-content"
			switch {
			case oa == nil:
				disc = "dest-missing"
			case oa.Kind != "file":
				disc = "wrong-kind"
			case len(oa.Data) == 0:
				disc = "empty-file"
			default:
				for _, w := range ws {
					nb := w.ex.NewBytes
					if w.ex.Dest != d && bytes.Equal(oa.Data, nb) {
						disc = "content-of-the-other-destination"
					} else if len(oa.Data) < len(nb) && bytes.Equal(oa.Data, nb[:len(oa.Data)]) {
						disc = "partial-new-content"
					}
				}
			}
			parts = append(parts, rel+"=bad("+disc+")")
			v.Problems = append(v.Problems, Problem{"dest-old-or-new", disc,
				fmt.Sprintf("destination %s: before=%s after=%s; it is neither its previous state nor the complete content of a writer of this destination (A writes %d bytes to %s, B writes %d bytes to %s)",
					rel, ob, oa, len(o.exA.NewBytes), filepath.Base(filepath.Dir(o.exA.Dest))+"/x", len(o.exB.NewBytes), filepath.Base(filepath.Dir(o.exB.Dest))+"/x")})
		}
	}
	v.Dest = strings.Join(parts, ",")
	// everything else
	isDest := map[string]bool{}
	for _, d := range dests {
		isDest[d] = true
	}
	seen := map[string]bool{}
	var paths []string
	for p := range before {
		seen[p] = true
		paths = append(paths, p)
	}
	for p := range after {
		if !seen[p] {
			paths = append(paths, p)
		}
	}
	sort.Strings(paths)
	for _, p := range paths {
		if isDest[p] {
			continue
		}
		b, a := before[p], after[p]
		if sameEntry(b, a, false) {
			continue
		}
		okTemp, probe := false, false
		if b == nil {
			okTemp, probe = allowedTemp(p, a, o.exA)
		}
		switch {
		case okTemp:
			v.Strays++
			if probe {
				v.Probes++
			}
		case b == nil && tempNamed(p, o.exA):
			v.Problems = append(v.Problems, Problem{"only-temp-strays", "temp-file-outside-temp-location", fmt.Sprintf("%s was left behind: %s; it lies outside the temporary location of this configuration", p, a)})
		case b == nil:
			v.Problems = append(v.Problems, Problem{"only-temp-strays", "nontemp-entry-left", fmt.Sprintf("%s was left behind: %s", p, a)})
		case a == nil:
			v.Problems = append(v.Problems, Problem{"only-temp-strays", "other-entry-removed", fmt.Sprintf("%s (%s) was removed", p, b)})
		default:
			v.Problems = append(v.Problems, Problem{"only-temp-strays", "other-entry-modified", fmt.Sprintf("%s changed from %s to %s", p, b, a)})
		}
	}
	v.State = fmt.Sprintf("%s strays:%d", v.Dest, v.Strays)
	return v
}

func (e *env) runOverlapPoint(fp FaultPoint, verbose bool) string {
	c := e.c
	sc := fp.Sc
	var lastWhy string
	for attempt := 0; attempt < 3; attempt++ {
		o, err := e.runOverlapOnce(fp)
		if err != nil {
			if o != nil {
				o.cleanup()
			}
			c.EngineError("%s %s: %v", sc.Name(), fp.Fault, err)
			return ""
		}
		if why := validateOverlap(fp, o); why != "" {
			lastWhy = why + "\n" + o.outA + "\n" + o.logTail
			o.cleanup()
			c.ExtraAdd("runs_discarded_by_validation", 1)
			continue
		}
		vm := evaluateOverlap(o.before, o.mid, o, false, true)
		vf := evaluateOverlap(o.before, o.after, o, true, true)
		fake := &RunResult{Spec: o.spA, Result: "A: " + o.resA + "; B: " + o.resB}
		for i := range vm.Problems {
			vm.Problems[i].Detail = "at the moment writer B finished (A stopped): " + vm.Problems[i].Detail
		}
		for i := range vf.Problems {
			vf.Problems[i].Detail = "after both writers finished: " + vf.Problems[i].Detail
		}
		e.report(sc, fp.Fault, fp.Norm, vm, nil, fake)
		e.report(sc, fp.Fault, fp.Norm, vf, nil, fake)
		res := func(r string) string {
			if r == "ok" {
				return "ok"
			}
			return "error"
		}
		cls := fmt.Sprintf("overlap:mid[%s] final[%s] A=%s B=%s", vm.class(), vf.class(), res(o.resA), res(o.resB))
		c.Add(0, 0, 1)
		c.Outcome(cls)
		c.Nontrivial(sc.Name() + "|" + fp.Fault.String())
		if verbose {
			fmt.Printf("  %-28s %-70s -> %s\n", fp.Fault, fp.Norm, cls)
		}
		if sc.Op == opWriteFile && sc.Old == "small" && sc.New == "small" && sc.Tmp == "same" && (strings.HasPrefix(fp.Fault.Name, "rename") || fp.Fault.Name == "write") {
			c.Sample(map[string]any{"scenario": sc.Name(), "fault": "A stopped after " + fp.Norm + ", B runs, A continues", "observed": "when B finished: " + vm.State + "; at the end: " + vf.State, "verdict": cls})
		}
		o.cleanup()
		return cls + "|" + vm.State + "|" + vf.State
	}
	c.EngineError("%s %s: three runs in a row did not stop writer A at the intended call: %s", sc.Name(), fp.Fault, lastWhy)
	return ""
}
